"""C03 - a built certificate's new exit root follows from its bridge exits (same harness and case type as C02)."""
import c02 as base

ID = "C03"
PROPERTIES_V = ["theories/Properties/C03.v"]
MAKE_TARGETS = ["theories/Properties/C03.vo", "theories/Model/C02Cases.vo", "theories/Model/C20Cases.vo", "theories/Proofs/GenAgreeLimitCert.vo"]
HARNESS = base.HARNESS
CASES_IMPORTS = base.CASES_IMPORTS
CASE_TYPE = base.CASE_TYPE
CORR = base.CORR
SPEC = "spec_c03"
SHARD = base.SHARD
HARNESS_TIMEOUT = base.HARNESS_TIMEOUT
RULE = (base.RULE.replace("A case is non-trivial when the node submitted at least two certificates",
                          "A case is non-trivial when the node built at least one certificate containing a bridge exit "
                          "after an earlier deposit (previous exit root is not the empty tree's) or a replacement"))
ASSUMPTIONS = [
    "amounts below 2^256 (uint256): there BigToHash (Agglayer side) and FillBytes (bridge syncer) produce the same 32 bytes",
    "ranges shorter than 2^32 blocks (the metadata offset is a uint32; the truncation is written into the model)",
    "the exit tree is SOME function of the appended leaves (Section hypotheses); for the algorithmic form it is the Merkle tree "
    "of tree/appendonlytree.go (C01)",
    "configuration consistency: the start LER is the exit-tree root after the last deposit at or before StartL2Block",
    "claim proofs / L1 info tree data of imported exits are outside C03 (C09)",
    "aggchain-prover (FEP) flow: theorem *_fep_partial, backed by the FEP stream of the harness (scripted prover; see C02)",
] + base.ASSUMPTIONS[:2]
TRUSTED_EXTRA = base.TRUSTED_EXTRA + [
    "reference exit tree of the property predicate: hand transcription of DepositContractBase (Model/Contracts.v), fed with getLeafValue "
    "of the history's deposits and with the BridgeExit.Hash() values the real code reports for the certificate's exits",
]
coq_case = base.coq_case
finding_key = base.finding_key
distribution = base.distribution


def extra_checks(chk):
    """second part: the claim records the imported bridge exits are built from (see c03_claims.py)"""
    import c03_claims
    c03_claims.run_part(chk)


def cases_n(tier):
    n = base.cases_n(tier)
    global SHARD
    SHARD = base.SHARD
    return n


def nontrivial_key(o):
    seen = set()
    ok = False
    for s in o["steps"]:
        for sb in s.get("subs") or []:
            if sb["height"] in seen:
                ok = True
            seen.add(sb["height"])
            if sb["exits"] and sb["prev"] != "27ae5ba08d7291c96c8cbddcc148bf48a6d68c7974b94356f53754ef6171d757":
                ok = True
    return [o["in"].get("flow"), o["in"]["retry"], o["in"].get("agg_prev"), o["in"]["start_block"], o["in"].get("seeds"), o["in"]["steps"]] if ok else None


LEVEL_TEXT = ("Kernel-checked: for every state satisfying the protocol invariant of C02 (i.e. after every schedule) and every certificate "
              "the builder returns, prevLER is the root of the tree holding all deposits before the range and newLER the root after "
              "appending the hashes of the certificate's bridge exits in order - for every root function, and in algorithmic form for "
              "the frontier append of tree/appendonlytree.go on any frontier valid for prevLER (generic hash, composition with C01's "
              "L-frontier); exits and imported exits are exactly the range's events in chain order; BridgeExit.Hash of the converted "
              "exit = Bridge.Hash leaf byte for byte (real Keccak, nil/empty metadata, amount encodings); metadata round-trips the "
              "range. The same harness as C02 re-checks all of it on certificates built by the REAL flow over the REAL bridge store, "
              "with a reference DepositContract tree.")
LEVEL_NOTE = ("Trusted: Coq kernel + vm_compute; Gallina Keccak; the hand transcription of getBridgeExits / ConvertClaimToImportedBridgeExit / "
              "BridgeExit.Hash / Bridge.Hash / certificate metadata (validated by the correspondence); Solidity DepositContract "
              "transcription as the reference tree. Partial: aggchain-prover flow.")
TECHNIQUE = "Coq proof (protocol invariant + frontier lemma + byte-level preimage equality) + differential correspondence via vm_compute"
