"""JSON observation of harness/l1info -> Coq term of type lcase (Model/L1InfoCases.v), shared by C11 and by the
l1infotreesync parts of C04 (reorg = never seen) and C07 (all-or-nothing block processing).

Use from props/c04.py and props/c07.py (they own the property ids; this module adds no id):

    import l1info_common
    def extra_checks(chk):
        n, mism, viol = l1info_common.run_c04_part(chk.seed, chk.tier)      # or run_c07_part
        chk.cov["l1info_cases"] = n
        chk.cov["l1info_mismatches"] = mism
        for case in viol:                                                   # concrete failing inputs (harness output objects)
            path = vlib.write_replay(chk.pid, chk.seed, "input", dict(case=case, harness="l1info",
                                     what="l1infotreesync: a query answers differently from the twin run (spec_asif)"))
            chk.violations.append((path, ""))
        if mism and not viol:
            chk.obligation_broken("l1infotreesync store model no longer corresponds to the processor on %d case(s)" % mism,
                                  theorem="correspondence L1InfoCases.corr")

`run_c04_part(seed, tier)` / `run_c07_part(seed, tier)` build harness/l1info against $VERIF_REPO (tag verif), generate the
scenarios with `-prop c04` / `-prop c07` (plus corpus/C04/l1info_*.jsonl resp. corpus/C07/l1info_*.jsonl when present),
transcribe every case into coq/cases/Cases_<C04L1|C07L1>_k.v and evaluate L1InfoCases.corr (model = real processor, main and
twin run) and L1InfoCases.spec_asif (every facade query of the reorged / faulted run = the twin run of the REAL code that only
ever saw the surviving blocks / never saw a fault) by vm_compute.
They return (n_cases, mismatch_count, violation_cases); (0, -1, []) when the harness or the case files do not build/evaluate.
A replay of one violation: write its "in" object as one line of a .jsonl file and run
    build/h_l1info -replay that.jsonl -out out.jsonl
"""
import os

import vlib
from vlib import cbool, clist, copt

IMPORTS = ("From Coq Require Import NArith ZArith List Uint63.\n"
           "From Verif Require Import Base.Bytes Model.TreeStore Model.L1InfoStore Model.L1InfoCases.")
CODES = {"ok": 0, "inconsistent": 1, "fault": 2, "constraint": 3, "notfound": 4, "invalid_index": 5}
QCODES = {"ok": 0, "notfound": 1, "notprocessed": 2, "noblock0": 3}
TABLES = {"block": "TBlock", "leaf": "TLeaf", "l1root": "TL1Root", "l1rht": "TL1Rht", "rroot": "TRollupRoot",
          "rrht": "TRollupRht", "verify": "TVerify", "init": "TInit"}
MAKE_TARGETS = ["theories/Model/L1InfoCases.vo"]


class Ctx:
    """Interns the big numbers of one case: each distinct value appears once (as 60-bit limbs) in a table in front of the case
    term and is referred to by a primitive-integer index (nested lets and nat / N literals elaborate ~10-100x slower)."""

    def __init__(self):
        self.names = {}
        self.defs = []

    def num(self, v):
        v = int(v)
        if v < 2 ** 31:
            return "%d%%N" % v
        n = self.names.get(v)
        if n is None:
            n = "(g %d%%uint63)" % len(self.names)
            self.names[v] = n
            limbs = []
            x = v
            while x:
                limbs.append("%d%%uint63" % (x & (2 ** 60 - 1)))
                x >>= 60
            self.defs.append("hx [%s]" % ";".join(limbs))
        return n

    def hx(self, h):
        h = h or ""
        h = h[2:] if h.startswith("0x") else h
        return self.num(int(h, 16) if h else 0)

    def wrap(self, term):
        return ("(let T := [%s] in\nlet g := fun i => nth (Z.to_nat (Uint63.to_Z i)) T 0%%N in\n%s)"
                % (";\n".join(self.defs), term))


def log(c, l):
    t = l["t"]
    if t == "upd":
        return "LUpdate %s %s %s" % (c.num(l.get("idx", 0)), c.hx(l.get("mer")), c.hx(l.get("rer")))
    if t == "v2":
        return "LV2 %s %s %s %s" % (c.hx(l.get("root")), c.num(l.get("count", 0)), c.hx(l.get("bh")), c.num(l.get("mints", 0)))
    if t in ("vb", "vbt"):
        return "LVerify %s %s %s %s %s %s" % (c.num(l.get("idx", 0)), c.num(l.get("rid", 0)), c.num(l.get("batch", 0)),
                                              c.hx(l.get("sroot")), c.hx(l.get("exit")), c.hx(l.get("agg")))
    if t == "init":
        return "LInit %s %s" % (c.num(l.get("count", 0)), c.hx(l.get("root")))
    raise ValueError(t)


def op(c, o):
    k = o["k"]
    if k == "block":
        f = o.get("fault")
        fs = "None" if not f else "(Some (%s, %d%%nat))" % (TABLES[f["table"]], f["k"])
        return "OBlock (mkHdr %s %s %s %s) %s %s" % (c.num(o.get("num", 0)), c.hx(o.get("hash")), c.hx(o.get("parent")),
                                                     c.num(o.get("ts", 0)), clist([log(c, l) for l in o.get("logs") or []]), fs)
    if k == "reorg":
        return "OReorg %s" % c.num(o.get("b", 0))
    return {"restart": "ORestart", "snap": "OSnap", "reset": "OReset"}[k]


def leaf(c, l):
    return None if l is None else "(mkLeaf %s %s %s %s %s %s %s %s %s)" % (
        c.num(l["block"]), c.num(l["pos"]), c.num(l["idx"]), c.hx(l["parent"]), c.num(l["ts"]), c.hx(l["mer"]), c.hx(l["rer"]),
        c.hx(l["ger"]), c.hx(l["hash"]))


def root(c, r):
    return None if r is None else "(mkRoot %s %s %s %s)" % (c.hx(r["hash"]), c.num(r["idx"]), c.num(r["block"]), c.num(r["bpos"]))


def vb(c, v):
    return None if v is None else "(mkVbRow %s %s %s %s %s %s %s %s)" % (
        c.num(v["block"]), c.num(v["pos"]), c.num(v["rid"]), c.num(v["batch"]), c.hx(v["sroot"]), c.hx(v["exit"]), c.hx(v["agg"]),
        c.hx(v["rer"]))


def opt(x):
    return "None" if x is None else "(Some %s)" % x


def idx(c, i):
    return "None" if i is None or i < 0 else "(Some %s)" % c.num(i)


def hashes(c, hs):
    return clist([c.hx(h) for h in hs or []])


def snap(c, s):
    infos = clist(["mkIQ %s %s %s %s %s" % (
        c.num(q["i"]), opt(leaf(c, q.get("leaf"))), opt(root(c, q.get("root"))),
        "None" if q.get("proof_root") is None else "(Some (%s, %s))" % (hashes(c, q.get("proof")), root(c, q["proof_root"])),
        "None" if not q.get("calc") else "(Some %s)" % c.hx(q["calc"])) for q in s.get("infos") or []])
    keyidx = lambda xs: clist(["(%s, %s)" % (c.hx(x["key"]), idx(c, x["idx"])) for x in xs or []])
    until = clist(["(%s, %s, %s)" % (c.num(x["b"]), c.num(QCODES.get(x.get("code", "ok"), 9)), idx(c, x["idx"]))
                   for x in s.get("until") or []])
    after = clist(["(%s, %s)" % (c.num(x["b"]), idx(c, x["idx"])) for x in s.get("after") or []])
    vbs = clist(["mkVQ %s %s %s %s" % (
        c.num(q["rid"]), opt(vb(c, q.get("last"))), opt(vb(c, q.get("first"))),
        clist(["(%s, %s)" % (c.num(a["b"]), opt(vb(c, a.get("row")))) for a in q.get("after") or []])) for q in s.get("vb") or []])
    rollup = clist(["mkRQ %s %s %s %s %s" % (
        c.hx(q["root"]), c.num(q["id"]), c.num(QCODES.get(q["code"], 9)), c.hx(q.get("leaf")), hashes(c, q.get("proof")))
        for q in s.get("rollup") or []])
    puntil = clist(["(%s, %s)" % (c.num(x["b"]), "None" if x["code"] != "ok" else "(Some (%s, %s))" % (c.num(x["num"]), c.hx(x["hash"])))
                    for x in s.get("puntil") or []])
    toroot = clist(["(%s, %s, %s)" % (c.num(x["idx"]), c.hx(x["root"]), hashes(c, x.get("proof"))) for x in s.get("toroot") or []])
    ini = s.get("init")
    inis = "None" if not ini else "(Some (%s, %s, %s))" % (c.num(ini["block"]), c.num(ini["count"]), c.hx(ini["root"]))
    return "mkSnap %s %s (%d)%%Z %s %s %s %s %s %s %s %s %s %s %s %s %s %s" % (
        c.num(s["last"]), cbool(s["halted"]), s["mem_last"], infos, keyidx(s.get("by_ger")), keyidx(s.get("by_rer")), until, after,
        idx(c, s.get("first_info", -1)), idx(c, s.get("last_info", -1)), opt(root(c, s.get("last_l1"))),
        opt(root(c, s.get("last_rollup"))), vbs, rollup, puntil, toroot, inis)


def codes(rs):
    return clist(["%d%%N" % CODES.get(r, 9) for r in rs or []])


def coq_case(o):
    c = Ctx()
    i = o["in"]
    cos = clist(["mkCO %s %s %s %s %s" % (c.hx(x["l1root"]), c.num(x["count"]), c.hx(x["rollup_root"]), c.hx(x["last_ger"]),
                                          hashes(c, x.get("leaf_values"))) for x in o.get("contract") or []])
    term = "mkCase %s %s %s %s %s %s %s" % (
        clist([op(c, x) for x in i.get("ops") or []]), codes(o.get("res")), clist([snap(c, s) for s in o.get("snaps") or []]),
        clist([op(c, x) for x in i.get("twin_ops") or []]), codes(o.get("twin_res")),
        clist([snap(c, s) for s in o.get("twin_snaps") or []]), cos)
    return c.wrap(term)


def distribution(outs):
    d = {"cases": len(outs), "blocks": 0, "info_updates": 0, "v2_announcements": 0, "verify_batches": 0, "init_events": 0,
         "faults": 0, "reorgs": 0, "restarts": 0, "snapshots": 0, "l1_proofs_observed": 0, "rollup_proofs_observed": 0,
         "contract_cases": 0, "result_codes": {}, "harness_errors": 0}
    for o in outs:
        if o.get("err"):
            d["harness_errors"] += 1
        if o.get("contract"):
            d["contract_cases"] += 1
        for x in o["in"].get("ops") or []:
            if x["k"] == "block":
                d["blocks"] += 1
                for l in x.get("logs") or []:
                    d[{"upd": "info_updates", "v2": "v2_announcements", "vb": "verify_batches", "vbt": "verify_batches",
                       "init": "init_events"}[l["t"]]] += 1
                if x.get("fault"):
                    d["faults"] += 1
            elif x["k"] == "reorg":
                d["reorgs"] += 1
            elif x["k"] == "restart":
                d["restarts"] += 1
        for r in o.get("res") or []:
            d["result_codes"][r] = d["result_codes"].get(r, 0) + 1
        for s in o.get("snaps") or []:
            d["snapshots"] += 1
            d["l1_proofs_observed"] += sum(1 for q in s.get("infos") or [] if q.get("proof")) + len(s.get("toroot") or [])
            d["rollup_proofs_observed"] += len(s.get("rollup") or [])
    return d


# ---------------------------------------------------------------------------------------------------------------
# C04 / C07 parts
# ---------------------------------------------------------------------------------------------------------------

def _run_part(pid, prop, seed, tier, n):
    rc, out = vlib.coq_make(MAKE_TARGETS, timeout=900)
    if rc != 0:
        return 0, -1, []
    rc, out, exe = vlib.build_harness("l1info")
    if rc != 0:
        return 0, -1, []
    wd = os.path.join(vlib.BUILD, pid)
    os.makedirs(wd, exist_ok=True)
    outs = []
    cdir = os.path.join(vlib.VERIF, "corpus", pid[:3])
    if os.path.isdir(cdir):
        for name in sorted(os.listdir(cdir)):
            if name.startswith("l1info_") and name.endswith(".jsonl"):
                of = os.path.join(wd, "corpus_" + name)
                rc, _ = vlib.run_harness(exe, ["-replay", os.path.join(cdir, name), "-out", of, "-tier", tier])
                if rc != 0:
                    return 0, -1, []
                outs += vlib.read_jsonl(of)
    of = os.path.join(wd, "cases.jsonl")
    rc, _ = vlib.run_harness(exe, ["-prop", prop, "-seed", str(seed), "-n", str(n), "-out", of, "-tier", tier])
    if rc != 0:
        return 0, -1, []
    outs += vlib.read_jsonl(of)
    if any(o.get("err") for o in outs):
        return len(outs), -1, []
    shard = max(1, (len(outs) + 5) // 6)
    mism, viol, _ = vlib.eval_cases(pid, IMPORTS, [coq_case(o) for o in outs], "lcase", "corr", "spec_asif", shard_size=shard)
    if mism is None:
        return len(outs), -1, []
    return len(outs), len(mism), [outs[i] for i in viol]


def run_c04_part(seed, tier):
    """l1infotreesync part of C04: returns (n_cases, mismatch_count, violation_cases)."""
    return _run_part("C04L1", "c04", seed, tier, 12 if tier == "quick" else 200)


def run_c07_part(seed, tier):
    """l1infotreesync part of C07: returns (n_cases, mismatch_count, violation_cases)."""
    return _run_part("C07L1", "c07", seed, tier, 12 if tier == "quick" else 200)
