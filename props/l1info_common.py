"""JSON observation of harness/l1info -> Coq term of type lcase (Model/L1InfoCases.v), shared by C11 and by the
l1infotreesync parts of C04 (reorg = never seen) and C07 (all-or-nothing block processing, clean retry).

Use from props/c04.py and props/c07.py (they own the property ids; this module adds no id), exactly like props/ger_common.py:

    import l1info_common
    def extra_checks(chk):
        l1info_common.run_c04_part(chk)        # resp. run_c07_part(chk)

Both functions take the vlib.Check object. They build the Coq targets of the L1 info store (Model/L1InfoCases.vo,
Properties/C11.vo - the store theorems live there), build harness/l1info against $VERIF_REPO (tag verif), run it with
`-prop c04` / `-prop c07` (after the corpus files corpus/C04/l1info_*.jsonl resp. corpus/C07/l1info_*.jsonl, if any) on the REAL
l1infotreesync processor, transcribe every case into coq/cases/Cases_<pid>l1infoc04_k.v / ...c07_k.v and evaluate by vm_compute
  L1InfoCases.corr       model (Model/L1InfoStore.v: process_block with storage faults, reorg, restart) = implementation, main and twin run
  L1InfoCases.spec_asif  every one of the 20 facade queries of the reorged / faulted run = the twin run of the REAL code that only ever
                         saw the surviving blocks / never saw a fault.
They append to the passed Check exactly what Check.step_compare appends:
  chk.violations   (replay file, "")                        concrete failing input (spec_asif false)
                   (replay file, " no-failing-input-found")  only the correspondence / a Coq target / the harness broke
  chk.known_hits   nothing (no known finding class in these parts)
  chk.cov["l1info_store"]  coverage numbers of this part (rule, evaluations, distinct_nontrivial, mismatches, distribution, sample)
`bin/check C04 --replay <file>` re-runs a replay file written here (field harness = "l1info_c04" / "l1info_c07"); replay files of
other harnesses are skipped.
"""
import json
import os

import vlib
from vlib import cbool, clist, copt

IMPORTS = ("From Coq Require Import NArith ZArith List Uint63.\n"
           "From Verif Require Import Base.Bytes Model.TreeStore Model.L1InfoStore Model.L1InfoCases.")
CODES = {"ok": 0, "inconsistent": 1, "fault": 2, "constraint": 3, "notfound": 4, "invalid_index": 5}
QCODES = {"ok": 0, "notfound": 1, "notprocessed": 2, "noblock0": 3}
TABLES = {"block": "TBlock", "leaf": "TLeaf", "l1root": "TL1Root", "l1rht": "TL1Rht", "rroot": "TRollupRoot",
          "rrht": "TRollupRht", "verify": "TVerify", "init": "TInit"}


class Ctx:
    """Interns the big numbers of one case: each distinct value appears once (as 60-bit limbs) in a table in front of the case
    term and is referred to by a primitive-integer index (nested lets and nat / N literals elaborate ~10-100x slower)."""

    def __init__(self):
        self.names = {}
        self.defs = []

    def num(self, v):
        v = int(v)
        if v < 2 ** 31:
            return "%d%%N" % v
        n = self.names.get(v)
        if n is None:
            n = "(g %d%%uint63)" % len(self.names)
            self.names[v] = n
            limbs = []
            x = v
            while x:
                limbs.append("%d%%uint63" % (x & (2 ** 60 - 1)))
                x >>= 60
            self.defs.append("hx [%s]" % ";".join(limbs))
        return n

    def hx(self, h):
        h = h or ""
        h = h[2:] if h.startswith("0x") else h
        return self.num(int(h, 16) if h else 0)

    def wrap(self, term):
        return ("(let T := [%s] in\nlet g := fun i => nth (Z.to_nat (Uint63.to_Z i)) T 0%%N in\n%s)"
                % (";\n".join(self.defs), term))


def log(c, l):
    t = l["t"]
    if t == "upd":
        return "LUpdate %s %s %s" % (c.num(l.get("idx", 0)), c.hx(l.get("mer")), c.hx(l.get("rer")))
    if t == "v2":
        return "LV2 %s %s %s %s" % (c.hx(l.get("root")), c.num(l.get("count", 0)), c.hx(l.get("bh")), c.num(l.get("mints", 0)))
    if t in ("vb", "vbt"):
        return "LVerify %s %s %s %s %s %s" % (c.num(l.get("idx", 0)), c.num(l.get("rid", 0)), c.num(l.get("batch", 0)),
                                              c.hx(l.get("sroot")), c.hx(l.get("exit")), c.hx(l.get("agg")))
    if t == "init":
        return "LInit %s %s" % (c.num(l.get("count", 0)), c.hx(l.get("root")))
    raise ValueError(t)


def op(c, o):
    k = o["k"]
    if k == "block":
        f = o.get("fault")
        fs = "None" if not f else "(Some (%s, %d%%nat))" % (TABLES[f["table"]], f["k"])
        return "OBlock (mkHdr %s %s %s %s) %s %s" % (c.num(o.get("num", 0)), c.hx(o.get("hash")), c.hx(o.get("parent")),
                                                     c.num(o.get("ts", 0)), clist([log(c, l) for l in o.get("logs") or []]), fs)
    if k == "reorg":
        return "OReorg %s" % c.num(o.get("b", 0))
    return {"restart": "ORestart", "snap": "OSnap", "reset": "OReset"}[k]


def leaf(c, l):
    return None if l is None else "(mkLeaf %s %s %s %s %s %s %s %s %s)" % (
        c.num(l["block"]), c.num(l["pos"]), c.num(l["idx"]), c.hx(l["parent"]), c.num(l["ts"]), c.hx(l["mer"]), c.hx(l["rer"]),
        c.hx(l["ger"]), c.hx(l["hash"]))


def root(c, r):
    return None if r is None else "(mkRoot %s %s %s %s)" % (c.hx(r["hash"]), c.num(r["idx"]), c.num(r["block"]), c.num(r["bpos"]))


def vb(c, v):
    return None if v is None else "(mkVbRow %s %s %s %s %s %s %s %s)" % (
        c.num(v["block"]), c.num(v["pos"]), c.num(v["rid"]), c.num(v["batch"]), c.hx(v["sroot"]), c.hx(v["exit"]), c.hx(v["agg"]),
        c.hx(v["rer"]))


def opt(x):
    return "None" if x is None else "(Some %s)" % x


def idx(c, i):
    return "None" if i is None or i < 0 else "(Some %s)" % c.num(i)


def hashes(c, hs):
    return clist([c.hx(h) for h in hs or []])


def snap(c, s):
    infos = clist(["mkIQ %s %s %s %s %s" % (
        c.num(q["i"]), opt(leaf(c, q.get("leaf"))), opt(root(c, q.get("root"))),
        "None" if q.get("proof_root") is None else "(Some (%s, %s))" % (hashes(c, q.get("proof")), root(c, q["proof_root"])),
        "None" if not q.get("calc") else "(Some %s)" % c.hx(q["calc"])) for q in s.get("infos") or []])
    keyidx = lambda xs: clist(["(%s, %s)" % (c.hx(x["key"]), idx(c, x["idx"])) for x in xs or []])
    until = clist(["(%s, %s, %s)" % (c.num(x["b"]), c.num(QCODES.get(x.get("code", "ok"), 9)), idx(c, x["idx"]))
                   for x in s.get("until") or []])
    after = clist(["(%s, %s)" % (c.num(x["b"]), idx(c, x["idx"])) for x in s.get("after") or []])
    vbs = clist(["mkVQ %s %s %s %s" % (
        c.num(q["rid"]), opt(vb(c, q.get("last"))), opt(vb(c, q.get("first"))),
        clist(["(%s, %s)" % (c.num(a["b"]), opt(vb(c, a.get("row")))) for a in q.get("after") or []])) for q in s.get("vb") or []])
    rollup = clist(["mkRQ %s %s %s %s %s" % (
        c.hx(q["root"]), c.num(q["id"]), c.num(QCODES.get(q["code"], 9)), c.hx(q.get("leaf")), hashes(c, q.get("proof")))
        for q in s.get("rollup") or []])
    puntil = clist(["(%s, %s)" % (c.num(x["b"]), "None" if x["code"] != "ok" else "(Some (%s, %s))" % (c.num(x["num"]), c.hx(x["hash"])))
                    for x in s.get("puntil") or []])
    toroot = clist(["(%s, %s, %s)" % (c.num(x["idx"]), c.hx(x["root"]), hashes(c, x.get("proof"))) for x in s.get("toroot") or []])
    ini = s.get("init")
    inis = "None" if not ini else "(Some (%s, %s, %s))" % (c.num(ini["block"]), c.num(ini["count"]), c.hx(ini["root"]))
    return "mkSnap %s %s (%d)%%Z %s %s %s %s %s %s %s %s %s %s %s %s %s %s" % (
        c.num(s["last"]), cbool(s["halted"]), s["mem_last"], infos, keyidx(s.get("by_ger")), keyidx(s.get("by_rer")), until, after,
        idx(c, s.get("first_info", -1)), idx(c, s.get("last_info", -1)), opt(root(c, s.get("last_l1"))),
        opt(root(c, s.get("last_rollup"))), vbs, rollup, puntil, toroot, inis)


def codes(rs):
    return clist(["%d%%N" % CODES.get(r, 9) for r in rs or []])


def coq_case(o):
    c = Ctx()
    i = o["in"]
    cos = clist(["mkCO %s %s %s %s %s" % (c.hx(x["l1root"]), c.num(x["count"]), c.hx(x["rollup_root"]), c.hx(x["last_ger"]),
                                          hashes(c, x.get("leaf_values"))) for x in o.get("contract") or []])
    term = "mkCase %s %s %s %s %s %s %s" % (
        clist([op(c, x) for x in i.get("ops") or []]), codes(o.get("res")), clist([snap(c, s) for s in o.get("snaps") or []]),
        clist([op(c, x) for x in i.get("twin_ops") or []]), codes(o.get("twin_res")),
        clist([snap(c, s) for s in o.get("twin_snaps") or []]), cos)
    return c.wrap(term)


def distribution(outs):
    d = {"cases": len(outs), "blocks": 0, "info_updates": 0, "v2_announcements": 0, "verify_batches": 0, "init_events": 0,
         "faults": 0, "reorgs": 0, "restarts": 0, "snapshots": 0, "l1_proofs_observed": 0, "rollup_proofs_observed": 0,
         "contract_cases": 0, "result_codes": {}, "harness_errors": 0}
    for o in outs:
        if o.get("err"):
            d["harness_errors"] += 1
        if o.get("contract"):
            d["contract_cases"] += 1
        for x in o["in"].get("ops") or []:
            if x["k"] == "block":
                d["blocks"] += 1
                for l in x.get("logs") or []:
                    d[{"upd": "info_updates", "v2": "v2_announcements", "vb": "verify_batches", "vbt": "verify_batches",
                       "init": "init_events"}[l["t"]]] += 1
                if x.get("fault"):
                    d["faults"] += 1
            elif x["k"] == "reorg":
                d["reorgs"] += 1
            elif x["k"] == "restart":
                d["restarts"] += 1
        for r in o.get("res") or []:
            d["result_codes"][r] = d["result_codes"].get(r, 0) + 1
        for s in o.get("snaps") or []:
            d["snapshots"] += 1
            d["l1_proofs_observed"] += sum(1 for q in s.get("infos") or [] if q.get("proof")) + len(s.get("toroot") or [])
            d["rollup_proofs_observed"] += len(s.get("rollup") or [])
    return d


# ---------------------------------------------------------------------------------------------------------------
# C04 / C07 parts
# ---------------------------------------------------------------------------------------------------------------
PART_TARGETS = ["theories/Properties/C11.vo", "theories/Model/L1InfoCases.vo"]
RULES = {
    "c11": ("the L1 histories of the C11 check (info updates, root announcements, batch verifications for several rollups with repeated / zero / "
            "unchanged exit roots, several events per block, restarts): at every snapshot every served proof of the L1 info tree and of the ROLLUP "
            "EXIT tree (the updatable tree) is recomputed against the root it was served for, and roots / leaves are compared with the reference"),
    "c04": ("random L1 histories (info updates with matching V2 announcements, batch verifications with zero / unchanged / repeated exit roots, "
            "InitL1InfoRootMap) with 1-3 rounds of {blocks, reorg at the first block / inside / at the tip / above the tip, optional nested "
            "reorg, optional restart, snapshot, continuation on the new fork (every second time re-including the logs of the first dropped "
            "block, i.e. the same GER again in a new block), snapshot}; the twin run of the real processor only ever processes the surviving "
            "blocks; every snapshot asks all 20 data queries of the facade; non-trivial = at least one reorg that deleted a block; "
            "distinct = distinct op list"),
    "c07": ("random L1 histories of blocks with 0-6 events; about half of the blocks are first processed with an injected storage fault (SQL "
            "trigger raising ABORT on the statement that would be the k-th successful write to one of block / l1info_leaf / l1_info_root / "
            "l1_info_rht / rollup_exit_root / rollup_exit_rht / verify_batches / l1info_initial, k chosen so that it fires), sometimes twice, "
            "sometimes followed by a process restart, then processed again without fault; the twin processes every block once without "
            "fault; non-trivial = at least one fault fired; distinct = distinct op list"),
}


def cases_n(tier):
    return 12 if tier == "quick" else 240


def _nontrivial(prop, o):
    if prop == "c11":
        return o["in"]["ops"] if any(s.get("last_rollup") for s in o.get("snaps") or []) else None
    if prop == "c07":
        return o["in"]["ops"] if any(r == "fault" for r in o.get("res") or []) else None
    seen = set()
    for x in o["in"]["ops"]:
        if x["k"] == "block":
            seen.add(x["num"])
        elif x["k"] == "reorg" and any(n >= x["b"] for n in seen):
            return o["in"]["ops"]
    return None


def _run_part(chk, prop, spec="spec_asif", skip=None):
    pid = chk.pid
    tag = "l1info_" + prop
    cov = {"rule": RULES[prop], "harness": "harness/l1info -prop " + prop}
    chk.cov["l1info_store"] = cov
    rc, out = vlib.coq_make(PART_TARGETS, timeout=1500)
    if rc != 0:
        # a theorem / source-fact obligation of the L1 info store no longer builds: record it, but keep going - the case files only
        # need the model (Model/L1InfoCases.vo), and a concrete failing input is worth more than the broken obligation
        chk.obligation_broken("make %s failed:\n%s" % (" ".join(PART_TARGETS), out[-2500:]), theorem="theories/Properties/C11.v")
        cov["store_theorems_build"] = False
        rc, out = vlib.coq_make(["theories/Model/L1InfoCases.vo"], timeout=1500)
        if rc != 0:
            chk.obligation_broken("make theories/Model/L1InfoCases.vo failed:\n%s" % out[-2500:], theorem="theories/Model/L1InfoCases.v")
            return
    rc, out, exe = vlib.build_harness("l1info")
    if rc != 0:
        chk.obligation_broken("harness l1info does not build against the current source (tag verif):\n" + out[-3000:],
                              theorem="correspondence harness l1info -prop " + prop)
        return
    wd = os.path.join(vlib.BUILD, pid)
    os.makedirs(wd, exist_ok=True)
    outs = []
    of = os.path.join(wd, tag + ".jsonl")
    if chk.replay is not None:
        with open(chk.replay) as f:
            rp = json.load(f)
        if rp.get("harness") != tag:
            cov["skipped"] = "replay file belongs to another harness"
            return
        inp = os.path.join(wd, tag + "_replay_in.jsonl")
        with open(inp, "w") as f:
            for c in rp.get("cases", [rp.get("case")]):
                f.write(json.dumps(c["in"] if isinstance(c, dict) and "in" in c else c) + "\n")
        runs = [["-replay", inp, "-out", of, "-tier", chk.tier]]
    else:
        runs = []
        cdir = os.path.join(vlib.VERIF, "corpus", pid)
        if os.path.isdir(cdir):
            for name in sorted(os.listdir(cdir)):
                if name.startswith("l1info_") and name.endswith(".jsonl"):
                    runs.append(["-replay", os.path.join(cdir, name), "-out", os.path.join(wd, tag + "_corpus_" + name), "-tier", chk.tier])
        runs.append(["-prop", prop, "-seed", str(chk.seed), "-n", str(cases_n(chk.tier)), "-out", of, "-tier", chk.tier])
    for args in runs:
        rc, o = vlib.run_harness(exe, args, timeout=1500)
        if rc != 0:
            chk.obligation_broken("harness l1info %s failed (rc=%d):\n%s" % (" ".join(args), rc, o[-3000:]),
                                  theorem="correspondence harness l1info -prop " + prop)
            return
        outs += vlib.read_jsonl(args[args.index("-out") + 1])
    errs = [o["err"] for o in outs if o.get("err")]
    if errs:
        chk.obligation_broken("harness l1info reported errors: %s" % errs[:3], theorem="correspondence harness l1info -prop " + prop)
        return
    shard = max(1, (len(outs) + 5) // 6)
    mism, viol, log = vlib.eval_cases(pid + tag.replace("_", ""), IMPORTS, [coq_case(o) for o in outs], "lcase", "corr", spec,
                                      shard_size=shard)
    if mism is None:
        chk.obligation_broken("L1 info store case file did not evaluate (model broken or transcription error):\n" + log[-2500:],
                              theorem="correspondence L1InfoCases.corr / spec_asif")
        return
    if skip is not None and mism is not None:
        # cases of a finding recorded under another property (listed there, reported there): not this part's business
        mism = [i for i in mism if not skip(outs[i])]
        viol = [i for i in viol if not skip(outs[i])]
    keys = {json.dumps(k, sort_keys=True) for k in (_nontrivial(prop, o) for o in outs) if k is not None}
    cov.update(evaluations=len(outs), distinct_nontrivial=len(keys), traces_validated_against_impl=len(outs) - len(mism),
               correspondence_mismatches=len(mism), spec_violations_raw=len(viol), mismatch_indices=mism[:20], violation_indices=viol[:20],
               input_distribution=distribution(outs), samples=[outs[len(outs) // 2]] if outs else [])
    if viol:
        # one replay per run is enough: the first failing case (all failing cases are listed in it)
        x = outs[viol[0]]
        path = vlib.write_replay(pid, chk.seed, "input", dict(
            case=x, harness=tag, finding_key=None, failing_cases=len(viol),
            what="L1 info tree store (l1infotreesync processor): %s is false on what the implementation returned for this input: %s"
                 % (spec, "a facade query of the faulted run answers differently from the fault-free twin run" if prop == "c07"
                    else "a served proof of the L1 info tree / rollup exit tree does not verify, or a root / leaf differs from the reference" if prop == "c11"
                    else "a facade query after a reorg answers differently from the twin that never saw the dropped blocks")))
        chk.violations.append((path, ""))
    else:
        only_mism = [i for i in mism if i not in set(viol)]
        if only_mism:
            path = vlib.write_replay(pid, chk.seed, "obligation", dict(
                case=outs[only_mism[0]], cases=[outs[i] for i in only_mism[:5]], harness=tag,
                theorem="correspondence L1InfoCases.corr (L1 info store model vs l1infotreesync processor) no longer checks on %d case(s); "
                        "the property predicate spec_asif still holds on the implementation's outputs" % len(only_mism)))
            chk.violations.append((path, " no-failing-input-found"))


def run_c04_part(chk):
    """C04 over the L1 info tree store: reorgs vs a twin that never saw the dropped blocks. Mutates chk (violations, cov)."""
    _run_part(chk, "c04")


def run_c07_part(chk):
    """C07 over the L1 info tree store: storage faults + retry vs a fault-free twin. Mutates chk (violations, cov)."""
    _run_part(chk, "c07")


def run_c08_part(chk):
    """C08 over the L1 info tree syncer's two trees (append-only L1 info tree, updatable rollup exit tree): every proof served at every
    snapshot verifies against its root (spec_c11's proofs_ok / rollup_ok). Cases of C11's recorded finding are skipped (reported there)."""
    import c11
    _run_part(chk, "c11", spec="spec_c11", skip=lambda o: c11.finding_key(o) is not None)
