"""C09 - claim proofs inside a certificate verify against the L1 info root it names."""
import hashlib
import json

from vlib import cbool, clist

ID = "C09"
PROPERTIES_V = ["theories/Properties/C09.v"]
MAKE_TARGETS = ["theories/Properties/C09.vo", "theories/Model/C09Cases.vo", "theories/Model/C20Cases.vo", "theories/Proofs/GenAgreeVerifyClaims.vo", "theories/Proofs/GenAgreeClaimsGuard.vo"]
HARNESS = "c09"
CASES_IMPORTS = ("From Coq Require Import NArith List Uint63.\n"
                 "From Verif Require Import Base.Bytes Model.TreeStore Model.GlobalIndex Model.Commitment Model.ClaimProofs Model.C09Cases.")
CASE_TYPE = "c09case"
CORR = "corr"
SPEC = "spec"
SHARD = 6
RULE = ("17 boundary worlds first (one block / one leaf; syncer behind the finalized block; syncer ahead with claims beyond the finalized "
        "root; fork hash at and below the finalized block; empty stored hash; finalized pointer before the first block, between blocks, "
        "far beyond; block 0 only; RPC failures of both header calls; no claims; unknown GER; GER != H(MER,RER), random and that of another leaf; no L1 info leaf up to "
        "the finalized block), then random L1 histories of 2-6 blocks with UpdateL1InfoTree and VerifyBatches events (zero / unchanged "
        "exit roots included), 1-5 claims from mainnet and from three rollups (ids 1, 2, 5) with genuine proofs read from real bridge "
        "stores and the real rollup exit tree, every fifth case from a separate stream with claims outside the quantifier (GER beyond "
        "the finalized root, unknown GER, inconsistent GER). Each case runs the real PP flow end to end and a direct "
        "getImportedBridgeExits call against a named (often older) recorded root, asks the real guard of the aggchain-prover flow about (named root, claims), and, where the finalized block is at or beyond the second L1 block, runs again after a warm-up attempt of the same querier on an older finalized block (as scripted, and with the finalized query failing). A case is non-trivial when a certificate was built "
        "that contains at least one imported exit whose claim lies in the quantifier (GER at or below the finalized root), or the "
        "direct call returned exits of which at least one verifies; distinct = distinct input")
ASSUMPTIONS = [
    "closed-store facts of the L1 info tree store (l1_sound: lookups return the row asked for, rows carry GER = H(MER,RER) and the leaf "
    "hash of their fields, proofs served for recorded roots and covered indexes verify) are hypotheses of the main theorem; they are "
    "derived for the executable store from C08's closed reverse-hash-table invariant (exec_l1_sound_from_closed_store) and checked by "
    "computation on the examples",
    "contract_accepted: the claim's own proofs verified against MER/RER when the bridge contract (_verifyLeaf, hand transcription) "
    "accepted the claim - a hypothesis about chain data, as the property states ('the one the claim was made against')",
    "claims_ger_finalized: the property's own quantifier restriction; the PP flow does not check it (known_ger_never_checked, "
    "beyond_root_proof_is_zero_leaf_proof describe what is sent otherwise; the harness shows the real behaviour in evidence)",
    "global indexes are canonical on-chain values (< 2^64 or 2^64 + leaf index), as C19 states; leaf count below 2^32 (uint32 wrap "
    "of root.Index + 1 is in the model, excluded by hypothesis)",
    "the L1 node answers HeaderByNumber(n) with a header numbered n; timestamps < 2^63 (database/sql rejects larger uint64)",
    "VerifyBatches events do not influence the queries the flow makes (they are fed to the real store, dropped by the model)",
]
TRUSTED_EXTRA = [
    "hand transcription of PolygonZkEVMBridgeV2._verifyLeaf / getLeafValue and of the global exit root contract's leaf value "
    "(Model/Contracts.v, Model/ClaimProofs.v contract_accepted); reference L1 info tree root in `spec` = DepositContract getRoot spec",
]


def cases_n(tier):
    global SHARD
    SHARD = 6 if tier == "quick" else 20
    return 36 if tier == "quick" else 400


ERR = {"client_fin": 1, "processed_until": 2, "no_block_yet": 3, "client_hdr": 4, "hash_mismatch": 5, "info_notfound": 6,
       "info_notprocessed": 7, "info_noblock0": 8, "root_notfound": 9, "ger_mismatch": 10, "ger_notfound": 11}


def cN(v):
    """N term from an int: 60-bit little-endian limbs of primitive integers (big N literals parse slowly)."""
    v = int(v)
    if v < 2 ** 60:
        return "(n63 %d%%uint63)" % v
    limbs = []
    while v:
        limbs.append("%d%%uint63" % (v & (2 ** 60 - 1)))
        v >>= 60
    return "(nb [%s])" % ";".join(limbs)


class Binder:
    """let-binds every distinct 256-bit value of a case once (sibling lists repeat the zero hashes)."""

    def __init__(self):
        self.names = {}
        self.order = []

    def h(self, hexs):
        if hexs in ("", None):
            return cN(0)
        v = int(hexs, 16)
        if v < 2 ** 60:
            return cN(v)
        if v not in self.names:
            self.names[v] = "v%d" % len(self.names)
            self.order.append(v)
        return self.names[v]

    def wrap(self, term):
        pre = "".join("let %s := %s in\n" % (self.names[v], cN(v)) for v in self.order)
        return "(" + pre + term + ")"


def cbytes_small(h):
    return "[" + ";".join(cN(int(h[i:i + 2], 16)) for i in range(0, len(h), 2)) + "]"


def c_claim(b, c):
    return "(mkClaim %s %s %s %s %s %s %s %s %s %s %s %s %s)" % (
        cN(c["gi"]), cN(c["onet"]), b.h(c["oaddr"]), cN(c["dnet"]), b.h(c["daddr"]), cN(c["amount"]),
        clist([b.h(x) for x in c.get("pler") or []]), clist([b.h(x) for x in c.get("prer") or []]),
        b.h(c["mer"]), b.h(c["rer"]), b.h(c["ger"]), cbytes_small(c.get("meta") or ""), cbool(c["msg"]))


def c_proof(b, p):
    return "(Build_merkle_proof %s %s)" % (b.h(p["root"]), clist([b.h(s) for s in p.get("sib") or []]))


def c_imp(b, i):
    x = i["exit"]
    md = x.get("md")
    if md is None:
        mdt = "None"
    elif len(md) == 64:
        mdt = "(Some (fbe 32 %s))" % b.h(md)
    else:
        mdt = "(Some %s)" % cbytes_small(md)
    amt = "None" if x.get("amt") is None else "(Some %s)" % cN(x["amt"])
    ex = "(Build_bridge_exit %s %s %s %s %s %s %s)" % (cN(x["lt"]), cN(x["on"]), b.h(x["oa"]), cN(x["dn"]), b.h(x["da"]), amt, mdt)
    lf = i["leaf"]
    leaf = "(Build_l1_leaf %s %s %s %s %s %s)" % (cN(lf["idx"]), b.h(lf["rer"]), b.h(lf["mer"]), b.h(lf["ger"]), b.h(lf["bh"]), cN(lf["ts"]))
    ps = [c_proof(b, p) for p in i.get("p") or []]
    if i["kind"] == "mainnet" and len(ps) == 2:
        cl = "(ClaimMainnet %s %s %s)" % (ps[0], ps[1], leaf)
    elif i["kind"] == "rollup" and len(ps) == 3:
        cl = "(ClaimRollup %s %s %s %s)" % (ps[0], ps[1], ps[2], leaf)
    else:
        cl = "(ClaimMainnet (Build_merkle_proof 0%N []) (Build_merkle_proof 0%N []) (Build_l1_leaf 4294967296%N 0%N 0%N 0%N 0%N 0%N))"
    return "(Build_imported_exit %s %s (Build_global_index %s %s %s))" % (ex, cl, cbool(i["m"]), cN(i["r"]), cN(i["l"]))


def c_obs(b, o, direct=False):
    k = o["kind"]
    if k == "cert":
        return "(OCert %s %s %s)" % (b.h(o["root"]), cN(0 if direct else o.get("lc", 0)), clist([c_imp(b, i) for i in o.get("imp") or []]))
    if k == "err":
        return "(OErr %s)" % cN(ERR.get(o.get("err", ""), 99))
    return "ONoCert"


def coq_case(o):
    b = Binder()
    i = o["in"]
    blocks = []
    for k, blk in enumerate(i["l1"]):
        evs = ["(mkUpd %s %s %s %s %s)" % (cN(e["pos"]), b.h(e["mer"]), b.h(e["rer"]), b.h(e["parent"]), cN(e.get("ts", 0)))
               for e in blk.get("evs") or [] if e["t"] == "info"]
        blocks.append("(mkL1B %s %s %s)" % (cN(blk["num"]), b.h(o["l1hash"][k]), clist(evs)))
    fin = "None" if o.get("fin") is None else "(Some (%s, %s))" % (cN(o["fin"]["num"]), b.h(o["fin"]["hash"]))
    hdrs = clist(["(%s, %s)" % (cN(h["num"]), b.h(h["hash"])) for h in o.get("hdrs") or []])
    named = "(Some %s)" % b.h(o["named"]) if o.get("named") else "None"
    guard = "(Some %s)" % cbool(o["guard"] == "ok") if o.get("named") and o.get("guard") else "None"
    term = "mkCase %s %s %s %s %s %s %s %s %s %s" % (
        clist(blocks), fin, cbool(bool(o.get("fin_fails"))), hdrs, clist([c_claim(b, c) for c in o.get("claims") or []]), named,
        clist([cbool(r == "ok") for r in o.get("l1res") or []]),
        c_obs(b, o["pp"]), c_obs(b, o["direct"], direct=True) if o.get("named") else "ONoCert", guard)
    return b.wrap(term)


def _key(o):
    return hashlib.sha1(json.dumps(o["in"], sort_keys=True).encode()).hexdigest()


def nontrivial_key(o):
    if o.get("err"):
        return None
    pp = o["pp"]
    claims = o.get("claims") or []
    if pp["kind"] == "cert" and any(c.get("stream") == "fin" and x.get("ger_ok") for c, x in zip(claims, pp.get("imp") or [])):
        return [_key(o)]
    d = o["direct"]
    if d["kind"] == "cert" and any(x.get("ger_ok") for x in d.get("imp") or []):
        return [_key(o)]
    return None


def finding_key(o):
    return None


def distribution(outs):
    d = {"cases": len(outs), "tags": {}, "pp": {}, "direct": {}, "guard": {}, "claims_by_stream": {}, "imported_mainnet": 0, "imported_rollup": 0,
         "l1_blocks": 0, "l1_info_events": 0, "l1_verify_batches_events": 0, "l1_blocks_failed": 0,
         "claims_roundtrip_through_real_l2_store_ok": 0, "harness_errors": 0,
         # real behaviour outside the quantifier (not a violation): exits sent with a GER->L1-root proof that does not verify
         "pp_certs_containing_exit_whose_ger_proof_does_not_verify": 0, "pp_exits_sent_with_non_verifying_ger_proof": 0,
         "pp_exits_with_verifying_ger_proof": 0, "direct_exits_non_verifying": 0, "direct_exits_verifying": 0,
         "finalized_pointer": {"inside_or_at_syncer_blocks": 0, "beyond_syncer": 0, "before_first_block": 0}}
    for o in outs:
        i = o["in"]
        d["tags"][i.get("tag", "")] = d["tags"].get(i.get("tag", ""), 0) + 1
        if o.get("err"):
            d["harness_errors"] += 1
        for blk, r in zip(i["l1"], o.get("l1res") or []):
            d["l1_blocks"] += 1
            d["l1_blocks_failed"] += 0 if r == "ok" else 1
            for e in blk.get("evs") or []:
                d["l1_info_events" if e["t"] == "info" else "l1_verify_batches_events"] += 1
        nums = [blk["num"] for blk in i["l1"]]
        if nums:
            kind = "before_first_block" if i["fin"] < min(nums) else ("beyond_syncer" if i["fin"] > max(nums) else "inside_or_at_syncer_blocks")
            d["finalized_pointer"][kind] += 1
        d["claims_roundtrip_through_real_l2_store_ok"] += 1 if o.get("rtrip_ok") else 0
        for c in o.get("claims") or []:
            s = c.get("stream", "")
            d["claims_by_stream"][s] = d["claims_by_stream"].get(s, 0) + 1
        g = (o.get("guard") or "not_asked") + ("_%d_claims" % min(len(o.get("claims") or []), 3))
        d["guard"][g] = d["guard"].get(g, 0) + 1
        for name in ("pp", "direct"):
            ob = o[name]
            k = ob["kind"] + (":" + ob["err"] if ob.get("err") else "")
            d[name][k] = d[name].get(k, 0) + 1
        imps = o["pp"].get("imp") or []
        bad = [x for x in imps if not x.get("ger_ok")]
        d["pp_exits_sent_with_non_verifying_ger_proof"] += len(bad)
        d["pp_exits_with_verifying_ger_proof"] += len(imps) - len(bad)
        d["pp_certs_containing_exit_whose_ger_proof_does_not_verify"] += 1 if bad else 0
        for x in imps:
            d["imported_" + x["kind"]] = d.get("imported_" + x["kind"], 0) + 1
        for x in o["direct"].get("imp") or []:
            d["direct_exits_verifying" if x.get("ger_ok") else "direct_exits_non_verifying"] += 1
    return d


LEVEL_TEXT = ("Kernel-checked theorem, generic in the hash, for ALL L1 sides satisfying the closed-store facts, ALL answers of the L1 node "
              "(every position of the finalized pointer, syncer behind / ahead, fork and empty hashes, RPC errors), ALL claim lists: if the PP "
              "flow (verifyClaimGERs, GetLatestFinalizedL1InfoRoot, root.Index + 1, getImportedBridgeExits, "
              "ConvertClaimToImportedBridgeExit, GetProofForGER) builds a certificate then every imported exit whose claim lies in the "
              "quantifier and was accepted by the bridge contract satisfies the four clauses of the property (leaf hash + proof = named "
              "root at the stated index; index < leaf count = named root's index + 1 and that root is recorded for it; GER = H(MER,RER) = "
              "the claim's GER; exit proofs lead to MER / through the local exit root to RER). Byte-level lemmas with real Keccak-256: "
              "L1InfoTreeLeaf.Hash = the GER contract's leaf value = the leaf l1infotreesync appends; BridgeExit.Hash of the converted "
              "claim = getLeafValue; DecodeGlobalIndex = the contract's bit tests on canonical values. The closed-store facts are "
              "derived for the executable store from C08's closed reverse-hash-table invariant. The model is tied to the Go code by "
              "running the real PP flow over the real l1infotreesync store, the real L1InfoTreeDataQuerier (scripted L1 node), the real "
              "L2 bridge store and bridge querier, and comparing every field of every imported exit, the named root and the leaf count; "
              "`spec` re-verifies the four clauses on the implementation's output with the Gallina Keccak against the contract-side "
              "reference root of the case's own L1 history.")
LEVEL_NOTE = ("Outside the quantifier (reported, not a violation): the PP flow never compares a claim's L1 info index with the named root's "
              "index; for a GER the syncer knows but that lies beyond the named root the certificate is built WITHOUT error and its "
              "GER->L1-root proof verifies only the zero leaf (theorems known_ger_never_checked, beyond_root_proof_is_zero_leaf_proof; "
              "the evidence counts such exits actually produced by the real code). Trusted: Coq kernel + vm_compute, the hand "
              "transcription of the Go flow / querier / processor code (validated by the correspondence) and of the Solidity checks, the "
              "generated Keccak-256, SQLite / meddler below the stores.")
TECHNIQUE = ("Coq proof (composition of the flow's steps with the C08 proof-verification invariant, byte-level hash layouts) generic in the "
             "hash + differential correspondence via vm_compute with real Keccak-256 on the real PP flow, querier and stores")


def extra_checks(chk):
    """second part: the claim records (proofs, exit roots, global index of the matching call) the imported bridge exits are built from:
    C20's harness stream judged by C20's predicates, reported under C09 (see c03_claims.py)"""
    import c03_claims
    c03_claims.run_part(chk)
