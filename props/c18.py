"""C18 - each epoch is announced exactly once, at the first block past the threshold."""
from vlib import cbool, clist, copt

ID = "C18"
PROPERTIES_V = ["theories/Properties/C18.v"]
MAKE_TARGETS = ["theories/Properties/C18.vo", "theories/Model/C18Cases.vo", "theories/Proofs/GenAgreeEpoch.vo"]
HARNESS = "c18"
CASES_IMPORTS = ("From Coq Require Import ZArith NArith List.\n"
                 "From Verif Require Import Model.Epoch Model.EpochFloat Model.C18Cases.\nOpen Scope N_scope.")
CASE_TYPE = "case18"
CORR = "corr"
SPEC = "spec"
SHARD = 800
RULE = ("real notifier (constructor + startInternal loop + step + subscriber) driven with: fixed boundary cases (block S itself, N=1, "
        "P=0, P=99 clamp, blocks below S, all P at integer threshold positions, invalid configs, one documented case beyond the "
        "float range); EXHAUSTIVELY all increasing sequences of <=5 blocks over [max(S-1,0), S+3N) for N<=4, S<=2 and 14 percentages "
        "(thorough: <=6 blocks, N<=6, S<=3, all P in 0..99), percentages grouped by identical observed output; random structured runs "
        "(N up to 2^45 incl. multiples of 100 and powers of two +-2, deliveries aimed at threshold positions -1/0/+1, epoch borders, "
        "skipped epochs; one in eight with repeats/decreasing deliveries); direct step calls from arbitrary statuses; a stream with "
        "2^45<=N<2^53 compared with the float64 model only. A case is non-trivial when at least one epoch event was published; "
        "distinct = distinct (S, N, percentages, status, deliveries)")
ASSUMPTIONS = [
    "block numbers and StartingEpochBlock stay below 2^63, so no uint64 operation of step wraps (the only wrapping expression, "
    "epochNumber(b)+1, needs b >= 2^64-2)",
    "float64 division and uint64->float64 conversion are IEEE-754 binary64, correctly rounded to nearest-even (Go spec); under this the "
    "float threshold test equals the exact one for NumBlockPerEpoch < 2^45 (proved with Flocq); for NumBlockPerEpoch >= 2^45 "
    "(epochs of more than 3.5e13 blocks) nothing is claimed and from about 2^46 the float test can fire one block early (witness in "
    "Properties/C18.v, reproduced on the real code in every run)",
    "the initial status (lastBlockSeen = StartingEpochBlock) is part of the system: deliveries count from the first block above "
    "StartingEpochBlock; a delivery of that block itself is ignored (theorem C18_block_S_is_ignored)",
    "deliveries reach step one at a time in channel order (goroutine scheduling and the block notifier are not modelled)",
]
TRUSTED_EXTRA = [
    "Flocq 4.1.0 (binary64 model) and the Coq Reals axioms, used only by the three C18_float_* theorems and by the float64 model "
    "evaluated in case files",
    "hook /repo/aggsender/verif_export_c18.go: attribution of a published event to a delivery by counting calls of ctx.Done()",
    "tools/go2coq (Go AST -> Gallina, ~600 lines): translates epochNumber, startingBlockEpoch, endBlockEpoch, percentEpoch, "
    "isNotificationRequired, infoEpoch and step of epoch_notifier_per_block.go into Gen/GenEpoch.v on every run; trusted to render "
    "Go's uint64 (+,-,* wrap; / is N.div, divisor validated non-zero by Config.Validate), float64 (Flocq binary64, round to nearest "
    "even) and control flow (if / return / assignment; logger calls dropped) faithfully; the generated text is committed and diffable",
]


def cases_n(tier):
    return 3000 if tier == "quick" else 40000


def n(v):
    """N literal; the case files open N_scope, so a bare numeral is an N"""
    v = int(v)
    assert v >= 0
    return str(v)


def cZ(v):
    return "(%d)%%Z" % int(v)


def nl(xs):
    return "[" + "; ".join(n(x) for x in xs) + "]"


def _ps(i):
    """every percentage of a case input (listed + ranges)"""
    ps = list(i.get("ps") or [])
    for lo, hi in (i.get("pr") or []):
        ps += list(range(lo, hi + 1))
    return sorted(ps)


def coq_case(o):
    i = o["in"]
    bs = nl(i["blocks"])
    if i["kind"] == "steps":
        obs = clist(["OS %s %s %s" % (n(s["last"]), n(s["waiting"]),
                                      copt("(%s, %s)" % (n(s["e"]), cZ(s["pend"])) if s["notified"] else None))
                     for s in (o.get("steps") or [])])
        return "CSteps %s %s %s %s %s %s %s %s" % (n(i["s"]), n(i["n"]), n((_ps(i) or [0])[0]), n(i.get("last", 0)),
                                                  n(i.get("waiting", 0)), bs, cbool(bool(o.get("err"))), obs)
    groups = []
    for g in (o.get("groups") or []):
        evs = clist(["OE %s %s %s %s" % (n(e["i"]), n(e["b"]), n(e["e"]), cZ(e["pend"])) for e in (g.get("events") or [])])
        groups.append("G %s %s %s" % (clist(["R %s %s" % (n(lo), n(hi)) for lo, hi in g["ps"]]),
                                      cbool(bool(g.get("err"))), evs))
    return "CRun %s %s %s %s %s" % (n(i["s"]), n(i["n"]), bs, cbool(bool(i.get("float"))), clist(groups))


def nontrivial_key(o):
    i = o["in"]
    if i["kind"] == "steps":
        if not any(s["notified"] for s in (o.get("steps") or [])):
            return None
    elif not any(g.get("events") for g in (o.get("groups") or [])):
        return None
    return [i["kind"], i["s"], i["n"], i.get("ps"), i.get("pr"), i.get("last", 0), i.get("waiting", 0), i["blocks"]]


def finding_key(o):
    return None


def distribution(outs):
    d = {}
    for o in outs:
        i = o["in"]
        t = i.get("tag") or i["kind"]
        d[t] = d.get(t, 0) + 1
        if i.get("float"):
            d["float_model_checked"] = d.get("float_model_checked", 0) + 1
        if i["kind"] == "run":
            for g in (o.get("groups") or []):
                k = sum(hi - lo + 1 for lo, hi in g["ps"])
                d["runs_x_percentages"] = d.get("runs_x_percentages", 0) + k
                d["events_published"] = d.get("events_published", 0) + len(g.get("events") or []) * k
                if g.get("err"):
                    d["rejected_config"] = d.get("rejected_config", 0) + k
            d["behaviour_groups"] = d.get("behaviour_groups", 0) + len(o.get("groups") or [])
            if i["n"] >= 2 ** 30:
                d["n_ge_2^30"] = d.get("n_ge_2^30", 0) + 1
        elif o.get("err"):
            d["rejected_config"] = d.get("rejected_config", 0) + 1
    return d


def run(chk):
    """driver hook. Quick tier: the stock run. Thorough tier (about 280 000 cases): the stock driver starts one coqc per
    shard, all at once, which needs ~170 kB of coqc memory per case (48 GB in total); here the same evaluation function is
    called on successive batches of 8 shards so that the peak stays below ~6 GB. Nothing else of the run changes."""
    import sys
    if chk.tier == "quick":
        return chk.run()
    global SHARD
    SHARD = 4000
    drv = sys.modules[type(chk).__module__]
    stock = drv.eval_cases

    def batched(pid, imports, terms, case_type, corr, spec, shard_size=400, timeout=900, extra_defs=""):
        mism, viol = [], []
        step = shard_size * 8
        for off in range(0, max(len(terms), 1), step):
            m, v, log = stock(pid, imports, terms[off:off + step], case_type, corr, spec,
                              shard_size=shard_size, timeout=timeout, extra_defs=extra_defs)
            if m is None:
                return None, None, "batch at case %d: %s" % (off, log)
            mism += [off + x for x in m]
            viol += [off + x for x in v]
        return mism, viol, ""

    drv.eval_cases = batched
    try:
        return chk.run()
    finally:
        drv.eval_cases = stock


LEVEL_TEXT = ("Kernel-checked theorems, by induction over ALL delivery sequences and for all StartingEpochBlock, NumBlockPerEpoch >= 1 and "
              "percentages: the events published by the step loop are exactly (first qualifying new-maximum block, its epoch) for every "
              "epoch that has a qualifying block (C18_outputs_characterised); corollaries: epochs strictly increase, at most once per "
              "epoch, none without a qualifying block and only at the first one, every qualifying epoch announced. The Go code's float64 "
              "threshold test is proved equal to the exact rational test for NumBlockPerEpoch < 2^45 over Flocq's binary64 "
              "(C18_float_threshold_agrees, C18_float_run_agrees). The model is tied to the Go code by running the real notifier loop "
              "(constructor, startInternal, step, Publish) on thousands of runs per check, small parameters exhaustively.")
LEVEL_NOTE = ("Full in exact arithmetic; float part proved for N < 2^45, refuted by witness from 2^46 (irrelevant epoch lengths; documented, "
              "not a defect within the quantifier read with realistic epoch lengths). Boundary stated: a delivery of StartingEpochBlock "
              "itself is ignored. Trusted: Coq kernel + vm_compute, Flocq + Reals axioms for the float theorems only, the hand "
              "transcription of step/isNotificationRequired (validated by the correspondence), goroutine/channel delivery order.")
TECHNIQUE = ("Coq proof (induction with a status invariant; Flocq for float64); epoch_notifier_per_block.go is TRANSLATED to Gallina on every "
             "run (tools/go2coq -> Gen/GenEpoch.v, wrapping uint64 and float64 as in the source) and the property is proved of the translated "
             "code; differential correspondence via vm_compute")
