"""Model/Contracts.v (hand transcription of the Solidity side) against the REAL contract bytecode. Called from the props
files whose property statement reads "... equals what the contract computes" (C01, C11):

    import evm_common
    def extra_checks(chk):
        evm_common.run_evm_part(chk)

run_evm_part builds harness/evm (deploys the bridge behind its proxy and the L1 PolygonZkEVMGlobalExitRootV2 contract with the
repository's own bindings in go-ethereum's simulated backend, offline), runs it with chk.seed / chk.tier, transcribes every
observation into a term of type Model.EvmCases.ecase and evaluates corr_evm / spec_evm (the same predicate: here the contract
is the reference and the Gallina transcription is what is validated) with vlib.eval_cases. It mutates the passed vlib.Check:

  chk.violations   (replay file, " no-failing-input-found")  when Contracts.v disagrees with the deployed contract (the replay
                   file carries the failing case, the step and the name of what disagreed) or when the harness / the case
                   file no longer builds. Never a plain VIOLATION: a disagreement here means the specification transcription
                   is wrong, not the Go code. `bin/check <ID> --replay <that file>` re-runs exactly the attached cases
                   (key `evm_cases`) through this part; the property's own harness gets an empty input list.
  chk.cov["evm"]   evaluations, distinct_nontrivial, comparisons, input_distribution, samples, rule
"""
import json
import os
import re
import subprocess

import vlib
from vlib import cN, cNhex, cbool, cbytes, clist, copt

HARNESS = "evm"
MAKE_TARGETS = ["theories/Model/EvmCases.vo"]
IMPORTS = ("From Coq Require Import NArith List.\n"
           "From Verif Require Import Base.Bytes Model.BridgeStore Model.Contracts Model.EvmCases.")
CASE_TYPE = "ecase"
CORR = "corr_evm"
SPEC = "spec_evm"
THEOREM = "Model/Contracts.v vs contract bytecode"

RULE = ("every case = one fresh deployment (bridge implementation + TransparentUpgradeableProxy initialised as test/helpers DeployBridge "
        "does, network 0, ether gas token; PolygonZkEVMGlobalExitRootV2 with rollup manager = the user account and bridge = the proxy as "
        "test/helpers newSimulatedL1 does; an ERC20 from the contracts module) and one operation list. Case 0 (seed-independent): "
        "getLeafValue on all-zero / all-max / small fields for both contracts, native bridgeAsset with amounts 0, 1, 2^240, forced and "
        "unforced GER update, updateGlobalExitRoot with and without news, three reverting calls (destination = own network for asset and "
        "message, msg.value <> amount), rollup exit roots 0 / 1 / 1 again / ff..ff, a time jump that takes block.timestamp across 2^32, "
        "bridgeMessage with metadata lengths 0,1,31,32,33,200 and values 0/1/2^200, ERC20 bridgeAsset with 0 and 2^230, three deposits in "
        "one block, a rollup update and a message in one block. Case 1: 30 (400 thorough) direct getLeafValue queries (3 in 4 bridge, "
        "fields from {0, 1, max, random}; 1 in 4 GER contract, timestamp from {0, 1, 2^32-1, 2^32, 2^64-1, random}). Then random cases "
        "of 6..20 deposits, the first of them 33..40 (thorough: 1..140): native / ERC20 bridgeAsset and bridgeMessage (destination network from {1, 2, 2^31, "
        "2^32-1, random}, address from {0, ff..ff, 0xf00, random}, amount from {0, 1, 2^k+small, random bytes, random 64 bit}, metadata "
        "length from {0,1,31,32,33,200}, forceUpdateGlobalExitRoot 2 in 3), interleaved with updateExitRoot from the rollup-manager "
        "account (random / 0 / ff..ff / the previous root again), updateGlobalExitRoot, time jumps, direct queries, 1 in 20 a reverting "
        "call, 1 in 6 transactions sharing the block of the next one. Block hashes are whatever the simulated chain produced "
        "(prevRandao is random), all other inputs derive from the seed. Non-trivial: the case contains >= 2 deposits and >= 1 L1 info "
        "leaf; distinct = distinct operation list")

CODES = {
    1: "get_leaf_value (event fields, keccakN metadata) <> bridge.getLeafValue for an emitted BridgeEvent",
    2: "get_leaf_value <> bridgesync.Bridge.Hash() of the decoded BridgeEvent",
    3: "BridgeStore.bridge_leaf <> bridge.getLeafValue for an emitted BridgeEvent",
    4: "keccakN metadata <> keccak256(metadata) as computed on the EVM side",
    5: "dc_count (after dc_deposit) <> the bridge's depositCount / the event's depositCount",
    6: "dc_get_root (after dc_deposit of the event leaves) <> bridge.getRoot()",
    7: "ger_of mainnetExitRoot rollupExitRoot <> ger.getLastGlobalExitRoot()",
    8: "l1info_leaf_value ger parentHash timestamp <> ger.getLeafValue on the values the contract used for an appended leaf",
    9: "dc_count <> the GER contract's depositCount / UpdateL1InfoTreeV2.leafCount",
    10: "dc_get_root over the L1 info leaves <> ger.getRoot() / l1InfoRootMap(leafCount) / UpdateL1InfoTreeV2.currentL1InfoRoot",
    11: "UpdateL1InfoTreeV2.(blockhash, minTimestamp) <> header.(ParentHash, Time) as the downloader reads them",
    12: "a new mainnet exit root is not the bridge's root (dc_get_root) at that point",
    13: "a reverted transaction left events",
    14: "get_leaf_value <> direct bridge.getLeafValue(...) call",
    15: "l1info_leaf_value <> direct ger.getLeafValue(...) call",
    16: "dc_get_root dc_init / counts <> the freshly deployed contracts' views",
    17: "dc_calculate_rootN <> bridge.calculateRoot on a proof served by the aggkit tree",
    18: "dc_verify_merkle_proof <> bridge.verifyMerkleProof (served or tampered proof)",
    19: "the leaf / root handed to the contract is not the model's j-th bridge leaf / root after k deposits",
    20: "the bridge contract REJECTED a proof served by the node's append-only tree (or the tree served no 32-sibling proof)",
    21: "the bridge contract accepted a tampered proof",
    23: "the leaf the node uses for a deposit (Bridge.Hash() of the Bridge its real log appender built) differs from the contract's leaf value "
        "(getLeafValue on the event as emitted)",
    22: "the Bridge built by the REAL log appender of the bridge syncer differs from Model/Abi.v decode_bridge_event of the log data "
        "(or its block position from the log index)",
}
# codes that are a statement about the node (C08: a served proof verifies), not about the transcription
PROPERTY_CODES = {20, 23}


def cases_n(tier):
    return 5 if tier == "quick" else 40


# ---------------------------------------------------------------------------------------------
# transcription
# ---------------------------------------------------------------------------------------------

def _bev(e):
    # position, deposit count and the eight event fields are those of the Bridge the REAL appender (bridgesync.buildAppender) built
    ev = "(mkB %s %s %s %s %s %s %s %s %s 0%%N)" % (
        cN(e.get("block_pos", e["log_index"])), cN(e["dc"]), cN(e["lt"]), cN(e["onet"]), cNhex(e["oaddr"]), cN(e["dnet"]), cNhex(e["daddr"]),
        cN(e["amount"]), cbytes(e["meta"]))
    data = e.get("data", "")
    words = "[" + "; ".join(cNhex(data[k:k + 64]) for k in range(0, len(data), 64)) + "]"
    return "(mkBO %s %s %s %s %s %s)" % (ev, cNhex(e["leaf_contract"]), cNhex(e["meta_hash"]), cNhex(e["leaf_repo"]), words, cN(e["log_index"]))


def _l1(e):
    con = None
    if e.get("ger_arg"):
        con = "(%s, %s)" % (cNhex(e["ger_arg"]), cNhex(e["leaf_contract"]))
    v2 = None
    if e.get("v2"):
        v = e["v2"]
        v2 = "(mkV2 %s %s %s %s)" % (cNhex(v["root"]), cN(v["leaf_count"]), cNhex(v["blockhash"]), cN(v["min_ts"]))
    return "(mkL1 %s %s %s %s %s %s)" % (cNhex(e["mer"]), cNhex(e["rer"]), cNhex(e["parent_hash"]), cN(e["timestamp"]), copt(con), copt(v2))


def _after(a):
    return "(mkAfter %s %s %s %s %s %s %s %s)" % (cN(a["bcount"]), cNhex(a["broot"]), cN(a["gcount"]), cNhex(a["groot"]),
                                                 cNhex(a["grootmap"]), cNhex(a["mer"]), cNhex(a["rer"]), cNhex(a["ger"]))


def _vobs(v):
    if v.get("err"):
        # the node could not serve the root / proof at all: an empty proof, which the property check (code 20) rejects
        return "(mkV %s %s %s 0%%N [] false 0%%N 0%%nat 0%%N false)" % (cN(v["k"]), cN(v["j"]), cNhex(v["leaf"]))
    return "(mkV %s %s %s %s %s %s %s %d%%nat %s %s)" % (cN(v["k"]), cN(v["j"]), cNhex(v["leaf"]), cNhex(v["root"]),
                                                     clist([cNhex(x) for x in v["proof"]]), cbool(v["ok"]), cNhex(v["calc"]),
                                                     v["tlevel"], cNhex(v["tsibling"]), cbool(v["tok"]))


def _step(op, s):
    k = s["k"]
    if k == "leaf":
        return "SLeaf %s %s %s %s %s %s %s %s" % (cN(op.get("lt", 0)), cN(op.get("onet", 0)), cNhex(op.get("oaddr", "")), cN(op.get("dnet", 0)),
                                                 cNhex(op.get("daddr", "")), cN(op.get("amount", "0") or "0"), cNhex(op.get("mh", "")), cNhex(s["answer"]))
    if k == "l1leaf":
        return "SL1Leaf %s %s %s %s" % (cNhex(op.get("ger", "")), cNhex(op.get("bh", "")), cN(op.get("ts", 0)), cNhex(s["answer"]))
    if k == "verify":
        return "SVerify %s" % clist([_vobs(v) for v in s.get("verifs") or []])
    ok = s["status"] != 0          # "time" steps (empty block) have status -1
    return "STx %s %s %s %s" % (cbool(ok), clist([_bev(e) for e in s.get("bevs") or []]), clist([_l1(e) for e in s.get("l1evs") or []]),
                                copt(_after(s["after"]) if s.get("after") else None))


def coq_case(o):
    steps = [_step(op, s) for op, s in zip(o["in"]["ops"], o["steps"])]
    return "(mkECase %s %s)" % (_after(o["init"]), clist(steps))


# ---------------------------------------------------------------------------------------------
# coverage
# ---------------------------------------------------------------------------------------------

def _amount_class(a):
    a = int(a)
    return "0" if a == 0 else "1" if a == 1 else "<2^64" if a < 2 ** 64 else "<2^128" if a < 2 ** 128 else ">=2^128"


def nontrivial_key(o):
    nd = sum(len(s.get("bevs") or []) for s in o["steps"])
    nl = sum(len(s.get("l1evs") or []) for s in o["steps"])
    return o["in"]["ops"] if nd >= 2 and nl >= 1 else None


def distribution(outs):
    d = {"cases": len(outs), "deposits": 0, "by_kind": {}, "leaf_type": {"0": 0, "1": 0}, "metadata_len": {}, "amount": {},
         "max_deposit_count": 0, "reverted_transactions": 0, "l1_info_leaves": 0, "max_l1_leaf_count": 0,
         "l1_leaves_with_contract_leaf_value": 0, "update_l1_info_tree_v2_events": 0, "timestamps_ge_2^32": 0,
         "direct_bridge_leaf_queries": 0, "direct_ger_leaf_queries": 0, "transactions_sharing_a_block": 0,
         "views_compared": 0, "proofs_judged_by_contract": 0, "proofs_accepted": 0, "tampered_proofs_rejected": 0,
         "proofs_of_historical_versions": 0, "max_version_proved": 0, "forced_ger_updates": 0, "rollup_root_updates": 0, "rollup_updates_without_new_leaf": 0,
         "bridge_versions": sorted({o["env"].get("bridge_version", "") for o in outs}),
         "ger_versions": sorted({o["env"].get("ger_version", "") for o in outs})}
    for o in outs:
        for op, s in zip(o["in"]["ops"], o["steps"]):
            k = s["k"]
            d["by_kind"][k] = d["by_kind"].get(k, 0) + 1
            if s["status"] == 0:
                d["reverted_transactions"] += 1
            if op.get("same_block"):
                d["transactions_sharing_a_block"] += 1
            if s.get("after"):
                d["views_compared"] += 1
                d["max_deposit_count"] = max(d["max_deposit_count"], int(s["after"]["bcount"]))
                d["max_l1_leaf_count"] = max(d["max_l1_leaf_count"], int(s["after"]["gcount"]))
            for e in s.get("bevs") or []:
                d["deposits"] += 1
                d["leaf_type"][str(e["lt"])] += 1
                ml = str(len(e["meta"]) // 2)
                d["metadata_len"][ml] = d["metadata_len"].get(ml, 0) + 1
                ac = _amount_class(e["amount"])
                d["amount"][ac] = d["amount"].get(ac, 0) + 1
                if op.get("force"):
                    d["forced_ger_updates"] += 1
            for e in s.get("l1evs") or []:
                d["l1_info_leaves"] += 1
                d["l1_leaves_with_contract_leaf_value"] += 1 if e.get("ger_arg") else 0
                d["update_l1_info_tree_v2_events"] += 1 if e.get("v2") else 0
                d["timestamps_ge_2^32"] += 1 if e["timestamp"] >= 2 ** 32 else 0
            if k == "rollup" and s["status"] == 1:
                d["rollup_root_updates"] += 1
                d["rollup_updates_without_new_leaf"] += 0 if s.get("l1evs") else 1
            for v in s.get("verifs") or []:
                d["proofs_judged_by_contract"] += 1
                d["proofs_accepted"] += 1 if v.get("ok") else 0
                d["tampered_proofs_rejected"] += 0 if v.get("tok", True) else 1
                d["proofs_of_historical_versions"] += 1 if v["k"] < s.get("nleaf", 0) else 0
                d["max_version_proved"] = max(d["max_version_proved"], v["k"])
            d["direct_bridge_leaf_queries"] += 1 if k == "leaf" else 0
            d["direct_ger_leaf_queries"] += 1 if k == "l1leaf" else 0
    return d


def comparisons(d):
    """number of individual contract answers compared with a Gallina value"""
    return dict(bridge_leaf_values=d["deposits"] * 3 + d["direct_bridge_leaf_queries"], metadata_hashes=d["deposits"],
                l1_leaf_values=d["l1_leaves_with_contract_leaf_value"] + d["direct_ger_leaf_queries"],
                global_exit_roots=d["l1_leaves_with_contract_leaf_value"] + d["views_compared"],
                roots_and_counts=4 * d["views_compared"] + 2 * d["update_l1_info_tree_v2_events"],
                merkle_proof_verifications=3 * d["proofs_judged_by_contract"])


# ---------------------------------------------------------------------------------------------
# diagnosis of a failing case: which step, which check
# ---------------------------------------------------------------------------------------------

def diagnose(pid, outs, idxs):
    """evaluate evm_diag on the given cases; returns {case index: [(step, code), ...]} (empty dict when coqc fails)"""
    name = "Cases_%sevm_diag" % pid
    src = [IMPORTS, "Import ListNotations."]
    for n, i in enumerate(idxs):
        src.append("Definition DIAG_%d := Eval vm_compute in map (fun p => (N.of_nat (fst p), snd p)) (evm_diag %s).\nPrint DIAG_%d." % (n, coq_case(outs[i]), n))
    path = os.path.join(vlib.COQ, "cases", name + ".v")
    with open(path, "w") as f:
        f.write("\n".join(src) + "\n")
    try:
        p = subprocess.run(["timeout", "600", "coqc", "-Q", "theories", "Verif", "-w", "-notation-overridden", "cases/%s.v" % name],
                           cwd=vlib.COQ, stdout=subprocess.PIPE, stderr=subprocess.STDOUT)
        out = p.stdout.decode("utf-8", "replace")
    finally:
        for ext in (".vo", ".vok", ".vos", ".glob"):
            q = os.path.join(vlib.COQ, "cases", name + ext)
            if os.path.exists(q):
                os.remove(q)
        aux = os.path.join(vlib.COQ, "cases", "." + name + ".aux")
        if os.path.exists(aux):
            os.remove(aux)
    res = {}
    for n, i in enumerate(idxs):
        m = re.search(r"DIAG_%d\s*=\s*(\[.*?\])\s*:\s*list" % n, out, re.S)
        if m:
            res[i] = [(int(a), int(b)) for a, b in re.findall(r"\((\d+)(?:%N)?,\s*(\d+)(?:%N)?\)", m.group(1))]
    return res


def _describe(o, diag):
    lines = []
    for step, code in diag[:6]:
        if step == 0:
            where = "initial views"
        else:
            op = o["in"]["ops"][step - 1]
            where = "step %d (%s)" % (step - 1, op["k"])
        lines.append("%s: %s" % (where, CODES.get(code, "check %d" % code)))
    return lines


# ---------------------------------------------------------------------------------------------
# entry point
# ---------------------------------------------------------------------------------------------

def run_evm_part(chk):
    pid = chk.pid
    cov = {"rule": RULE, "harness": "harness/evm", "evaluations": 0, "distinct_nontrivial": 0, "samples": []}
    chk.cov["evm"] = cov
    rc, out = vlib.coq_make(MAKE_TARGETS, timeout=600)
    if rc != 0:
        chk.obligation_broken("make %s failed:\n%s" % (" ".join(MAKE_TARGETS), out[-2500:]), theorem=THEOREM)
        return
    rc, out, exe = vlib.build_harness(HARNESS)
    if rc != 0:
        chk.obligation_broken("harness evm does not build against the current source (tag verif):\n" + out[-3000:],
                              theorem="correspondence harness evm")
        return
    wd = os.path.join(vlib.BUILD, pid)
    os.makedirs(wd, exist_ok=True)
    of = os.path.join(wd, "evm.jsonl")
    if chk.replay is not None:
        with open(chk.replay) as f:
            rp = json.load(f)
        if rp.get("harness") != "evm":
            cov["skipped"] = "replay file belongs to another harness"
            return
        inp = os.path.join(wd, "evm_replay_in.jsonl")
        with open(inp, "w") as f:
            for c in rp.get("evm_cases") or []:
                f.write(json.dumps(c["in"] if isinstance(c, dict) and "in" in c else c) + "\n")
        args = ["-replay", inp, "-out", of, "-tier", chk.tier]
    else:
        args = ["-seed", str(chk.seed), "-n", str(cases_n(chk.tier)), "-out", of, "-tier", chk.tier]
    rc, o = vlib.run_harness(exe, args, timeout=1500)
    if rc != 0:
        chk.obligation_broken("harness evm %s failed (rc=%d):\n%s" % (" ".join(args), rc, o[-3000:]), theorem="correspondence harness evm")
        return
    outs = vlib.read_jsonl(of)
    terms = [coq_case(x) for x in outs]
    shard = 1 if len(terms) <= 16 else (len(terms) + 15) // 16
    mism, viol, log = vlib.eval_cases(pid + "evm", IMPORTS, terms, CASE_TYPE, CORR, SPEC, shard_size=shard)
    if mism is None:
        chk.obligation_broken("EVM case file did not evaluate (Model/EvmCases.v broken or transcription error):\n" + log[-2500:],
                              theorem="correspondence %s" % CORR)
        return
    dist = distribution(outs)
    keys = {json.dumps(k, sort_keys=True) for k in (nontrivial_key(x) for x in outs) if k is not None}
    bad = sorted(set(mism) | set(viol))
    cov.update(evaluations=len(outs), distinct_nontrivial=len(keys), traces_validated_against_contract=len(outs) - len(bad),
               disagreements=len(bad), comparisons=comparisons(dist), input_distribution=dist,
               samples=[_sample(outs[i]) for i in sorted({0, len(outs) - 1}) if outs])
    if not bad:
        return
    diag = diagnose(pid, outs, bad[:8])
    # a served proof the contract rejects is a violation of the property by the node (concrete replay), everything else
    # is a disagreement between the transcription and the bytecode
    prop_bad = [i for i in bad[:8] if any(code in PROPERTY_CODES for _, code in diag.get(i, []))]
    if prop_bad:
        i = prop_bad[0]
        path = vlib.write_replay(pid, chk.seed, "input", dict(
            cases=[], evm_cases=[outs[i]], harness="evm",
            what="real code against the deployed bridge contract: " + "; ".join(sorted({CODES.get(c, str(c)) for _, c in diag.get(i, []) if c in PROPERTY_CODES})),
            details=_describe(outs[i], [d for d in diag.get(i, []) if d[1] in PROPERTY_CODES])))
        chk.violations.append((path, ""))
        cov["proofs_rejected_by_contract_cases"] = len(prop_bad)
    bad = [i for i in bad if i not in prop_bad]
    if not bad:
        return
    first = outs[bad[0]]
    lines = _describe(first, diag.get(bad[0], []))
    what = lines[0].split(": ", 1)[1] if lines else "case %d (no diagnosis available)" % bad[0]
    cov["disagreement_details"] = {str(i): _describe(outs[i], diag.get(i, [])) for i in bad[:3]}
    path = vlib.write_replay(pid, chk.seed, "obligation", dict(
        # `cases` stays empty on purpose: vlib.Check.step_harness feeds `cases` of any replay file to the property's own harness
        # (harness/bridge for C01), which must not see EVM operation lists; this part reads `evm_cases`
        cases=[], evm_cases=[outs[i] for i in bad[:3]], harness="evm", theorem=THEOREM,
        what="Contracts.v disagrees with the deployed contract on: %s (%d of %d cases; first failing case attached)" % (what, len(bad), len(outs)),
        details={str(i): _describe(outs[i], diag.get(i, [])) for i in bad[:3]},
        diag={str(i): diag.get(i, []) for i in bad[:3]}))
    chk.violations.append((path, " no-failing-input-found"))


def _sample(o):
    """a case cut down to its first operations (evidence stays readable)"""
    return dict(env=o["env"], init=o["init"], ops=o["in"]["ops"][:8], steps=o["steps"][:8], total_steps=len(o["steps"]))
