"""C16 - the injected-GER index reflects what was really injected on L2."""
import os

from vlib import cN, cNhex, cbool, clist, copt

ID = "C16"
PROPERTIES_V = ["theories/Properties/C16.v", "theories/Properties/C16Fep.v"]
MAKE_TARGETS = ["theories/Properties/C16.vo", "theories/Model/C16Cases.vo", "theories/Properties/C16Fep.vo", "theories/Model/C16FepCases.vo"]
HARNESS = "c16"
CASES_IMPORTS = "From Coq Require Import NArith List.\nFrom Verif Require Import Model.GerIndex Model.C16Cases."
CASE_TYPE = "case16"
CORR = "corr"
SPEC = "spec"
SHARD = 150
RULE = ("L2 histories of GER insertions/removals over 8..24 blocks (8..48 thorough) with event density 15..100%, 1..4 segments per node "
        "life (start / restart on the same database / reorg notification with a regenerated fork), 1..7 polls per segment with "
        "cadence one-block-per-poll, faster-than-blocks, or 0..7 blocks per poll (and occasional stale tips); eighteen seed-independent "
        "boundary cases first; 10% of the cases carry several events per block (outside the property's quantifier: correspondence "
        "only); 4% of the cases let the tip jump by 1001..5000 blocks between two polls (running downloader, first poll after a "
        "restart, restart again afterwards) with events right before/at/after every multiple-of-1000 offset from the block the "
        "downloader resumes at, two fixed histories with jumps of 5001 and 7000 blocks; every fixed history that removes a root and every eighth random case runs "
        "again under STORAGE FAULTS (the first attempt at each event-carrying block meets an aborting insert / delete, the driver's retry a healthy store); in 25% of the cases the L1 info tree syncer lags (the first 1..3 lookups of a root answer not-found). A case is non-trivial when, in some segment, a poll returns a tip higher than every tip polled before in that "
        "segment (block 0 before the first poll) and a block carrying a GER event lies strictly between the two; distinct = "
        "distinct input")
ASSUMPTIONS = [
    "at most one GER-manager event per L2 block (the property's quantifier; PRIMARY KEY(block_num) declares it)",
    "a reorg is what the reorg detector notifies to the driver: first reorged block b, chain replaced from b on; reorgs the detector "
    "never reports (above the last tracked block) are outside the model",
    "l1InfoTreeSync.GetInfoByGlobalExitRoot is eventually a function root -> index (oracle): a lagging syncer (not-found for the first "
    "k lookups of a root) is scripted and the model treats the downloader's retry loop as waiting for the answer; RPC errors are not scripted",
    "SQLite (transactions, ORDER BY, FK cascade), go-ethereum ABI log parsing and the goroutine/channel plumbing of sync.EVMDriver "
    "are exercised by the correspondence only",
    "FEP mode (evmdownloader_fep.go): globalExitRootMap is read at the latest block; the scripted node answers it for the tip of "
    "the last poll, i.e. the race 'the tip advances between the poll and the eth_call' is not exercised; completeness in FEP mode "
    "is stated under `fvisible` (the L1 info tree syncer holds, at every poll, the leaves injected by the polled tip)",
]
TRUSTED_EXTRA = [
    "harness/c16 scripted L2 RPC client (HeaderByNumber / FilterLogs / ChainID; in FEP mode eth_call of globalExitRootMap and a "
    "scripted L1 info tree syncer), fake reorg-detector subscription and the no-op "
    "reorg notification (block 2^62) used as a quiescence barrier before each observation",
]


def cases_n(tier):
    return 450 if tier == "quick" else 6000


def _names(i):
    """hash (hex) -> let-bound Coq name: every 256-bit root of the case is written once"""
    return {g["hash"]: "g%d" % n for n, g in enumerate(i["gers"])}


def _gerlit(nm, h):
    return nm.get(h) or cNhex(h)


def _log(i, nm, e):
    g = i["gers"][e["g"]]
    if e["rm"]:
        return "(%s, rmv %s)" % (cN(e["b"]), _gerlit(nm, g["hash"]))
    return "(%s, ins %s %s)" % (cN(e["b"]), _gerlit(nm, g["hash"]), cN(g["idx"]))


def _hist(i, nm, evs):
    return clist([_log(i, nm, e) for e in (evs or [])])


def _obs(nm, so):
    deliv = clist(["(%s, %s)" % (cN(b["b"]), clist(
        ["(Build_log %s %s %s)" % (cbool(e["rm"]), _gerlit(nm, e["ger"]), cN(e["idx"])) for e in b["evs"]]))
        for b in so["delivered"]])
    rows = clist(["(Build_row %s %s %s)" % (cN(r["b"]), _gerlit(nm, r["ger"]), cN(r["idx"])) for r in so["rows"]])
    answers = clist([copt(None if a is None else "(%s, %s)" % (cN(a["idx"]), _gerlit(nm, a["ger"]))) for a in so["answers"]])
    # constructor applications (field order of seg_obs): far cheaper to elaborate than {| ... |}
    return "(Build_seg_obs %s %s %s %s %s %s)" % (
        deliv, cbool(so["stuck"]), cN(so["last"]), clist([cN(b) for b in so["blocks"]]), rows, answers)


def coq_case(o):
    i = o["in"]
    nm = _names(i)
    segs = []
    # segments the harness did not reach (node stuck) are not part of the observation
    for si, so in zip(i["segs"], o["segs"]):
        ro = copt(None if si.get("reorg") is None else "(%s, %s)" % (cN(si["reorg"]["b"]), _hist(i, nm, si["reorg"]["hist"])))
        segs.append("(Build_seg_in %s %s, %s)" % (ro, clist([cN(t) for t in si["polls"]]), _obs(nm, so)))
    lets = "".join("let %s := %s in " % (nm[g["hash"]], cNhex(g["hash"])) for g in i["gers"] if nm[g["hash"]] == "g%d" % i["gers"].index(g))
    return "(%sBuild_case16 %s %s %s)" % (
        lets, _hist(i, nm, i["hist"]), clist([cN(x) for x in i["queries"]]), clist(segs))


# ---------------------------------------------------------------------------------------------
# python re-statement of the reference, used ONLY to classify inputs (coverage rule, finding keys)
# ---------------------------------------------------------------------------------------------

def _splice(hist, b, new):
    return [e for e in hist if e["b"] < b] + [e for e in (new or []) if e["b"] >= b]


def _histories(i):
    """history in force during each segment"""
    h = list(i["hist"] or [])
    out = []
    for s in i["segs"]:
        if s.get("reorg") is not None:
            h = _splice(h, s["reorg"]["b"], s["reorg"]["hist"])
        out.append(h)
    return out


def _one_per_block(i):
    def ok(evs):
        bs = [e["b"] for e in evs]
        return len(bs) == len(set(bs))
    return ok(i["hist"] or []) and all(ok(s["reorg"]["hist"] or []) for s in i["segs"] if s.get("reorg") is not None)


def nontrivial_key(o):
    i = o["in"]
    for s, h in zip(i["segs"], _histories(i)):
        prev = 0
        for t in s["polls"]:
            if t > prev:
                if any(prev < e["b"] < t for e in h):
                    return i
                prev = t
    return None


def _live(i, h, last):
    """naive reference: (index, root hash, block) of insertions in blocks 1..last not removed by a later block <= last"""
    res = []
    for e in h:
        if e["rm"] or not (1 <= e["b"] <= last):
            continue
        if any(q["rm"] and q["g"] == e["g"] and e["b"] < q["b"] <= last for q in h):
            continue
        g = i["gers"][e["g"]]
        res.append((g["idx"], g["hash"], e["b"], e["g"]))
    return res


def _answers_ok(live, queries, answers):
    for x, a in zip(queries, answers):
        if a is None:
            if any(l[0] >= x for l in live):
                return False
        else:
            if not any(l[0] == a["idx"] and l[1] == a["ger"] for l in live) or a["idx"] < x:
                return False
    return True


def finding_key(o):
    """Classify a spec violation from the case alone (histories, reorg points, observed block tables).
    C16:skipped-blocks         at the end of some segment a block that carries an event on the chain in force, at or below
                               the last processed block, is missing from the block table (design finding F2: Download fetches
                               [tip, tip] only).
    C16:ger-remove-then-reorg  no block is skipped, and every failing segment satisfies the property once the insertions whose
                               row was deleted by a PROCESSED removal that a later reorg took off the chain are removed from
                               the reference (rows deleted by a removal are not restored by Reorg: finding F5 of C04).
    """
    i = o["in"]
    if not _one_per_block(i):
        return None
    hists = _histories(i)
    destroyed = set()   # (root id, block of the insertion)
    violated = skipped = False
    explained = True
    prev_h, prev_blocks = list(i["hist"] or []), []
    for k, (s, so) in enumerate(zip(i["segs"], o["segs"])):
        h = hists[k]
        if s.get("reorg") is not None:
            b = s["reorg"]["b"]
            destroyed = {(g, eb) for (g, eb) in destroyed if eb < b}
            for q in prev_h:
                if q["rm"] and q["b"] >= b and q["b"] in prev_blocks:
                    for e in prev_h:
                        if (not e["rm"]) and e["g"] == q["g"] and e["b"] < b and e["b"] < q["b"]:
                            destroyed.add((e["g"], e["b"]))
        live = _live(i, h, so["last"])
        if not _answers_ok(live, i["queries"], so["answers"]):
            violated = True
            live2 = [l for l in live if (l[3], l[2]) not in destroyed]
            if not _answers_ok(live2, i["queries"], so["answers"]):
                explained = False
        if any(1 <= e["b"] <= so["last"] and e["b"] not in so["blocks"] for e in h):
            skipped = True
        prev_h, prev_blocks = h, so["blocks"]
    if not violated:
        return None
    if skipped:
        return "C16:skipped-blocks"
    if explained:
        return "C16:ger-remove-then-reorg"
    return None


def distribution(outs):
    d = {"cases": len(outs), "multi_event_blocks": 0, "segments": 0, "restarts": 0, "reorgs": 0, "polls": 0,
         "delivered_blocks": 0, "answers_found": 0, "answers_not_found": 0, "stuck": 0, "tip_jump_over_event": 0,
         "removals_in_history": 0, "tip_jump_over_1000_blocks": 0, "lagging_l1_info_lookup": 0}
    for o in outs:
        i = o["in"]
        if not _one_per_block(i):
            d["multi_event_blocks"] += 1
        if nontrivial_key(o) is not None:
            d["tip_jump_over_event"] += 1
        if any(b - a > 1000 for s in i["segs"] for a, b in zip([0] + s["polls"], s["polls"])):
            d["tip_jump_over_1000_blocks"] += 1
        if any(g.get("lag") for g in i["gers"]):
            d["lagging_l1_info_lookup"] += 1
        d["removals_in_history"] += sum(1 for e in (i["hist"] or []) if e["rm"])
        for k, s in enumerate(i["segs"]):
            d["segments"] += 1
            d["polls"] += len(s["polls"])
            if s.get("reorg") is not None:
                d["reorgs"] += 1
            elif k > 0:
                d["restarts"] += 1
        for so in o["segs"]:
            d["delivered_blocks"] += len(so["delivered"])
            d["stuck"] += 1 if so["stuck"] else 0
            for a in so["answers"]:
                d["answers_not_found" if a is None else "answers_found"] += 1
    return d


def extra_checks(chk):
    """FEP-mode part, then, for the record: does the implementation still behave like the loop AS WRITTEN TODAY (dl_current)?"""
    import json
    import vlib
    import c16_fep
    c16_fep.run_part(chk)
    wd = os.path.join(vlib.BUILD, ID)
    outs = []
    for n in sorted(os.listdir(wd)) if os.path.isdir(wd) else []:
        if n.endswith(".jsonl") and ((n.startswith("corpus_") and chk.replay is None) or n == "cases.jsonl"):
            try:
                outs += vlib.read_jsonl(os.path.join(wd, n))
            except (OSError, json.JSONDecodeError):
                pass
    if not outs or not chk.cov.get("correspondence_mismatches"):
        return
    terms = [coq_case(o) for o in outs[:SHARD]]
    mism, _, _ = vlib.eval_cases(ID + "cur", CASES_IMPORTS, terms, CASE_TYPE, "corr_current", "spec", shard_size=SHARD)
    if mism is not None:
        chk.cov["as_written_model_dl_current"] = (
            "%d of %d cases of this run are reproduced exactly by the model of the Download loop AS WRITTEN (dl_current: fetch "
            "[tip, tip]); the implementation under test %s" % (
                len(terms) - len(mism), len(terms),
                "still has the unrepaired loop" if not mism else "is neither the repaired nor the as-written loop"))


LEVEL_TEXT = ("Kernel-checked theorems over an executable model of the PP downloader loop, the driver's restart/reorg handling and the "
              "SQLite store, for ALL L2 histories with at most one event per block, ALL poll schedules (any number of blocks between two "
              "polls), ALL restart points and ALL reorg notifications: the query answer is sound (injected in a processed block, not "
              "removed since, index >= X) without any further hypothesis; it is complete and minimal whenever no reorg undoes an already "
              "processed removal; the repaired downloader delivers every event block of [from, highest tip] exactly once in order, also "
              "across restarts. The same statements are REFUTED, with computed witnesses, for the Download loop as written today "
              "(fetches [tip, tip] only) and completeness is refuted for reorgs that undo a processed removal (destructive DELETE). "
              "FEP mode (contract polling, evmdownloader_fep.go): an invariant of (chain, store) kept by every polled block, restart "
              "and reorg gives soundness for ALL runs and completeness whenever the L1 info tree syncer holds the injected leaves at "
              "every poll; the real FEP downloader + driver + processor are compared with that model on generated runs.")
LEVEL_NOTE = ("Trusted: Coq kernel + vm_compute; the hand transcription of evmdownloader_pp.go / evmdriver.go / processor.go (validated "
              "on every run by driving the real downloader, driver and processor against a scripted L2 RPC and comparing delivered "
              "blocks, table content, last processed block and every query answer); tools/gofacts for DDL/SQL text; SQLite; the "
              "correspondence compares with the REPAIRED loop, so it fails until the fix is applied.")
TECHNIQUE = "Coq proof (induction over poll schedules and segments, as-if store invariant) + differential correspondence via vm_compute"
