"""C03, second part: "imported bridge exits are exactly the claim events of its block range ... with every field preserved".
The aggsender harness hands claim EVENTS to the bridge store; what a claim event's fields ARE is decided earlier, by the bridge
syncer's ClaimEvent log handler and the calldata search (C20's subject). This part runs C20's harness (real handlers, real
findCall / decoder, mixed multi-claim transactions, both contract generations) and C20's predicates, so that a change of the
claim record that the certificate's imported exits are built from is reported under C03 as well."""
import json
import os

import vlib
import c20

TAG = "claims"


def run_part(chk):
    pid = chk.pid
    n = 120 if chk.tier == "quick" else 600
    cov = {"harness": "harness/c20 (the C20 stream, %d cases): ClaimEvent logs through the real handlers (syncFullClaims), "
                      "the claim record compared with the matching call's parameters" % n}
    chk.cov["claim_records"] = cov
    rc, out, exe = vlib.build_harness(c20.HARNESS)
    if rc != 0:
        chk.obligation_broken("harness c20 does not build against the current source (tag verif):\n" + out[-3000:],
                              theorem="correspondence harness c20 (claim records)")
        return
    wd = os.path.join(vlib.BUILD, pid)
    os.makedirs(wd, exist_ok=True)
    of = os.path.join(wd, TAG + ".jsonl")
    if chk.replay is not None:
        with open(chk.replay) as f:
            rp = json.load(f)
        if rp.get("harness") != TAG:
            cov["skipped"] = "replay file belongs to another harness"
            return
        inp = os.path.join(wd, TAG + "_replay_in.jsonl")
        with open(inp, "w") as f:
            for c in rp.get("cases", [rp.get("case")]):
                f.write(json.dumps(c["in"] if isinstance(c, dict) and "in" in c else c) + "\n")
        args = ["-replay", inp, "-out", of, "-tier", chk.tier]
    else:
        args = ["-seed", str(chk.seed), "-n", str(n), "-out", of, "-tier", chk.tier]
    rc, o = vlib.run_harness(exe, args, timeout=1500)
    if rc != 0:
        chk.obligation_broken("harness c20 %s failed (rc=%d):\n%s" % (" ".join(args), rc, o[-3000:]),
                              theorem="correspondence harness c20 (claim records)")
        return
    outs = [x for x in vlib.read_jsonl(of) if x["in"]["kind"] != "malformed"]
    terms = [c20.coq_case(x) for x in outs]
    mism, viol, log = vlib.eval_cases(pid + TAG, c20.CASES_IMPORTS, terms, c20.CASE_TYPE, c20.CORR, c20.SPEC, shard_size=40)
    if mism is None:
        chk.obligation_broken("claim-record case file did not evaluate (model broken or transcription error):\n" + log[-2500:],
                              theorem="correspondence C20Cases.corr/spec (claim records)")
        return
    cov.update(evaluations=len(outs), traces_validated_against_impl=len(outs) - len(mism), correspondence_mismatches=len(mism),
               spec_violations_raw=len(viol), through_real_log_handlers=sum(1 for x in outs if x.get("via_log")),
               violation_indices=viol[:20], mismatch_indices=mism[:20])
    for i in viol[:3]:
        path = vlib.write_replay(pid, chk.seed, "input", dict(
            case=outs[i], harness=TAG, finding_key=None,
            what="the claim record the bridge syncer stores for this transaction (from which the certificate's imported bridge exit is "
                 "built field by field) is not the matching claim call's parameters / leaf kind (C20Cases.spec false)"))
        chk.violations.append((path, ""))
    if not viol and mism:
        path = vlib.write_replay(pid, chk.seed, "obligation", dict(
            case=outs[mism[0]], cases=[outs[i] for i in mism[:5]], harness=TAG,
            theorem="correspondence C20Cases.corr (claim decoding model vs the real code) no longer checks on %d case(s); the property "
                    "predicate still holds on the implementation's outputs" % len(mism)))
        chk.violations.append((path, " no-failing-input-found"))
