"""C10 - the signature commits to exactly what is sent and stored."""
import hashlib
import json

from vlib import cbool, cnat, clist, copt

ID = "C10"
PROPERTIES_V = ["theories/Properties/C10.v"]
MAKE_TARGETS = ["theories/Properties/C10.vo", "theories/Model/C10Cases.vo"]
HARNESS = "c10"
CASES_IMPORTS = ("From Coq Require Import NArith List Uint63.\n"
                 "From Verif Require Import Base.Bytes Model.GlobalIndex Model.Commitment Model.C10Cases.")
CASE_TYPE = "obs"
CORR = "corr"
SPEC = "spec"
SHARD = 2
RULE = ("boundary certificates for both signing schemes first (empty; every numeric field maximal with nil / 0 / 2^256-1 amounts and "
        "nil / empty / 32-byte metadata and both claim kinds; all-zero; 5 exits only; 5 imported exits only), then random certificates "
        "with 0-5 exits and 0-5 imported exits alternating PP / aggchain-prover scheme, every fifth from a separate non-canonical stream "
        "(metadata of other lengths, leaf types >= 2); each certificate goes through the real sign step, the real gRPC client, the real "
        "stored copy, and then through every single-field perturbation (all certificate-level fields, all fields of one bridge exit and of "
        "one imported exit incl. global index, claim kind, one root and one sibling per proof, all L1 leaf fields, nil/0 amount and "
        "nil/empty/keccak('') metadata collapses, swap, drop). A case is non-trivial when the certificate has at least one exit or "
        "imported exit and the sign step, send and store all succeeded; distinct = distinct input")
ASSUMPTIONS = [
    "ECDSA is not modelled: 'produced by the configured signer' is checked by the harness only (recording signer holding a real local "
    "key, signature recovery in Go) - that clause is partial",
    "Keccak-256 is collision-free on the finite set of preimages hashed for the two certificates compared (explicit hypothesis "
    "collision_free_on of the injectivity theorems; discharged by computation in the non-vacuity examples)",
    "amounts are < 2^256 and non-negative (uint256 on chain); big.Int, encoding/json for fixed-size types, go-ethereum's Hash/Address "
    "text codecs, base64 of []byte and protobuf marshalling below the request struct are exercised by the correspondence only",
    "canonical certificates = as aggsender/flows/flow_base.go builds them: LeafType in {0,1}, BridgeExit.Metadata nil or 32 bytes "
    "(convertBridgeMetadata), AggchainData set; wire/JSON preservation is claimed for these",
]


def cases_n(tier):
    # the driver starts one coqc per shard, all at once: keep about 16-25 of them whatever the tier
    global SHARD
    SHARD = 2 if tier == "quick" else 24
    return 40 if tier == "quick" else 400


def cN(v):
    """N term from an int / decimal string.  Coq parses big N literals very slowly (~20 ms per 256-bit literal), primitive
    63-bit integer literals are fast: numbers are transcribed as little-endian 60-bit limbs and rebuilt inside vm_compute
    (Model/C10Cases.v n63 / nb)."""
    v = int(v)
    if v < 2 ** 60:
        return "(n63 %d%%uint63)" % v
    limbs = []
    while v:
        limbs.append("%d%%uint63" % (v & (2 ** 60 - 1)))
        v >>= 60
    return "(nb [%s])" % ";".join(limbs)


def cNhex(h):
    return cN(int(h, 16) if h else 0)


def bx(h):
    """bytes term from a hex string: (fbe LEN value) reproduces the byte string exactly, leading zeros included"""
    if h is None:
        return "[]"
    if h == "nil":
        return "[n63 999%uint63]"
    n = len(h) // 2
    return "[]" if n == 0 else "(fbe %d %s)" % (n, cNhex(h))


def nh(h):
    """number from a hex string of a fixed-size field ('nil' marks a nil pointer in a dump: out-of-range value)"""
    if h == "nil":
        return cN(2 ** 300)
    return cNhex(h)


def c_exit(x):
    return "(mk_exit %s %s %s %s %s %s %s)" % (
        cN(x["lt"]), cN(x["on"]), nh(x["oa"]), cN(x["dn"]), nh(x["da"]),
        copt(None if x["amt"] is None else cN(x["amt"])), copt(None if x["md"] is None else bx(x["md"])))


def c_proof(p):
    return "(Build_merkle_proof %s %s)" % (nh(p["root"]), clist([nh(s) for s in (p.get("sib") or [])]))


def c_leaf(l):
    if l.get("rer") == "nil":
        return "(Build_l1_leaf %s 0%%N 0%%N 0%%N 0%%N 0%%N)" % cN(2 ** 300)
    return "(Build_l1_leaf %s %s %s %s %s %s)" % (cN(l["idx"]), nh(l["rer"]), nh(l["mer"]), nh(l["ger"]), nh(l["bh"]), cN(l["ts"]))


def c_claim(c):
    ps = [c_proof(p) for p in (c.get("p") or [])]
    if c["kind"] == "mainnet" and len(ps) == 2:
        return "(ClaimMainnet %s %s %s)" % (ps[0], ps[1], c_leaf(c["leaf"]))
    if c["kind"] == "rollup" and len(ps) == 3:
        return "(ClaimRollup %s %s %s %s)" % (ps[0], ps[1], ps[2], c_leaf(c["leaf"]))
    return "(ClaimMainnet (Build_merkle_proof 0%%N []) (Build_merkle_proof 0%%N []) (Build_l1_leaf %s 0%%N 0%%N 0%%N 0%%N 0%%N))" % cN(2 ** 300)


def c_imp(i):
    g = i["gi"]
    return "(Build_imported_exit %s %s (Build_global_index %s %s %s))" % (
        c_exit(i["exit"]), c_claim(i["claim"]), cbool(g["m"]), cN(g["r"]), cN(g["l"]))


def c_ctx(ctx):
    return clist(["(%s, %s)" % (bx(k), bx(v)) for (k, v) in (ctx or [])])


def c_agg(a):
    if a["kind"] == "sig":
        return "(AdSignature %s)" % bx(a.get("sig", ""))
    if a["kind"] == "proof":
        return "(AdProof %s %s %s %s %s %s)" % (bx(a.get("proof", "")), bx(a.get("version", "")), bx(a.get("vkey", "")),
                                              nh(a.get("params", "") or "0"), c_ctx(a.get("ctx")), bx(a.get("sig", "")))
    return "AdNone"


def c_cert(x):
    return "(mk_cert %s %s %s %s %s %s %s %s %s %s)" % (
        cN(x["net"]), cN(x["h"]), nh(x["prev"]), nh(x["new"]),
        clist([c_exit(e) for e in (x.get("exits") or [])]), clist([c_imp(i) for i in (x.get("imp") or [])]),
        nh(x["meta"]), bx(x["custom"]), c_agg(x["agg"]), cN(x["lc"]))


def w_exit(w):
    return "(Build_w_exit %s %s %s %s %s %s %s)" % (
        cN(w["lt"] if w["lt"] >= 0 else 999), cN(w["dn"]), bx(w["da"]), cN(w["on"]), bx(w["oa"]),
        copt(None if w["amt"] is None else bx(w["amt"])), copt(None if w["md"] is None else bx(w["md"])))


def w_proof(p):
    return "(Build_w_mproof %s %s)" % (bx(p.get("root", "")), clist([bx(s) for s in (p.get("sib") or [])]))


def w_leaf(l):
    return "(Build_w_l1leaf %s %s %s %s %s %s)" % (cN(l["idx"]), bx(l["rer"]), bx(l["mer"]), bx(l["ger"]), bx(l["bh"]), cN(l["ts"]))


def w_claim(c):
    ps = [w_proof(p) for p in (c.get("p") or [])]
    if c["kind"] == "mainnet" and len(ps) == 2:
        return "(WMainnet %s %s %s)" % (ps[0], ps[1], w_leaf(c["leaf"]))
    if c["kind"] == "rollup" and len(ps) == 3:
        return "(WRollup %s %s %s %s)" % (ps[0], ps[1], ps[2], w_leaf(c["leaf"]))
    return "(WMainnet (Build_w_mproof [] []) (Build_w_mproof [] []) (Build_w_l1leaf 0%N [] [] [] [] 0%N))"


def w_agg(a):
    if a["kind"] == "sig":
        return "(WSignature %s)" % bx(a.get("sig", ""))
    if a["kind"] == "proof":
        return "(WGeneric %s %s %s %s %s %s)" % (bx(a.get("version", "")), bx(a.get("proof", "")), bx(a.get("vkey", "")),
                                               bx(a.get("params", "")), c_ctx(a.get("ctx")), bx(a.get("sig", "")))
    return "(WSignature [n63 999%uint63])"


def w_cert(w):
    if w is None:
        return "None"
    return "(Some (Build_w_cert %s %s %s %s %s %s %s %s %s %s))" % (
        cN(w["net"]), cN(w["h"]), cN(2 ** 32 if w["lc"] is None else w["lc"]), bx(w["prev"]), bx(w["new"]), bx(w["meta"]),
        bx(w["custom"]), w_agg(w["agg"]), clist([w_exit(e) for e in w["exits"]]),
        clist(["(Build_w_imported %s %s %s)" % (w_exit(i["exit"]), bx(i["gi"]), w_claim(i["claim"])) for i in w["imp"]]))


def j_exit(e):
    return "(%s, %s, %s)" % (bx(e["lt"]), bx(e["amt"]), copt(None if e["md"] is None else bx(e["md"])))


def j_proj(j):
    agg = "None" if j.get("agg") is None else "(Some %s)" % clist(["(%s, %s)" % (bx(k), bx(v)) for (k, v) in j["agg"]])
    return "(%s, %s, %s)" % (
        clist([j_exit(e) for e in (j.get("exits") or [])]),
        clist(["(%s, %s, %s)" % (j_exit(i["exit"]), bx(i["tag"]), clist([bx(k) for k in i["keys"]])) for i in (j.get("imp") or [])]),
        agg)


CF = {"network": "CNetwork", "height": "CHeight", "prev_ler": "CPrevLer", "new_ler": "CNewLer", "metadata": "CMetadata",
      "leaf_count": "CLeafCount"}
XF = {"leaf_type": "XLeafType", "orig_net": "XOrigNet", "orig_addr": "XOrigAddr", "dest_net": "XDestNet", "dest_addr": "XDestAddr"}
GF = {"flag": "GFlag", "rollup": "GRollup", "leaf": "GLeaf"}
LF = {"index": "LIndex", "rer": "LRer", "mer": "LMer", "ger": "LGer", "block_hash": "LBlockHash", "timestamp": "LTimestamp"}


def c_pert(p):
    k = p["k"]
    imp, i, j, n, v = cbool(p.get("imp", False)), cnat(p.get("i", 0)), cnat(p.get("j", 0)), cnat(p.get("n", 0)), p.get("v", "")
    if k == "cert_n":
        return "(PCert %s %s)" % (CF[p["f"]], cN(v))
    if k == "custom":
        return "(PCustom %s)" % bx(v)
    if k == "agg_params":
        return "(PAggParams %s)" % cN(v)
    if k == "agg_sig":
        return "(PAggSig %s)" % bx(v)
    if k == "exit_n":
        return "(PExitN %s %s %s %s)" % (imp, i, XF[p["f"]], cN(v))
    if k == "exit_amount":
        return "(PExitAmount %s %s %s)" % (imp, i, "None" if p.get("nil") else "(Some %s)" % cN(v))
    if k == "exit_meta":
        return "(PExitMeta %s %s %s)" % (imp, i, "None" if p.get("nil") else "(Some %s)" % bx(v))
    if k == "gi":
        return "(PGi %s %s %s)" % (i, GF[p["f"]], cN(v))
    if k == "proof_root":
        return "(PProofRoot %s %s %s)" % (i, j, cN(v))
    if k == "proof_sib":
        return "(PProofSib %s %s %s %s)" % (i, j, n, cN(v))
    if k == "l1":
        return "(PL1 %s %s %s)" % (i, LF[p["f"]], cN(v))
    if k == "claim_kind":
        return "(PClaimKind %s)" % i
    if k == "swap":
        return "(PSwap %s %s)" % (imp, i)
    if k == "drop_last":
        return "(PDropLast %s)" % imp
    raise ValueError("unknown perturbation %r" % k)


def h3(h):
    return "(%s, %s, %s)" % (cNhex(h.get("id", "")), cNhex(h.get("pp", "")), cNhex(h.get("fep", "")))


def coq_case(o):
    i = o["in"]
    pr = i.get("prover") or {}
    prover = "(%s, %s, %s, %s, %s, %s)" % (bx(pr.get("proof", "")), bx(pr.get("version", "")), bx(pr.get("vkey", "")),
                                           nh(pr.get("params", "") or "0"), c_ctx(pr.get("ctx")), bx(i.get("pcust", "")))
    rt_err = o.get("rt_err", "")
    has_json = rt_err not in ("marshal_panic", "marshal")
    sub = o.get("sub") or {}
    fields = [
        ("o_fep", cbool(i["scheme"] == "fep")),
        ("o_in", c_cert(i["cert"])),
        ("o_prover", prover),
        ("o_err", cbool(bool(o.get("err")))),
        ("o_signer_calls", cN(o["signer_calls"])),
        ("o_signer_in", cNhex(o.get("signer_in", ""))),
        ("o_sig_out", bx(o.get("sig_out", ""))),
        ("o_recover_ok", cbool(o["recover_ok"])),
        ("o_final", c_cert(o["final"])),
        ("o_wire", w_cert(o.get("wire") if not o.get("send_err") else None)),
        ("o_h", h3(o["h"])),
        ("o_sub_exits", clist([cNhex(h) for h in (sub.get("exits") or [])])),
        ("o_sub_imp", clist(["(%s, %s, %s, %s, %s, %s)" % (cNhex(s["h"]), cNhex(s["exit"]), cNhex(s["claim"]), cNhex(s["gi"]),
                                                         clist([cNhex(p) for p in (s.get("proofs") or [])]), cNhex(s["leaf"]))
                              for s in (sub.get("imp") or [])])),
        ("o_json", "(Some %s)" % j_proj(o["json"]) if has_json else "None"),
        ("o_rt", "(Some %s)" % c_cert(o["rt"]) if rt_err == "" else "None"),
        ("o_hrt", h3(o.get("hrt") or {})),
        ("o_perts", clist(["(%s, %s)" % (c_pert(p), h3(h)) for (p, h) in zip(i.get("perts") or [], o.get("perts") or [])])),
    ]
    return "{| " + "; ".join("%s := %s" % kv for kv in fields) + " |}"


def _key(o):
    return hashlib.sha1(json.dumps(o["in"], sort_keys=True).encode()).hexdigest()


def nontrivial_key(o):
    c = o["in"]["cert"]
    if not (c.get("exits") or c.get("imp")):
        return None
    if o.get("err") or o.get("send_err") or o.get("rt_err"):
        return None
    return [_key(o)]


def finding_key(o):
    return None


def _md_kind(md):
    if md is None:
        return "md_nil"
    n = len(md) // 2
    return "md_empty" if n == 0 else ("md_32" if n == 32 else "md_other_len")


def distribution(outs):
    d = {"pp": 0, "fep": 0, "perturbations": 0, "stored_via_sqlite": 0, "json_marshal_panic_noncanonical": 0,
         "exits": 0, "imported": 0, "claim_mainnet": 0, "claim_rollup": 0, "amount_nil": 0, "amount_zero": 0, "amount_max": 0,
         "md_nil": 0, "md_empty": 0, "md_32": 0, "md_other_len": 0, "gi_mainnet_flag": 0}
    tags = {}
    pk = {}
    for o in outs:
        i = o["in"]
        d[i["scheme"]] += 1
        tags[i.get("tag", "")] = tags.get(i.get("tag", ""), 0) + 1
        d["perturbations"] += len(i.get("perts") or [])
        for p in i.get("perts") or []:
            name = p["k"] + (":" + p["f"] if p.get("f") else "")
            pk[name] = pk.get(name, 0) + 1
        d["stored_via_sqlite"] += 1 if o.get("stored_via") == "sqlite" else 0
        d["json_marshal_panic_noncanonical"] += 1 if o.get("rt_err") == "marshal_panic" else 0
        c = i["cert"]
        exits = list(c.get("exits") or []) + [m["exit"] for m in (c.get("imp") or [])]
        d["exits"] += len(c.get("exits") or [])
        d["imported"] += len(c.get("imp") or [])
        for m in c.get("imp") or []:
            d["claim_" + m["claim"]["kind"]] += 1
            d["gi_mainnet_flag"] += 1 if m["gi"]["m"] else 0
        for e in exits:
            d[_md_kind(e["md"])] += 1
            if e["amt"] is None:
                d["amount_nil"] += 1
            elif e["amt"] == "0":
                d["amount_zero"] += 1
            elif int(e["amt"]) == 2 ** 256 - 1:
                d["amount_max"] += 1
    d["tags"] = tags
    d["perturbation_kinds"] = pk
    return d


LEVEL_TEXT = ("Kernel-checked theorems, for ALL certificates (any number of exits / imported exits, nil / zero / maximal amounts, both claim "
              "kinds, both schemes): every commitment (Certificate.Hash, PPHashToSign, FEPHashToSign and every sub-hash) is an explicit "
              "byte-level preimage builder; each builder is injective in its covered fields (fixed widths, the one variable-length field "
              "last), hence under collision-freedom of the hash on the preimages involved equal commitments force equal covered fields "
              "(= changing a covered field changes the commitment), and conversely the commitments depend on nothing else; the protobuf "
              "message and the JSON copy of a canonical certificate reproduce every covered field, the commitments and the signature; the "
              "sign step signs the commitment of the final certificate and changes no covered field. The model is tied to the Go code by "
              "running the real hash functions, the real sign step of both flows, the real gRPC client (request captured) and the real "
              "stored copy (SQLite) on generated certificates and on every single-field perturbation, compared byte for byte inside Coq "
              "with real Keccak-256.")
LEVEL_NOTE = ("Partial clause: 'produced by the configured signer' - ECDSA is not modelled; the harness checks that the signature attached "
              "is the recording signer's output and that it recovers to the configured key. Trusted: Coq kernel + vm_compute, the hand "
              "transcription of the Go hash / conversion / codec code (validated by the correspondence), the generated Keccak-256, "
              "protobuf marshalling below the request struct, encoding/json and go-ethereum text codecs for fixed-size types, SQLite.")
TECHNIQUE = ("Coq proof (injectivity of byte-level preimage builders, projections) generic in the hash + differential correspondence via "
             "vm_compute with real Keccak-256 on the real sign / send / store path and on single-field perturbations")
