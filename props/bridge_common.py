"""JSON observation of harness/bridge -> Coq term of type bcase (Model/BridgeCases.v)."""
from vlib import cN, cNhex, cbool, clist, copt, cbytes

IMPORTS = ("From Coq Require Import NArith ZArith List.\n"
           "From Verif Require Import Base.Bytes Model.TreeStore Model.BridgeStore Model.BridgeCases.")
CODES = {"ok": 0, "inconsistent": 1, "fault": 2, "constraint": 3}
TABLES = {"block": "TBlock", "root": "TRoot", "rht": "TRht", "bridge": "TBridge", "claim": "TClaim", "tm": "TTm", "legacy": "TLegacy"}


def ev(e):
    t = e["t"]
    if t == "bridge":
        amt = e.get("amount", "") or "0"
        return ("EBridge (mkB %s %s %s %s %s %s %s %s %s %s)" % (
            cN(e["pos"]), cN(e.get("dc", 0)), cN(e.get("lt", 0)), cN(e.get("onet", 0)), cNhex(e.get("oaddr", "")),
            cN(e.get("dnet", 0)), cNhex(e.get("daddr", "")), cN(amt), cbytes(e.get("meta", "")), cN(e.get("tag", 0))))
    if t == "claim":
        return "EClaim %s %s" % (cN(e["pos"]), cN(e["tag"]))
    if t == "tm":
        return "ETokenMapping %s %s" % (cN(e["pos"]), cN(e["tag"]))
    if t == "legacy":
        return "ELegacy %s %s %s" % (cN(e["pos"]), cNhex(e["addr"]), cN(e["tag"]))
    if t == "rmlegacy":
        return "ERemoveLegacy %s" % cNhex(e["addr"])
    raise ValueError(t)


def op(o):
    k = o["k"]
    if k == "block":
        f = o.get("fault")
        if f and f.get("cancel"):
            raise ValueError("cancel ops are expanded by ops_and_codes")
        if f and f.get("hide"):
            return "OHidden (mkBlock %s %s)" % (cN(o["num"]), clist([ev(e) for e in o.get("events") or []]))
        if f and f.get("read"):
            f = None     # a slow statement with concurrent readers: the block itself is processed without fault
        fs = "None" if not f else "(Some (%s, %d%%nat))" % (TABLES[f["table"]], f["k"])
        return "OBlock (mkBlock %s %s) %s" % (cN(o["num"]), clist([ev(e) for e in o.get("events") or []]), fs)
    if k == "reorg":
        return "OReorg %s" % cN(o["b"])
    if k == "prestate":
        return "OPrestate %s %s %s" % (cN(o["n"]), cNhex(o["x"]), cN(o["num"]))
    if k == "drive":
        items = []
        for b in o.get("blocks") or []:
            f = b.get("fault")
            fs = "None" if not f else "(Some (%s, %d%%nat))" % (TABLES[f["table"]], f["k"])
            items.append("(mkBlock %s %s, %s)" % (cN(b["num"]), clist([ev(e) for e in b.get("events") or []]), fs))
        return "ODrive %s" % clist(items)
    return {"restart": "ORestart", "snap": "OSnap", "reset": "OReset"}[k]


def rows3(rs):
    return clist(["(%s, %s, %s)" % (cN(r["block"]), cN(r["pos"]), cN(r["tag"])) for r in rs or []])


def snap(s):
    roots = clist(["(%s, %s)" % (cN(r["idx"]), "None" if not r["hash"] else "Some (%s, %s, %s)" % (
        cNhex(r["hash"]), cN(r["block"]), cN(r["bpos"]))) for r in s.get("roots") or []])
    bridges = clist(["(%s, %s, %s, %s, %s)" % (cN(r["block"]), cN(r["pos"]), cN(r["tag"]), cN(r["dc"]), cNhex(r["leaf"]))
                     for r in s.get("bridges") or []])
    bpg = clist(["(%s, %s, %s, %s)" % (cN(r["block"]), cN(r["pos"]), cN(r["tag"]), cN(r["dc"])) for r in s.get("bridges_paged") or []])
    proofs = clist(["mkPO %s %s %s %s %s" % (
        cNhex(p["root"]), cN(p["idx"]), clist([cNhex(x) for x in p.get("sibs") or []]),
        copt(cNhex(p["calc"]) if p.get("calc") else None), copt(cN(p["byler"]) if p["byler"] >= 0 else None))
        for p in s.get("proofs") or []])
    extra = clist([cNhex(x["d"]) for x in s.get("extra") or []])
    return "mkSnap %s %s (%d)%%Z %s %s %s %s %s %s %s %s %s %s" % (
        cN(s["last"]), cbool(s["halted"]), s["mem_last"], roots, bridges, cbool(bool(s.get("bridges_err"))),
        rows3(s.get("claims")), rows3(s.get("tm")), rows3(s.get("legacy")), bpg, rows3(s.get("claims_paged")), proofs, extra)


def codes(rs):
    return clist([cN(CODES.get(r, 9)) for r in rs or []])


def ops_and_codes(ops, res):
    """Op list and result codes as Coq terms. A block op whose context was cancelled mid-transaction (fault.cancel) is, for the
    model, what was OBSERVED: either the block was committed before the cancellation took effect (result ok: OBlock without
    fault) or the transaction was rolled back (any error: OBlock with a fault at its first statement, same database as for
    any other failing statement), followed by the restart the harness performs (the rollback callbacks that the real code
    skips in this case do not matter to a new processor object)."""
    res = list(res or [])
    res += ["ok"] * (len(ops) - len(res)) if len(res) < len(ops) else []
    terms, cs = [], []
    for o, r in zip(ops, res):
        f = o.get("fault") if o["k"] == "block" else None
        if f and f.get("cancel"):
            blk = "(mkBlock %s %s)" % (cN(o["num"]), clist([ev(e) for e in o.get("events") or []]))
            if r == "ok":
                terms.append("OBlock %s None" % blk)
            else:
                terms.append("OBlock %s (Some (TBlock, 0%%nat))" % blk)
            cs.append(r)
            terms.append("ORestart")
            cs.append("ok")
        else:
            terms.append(op(o))
            cs.append(r)
    return clist(terms), codes(cs)


def coq_case(o):
    i = o["in"]
    ops_t, res_t = ops_and_codes(i["ops"], o.get("res"))
    tops_t, tres_t = ops_and_codes(i.get("twin_ops") or [], o.get("twin_res"))
    return "mkCase %s %s %s %s %s %s %s" % (
        ops_t, res_t, clist([snap(s) for s in o.get("snaps") or []]),
        clist([cNhex(x) for x in o.get("leaves") or []]),
        tops_t, tres_t,
        clist([snap(s) for s in o.get("twin_snaps") or []]))


def distribution(outs):
    d = {"cases": len(outs), "blocks": 0, "bridge_events": 0, "other_events": 0, "faults": 0, "reorgs": 0, "restarts": 0,
         "snapshots": 0, "proofs_observed": 0, "result_codes": {}, "harness_errors": 0}
    for o in outs:
        if o.get("err"):
            d["harness_errors"] += 1
        for x in o["in"]["ops"]:
            if x["k"] == "block":
                d["blocks"] += 1
                for e in x.get("events") or []:
                    d["bridge_events" if e["t"] == "bridge" else "other_events"] += 1
                if x.get("fault"):
                    d["faults"] += 1
                    if x["fault"].get("read"):
                        d["faults"] -= 1
                        d["blocks_with_mid_transaction_readers"] = d.get("blocks_with_mid_transaction_readers", 0) + 1
                    if x["fault"].get("cancel"):
                        d["context_cancellations_mid_block"] = d.get("context_cancellations_mid_block", 0) + 1
            elif x["k"] == "reorg":
                d["reorgs"] += 1
            elif x["k"] == "restart":
                d["restarts"] += 1
        for r in o.get("res") or []:
            d["result_codes"][r] = d["result_codes"].get(r, 0) + 1
        for s in o.get("snaps") or []:
            d["snapshots"] += 1
            d["proofs_observed"] += len(s.get("proofs") or [])
    return d
