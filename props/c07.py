"""C07"""
import bridge_common as bc

ID = "C07"
PROPERTIES_V = ["theories/Properties/C07.v"]
MAKE_TARGETS = ["theories/Properties/C07.vo", "theories/Model/BridgeCases.vo"]
HARNESS = "bridge"
HARNESS_ARGS = ["-prop", "c07"]
CASES_IMPORTS = bc.IMPORTS
CASE_TYPE = "bcase"
CORR = "corr"
SPEC = "spec_asif"
SHARD = 4
RULE = ('random histories of blocks with 0-5 events of mixed kinds (bridge, claim, token mapping, legacy migration); about half of the blocks are first processed with an injected storage fault (SQL trigger raising ABORT on the k-th write to one of block/root/rht/bridge/claim/token_mapping/legacy_token_migration, k chosen so that the fault fires), sometimes twice and sometimes followed by a process restart, then processed again without fault; the twin run processes the same blocks once without faults; a case is non-trivial when at least one fault fired (result code fault/inconsistent) and at least one bridge event was appended after it; distinct = distinct op list')
ASSUMPTIONS = ["deposit counts on chain are consecutive from 0 (the contract guarantees it)",
               "Keccak-256 modelled as an injective node function in the theorems that read the stored nodes (restart)",
               "the EVM/Solidity side is represented by a hand transcription of DepositContractBase (Model/Contracts.v)"]
coq_case = bc.coq_case
distribution = bc.distribution


def cases_n(tier):
    return 14 if tier == "quick" else 200


def nontrivial_key(o):
    fired = any(r in ("fault", "inconsistent") for r in o.get("res") or [])
    return o["in"]["ops"] if fired else None


def finding_key(o):
    return None


LEVEL_TEXT = ('Kernel-checked: the frontier invariant is re-established by initCache from any closed store, so a rollback that drops the cache (fix F1) makes the retry compute the reference roots; the executable store model (transaction = functional state, rollback callbacks explicit) is compared with the real processor under injected faults, and the property itself is evaluated as equality of every query between the faulted run and a fault-free twin run of the real code.')
LEVEL_NOTE = ("Trusted: Coq kernel + vm_compute; Gallina Keccak (cross-checked); hand transcription of AddLeaf/initCache/Bridge.Hash and of the "
              "Solidity DepositContract; SQLite; the theorems that read stored nodes assume an injective node hash (stated hypothesis).")
TECHNIQUE = "Coq proof by induction over tree height (frontier invariant) + differential correspondence via vm_compute"

# the injected-GER store part of C07 (real lastgersync processor under storage faults vs a fault-free twin)
import ger_common
PROPERTIES_V = PROPERTIES_V + ["theories/Properties/GerStore.v"]
MAKE_TARGETS = MAKE_TARGETS + ["theories/Properties/GerStore.vo"]


import l1info_common


def extra_checks(chk):
    ger_common.run_c07_part(chk)
    l1info_common.run_c07_part(chk)      # the L1 info tree store part (real l1infotreesync processor)
