"""C12 - the bridge API's claim flow yields proofs the bridge contract would accept."""
import hashlib
import json

ID = "C12"
PROPERTIES_V = ["theories/Properties/C12.v"]
MAKE_TARGETS = ["theories/Properties/C12.vo", "theories/Model/C12Cases.vo", "theories/Proofs/GenAgreeL1InfoIndex.vo"]
HARNESS = "c12"
CASES_IMPORTS = ("From Coq Require Import NArith ZArith List Uint63.\n"
                 "From Verif Require Import Base.Bytes Model.TreeStore Model.BridgeStore Model.ClaimFlow Model.C12Cases.")
CASE_TYPE = "case12"
CORR = "corr"
SPEC = "spec"
SHARD = 2
RULE = ("joint histories run on the REAL BridgeService (real gin router via httptest) over REAL stores: L1 and L2 bridgesync processors and the "
        "l1infotreesync processor, each on its own SQLite file. L1 info blocks carry UpdateL1InfoTree / VerifyBatches events, several per block, "
        "whose mainnet exit roots / local exit roots are real roots of the two bridge histories at chosen deposit counts (current, lagging, going "
        "backwards), plus unknown roots, zero and repeated exit roots, other rollups (ids 0, 1, 2, 3, own+-1, 2^32-1), stale or unknown rollup exit "
        "roots; boundary histories first (every malformed request, first info block = block 0 [the targetBlock-1 underflow], no info leaf, bridge "
        "syncers lagging behind the info syncer, own network id 0, block numbers up to 2^40 apart). Requests per case: claim-proof for EVERY "
        "(network in {0, own}) x (info index 0..n, one beyond) x (deposit count 0..m, one beyond); l1-info-tree-index for every network x deposit "
        "count; injected-l1-info-leaf for every index; unsupported networks; malformed / missing / out-of-range parameters. A case is non-trivial "
        "when at least one claim proof for the own rollup on a covering leaf was served (local proof + rollup proof re-hashed in Coq) and at least "
        "one index lookup returned an index; distinct = distinct case input (sha1)")
ASSUMPTIONS = [
    "deposit counts of recorded bridges are consecutive from 0 per network (the bridge contract guarantees it)",
    "claim_proof_verifies: the node tables are well formed (every stored row k -> (l, r) has k = node l r) and every recorded exit root "
    "is the root of a closed version (C08's closed-store invariant, maintained by appends); no hash hypothesis",
    "index_search_sound_l2: every verify_batches row records the rollup exit root under which its own exit root sits at position rollupID-1 "
    "(what processVerifyBatches writes; derivable from C08/C11 closed versions: lemma verified_coherent_from_closed, needs an injective node hash), "
    "and GetFirstL1InfoWithRollupExitRoot(r) answers a leaf whose rollup exit root is r",
    "termination within 64 iterations: every recorded info / verify_batches block number is < 2^63 - 1 (SQLite INTEGER) and "
    "Get...AfterBlock(b) only answers rows of blocks >= b",
    "halted syncers (ErrInconsistentState from every facade call) are C14's subject and are not exercised here; rollup exit tree root "
    "recurrence (finding F4 of C11) is excluded from the generated histories",
]
TRUSTED_EXTRA = [
    "harness/c12: fake LastGERer (identity), exit roots placed into the generated events are computed by the harness's own plain recursive "
    "Merkle root (not by the code under test); HTTP error bodies are mapped to a small enum by substring",
    "hooks /repo/l1infotreesync/verif_export_c12.go (facade around newProcessor + ProcessBlock) and /repo/bridgeservice/verif_export_c12.go "
    "(returns the service's gin router), build tag verif",
]

ERR = {"": 0, "notfound": 1, "notonl1info": 2, "netzero": 3, "unsupported": 4,
       "badparam:network_id": 10, "badparam:leaf_index": 11, "badparam:deposit_count": 12}
KIND = {"proof": 0, "index": 1, "leaf": 2}
CODES = {"ok": 0, "inconsistent": 1, "fault": 2, "constraint": 3}


def cases_n(tier):
    global SHARD
    SHARD = 2 if tier == "quick" else 8
    return 30 if tier == "quick" else 160


class Pool:
    """Numbers >= 2^32 are bound once per case by `let` as 60-bit limbs (big N literals parse slowly)."""

    def __init__(self):
        self.names = {}

    def n(self, v):
        v = int(v)
        if v < (1 << 32):
            return "%d%%N" % v
        if v not in self.names:
            self.names[v] = "v%d" % len(self.names)
        return self.names[v]

    def h(self, s):
        return self.n(int(s, 16) if s else 0)

    @staticmethod
    def lit(v):
        limbs = []
        while v:
            limbs.append("%d%%uint63" % (v & ((1 << 60) - 1)))
            v >>= 60
        return "(nb [%s])" % ";".join(limbs)

    def wrap(self, term):
        lets = "".join("let %s := %s in\n" % (name, self.lit(v)) for v, name in self.names.items())
        return "(%s%s)" % (lets, term)


def lst(items):
    return "[" + "; ".join(items) + "]"


def bytes_lit(h):
    return "[" + ";".join(str(int(h[i:i + 2], 16)) for i in range(0, len(h), 2)) + "]%N"


def bridge_block(p, b):
    evs = []
    for e in b.get("events") or []:
        evs.append("EBridge (mkB %s %s %s %s %s %s %s %s %s %s)" % (
            p.n(e["pos"]), p.n(e.get("dc", 0)), p.n(e.get("lt", 0)), p.n(e.get("onet", 0)), p.h(e.get("oaddr", "")),
            p.n(e.get("dnet", 0)), p.h(e.get("daddr", "")), p.n(e.get("amount", "") or "0"), bytes_lit(e.get("meta", "")),
            p.n(e.get("tag", 0))))
    return "mkBlock %s %s" % (p.n(b["num"]), lst(evs))


def info_block(p, b):
    evs = []
    for e in b.get("events") or []:
        if e["t"] == "info":
            evs.append("IUpdate %s %s %s" % (p.n(e["pos"]), p.h(e.get("mer", "")), p.h(e.get("rer", ""))))
        else:
            evs.append("IVerify %s %s %s" % (p.n(e["pos"]), p.n(e.get("rid", 0)), p.h(e.get("exit", ""))))
    return "mkIBlock %s %s" % (p.n(b["num"]), lst(evs))


def param(p, x):
    if x is None or x.get("k") == "missing":
        return "PMissing"
    if x["k"] == "bad":
        return "PMissing" if x.get("raw", "") == "" else "PBad"
    return "(PNum %s)" % p.n(x.get("v", 0))


def qobs(p, q):
    qq = q["q"]
    kind = KIND[qq["k"]]
    # parameters a handler does not read are transcribed as absent
    net, idx, dc = param(p, qq.get("net")), param(p, qq.get("idx")), param(p, qq.get("dc"))
    if kind == 1:
        idx = "PMissing"
    if kind == 2:
        dc = "PMissing"
    info = "None"
    if q.get("info"):
        i = q["info"]
        info = "(Some (%s, %s, %s, %s, %s, %s))" % (p.n(i["block"]), p.n(i["pos"]), p.n(i["index"]), p.h(i["mer"]), p.h(i["rer"]), p.h(i["ger"]))
    index = "None" if q.get("index") is None else "(Some %s)" % p.n(q["index"])
    return "mkQ %d%%N %s %s %s %d%%N %d%%N %s %s %s %s" % (
        kind, net, idx, dc, q["status"], ERR.get(q.get("err", ""), 98),
        lst([p.h(x) for x in q.get("pl") or []]), lst([p.h(x) for x in q.get("pr") or []]), info, index)


def codes(p, rs):
    return lst(["%d%%N" % CODES.get(r, 9) for r in rs or []])


def coq_case(o):
    if o.get("err"):
        raise RuntimeError("harness c12 failed on a case: %s" % o["err"])
    i = o["in"]
    p = Pool()
    term = "mkCase12 %s %s %s %s %s %s %s %s" % (
        p.n(i["net"]), lst([bridge_block(p, b) for b in i.get("l1b") or []]), lst([bridge_block(p, b) for b in i.get("l2b") or []]),
        lst([info_block(p, b) for b in i.get("l1i") or []]),
        codes(p, o.get("res_l1b")), codes(p, o.get("res_l2b")), codes(p, o.get("res_l1i")),
        lst([qobs(p, q) for q in o.get("qs") or []]))
    return p.wrap(term)


def nontrivial_key(o):
    net = o["in"]["net"]
    served_l2 = any(q["q"]["k"] == "proof" and q["status"] == 200 and q["q"]["net"].get("v", 0) == net and net != 0 and
                    any(int(x, 16) != 0 for x in q.get("pr") or []) for q in o.get("qs") or [])
    found = any(q["q"]["k"] == "index" and q["status"] == 200 for q in o.get("qs") or [])
    if served_l2 and found:
        return hashlib.sha1(json.dumps(o["in"], sort_keys=True).encode()).hexdigest()
    return None


def finding_key(o):
    return None


def distribution(outs):
    d = {"cases": len(outs), "l1_bridges": 0, "l2_bridges": 0, "info_leaves": 0, "verify_batches": 0, "info_blocks": 0,
         "requests": {}, "claim_proofs_served_network_0": 0, "claim_proofs_served_own_rollup": 0, "first_info_block_0": 0, "own_network_ids": {}, "setup_results": {}}
    for o in outs:
        i = o["in"]
        d["l1_bridges"] += sum(len(b.get("events") or []) for b in i.get("l1b") or [])
        d["l2_bridges"] += sum(len(b.get("events") or []) for b in i.get("l2b") or [])
        blocks = i.get("l1i") or []
        d["info_blocks"] += len(blocks)
        for b in blocks:
            for e in b.get("events") or []:
                d["info_leaves" if e["t"] == "info" else "verify_batches"] += 1
        withinfo = [b["num"] for b in blocks if any(e["t"] == "info" for e in b.get("events") or [])]
        if withinfo and withinfo[0] == 0:
            d["first_info_block_0"] += 1
        k = str(i["net"])
        d["own_network_ids"][k] = d["own_network_ids"].get(k, 0) + 1
        for r in (o.get("res_l1b") or []) + (o.get("res_l2b") or []) + (o.get("res_l1i") or []):
            d["setup_results"][r] = d["setup_results"].get(r, 0) + 1
        for q in o.get("qs") or []:
            key = "%s:%d:%s" % (q["q"]["k"], q["status"], q.get("err", "") or "ok")
            d["requests"][key] = d["requests"].get(key, 0) + 1
            if q["q"]["k"] == "proof" and q["status"] == 200:
                own = q["q"]["net"].get("v", 0) != 0
                d["claim_proofs_served_own_rollup" if own else "claim_proofs_served_network_0"] += 1
    return d


LEVEL_TEXT = ("Kernel-checked for ALL stores behind the service (the three syncers are records of query functions, digest type abstract): "
              "claim_proof_verifies - whenever ClaimProofHandler answers, the leaf returned is the requested index's, the rollup proof hashes the "
              "rollup's local exit root (GetLocalExitRoot) at position networkID-1 to the leaf's rollup exit root (node-table well-formedness alone), "
              "and when the leaf covers the bridge the local proof hashes the bridge's leaf at its deposit count to the mainnet exit root (network 0) "
              "/ that local exit root (own rollup) (closed-store invariant of C08); index_search_sound_l1 / _l2 - an index returned by the two binary "
              "searches always belongs to a leaf that covers the deposit count, with NO monotonicity assumption on the history (every assignment "
              "to bestResult is guarded); index_search_error_or_cover - every lookup ends within the fuel of 64 iterations, block-0 underflow "
              "included, in a covering index or an error. Minimality is not claimed and is refuted by a witness (index_search_not_minimal); "
              "the block-0 underflow turns an answerable lookup into an error (index_search_block0_incomplete), which the property allows.")
LEVEL_NOTE = ("Trusted: Coq kernel + vm_compute; Gallina Keccak (cross-checked); hand transcription of the three handlers, the two searches, "
              "parseUintQuery and the facade functions (Model/ClaimFlow.v), tied to the source by running the real BridgeService over real SQLite "
              "stores and comparing every HTTP answer; gin, database/sql, SQLite, meddler are exercised, not verified. The executable instance "
              "of the L1 info store models only UpdateL1InfoTree / VerifyBatches and the tables the service reads.")
TECHNIQUE = ("Coq proof (induction on the search fuel with a guarded-best invariant; halving measure for termination; C08's walk/closed-store "
             "lemmas for the proofs) + differential correspondence through the real HTTP handlers via vm_compute")
