"""C05 - syncers deliver every watched event exactly once, in chain order."""
import hashlib
import json

from vlib import cbool

ID = "C05"
PROPERTIES_V = ["theories/Properties/C05.v"]
MAKE_TARGETS = ["theories/Properties/C05.vo", "theories/Model/C05Cases.vo"]
HARNESS = "c05"
CASES_IMPORTS = "From Coq Require Import NArith List Bool.\nFrom Verif Require Import Model.Downloader Model.C05Cases."
CASE_TYPE = "case05"
CORR = "corr"
SPEC = "spec"
SHARD = 300
EXTRA_DEFS = ("Open Scope N_scope.\n"
              "Definition mkL (a t : N) (r : bool) (i : N) : rawlog := {| l_addr := a; l_topic := t; l_removed := r; l_idx := i |}.\n"
              "Definition mkT (tip fin : N) (e : bool) : tick := {| t_tip := tip; t_fin := fin; t_err := e |}.\n"
              "Definition mkB (n : N) (evs : list ev) (f : bool) : dblock := {| b_num := n; b_events := evs; b_fin := f |}.\n")
RULE = ("real EVMDownloader.Download + real EVMDriver.Sync against a scripted node whose tip/finalized pointer move per block-tag RPC call. "
        "Exhaustive stream: every chain of 1..4 blocks (thorough: 1..6) x every placement of event blocks (event blocks carry 1-3 logs incl. "
        "foreign topic/address and Removed logs, quiet blocks carry only foreign/Removed logs) x chunk 1,2,3 x 12 poll schedules (all final at once, "
        "never final, +1/+2 per call with lag 0/1/2, creeping finality, failing calls, finalized pointer jumping back, stalled tip); random stream: "
        "chains <= 40 blocks, 0-3 logs per block, chunk in {1,2,3,7,100}, finality lag in {0,1,5,never}, tip advancing 0..10 per call with stalls, "
        "block-finality configs Latest/Finalized, Finalized/Finalized, Latest/Latest, Latest/Safe, Safe/Finalized, restart in mid-chain, "
        "channel buffer 0/1/3/100; every numbered RPC call (eth_getLogs, header by number) has a scripted outcome: ok, generic error, error wrapping "
        "context.DeadlineExceeded, NotFound, error wrapping context.Canceled with the caller's context alive, header answered with another "
        "hash; exhaustive chains x chunks x 2 schedules are re-run with 4 outcome scripts (timeout of the first eth_getLogs, retried failures of "
        "every kind, hash mismatch on the 2nd event block of a range, mismatch on 1st then 2nd); separate streams: transient failures of every "
        "RPC incl. the block-tag calls in all three flavours, ProcessBlock, AddBlockToTrack and the appender (err), 1-5 hash mismatches on "
        "the 1st/2nd/3rd event block of a range (mismatch), non-monotone answers (jitter), and model-vs-code only: node behind the store "
        "(regress, outside H1), 6+ mismatches in a row (giveup) and context.Canceled with a live context (cancel), both outside H3. "
        "A case is non-trivial when the real downloader delivered at least one block with events and made at least two eth_getLogs range "
        "queries; distinct = distinct input")
ASSUMPTIONS = ["static growing chain: block contents never change (reorgs are C06); eth_getLogs answers in chain order with the logs of the "
               "requested range and addresses",
               "(H1) the node's tip is never more than one block behind the block the download starts from; otherwise the real code moves its "
               "cursor and the store marker backwards (Example C05_tip_behind_store_moves_cursor_backwards, replayed in stream 'regress')",
               "(H2) cursor arithmetic stays below 2^64: tip bound + 1 + (polls + 1) * chunk < 2^64",
               "(H3) no numbered RPC call fails with an error wrapping context.Canceled while the downloader's context is alive, and at most "
               "MaxRetryCountBlockHashMismatch (5) header answers carry a hash different from the logs' block hash; otherwise the real code "
               "treats the nil result as 'no logs' and the marker passes undelivered event blocks (Examples C05_canceled_getlogs_loses_events, "
               "C05_hash_mismatch_giveup_loses_events; replayed in streams 'cancel' and 'giveup')",
               "partial: RetryHandler sleeps/Fatalf, goroutine scheduling and channel hand-over are exercised by the harness only"]
HARNESS_TIMEOUT = 1500


def cases_n(tier):
    return 500 if tier == "quick" else 6000


def n(v):
    return str(int(v))


def lst(items):
    return "[" + "; ".join(items) + "]"


def evs(es):
    return lst("(%s, %s)" % (n(e[0]), n(e[1])) for e in (es or []))


def finflag(mode):
    return mode in ("LF", "FF")


def coq_case(o):
    i = o["in"]
    cfg = "{| c_chunk := %s; c_addrs := %s; c_topics := %s; c_finflag := %s |}" % (
        n(i["chunk"]), lst(n(a) for a in i["addrs"]), lst(n(t) for t in i["topics"]), cbool(finflag(i["mode"])))
    chain = lst(lst("mkL %s %s %s %s" % (n(l["a"]), n(l["t"]), cbool(l["r"]), n(k)) for k, l in enumerate(b)) for b in i["chain"])
    ticks = lst("mkT %s %s %s" % (n(t["tip"]), n(t["fin"]), cbool(t["err"])) for t in i["ticks"])
    calls = lst(CRES[c] for c in (i.get("calls") or []))
    chan = lst("mkB %s %s %s" % (n(b["num"]), evs(b["events"]), cbool(b["fin"])) for b in (o.get("chan") or []))
    proc = lst("(%s, %s)" % (n(b["num"]), evs(b["events"])) for b in (o.get("proc") or []))
    return ("{| k_cfg := %s; k_chain := %s; k_lp0 := %s; k_ticks := %s; k_calls := %s; o_chan := %s; o_proc := %s; o_tracked := %s; o_lp := %s; "
            "o_queries := %s; o_done := %s |}" % (
                cfg, chain, n(i["lp0"]), ticks, calls, chan, proc, lst(n(x) for x in (o.get("tracked") or [])), n(o.get("lp", 0)),
                lst("(%s, %s)" % (n(q[0]), n(q[1])) for q in (o.get("queries") or [])), cbool(o.get("done", False))))


CRES = {"ok": "ROk", "err": "RErr", "deadline": "RDeadline", "notfound": "RNotFound", "canceled": "RCanceled", "mismatch": "RMismatch"}


def outside_h3(i):
    c = i.get("calls") or []
    return "canceled" in c or c.count("mismatch") > 5


def events_lost(o):
    """an event block at or below the store marker that was never handed over (judged only inside the hypotheses)"""
    i = o["in"]
    got = {b["num"] for b in (o.get("proc") or [])}
    for k, logs in enumerate(i["chain"]):
        if i["lp0"] < k <= o.get("lp", 0) and k not in got:
            if any((not l["r"]) and l["t"] in i["topics"] and (not i["addrs"] or l["a"] in i["addrs"]) for l in logs):
                return True
    return False


def regressed(i):
    f0 = i["lp0"] + 1
    return any((not t["err"]) and t["tip"] > 0 and f0 > t["tip"] + 1 for t in i["ticks"])


def nontrivial_key(o):
    if any(b["events"] for b in (o.get("chan") or [])) and len(o.get("queries") or []) >= 2:
        return hashlib.sha1(json.dumps(o["in"], sort_keys=True).encode()).hexdigest()
    return None


def finding_key(o):
    return None


def distribution(outs):
    d = {"kind": {}, "mode": {}, "chunk": {}, "blocks_delivered": 0, "event_blocks_delivered": 0, "empty_block_markers": 0,
         "unfinalized_deliveries_tracked": 0, "toBlock_extensions": 0, "cases_with_rpc_failures": 0, "not_done": 0,
         "outside_H1_tip_behind_store": 0, "outside_H1_block_at_or_below_store_marker_delivered": 0,
         "numbered_call_outcomes": {}, "outside_H3_canceled_or_6_mismatches": 0, "outside_H3_event_block_lost": 0,
         "getlogs_ranges_asked_again_after_hash_mismatch": 0, "max_chain": 0, "max_ticks": 0}
    for o in outs:
        i = o["in"]
        for k, v in (("kind", i["kind"]), ("mode", i["mode"]), ("chunk", str(i["chunk"]))):
            d[k][v] = d[k].get(v, 0) + 1
        ch = o.get("chan") or []
        d["blocks_delivered"] += len(ch)
        d["event_blocks_delivered"] += sum(1 for b in ch if b["events"])
        d["empty_block_markers"] += sum(1 for b in ch if not b["events"])
        d["unfinalized_deliveries_tracked"] += len(o.get("tracked") or [])
        q = o.get("queries") or []
        d["toBlock_extensions"] += sum(1 for a, b in zip(q, q[1:]) if a[0] == b[0] and b[1] > a[1])
        for c in (i.get("calls") or []):
            d["numbered_call_outcomes"][c] = d["numbered_call_outcomes"].get(c, 0) + 1
        d["getlogs_ranges_asked_again_after_hash_mismatch"] += sum(1 for a, b in zip(q, q[1:]) if a == b)
        if outside_h3(i):
            d["outside_H3_canceled_or_6_mismatches"] += 1
            if events_lost(o):
                d["outside_H3_event_block_lost"] += 1
        if any(t["err"] for t in i["ticks"]) or any(c != "ok" for c in (i.get("calls") or [])) or i["proc_err"] or i["track_err"] or i["app_err"]:
            d["cases_with_rpc_failures"] += 1
        if not o.get("done"):
            d["not_done"] += 1
        if regressed(i):
            d["outside_H1_tip_behind_store"] += 1
            if any(b["num"] <= i["lp0"] for b in ch):
                d["outside_H1_block_at_or_below_store_marker_delivered"] += 1
        d["max_chain"] = max(d["max_chain"], len(i["chain"]) - 1)
        d["max_ticks"] = max(d["max_ticks"], len(i["ticks"]))
    return d


LEVEL_TEXT = ("Kernel-checked loop invariant of Download for EVERY chain, every chunk >= 1, every finite sequence of node answers (tip and "
              "finalized number arbitrary per call, failing calls included) and every run length: delivered block numbers strictly increase, each "
              "delivered block carries exactly the watched logs of its own block in log order (GetLogs filter and the per-block grouping of "
              "getEventsByBlockRangeWithRetry are part of the model and proved equal to the naive per-block filter), every event block below the "
              "cursor has been delivered; with the driver, the last-processed marker never passes an unstored event block at any moment; plus a "
              "progress theorem (cursor passes k within 2(k+1-cursor)+3 successful polls once the finalized block is >= k and the tip rises). "
              "The step model (one step per block-tag RPC call, uint64 arithmetic explicit) is tied to the Go code by running the real downloader "
              "and driver on thousands of scripted chains/schedules per run and comparing channel contents, ProcessBlock calls, tracked blocks, "
              "marker and the eth_getLogs ranges.")
LEVEL_NOTE = ("Trusted: Coq kernel + vm_compute; the hand transcription of Download/GetLogs/grouping/handleNewBlock (validated by the correspondence "
              "on every run); the scripted node of harness/c05 (eth_getLogs address filter, chain order); Go runtime scheduling. Outside the "
              "theorems: hypotheses H1/H2 (see assumptions), hash-mismatch retry, Fatalf timing.")
TECHNIQUE = "Coq proof (inductive invariant over a step function driven by an arbitrary oracle list, no fuel, no bound) + differential correspondence via vm_compute"
