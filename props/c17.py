"""C17 - cutting a certificate's block range never drops, duplicates or reorders events."""
from vlib import cN, cbool, clist, copt

ID = "C17"
PROPERTIES_V = ["theories/Properties/C17.v"]
MAKE_TARGETS = ["theories/Properties/C17.vo", "theories/Model/C17Cases.vo", "theories/Proofs/GenAgreeBlockRange.vo", "theories/Proofs/GenAgreeBuildParams.vo", "theories/Proofs/GenAgreeLimitCert.vo", "theories/Proofs/GenAgreeAdaptCert.vo", "theories/Proofs/GenAgreeGetParams.vo", "theories/Proofs/GenAgreeProverFlow.vo"]
HARNESS = "c17"
CASES_IMPORTS = "From Coq Require Import NArith ZArith List.\nFrom Verif Require Import Model.CertCut Model.C17Cases."
CASE_TYPE = "case17"
CORR = "corr"
SPEC = "spec"
SHARD = 300
RULE = ("Gap: all ordered pairs of the 21 well-formed ranges over {0,1,2,2^63,2^64-2,2^64-1} exhaustively + random near/far pairs; "
        "certificates: fixed boundary layouts (block 0, block 2^64-1, no events, claims only, first block alone too large) + generated layouts "
        "of 1-6 blocks with 0-4 bridges and 0-4 claims per block (empty blocks allowed, a fifth with unsorted event lists, a quarter with "
        "event counts at which the exact rational size is an integer so the float64 rounding decides), retry/non-retry, pp/fep/other; "
        "per layout: Range on every prefix, suffix, and random (f,t) around the borders; limitCertSize with limit 0, 1 and size-1/size/size+1 "
        "of EVERY prefix, each such case also through the real baseFlow.GetCertificateBuildParamsInternal (kind flow: stub storage / L2 syncer make it build that very certificate before it cuts); AdaptCertificate with every last-block limit from from-2 to to+2, 0 and 2^64-1 with random allow/require flags; "
        "plus a malformed stream (events outside the range, inverted ranges) checked model-vs-code only. "
        "A case is non-trivial when the real code actually cut the certificate (returned last block < input last block), "
        "or returned an error, or (gap) the ranges do not touch; distinct = distinct input")
ASSUMPTIONS = ["a certificate's range spans fewer than 2^63 blocks (beyond that NumberOfBlocks() overflows int and limitCertSize returns "
               "the oversize multi-block certificate unchanged: Theorem C17_exceeds_limit_unbounded_refuted, replayed on the real code in every run)",
               "events of the input certificate lie inside its own block range (as GetBridgesAndClaims(from,to) delivers them)",
               "EstimatedSize is treated as an arbitrary function by the theorems; its float64 model is validated by the correspondence only",
               "block ranges given to Gap have from <= to"]

ERR = {"": "ONone", "not_within": "ONotWithin", "from_gt_to": "OFromGtTo", "nil": "ONil", "retry_exceeded": "ORetryExceeded",
       "complete_upcoming": "OCompleteUpcoming", "complete_far": "OCompleteFar", "complete_nothing": "OCompleteNothing",
       "no_bridges_but_claims": "ONoBridgesButClaims"}
TYPES = {0: "TUnknown", 1: "TPP", 2: "TFEP", 3: "TOptimistic"}


def cases_n(tier):
    # number of generated layouts; every layout yields ~50 cases
    return 60 if tier == "quick" else 200


def cZ(v):
    return "(%d)%%Z" % int(v)


def ev(e):
    return "Ev %s %s %s" % (cN(e["b"]), cN(e["m"]), cN(e["id"]))


def params(p):
    return "(P %s %s %s %s %s %s %s)" % (cN(p["from"]), cN(p["to"]), clist([ev(e) for e in p["bridges"] or []]),
                                         clist([ev(e) for e in p["claims"] or []]), cZ(p["retry"]), cbool(p["has_last"]),
                                         TYPES.get(p["type"], "TUnknown"))


def pobs(r):
    if r is None:
        return "None"
    return ("(Some {| o_p := %s; o_size := %s; o_nblocks := %s; o_nb := %s; o_nc := %s; o_empty := %s; o_is_retry := %s |})" % (
        params(r), cN(r["size"]), cZ(r["nblocks"]), cN(r["nb"]), cN(r["nc"]), cbool(r["empty"]), cbool(r["is_retry"])))


def rng(x):
    return "(R %s %s)" % (cN(x[0]), cN(x[1]))


def coq_case(o):
    i = o["in"]
    k = i["kind"]
    err = ERR.get(o.get("err", ""), "OOther")
    res = pobs(o.get("res"))
    if k == "range":
        return "CRange %s %s %s %s %s %s %s" % (params(i["c"]), cN(i["f"]), cN(i["t"]), cN(o["in_size"]), cZ(o["in_nblocks"]), res, err)
    if k in ("limit", "flow"):
        return "CLimit %s %s %s %s %s %s %s" % (params(i["c"]), cN(i["max"]), cN(o["in_size"]), cZ(o["in_nblocks"]),
                                                clist([cN(s) for s in o["sizes"]]), res, err)
    if k == "adapt":
        c = i.get("c")
        return "CAdapt %s (Lim %s %s %s) %s %s %s" % (copt(params(c)) if c is not None else "None", cN(i["max"]), cbool(i["allow"]),
                                                      cbool(i["require"]), cN(o["in_size"]), res, err)
    return "CGap %s %s %s %s %s" % (rng(i["a"]), rng(i["b"]), rng(o["gap"]), cN(o["gap_count"]), cbool(o["gap_empty"]))


def _touching(a, b):
    return b[0] <= a[1] + 1 and a[0] <= b[1] + 1


def nontrivial_key(o):
    i = o["in"]
    k = i["kind"]
    if i.get("note") == "malformed":
        return None
    if k == "gap":
        a, b = i["a"], i["b"]
        if a[0] > a[1] or b[0] > b[1] or _touching(a, b):
            return None
        return ["gap", a, b]
    c = i.get("c")
    if c is None:
        return None
    cut = o.get("err", "") != "" or (o.get("res") is not None and o["res"]["to"] < c["to"])
    if not cut:
        return None
    key = [k, c["from"], c["to"], [(e["b"], e["m"]) for e in c["bridges"]], [(e["b"], e["m"]) for e in c["claims"]],
           c["retry"], c["has_last"], c["type"]]
    if k == "range":
        key += [i["f"], i["t"]]
    else:
        key += [i["max"], i["allow"], i["require"]]
    return key


def finding_key(o):
    return None


def distribution(outs):
    d = {"range": 0, "range_err": 0, "limit": 0, "limit_cut": 0, "limit_single_block_over_limit": 0, "limit_unlimited": 0,
         "adapt": 0, "adapt_cut": 0, "adapt_err": 0, "adapt_retry": 0, "gap": 0, "gap_touching": 0, "gap_nonempty": 0,
         "malformed": 0, "float_edge_layouts": 0, "endpoint_0": 0, "endpoint_max": 0, "flow": 0}
    m64 = 2 ** 64 - 1
    for o in outs:
        i = o["in"]
        k = i["kind"]
        if i.get("note") == "malformed":
            d["malformed"] += 1
            continue
        d[k] += 1
        c = i.get("c")
        if k == "gap":
            if _touching(i["a"], i["b"]):
                d["gap_touching"] += 1
            else:
                d["gap_nonempty"] += 1
            if 0 in i["a"] + i["b"]:
                d["endpoint_0"] += 1
            if m64 in i["a"] + i["b"]:
                d["endpoint_max"] += 1
            continue
        if c is None:
            continue
        if c["from"] == 0:
            d["endpoint_0"] += 1
        if c["to"] == m64:
            d["endpoint_max"] += 1
        r = o.get("res")
        if k == "range" and o["err"]:
            d["range_err"] += 1
        if k in ("limit", "flow"):
            if k == "flow":
                d["limit_through_GetCertificateBuildParamsInternal"] = d.get("limit_through_GetCertificateBuildParamsInternal", 0) + 1
            if i["max"] == 0:
                d["limit_unlimited"] += 1
            if r and r["to"] < c["to"]:
                d["limit_cut"] += 1
            if r and i["max"] != 0 and r["size"] > i["max"]:
                d["limit_single_block_over_limit"] += 1
            nb, nc = len(c["bridges"]), len(c["claims"])
            frac = (16 * nb + 20 * nc + (0 if c["type"] == 2 else 68)) % 100
            if frac == 0:
                d["float_edge_layouts"] += 1
        if k == "adapt":
            if o["err"]:
                d["adapt_err"] += 1
            elif r and r["to"] < c["to"]:
                d["adapt_cut"] += 1
            if c["retry"] > 0 and c["has_last"]:
                d["adapt_retry"] += 1
    return d


LEVEL_TEXT = ("Kernel-checked theorems over a one-for-one Gallina transcription of Range, limitCertSize (the Go loop with explicit fuel, "
              "fuel proved sufficient), AdaptCertificate and BlockRange.Gap, for ALL certificates, limits and uint64 ranges: Range = filter of the "
              "events by block range in original order, with its error cases characterised; limitCertSize keeps the first block, returns the "
              "restriction to the largest end block whose size fits (for an ARBITRARY size function, no monotonicity assumed), exceeds the limit "
              "only on a single block, limit 0 cuts nothing; AdaptCertificate returns the restriction ending at min(to, maxL2Block) or one of five "
              "characterised errors; Gap is empty iff the ranges touch or overlap and otherwise is exactly the set of blocks strictly between, "
              "including endpoints 0 and 2^64-1. The model (incl. an IEEE-754 binary64 transcription of EstimatedSize using Flocq) is tied to the "
              "real functions by differential execution on thousands of inputs per run with limits at size-1/size/size+1 of every prefix.")
LEVEL_NOTE = ("Trusted: Coq kernel + vm_compute, Flocq 4.1 binary64 operations (execution instance of the size estimate only; the theorems are "
              "generic in the size function and closed under the global context), the hand transcription of the four Go functions (validated by "
              "the correspondence), the harness hook flows.VerifLimitCertSize, tools/gofacts for the size constants. "
              "Stated precondition: range spans < 2^63 blocks (int overflow of NumberOfBlocks beyond; refutation theorem + replay included).")
TECHNIQUE = ("Coq proof (induction on the cut loop, list filter algebra, lia over uint64 wrap); block_range.go, certificate_build_params.go, limitCertSize "
             "(flow_base.go) and AdaptCertificate (max_l2blocknumber_limiter.go) are TRANSLATED to Gallina on every run (tools/go2coq -> Gen/GenBlockRange.v, "
             "GenBuildParams.v, GenLimitCert.v, GenAdaptCert.v) and proved equal to the model; differential correspondence via vm_compute")
