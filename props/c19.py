"""C19 - global indexes are encoded and decoded consistently everywhere."""
from vlib import cN, cNhex, cbn, cbool, clist

ID = "C19"
PROPERTIES_V = ["theories/Properties/C19.v"]
MAKE_TARGETS = ["theories/Properties/C19.vo", "theories/Model/C19Cases.vo"]
HARNESS = "c19"
CASES_IMPORTS = "From Coq Require Import NArith List.\nFrom Verif Require Import Base.Bytes Model.GlobalIndex Model.C19Cases."
CASE_TYPE = "case19"
CORR = "corr"
SPEC = "spec"
RULE = ("boundary triples {0,1,2,255,256,257,2^16-1,2^16,2^24-1,2^24,2^31-1,2^31,2^32-2,2^32-1}^2 x {mainnet,rollup} exhaustively, "
        "random triples (a quarter with few significant bytes), on-chain values at every 2^k-1,2^k,2^k+1 for k<=72, random canonical "
        "rollup/mainnet values and a separate non-canonical stream; batches of 2..6 claims with different global indexes in ONE certificate "
        "(real SendCertificate request, prover request, PPHashToSign, optimistic commitment over the claim list); a case is non-trivial when it is a distinct input whose encoded value "
        "is non-zero; distinct = distinct input")
ASSUMPTIONS = ["on-chain global index values are < 2^256 (uint256)",
               "ABI decoding and big.Int are exercised by the correspondence only"]


def cases_n(tier):
    return 2000 if tier == "quick" else 60000


def trip(d):
    return "(%s, %s, %s)" % (cbool(d["m"]), cN(d["r"]), cN(d["l"]))


def nat_or_impossible(v):
    """decimal -> N literal; a NEGATIVE value (never a valid global index) is transcribed as 2^300 + |v|, which no expected value equals"""
    v = int(v or 0)
    return cN(v if v >= 0 else (1 << 300) - v)


def coq_case(o):
    i = o["in"]
    for k in ("enc", "reenc", "dec", "wire", "commit", "gihash", "prover", "opt_le", "exit_hash", "opt_hash"):
        o.setdefault(k, {"m": False, "r": 0, "l": 0} if k == "dec" else "")
    if i["kind"] == "batch":
        return ("CB {| b_ts := %s; b_wire := %s; b_prover := %s; b_exit_hash := %s; b_ler := %s; b_pp_hash := %s; b_opt_hash := %s |}" % (
            clist([trip(t) for t in i["ts"]]), clist([cbn(x) for x in o.get("b_wire") or []]), clist([cbn(x) for x in o.get("b_prover") or []]),
            clist([cNhex(x) for x in o.get("b_exit_hash") or []]), cNhex(o.get("b_ler", "")), cNhex(o.get("b_pp_hash", "")), cNhex(o.get("b_opt_hash", ""))))
    if i["kind"] == "triple":
        return ("CT {| t_m := %s; t_r := %s; t_l := %s; t_enc := %s; t_dec := %s; t_wire := %s; t_commit := %s; "
                "t_gihash := %s; t_prover := %s |}" % (
                    cbool(i["m"]), cN(i["r"]), cN(i["l"]), nat_or_impossible(o["enc"]), trip(o["dec"]), cbn(o["wire"]),
                    cbn(o["commit"]), cNhex(o["gihash"]), cbn(o["prover"])))
    return ("CV {| v_v := %s; v_dec := %s; v_reenc := %s; v_wire := %s; v_commit := %s; v_opt_le := %s; "
            "v_exit_hash := %s; v_opt_hash := %s |}" % (
                cN(i["v"]), trip(o["dec"]), nat_or_impossible(o["reenc"]), cbn(o["wire"]), cbn(o["commit"]), cbn(o["opt_le"]),
                cNhex(o["exit_hash"]), cNhex(o["opt_hash"])))


def nontrivial_key(o):
    i = o["in"]
    if i["kind"] == "batch":
        return ["b", [[t["m"], t["r"], t["l"]] for t in i["ts"]]]
    if i["kind"] == "triple":
        return None if (i["r"] == 0 and i["l"] == 0 and not i["m"]) else ["t", i["m"], i["r"], i["l"]]
    return None if i["v"] == "0" else ["v", i["v"]]


def finding_key(o):
    return None


def distribution(outs):
    d = {"batches": 0, "batch_claims": 0, "triple_mainnet": 0, "triple_rollup": 0, "value_canonical": 0, "value_noncanonical": 0, "errors": 0}
    for o in outs:
        i = o["in"]
        if o.get("err"):
            d["errors"] += 1
        if i["kind"] == "batch":
            d["batches"] += 1
            d["batch_claims"] += len(i["ts"])
        elif i["kind"] == "triple":
            d["triple_mainnet" if i["m"] else "triple_rollup"] += 1
        else:
            v = int(i["v"])
            d["value_canonical" if (v < 2**64 or 2**64 <= v < 2**64 + 2**32) else "value_noncanonical"] += 1
    return d

LEVEL_TEXT = ("Kernel-checked theorems for ALL 2 x 2^32 x 2^32 triples and all canonical 256-bit values: decode(encode t) = canon t, "
              "encode has the contract bit layout, closed form of the decoder on any uint256, and all four consumers (certificate, "
              "signed commitment, wire message, prover request, optimistic commitment) carry the same number. The byte-level model is tied "
              "to the Go functions by running both on thousands of inputs per run (boundaries exhaustively).")
LEVEL_NOTE = ("Trusted: Coq kernel + vm_compute, the hand transcription of GenerateGlobalIndex/DecodeGlobalIndex/BigIntToLittleEndianBytes "
              "(validated by the correspondence), tools/gofacts for the two size constants, big.Int and protobuf structs below the Value bytes.")
TECHNIQUE = "Coq proof (arithmetic over byte strings, no finite sweep) + differential correspondence via vm_compute"
