"""C20 - claim details are taken only from the matching, non-reverted bridge call."""
import glob
import hashlib
import json
import os

import vlib
from vlib import cbool, cnat

ID = "C20"
PROPERTIES_V = ["theories/Properties/C20.v"]
MAKE_TARGETS = ["theories/Properties/C20.vo", "theories/Model/C20Cases.vo", "theories/Proofs/AbiProofs.vo"]
HARNESS = "c20"
CASES_IMPORTS = "From Coq Require Import NArith List.\nFrom Verif Require Import Model.FindCall Model.Abi Model.C20Cases."
CASE_TYPE = "case20"
CORR = "corr"
SPEC = "spec"
SHARD = 40
RULE = ("hand-written boundary trees first (direct call, nesting, reverted self / parent / root, retry after a reverted attempt, several "
        "claims with different and with equal global indexes, bridge calling itself, claim-like input to another address, both contract "
        "generations, asset and message selectors, each with an empty and with a pre-filled claim); then generated debug_traceTransaction "
        "call trees (depth <= 6, fan-out <= 4, <= 41 frames, reverted frames anywhere) whose claim frames carry REAL ABI-packed "
        "claimAsset/claimMessage calldata of both generations, in 14 classes (random, planted live match, match under a reverted "
        "ancestor, match reverted itself, several matches, no bridge call, root reverted, root is the claim, no matching index, deep "
        "chain, wide); every 8th case belongs to the malformed stream (a bridge frame with undecodable input: outside the property's "
        "quantifier, compared with the model but not judged by spec), every 8th (offset 3) belongs to the ABI boundary stream (a bridge "
        "frame carries a packed claim with 1..2 byte-level mutations: truncation at / around the head boundary, a uint32 slot set to "
        "2^32, 2^32-1, 2^64, 2^255, address slots with dirty upper bytes, the metadata offset moved to 0 / into the proofs / to the last "
        "word / past the end / 2^63 / 2^256-1, the metadata length off by one / past the end / huge, trailing bytes, single bit flips; "
        "when go-ethereum still unpacks the bytes the frame is a claim call whose content is what go-ethereum's UnpackIntoMap reads BY "
        "ARGUMENT NAME), every 97th is an RPC failure. THE MODEL RUNS ON THE RAW CALLDATA of every bridge-addressed frame (byte-level "
        "ABI decoder of Model/Abi.v) and `abi_agree` compares that decoder with the independent description frame by frame. A case is non-trivial when it is "
        "inside the quantifier and at least one bridge-addressed frame has a live path, i.e. the real decoder ran on real calldata and "
        "compared global indexes; distinct = distinct input (sha1 of the canonical input JSON)")
ASSUMPTIONS = [
    "the trace handed to setClaimCalldata is what debug_traceTransaction(callTracer) returned for the event's transaction (RPC node trusted)",
    "every call addressed to the bridge is a claim call (the property's quantifier) for completeness; soundness, 'error leaves the claim "
    "untouched' and the fuel bound hold for all trees",
    "ABI unpacking: the call-tree theorems are generic in it; Model/Abi.v transcribes go-ethereum v1.15.5's Arguments.Unpack for the six "
    "argument types of the claim methods and is proved to invert the canonical encoding (C20_abi_*); that go-ethereum itself behaves like "
    "Model/Abi.v on non-canonical bytes is checked by the correspondence only (ABI boundary stream), and big.Int is modelled by N",
    "Claim.GlobalIndex is non-nil when setClaimCalldata is called (both event handlers set it)",
]
TRUSTED_EXTRA = [
    "harness/c20: the fake RPC client serves JSON in geth callTracer layout; claim frames are packed with the repo's own contract bindings "
    "(polygonzkevmbridgev2 / polygonzkevmbridge ABIs); the harness checks with go-ethereum, independently of the code under test, that every "
    "input it describes as a packed claim unpacks under the ABI of its selector and every input it describes as raw does not",
    "props/c20.py transcribes a packed claim as (generation, global index, details) and a 32-hash proof as mkproof base step only when all 32 "
    "hashes have exactly that form",
    "hook /repo/bridgesync/verif_export_c20.go (build tag verif): VerifC20SetClaimCalldata = (*Claim).setClaimCalldata; hook "
    "verif_export_appender.go: VerifBuildAppender = buildAppender (about half of the cases also go through the REAL ClaimEvent handlers "
    "of both generations with syncFullClaims on: ABI-packed log in, Claim out; the Gallina event decoder reads the same log data)",
]

ERR_CODE = {"": 0, "notfound": 1, "root_reverted": 2, "short": 3, "selector": 4, "unpack": 5, "rpc": 6, "panic": 98, "other": 99}
M256 = 1 << 256
M160 = 1 << 160


def _stale_gofacts():
    """tools/gofacts gained facts_c20.go; make sure the translator binary in build/ contains it."""
    exe = os.path.join(vlib.BUILD, "gofacts")
    srcs = glob.glob(os.path.join(vlib.VERIF, "tools", "gofacts", "*.go"))
    if not os.path.exists(exe) or any(os.path.getmtime(s) > os.path.getmtime(exe) for s in srcs):
        vlib.build_gofacts()


_stale_gofacts()


def cases_n(tier):
    # vlib starts one coqc per shard, all at once: keep the number of shards near the number of cores in both tiers
    global SHARD
    # every bridge-addressed frame carries its raw calldata (about 2.4 kB): shards stay small so that a coqc process stays below ~1.5 GB
    SHARD = 40 if tier == "quick" else 120
    return 320 if tier == "quick" else 4000


class Pool:
    """Big numerals are bound once per case by `let` (coqc parses a 256-bit literal in ~4 ms)."""

    def __init__(self):
        self.names = {}

    def n(self, v):
        v = int(v)
        if v < (1 << 32):
            return "%d%%N" % v
        if v not in self.names:
            self.names[v] = "v%d" % len(self.names)
        return self.names[v]

    def wrap(self, term):
        lets = "".join("let %s := 0x%x%%N in " % (name, v) for v, name in self.names.items())
        return "(%s%s)" % (lets, term)


def hx(s):
    return int(s, 16) if s else 0


def proof_spec(p, spec):
    if spec is None:
        return "[]"
    if spec.get("l"):
        return "[" + "; ".join(p.n(hx(h) % M256) for h in spec["l"]) + "]"
    return "(mkproof %s %s)" % (p.n(hx(spec.get("b", "")) % M256), p.n(hx(spec.get("s", "")) % M256))


def proof_obs(p, hashes):
    vals = [hx(h) for h in hashes]
    if len(vals) == 32:
        base, step = vals[0], (vals[1] - vals[0]) % M256
        if all(vals[i] == (base + i * step) % M256 for i in range(32)):
            return "(mkproof %s %s)" % (p.n(base), p.n(step))
    return "[" + "; ".join(p.n(v) for v in vals) + "]"


def bn(p, h):
    return "(%s, %s)" % (cnat(len(h) // 2), p.n(hx(h)))


def claim_obs(p, c):
    return "(CL %s [%s] %s %s %s %s %s %s %s %s %s)" % (
        p.n(c["gi"]), "; ".join(p.n(hx(x)) for x in c["rest"]), p.n(hx(c["from"])), proof_obs(p, c["pler"]), proof_obs(p, c["prer"]),
        p.n(hx(c["mer"])), p.n(hx(c["rer"])), p.n(hx(c["ger"])), p.n(c["dnet"]), bn(p, c["meta"]), cbool(c["msg"]))


def raw_term(p, h):
    """calldata bytes -> raw_of selector words tail (or an explicit byte list when shorter than a selector)"""
    b = bytes.fromhex(h)
    if len(b) < 4:
        return "[" + "; ".join("%d%%N" % x for x in b) + "]"
    body = b[4:]
    nw = len(body) // 32
    words = "; ".join(p.n(int.from_bytes(body[32 * k:32 * k + 32], "big")) for k in range(nw))
    tail = "; ".join("%d%%N" % x for x in body[32 * nw:])
    return "(raw_of %s [%s] [%s])" % (p.n(int.from_bytes(b[:4], "big")), words, tail)


def input_term(p, i):
    sel = "None" if not i.get("sel") else "(Some %s)" % p.n(hx(i["sel"]))
    raw = i.get("raw")
    if i["t"] == "mut":
        # a mutated packed claim: described by what go-ethereum reads from the bytes by argument name (eff), if it unpacks
        d = dict(i["eff"]) if i.get("eff") else {"t": "raw"}
        d["sel"], d["raw"] = i.get("sel"), raw
        return input_term(p, d)
    if i["t"] != "claim":
        return "(XI %s None)" % sel if raw is None else "(XR %s None %s)" % (sel, raw_term(p, raw))
    etrog = i["gen"] == "etrog"
    dt = "(DT %s %s %s %s %s %s)" % (
        proof_spec(p, i.get("pler")), proof_spec(p, i.get("prer")) if etrog else "[]", p.n(hx(i.get("mer", "")) % M256),
        p.n(hx(i.get("rer", "")) % M256), p.n(i.get("dnet", 0)), bn(p, i.get("meta", "")))
    body = "(Some (%s, %s, %s))" % ("Etrog" if etrog else "PreEtrog", p.n(i["gi"]), dt)
    return "(XI %s %s)" % (sel, body) if raw is None else "(XR %s %s %s)" % (sel, body, raw_term(p, raw))


def node_term(p, n):
    return "(XC %s %s %s %s [%s])" % (
        p.n(hx(n["to"]) % M160), p.n(hx(n["from"]) % M160), cbool(n.get("err") is not None), input_term(p, n["in"]),
        "; ".join(node_term(p, c) for c in n.get("calls") or []))


def coq_case(o):
    i = o["in"]
    p = Pool()
    trace = "None" if (i["kind"] == "rpcfail" or not i.get("root")) else "(Some %s)" % node_term(p, i["root"])
    v = o.get("via_log")
    head, tail = "K", ""
    if v:
        d = v.get("data", "")
        words = "[" + "; ".join(p.n(int(d[k:k + 64], 16)) for k in range(0, len(d), 64)) + "]"
        head, tail = "KL", " (%s, %s, %s)" % (cbool(v["pre"]), words, cbool(v["agree"]))
    term = "%s %s %s %s %s %s%s" % (head, p.n(hx(i["bridge"]) % M160), trace, claim_obs(p, o["claim0"]),
                                    p.n(ERR_CODE.get(o["err"], 99)), claim_obs(p, o["claim"]), tail)
    return p.wrap(term)


def nontrivial_key(o):
    i = o["in"]
    if i["kind"] not in ("tree", "abi") or o.get("live_bridge", 0) < 1:
        return None
    return hashlib.sha1(json.dumps(i, sort_keys=True).encode()).hexdigest()


def finding_key(o):
    return None


def _gens(n, acc):
    i = n["in"]
    if i["t"] == "claim":
        acc["claim_frames_%s_%s" % (i["gen"], "message" if i.get("msg") else "asset")] += 1
    elif i["t"] == "mut":
        acc["mutated_claim_frames_%s" % ("still_decodable" if i.get("dec") else "rejected_by_go_ethereum")] += 1
        for m in i.get("muts") or []:
            acc["mutation_%s" % m["k"]] += 1
    else:
        acc["raw_frames"] += 1
    for c in n.get("calls") or []:
        _gens(c, acc)


def distribution(outs):
    from collections import Counter
    d = Counter()
    frames = Counter()
    for o in outs:
        i = o["in"]
        d["kind_" + i["kind"]] += 1
        d["class_" + i.get("class", "?")] += 1
        d["result_" + (o["err"] or "ok") + ("_malformed" if i["kind"] == "malformed" else "")] += 1
        d["depth_%d" % o.get("depth", 0)] += 1
        d["live_matching_calls_%s" % min(o.get("live_match", 0), 3)] += 1
        if o.get("dead_match", 0) > 0:
            d["has_reverted_matching_call"] += 1
            if o.get("live_match", 0) == 0:
                d["only_reverted_matching_calls"] += 1
        if o.get("reverted", 0) > 0:
            d["has_reverted_frame"] += 1
        if i.get("root"):
            _gens(i["root"], frames)
    d.update(frames)
    d["claims_also_through_the_real_log_appender"] = sum(1 for o in outs if o.get("via_log"))
    d["max_frames"] = max([o.get("frames", 0) for o in outs] or [0])
    d["total_frames"] = sum(o.get("frames", 0) for o in outs)
    return dict(d)


def extra_checks(chk):
    """Malformed stream: outside the quantifier. Record what the real code did there (evidence only)."""
    of = os.path.join(vlib.BUILD, chk.pid, "cases.jsonl")
    if not os.path.exists(of):
        return
    mal = [o for o in vlib.read_jsonl(of) if o["in"]["kind"] == "malformed"]
    from collections import Counter
    chk.cov["malformed_stream"] = dict(
        cases=len(mal), judged_by_spec=False,
        outcomes=dict(Counter(o["err"] or "ok" for o in mal)),
        note="bridge frame with undecodable input: the real code returns the decode error when it reaches that frame before a matching "
             "call (claim untouched), otherwise succeeds; compared with the model (corr) but outside the property's quantifier")


LEVEL_TEXT = ("Kernel-checked theorems for ALL call trees (nested inductive type, any depth and fan-out, reverted frames anywhere), all bridge "
              "addresses, all claims and all behaviours of the ABI layer: the explicit-stack loop of findCall equals a scan of the live frames "
              "in visit order (fuel = frames + 1 proved sufficient, so out-of-fuel is unreachable); success => the call taken is addressed to "
              "the bridge, carries the event's global index and has no reverted frame on its path (soundness); under 'every bridge call is a "
              "claim call' a live matching call => success (completeness); no live matching call => error and the claim unchanged; any error "
              "=> claim unchanged; on success every recorded field, the sender and the message flag are those of the found call. The "
              "byte-level ABI decoder (go-ethereum Unpack + the data[k].(T) reads) inverts the canonical encoding for every well-typed "
              "argument list and any metadata length, so a found call that was encoded by its caller records exactly the encoded fields. The "
              "transcription of findCall/setClaimCalldata/tryDecodeClaimCalldata/decode*Calldata is tied to the Go code by running the real "
              "setClaimCalldata on generated traces with real ABI-packed calldata and comparing error kind and every claim field.")
LEVEL_NOTE = ("ABI decoding is inside the model (Model/Abi.v, byte level) with a round-trip theorem for canonical encodings; go-ethereum's behaviour "
              "on non-canonical calldata is tied to it by the correspondence only. Trusted: Coq "
              "kernel + vm_compute, the hand transcription of the Go functions (validated by the correspondence), the harness's packing of "
              "claims and its fake RPC client, tools/gofacts for the four selectors.")
TECHNIQUE = "Coq proof (induction over nested call trees and over the visit order, no depth bound) + differential correspondence via vm_compute"
