"""C08"""
import bridge_common as bc
import evm_common

ID = "C08"
PROPERTIES_V = ["theories/Properties/C08.v"]
MAKE_TARGETS = ["theories/Properties/C08.vo", "theories/Proofs/GenAgreeTree.vo", "theories/Proofs/GenAgreeSiblings.vo", "theories/Model/BridgeCases.vo"]
HARNESS = "bridge"
HARNESS_ARGS = ["-prop", "c08", "-par", "4"]
CASES_IMPORTS = bc.IMPORTS
CASE_TYPE = "bcase"
CORR = "corr"
SPEC = "spec_c08"
SHARD = 4
RULE = ('random bridge histories with restarts and reorgs followed by fresh deposits, a directed history of equal deposits on positions of the same parity, two directed histories whose reorganised deposit repeats content lying under surviving roots; 4 cases run concurrently in one process (own database each), as the syncers of a node do; a second part serves and re-verifies the proofs of the L1 info tree and of the rollup exit tree (updatable tree) through the real l1infotreesync processor on the L1 histories of the C11 check; at the end EVERY recorded root x EVERY covered index is queried (GetProof) and verified with the real CalculateRoot and, independently, with the Gallina Keccak; non-trivial = a (root, index) pair with index < root index (historical root or interior leaf); distinct = distinct (case, root, index)')
ASSUMPTIONS = ["deposit counts on chain are consecutive from 0 (the contract guarantees it)",
               "Keccak-256 modelled as an injective node function in the theorems that read the stored nodes (restart)",
               "the EVM/Solidity side is represented by a hand transcription of DepositContractBase (Model/Contracts.v)"]
coq_case = bc.coq_case
distribution = bc.distribution


def cases_n(tier):
    return 4 if tier == "quick" else 40


def nontrivial_key(o):
    return o["in"]["ops"] if any(p["idx"] < 10**9 for s in o.get("snaps") or [] for p in s.get("proofs") or []) else None


def finding_key(o):
    return None


def extra_checks(chk):
    # proofs served by the real aggkit tree are handed to the deployed bridge contract's verifyMerkleProof / calculateRoot
    evm_common.run_evm_part(chk)
    # the other two trees the node serves proofs from (L1 info tree, rollup exit tree = the updatable tree), through the real l1infotreesync
    import l1info_common
    l1info_common.run_c08_part(chk)


LEVEL_TEXT = ('Kernel-checked for all trees: from well-formedness of the node table alone, whenever the path lookups succeed, CalculateRoot(leaf reached, siblings) = root (walk_calc); with the closed-store invariant (maintained by appends, insert-ignore) every covered index of every recorded version yields the true leaf and a verifying proof (proof_verifies); for the updatable tree sverify covers every position of every closed version; C08_contract_accepts_served_proof: a deposit contract (Solidity transcription) that received the same first k leaves accepts the served proof of every j < k against its own root, in every reachable store state. Per run the proofs of the real aggkit tree are also handed to the deployed bridge bytecode (verifyMerkleProof / calculateRoot, served and tampered).')
LEVEL_NOTE = ("Trusted: Coq kernel + vm_compute; Gallina Keccak (cross-checked); hand transcription of AddLeaf/initCache/Bridge.Hash and of the "
              "Solidity DepositContract; SQLite; the theorems that read stored nodes assume an injective node hash (stated hypothesis).")
TECHNIQUE = ("Coq proof by induction over tree height (frontier invariant); the hashing loop of AddLeaf and CalculateRoot are TRANSLATED from the Go "
             "source on every run (tools/go2coq -> Gen/GenAppendOnlyTree.v, Gen/GenTree.v) and proved equal to the model; differential "
             "correspondence via vm_compute for the store, the processor and the contract")
