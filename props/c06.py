"""C06 - reorgs of processed blocks are detected; the node converges to the canonical chain."""
import hashlib
import json
import os

from vlib import cbool

ID = "C06"
PROPERTIES_V = ["theories/Properties/C06.v"]
MAKE_TARGETS = ["theories/Properties/C06.vo", "theories/Model/C06Cases.vo"]
HARNESS = "c06"
CASES_IMPORTS = ("From Coq Require Import NArith List Bool.\n"
                 "From Verif Require Import Model.Downloader Model.ReorgDetector Model.C06Cases.")
CASE_TYPE = "case06"
CORR = "corr"
SPEC = "spec"
SHARD = 8
EXTRA_DEFS = ("Open Scope N_scope.\n"
              "Definition mkL (a t : N) (r : bool) (i : N) : rawlog := {| l_addr := a; l_topic := t; l_removed := r; l_idx := i |}.\n"
              "Definition mkP (n h : N) (e : list ev) : pblock := {| p_num := n; p_hash := h; p_evs := e |}.\n"
              "Definition mkO (at_ : N) (r : bool) (n h : N) (e : list ev) : pop := "
              "{| a_at := at_; a_reorg := r; a_num := n; a_hash := h; a_evs := e |}.\n")
RULE = ("REAL reorgdetector.ReorgDetector (real SQLite file, real Start/Subscribe order) + REAL sync.EVMDriver + REAL sync.EVMDownloader + "
        "recording processor against a scripted forking node. Lock stream (model-vs-code and property): 8 fixed boundary histories (no reorg; "
        "reorg of processed blocks; reorg while blocks sit in the channel; reorg of blocks not yet downloaded; reorg while the node is down; "
        "A->B->A; fork shorter than what was processed; RPC failures inside the tick; stop between track and process with re-delivery; "
        "node killed while a reorg is being handed over, i.e. mismatch found and subscriber notified but processor.Reorg not run) and random histories of 40-130 interleaved events "
        "{node moves (growth / fork above the finalized block with events kept, moved, dropped, added; shorter, equal or longer; back to an "
        "earlier fork), one downloader block-tag query, driver takes one/all queued blocks, one detector tick (with failing finalized query or "
        "failing k-th header query), stop+start on the same DB file, kill during the reorg hand-over + start}, chunk in {1,2,3,5,100}, channel buffer 0/1/3/100, finalized types "
        "Finalized and Safe, each followed by a quiescent fully-finalized tail. Free stream (property only): real 1 ms ticker, no gate, world "
        "changes at RPC-call counts. A case is non-trivial when the real processor received at least one Reorg call that dropped a processed "
        "block; distinct = distinct input")
ASSUMPTIONS = [
    "partial: goroutine interleaving is NOT modelled. One loop iteration of Download, one handleNewBlock and one detectReorgInTrackedList "
    "(including the ReorgedBlock/ReorgProcessed rendez-vous with handleReorg and the deletion of the tracked range after it) are atomic "
    "steps of the model; the lock stream runs the real goroutines but serialises them at exactly these boundaries, the free stream samples "
    "the real scheduler (final store, Reorg calls, final tracked set only).",
    "environment hypotheses of the theorems (world_ok): a block the node ever reported as finalized is never replaced; the finalized answer "
    "is at most the head; blocks at or below the head have non-zero hashes; chain versions are hash-linked (equal hash at a height => equal "
    "blocks at and below it); RPC answers are read from one chain version per step (no chain switch inside a step)",
    "(H1') when the node's head is behind the download cursor (possible right after a restart or rewind onto a shorter fork) the finalized "
    "answer is below that head; (H2) cursor arithmetic stays below 2^64",
    "convergence is stated for a chain that stops forking but keeps growing and finalizing (a head that never rises again leaves "
    "WaitForNewBlocks waiting, which is the code's intended behaviour)",
    "findings (witnesses in harness/c06/testdata, replay with bin/check C06 --replay <file>; both reproduce on the real code): "
    "(F-a) midcrash_false_rewind.json: a stop between AddBlockToTrack and ProcessBlock leaves a tracked header without a processed "
    "block; after a fork it makes the detector call Reorg although no processed block was replaced (a processed canonical block is "
    "dropped and downloaded again) - Coq: C06_false_rewind_after_stop_between_track_and_process; "
    "(F-b) race_tracked_range_delete_after_restart.json: if the detector is slow between `<-sub.ReorgProcessed` and "
    "removeTrackedBlockRange/removeRange, the restarted download can track a new block inside [from,to] first; the deletion then "
    "removes it, the block is processed but untracked, and a later reorg of it is never detected (store keeps the stale block); "
    "(O-c) free stream: AddBlockToTrack (memory, then INSERT) racing with a tick that untracks the same finalized block leaves a row "
    "in tracked_block although memory is empty (harmless: the next start loads it and the first tick drops it)",
    "not modelled: failing SQLite statements inside the detector (e.g. saveTrackedBlock updates memory before the INSERT, so a failed INSERT "
    "followed by the driver's retry leaves the block tracked in memory only); the reorg_event primary key (detected_at in seconds, "
    "subscriber, from, to) which delays a second detection of the same range within one wall-clock second (absorbed by the harness: "
    "pk_retries); a stop between processor.Reorg and the deletion of the tracked range (the next start detects the same mismatch again)",
]
HARNESS_TIMEOUT = 900
# private experiments: C06_MID=1 adds histories with stops between AddBlockToTrack and ProcessBlock (script op m)
HARNESS_ARGS = ["-mid"] if os.environ.get("C06_MID") else []


def cases_n(tier):
    if os.environ.get("C06_N"):
        return int(os.environ["C06_N"])
    return 36 if tier == "quick" else 600


def n(v):
    return str(int(v))


def lst(items):
    return "[" + "; ".join(items) + "]"


def evs(es):
    return lst("(%s, %s)" % (n(e[0]), n(e[1])) for e in (es or []))


def hdrs(hs):
    return lst("(%s, %s)" % (n(h[0]), n(h[1])) for h in (hs or []))


def sev(e):
    op = e["op"]
    if op == "w":
        return "SW %s %s %s" % (n(e["v"]), n(e["head"]), n(e["fin"]))
    if op == "p":
        return "SP %s" % cbool(e.get("err", False))
    if op == "h":
        return "SH"
    if op == "H":
        return "SHA"
    if op == "t":
        return "ST %s %s" % (cbool(e.get("err", False)), n(e.get("errat", 0)))
    if op == "r":
        return "SR"
    if op == "m":
        return "SM"
    if op in ("n", "g"):   # g: graceful stop during the hand-over; the unchanged driver never acknowledges, same model step
        return "SN %s %s" % (cbool(e.get("err", False)), n(e.get("errat", 0)))
    if op == "x":   # witness-only schedule (harness/c06 raceTick); the model has no such step: plain tick
        return "ST false 0"
    raise ValueError("unknown op " + op)


def coq_case(o):
    i = o["in"]
    cfg = "{| c_chunk := %s; c_addrs := %s; c_topics := %s; c_finflag := %s |}" % (
        n(i["chunk"]), lst(n(a) for a in i["addrs"]), lst(n(t) for t in i["topics"]), cbool(i["mode"] == "LF"))   # SF (syncer on the safe block, finalized type Finalized): NewEVMDownloader clamps the finalized type to Safe, which is not IsFinalized(): every block is tracked, as in LS
    versions = lst(lst("(%s, %s)" % (n(b["h"]), lst("mkL %s %s %s %s" % (n(l["a"]), n(l["t"]), cbool(l["r"]), n(l["d"]))
                                                    for l in b["logs"])) for b in v) for v in i["versions"])
    w0 = "(%s, %s, %s)" % (n(i["w0"]["v"]), n(i["w0"]["head"]), n(i["w0"]["fin"]))
    ops = lst("mkO %s %s %s %s %s" % (n(p["at"]), cbool(p["kind"] == "rg"), n(p["num"]), n(p["hash"]), evs(p["events"]))
              for p in (o.get("ops") or []))
    store = lst("mkP %s %s %s" % (n(b["num"]), n(b["hash"]), evs(b["events"])) for b in (o.get("store") or []))
    trace = lst("(%s, %s, %s, %s)" % tuple(n(x) for x in t) for t in (o.get("trace") or []))
    return ("{| k_free := %s; k_cfg := %s; k_versions := %s; k_w0 := %s; k_script := %s; k_quiet := %s; o_ops := %s; o_store := %s; "
            "o_lp := %s; o_rewinds := %s; o_mem := %s; o_rows := %s; o_trace := %s; o_done := %s |}" % (
                cbool(i["kind"] == "free"), cfg, versions, w0, lst(sev(e) for e in i["script"]), cbool(i.get("quiet", False)),
                ops, store, n(o.get("lp", 0)), lst(n(x) for x in (o.get("rewinds") or [])), hdrs(o.get("mem")), hdrs(o.get("rows")),
                trace, cbool(o.get("done", False))))


def effective_rewinds(o):
    """Reorg calls that dropped at least one processed block (replay of the observed processor calls)."""
    store, k = [], 0
    for p in (o.get("ops") or []):
        if p["kind"] == "rg":
            if any(b >= p["num"] for b in store):
                k += 1
            store = [b for b in store if b < p["num"]]
        else:
            store.append(p["num"])
    return k


def nontrivial_key(o):
    if effective_rewinds(o) > 0:
        return hashlib.sha1(json.dumps(o["in"], sort_keys=True).encode()).hexdigest()
    return None


def finding_key(o):
    """Two violation classes are reachable only through the witness-only script ops (never generated by default):
    m = stop between AddBlockToTrack and ProcessBlock, x = detector slow between ReorgProcessed and the range deletion."""
    ops = {e["op"] for e in o["in"]["script"]}
    if "x" in ops:
        return "C06:tracked-range-deleted-after-download-restarted"
    if "m" in ops:
        return "C06:false-rewind-after-stop-between-track-and-process"
    return None


def distribution(outs):
    d = {"kind": {}, "mode": {}, "chunk": {}, "events": 0, "forks_scripted": 0, "restarts_scripted": 0, "polls": 0, "ticks": 0,
         "ticks_with_rpc_failure": 0, "reorg_calls": 0, "reorg_calls_dropping_blocks": 0, "noop_reorg_calls": 0,
         "cases_with_rewind": 0, "cases_with_2plus_rewinds": 0, "cases_with_restart": 0, "cases_restart_and_rewind": 0,
         "cases_never_rewound": 0, "stops_during_reorg_handover_scripted": 0, "kills_inside_reorg_handover": 0, "blocks_processed": 0, "pk_retries": 0, "not_done": 0, "max_versions": 0, "max_head": 0}
    for o in outs:
        i = o["in"]
        for k, v in (("kind", i["kind"]), ("mode", i["mode"]), ("chunk", str(i["chunk"]))):
            d[k][v] = d[k].get(v, 0) + 1
        sc = i["script"]
        d["events"] += len(sc)
        vs = [i["w0"]["v"]] + [e["v"] for e in sc if e["op"] == "w"]
        d["forks_scripted"] += sum(1 for a, b in zip(vs, vs[1:]) if a != b)
        nr = sum(1 for e in sc if e["op"] in ("r", "m", "n", "g"))
        d["restarts_scripted"] += nr
        d["stops_during_reorg_handover_scripted"] += sum(1 for e in sc if e["op"] in ("n", "g"))
        d["polls"] += sum(1 for e in sc if e["op"] == "p")
        d["ticks"] += sum(1 for e in sc if e["op"] == "t")
        d["ticks_with_rpc_failure"] += sum(1 for e in sc if e["op"] == "t" and (e.get("err") or e.get("errat")))
        rc = len(o.get("rewinds") or [])
        er = effective_rewinds(o)
        d["reorg_calls"] += rc
        d["reorg_calls_dropping_blocks"] += er
        d["noop_reorg_calls"] += rc - er
        d["cases_with_rewind"] += 1 if er else 0
        d["cases_with_2plus_rewinds"] += 1 if er >= 2 else 0
        d["cases_with_restart"] += 1 if nr else 0
        d["cases_restart_and_rewind"] += 1 if (nr and er) else 0
        d["cases_never_rewound"] += 1 if rc == 0 else 0
        d["blocks_processed"] += sum(1 for p in (o.get("ops") or []) if p["kind"] == "pb")
        d["pk_retries"] += o.get("pk_retries", 0)
        d["kills_inside_reorg_handover"] += o.get("kills", 0)
        d["not_done"] += 0 if o.get("done") else 1
        d["max_versions"] = max(d["max_versions"], len(i["versions"]))
        d["max_head"] = max([d["max_head"], i["w0"]["head"]] + [e["head"] for e in sc if e["op"] == "w"])
    return d


LEVEL_TEXT = ("Kernel-checked theorems over a faithful executable model of detectReorgInTrackedList / AddBlockToTrack / loadTrackedHeaders / "
              "handleNewBlock / handleReorg composed with C05's Download step function and an abstract store, for EVERY chain history (any "
              "versions, fork points above the finalized block, fork contents, successive reorgs), every interleaving of node moves, downloader "
              "polls, driver hand-overs, detector ticks (failing RPCs included) and stop/start points: the detector tick reports exactly the "
              "least tracked block whose hash differs from the node's chain; every processed block is tracked with its delivered hash or is "
              "final and canonical (inductive invariant, preserved by restart); hence a rewind is at or before the first replaced processed "
              "block, no rewind drops anything when no processed block was replaced, and after one successful tick on a chain that no longer "
              "forks the store is, and stays, exactly what a node that only ever saw the final chain holds (event blocks of 1..last-processed "
              "with the final hashes and events), with C05's progress theorem moving the last-processed block up. Tied to the Go code by "
              "running the real detector, driver and downloader in lock step with the model on scripted forking histories (store, Reorg "
              "calls, tracked memory and DB rows, per-event trace) and by evaluating the property itself on the observations.")
LEVEL_NOTE = ("PARTIAL: goroutine interleaving and the channel rendez-vous are not modelled (atomic steps, see assumptions); they are covered "
              "only by the schedules the harness samples. Trusted: Coq kernel + vm_compute; the hand transcription (validated by the lock-step "
              "correspondence on every run); the scripted node of harness/c06; SQLite; Go runtime.")
TECHNIQUE = ("Coq proof (inductive invariant of a composed step system over arbitrary event lists; pure-function theorems for the detector "
             "scan) + lock-step differential correspondence via vm_compute + sampled free-running schedules")
