"""C14 - a syncer that detects an inconsistency fails stop."""
import hashlib
import json
import os
import re

from vlib import cN, cNhex, cstr, clist, BUILD, COQ

ID = "C14"
PROPERTIES_V = ["theories/Properties/C14.v"]
MAKE_TARGETS = ["theories/Properties/C14.vo", "theories/Model/C14Cases.vo"]
HARNESS = "c14"
CASES_IMPORTS = ("From Coq Require Import NArith List String.\n"
                 "From Verif Require Import Model.Halt Model.C14Cases.")
CASE_TYPE = "case14"
CORR = "corr"
SPEC = "spec"
SHARD = 500
RULE = ("a case = (syncer, history, exported method found by reflection); histories: for every halting route (bridge: deposit count "
        "above / below the expected index; L1 info tree: announced root differs, announced leaf count above / below), two shapes "
        "(inconsistency as first event of the block / after two valid leaves that get rolled back), and EVERY reorg point from 0 to the last processed block: "
        "healthy prefix, query, inconsistent block, query, further blocks, query, reorg above the tip (removes nothing), query, the reorg "
        "at the point with an injected storage fault after the block rows were deleted (tree purge failing via a trigger / COMMIT failing "
        "via a deferred foreign key: error, nothing removed, must stay halted), query, block, the other fault, query, reorg at the point, "
        "query, valid continuation, query; the history of seeded change C14_1 (blocks 1,2, inconsistent block 3, failing Reorg(2), Reorg(2)); plus halted-on-empty-store, never-halted, announcement-on-empty-tree histories and "
        "random histories of blocks (0-3 leaves) / faults / duplicate block numbers / reorgs / queries; two regression histories with a "
        "deposit-count gap right after a reorg that removed leaves, of exactly the number of removed leaves (went unnoticed before fix "
        "246bc10). Block numbers increase between reorgs. "
        "A case is non-trivial when its history has a query operation after a ProcessBlock that returned the inconsistency error; "
        "distinct = distinct (syncer, method, history)")
ASSUMPTIONS = ["block numbers are handed to ProcessBlock in strictly increasing order between reorgs (what sync.EVMDriver does)",
               "database faults are modelled and injected for Reorg only (tree purge / commit failing after the block rows were deleted); "
               "faults inside ProcessBlock are outside the model (both processors return them as plain errors and roll back)",
               "the Merkle function of the L1 info tree is an input of the model (roots computed independently by the harness; C11 covers the tree)",
               "facade methods are called with zero / small arguments (context.Background(), 1, zero hash, nil); the guard is the first statement "
               "so its effect does not depend on the arguments",
               "the synchronizer goroutine (EVMDriver.Sync, downloader) is not run: what the driver does with the inconsistency error is tied "
               "by the source fact src_driver_stops_on_inconsistent only"]
TRUSTED_EXTRA = ["tools/gofacts/facts_c14.go: syntactic recognition of the halted guard and of data access in facade methods "
                 "(conservative: unrecognised => guarded=false, touches_data=true)",
                 "Go reflection (reflect.Type.NumMethod) enumerates the exported method set of *BridgeSync / *L1InfoTreeSync",
                 "SQLite file read by a second connection for MAX(num), COUNT(*) of table block"]

OUT = {"ok": "OOk", "inconsistent_error": "OInconsistent", "other_error": "OOther", "panic": "OPanic"}


def cases_n(tier):
    # number of random histories per syncer (the template histories are always generated)
    return 12 if tier == "quick" else 300


def ev_bridge(e):
    return "BBridge %s" % cN(e.get("dc", 0)) if e["k"] == "bridge" else "BOther"


def ev_l1(e):
    if e["k"] == "leaf":
        return "LLeaf %s" % cNhex(e["root"])
    if e["k"] == "announce":
        return "LAnnounce %s %s" % (cNhex(e["root"]), cN(e.get("count", 0)))
    return "LOther"


def coq_op(o, evf):
    if o["k"] == "block":
        return "OpBlock %s %s" % (cN(o.get("num", 0)), clist([evf(e) for e in o.get("evs") or []]))
    if o["k"] == "reorg":
        return "OpReorg %s" % cN(o.get("num", 0))
    if o["k"] == "reorg_fault":
        return "OpReorgFault %s %s" % ("FTree" if o.get("fault") == "tree" else "FCommit", cN(o.get("num", 0)))
    return "OpQuery"


def coq_case(o):
    i = o["in"]
    if i["kind"] == "methods":
        return "CMethods %s %s %s" % (cstr(i["syncer"]), clist([cstr(x) for x in o.get("called") or []]),
                                      clist([cstr(x) for x in o.get("skipped") or []]))
    ops = i.get("ops") or []
    if i["syncer"] == "BridgeSync":
        scen = "(SBridge %s)" % clist([coq_op(x, ev_bridge) for x in ops])
    else:
        scen = "(SL1 %s)" % clist([coq_op(x, ev_l1) for x in ops])
    obs = clist(["{| so_out := %s; so_last := %s; so_rows := %s |}" % (OUT.get(s["out"], "OPanic"), cN(s["last"]), cN(s["rows"]))
                 for s in (o.get("obs") or [])])   # a history that could not be run has no observations => corr false
    return "CMethod %s %s %s %s" % (cstr(i["syncer"]), cstr(i.get("method", "")), scen, obs)


def _halted_query(o):
    seen = False
    for op, s in zip(o["in"].get("ops") or [], o.get("obs") or []):
        if op["k"] == "block" and s["out"] == "inconsistent_error":
            seen = True
        if op["k"] == "query" and seen:
            return True
    return False


def nontrivial_key(o):
    i = o["in"]
    if i["kind"] != "method" or not _halted_query(o):
        return None
    h = hashlib.sha1(json.dumps(i.get("ops"), sort_keys=True).encode()).hexdigest()[:12]
    return [i["syncer"], i.get("method"), h]


FINDING_STALE_INDEX = "C14-gap-undetected-stale-tree-index-after-reorg"


def finding_key(o):
    """Classifies ONE violation class: the first step at which the property predicate fails is a bridge block that
    contradicts the store (deposit counts do not continue the stored ones) and is accepted, its first deposit count
    being exactly the exit tree's stale in-memory index (AppendOnlyTree.lastIndex+1 left ahead of the database by a
    reorg that removed leaves). Anything else => None."""
    i = o["in"]
    if i["kind"] != "method" or i["syncer"] != "BridgeSync":
        return None
    acc = []          # accepted blocks not removed by a reorg: (num, [deposit counts])
    h = False         # the inconsistency error was returned and no reorg removed a processed block since
    cache = None      # the tree's in-memory next index

    def db_next():
        for (_, dcs) in reversed(acc):
            if dcs:
                return dcs[-1] + 1
        return 0
    for op, s in zip(i.get("ops") or [], o.get("obs") or []):
        if op["k"] == "block":
            if h:
                if s["out"] != "inconsistent_error":
                    return None
                continue
            num = op.get("num", 0)
            dcs = [e.get("dc", 0) for e in (op.get("evs") or []) if e["k"] == "bridge"]
            stored = sum(len(d) for (_, d) in acc)
            dup = any(n == num for (n, _) in acc)
            contradicts = (not dup) and dcs != list(range(stored, stored + len(dcs)))
            detected = s["out"] == "inconsistent_error"
            if detected != contradicts:
                if (contradicts and s["out"] == "ok" and cache is not None and dcs and dcs[0] == cache
                        and cache != db_next()):
                    return FINDING_STALE_INDEX
                return None
            if detected:
                h = True
                cache = db_next()
            elif s["out"] == "ok":
                acc.append((num, dcs))
                if dcs:
                    cache = dcs[-1] + 1
        elif op["k"] == "reorg" or (op["k"] == "reorg_fault" and s["out"] == "ok"):
            b = op.get("num", 0)
            kept = [x for x in acc if x[0] < b]
            if len(kept) != len(acc):
                h = False
            acc = kept
            cache = None
        elif op["k"] == "reorg_fault" and op.get("fault") == "commit":
            cache = None
    return None


def distribution(outs):
    d = {"cases_bridge": 0, "cases_l1infotree": 0, "histories": 0, "by_route": {}, "query_outcomes": {}, "block_outcomes": {},
         "queries_while_halted_inconsistent": 0, "noop_reorgs": 0, "deleting_reorgs": 0, "failed_reorgs_under_fault": 0,
         "fault_armed_but_not_hit": 0, "harness_errors": 0}
    seen = set()
    for o in outs:
        i = o["in"]
        if o.get("err"):
            d["harness_errors"] += 1
        if i["kind"] != "method":
            continue
        d["cases_bridge" if i["syncer"] == "BridgeSync" else "cases_l1infotree"] += 1
        hk = (i["syncer"], i.get("scen"))
        first = hk not in seen
        seen.add(hk)
        if first:
            d["histories"] += 1
            d["by_route"][i.get("route", "")] = d["by_route"].get(i.get("route", ""), 0) + 1
        prev_rows = 0
        for op, s in zip(i.get("ops") or [], o.get("obs") or []):
            if op["k"] == "query":
                d["query_outcomes"][s["out"]] = d["query_outcomes"].get(s["out"], 0) + 1
                if s["out"] == "inconsistent_error":
                    d["queries_while_halted_inconsistent"] += 1
            elif first and op["k"] == "block":
                d["block_outcomes"][s["out"]] = d["block_outcomes"].get(s["out"], 0) + 1
            elif first and op["k"] == "reorg":
                d["noop_reorgs" if s["rows"] == prev_rows else "deleting_reorgs"] += 1
            elif first and op["k"] == "reorg_fault":
                d["fault_armed_but_not_hit" if s["out"] == "ok" else "failed_reorgs_under_fault"] += 1
            prev_rows = s["rows"]
    return d


METH_RE = re.compile(r'\("(\w+)", "(\w+)", (true|false), (true|false)\)')


def extra_checks(chk):
    """Method table of the translator into the evidence; cross-check of the reflection-enumerated method sets."""
    try:
        with open(os.path.join(COQ, "theories", "Gen", "SourceFacts.v")) as f:
            src = f.read()
    except OSError:
        return
    body = src[src.find("Definition facade_methods"):src.find("Definition facade_hook_methods")]
    table = [(r, n, g == "true", t == "true") for (r, n, g, t) in METH_RE.findall(body)]
    hooks = re.findall(r'\("(\w+)", "(\w+)"\)', src[src.find("Definition facade_hook_methods"):].split("\n")[0])
    chk.cov["facade_methods"] = {
        "total": len(table), "guarded": sum(1 for m in table if m[2]), "touching_data": sum(1 for m in table if m[3]),
        "unguarded": ["%s.%s" % (m[0], m[1]) for m in table if not m[2]],
        "not_touching_data": ["%s.%s" % (m[0], m[1]) for m in table if not m[3]],
        "touching_data_without_guard": ["%s.%s" % (m[0], m[1]) for m in table if m[3] and not m[2]],
        "hook_methods_not_called": ["%s.%s" % h for h in hooks],
    }
    path = os.path.join(BUILD, ID, "cases.jsonl")
    if chk.replay is not None or not os.path.exists(path):
        return
    mism = []
    with open(path) as f:
        for line in f:
            if '"kind":"methods"' not in line:
                continue
            o = json.loads(line)
            recv = o["in"]["syncer"]
            ast_names = sorted(m[1] for m in table if m[0] == recv)
            refl = sorted(o.get("called") or [])
            if ast_names != refl:
                mism.append("%s: only in AST %s, only by reflection %s" % (
                    recv, sorted(set(ast_names) - set(refl)), sorted(set(refl) - set(ast_names))))
            if sorted(h[1] for h in hooks if h[0] == recv) != sorted(o.get("skipped") or []):
                mism.append("%s: hook methods differ: AST %s reflection %s" % (
                    recv, sorted(h[1] for h in hooks if h[0] == recv), sorted(o.get("skipped") or [])))
    chk.cov["reflection_vs_ast"] = mism or "equal"
    if mism and not chk.violations:
        chk.obligation_broken("method sets differ between reflection and the translator: " + "; ".join(mism),
                              theorem="correspondence: facade_methods (gofacts) vs reflect.Type.NumMethod")


LEVEL_TEXT = ("Kernel-checked theorems over the fail-stop state machine shared by both processors (any row type, any transaction body, any "
              "in-memory state): halted => every guarded facade method returns the inconsistency error; with the obligation "
              "all_data_queries_guarded, evaluated by vm_compute on the method list REGENERATED from the Go AST on every run, every data "
              "query does; ProcessBlock while halted returns the error and leaves the state unchanged for every sequence of blocks; "
              "Reorg(b) clears the flag iff it deleted >= 1 block row, for all b and all states; in every reachable state a deposit-count "
              "gap halts the bridge processor and nothing else does (via the invariant that the tree's in-memory index agrees with the "
              "database or is invalidated, which holds since fixes 246bc10 / 9d73352), an announced root / leaf-count mismatch halts the "
              "L1 info tree processor and nothing else does; the property predicate evaluated by the check holds of the model on EVERY "
              "history (fail-stop part: both syncers unconditionally; with detection: L1 info tree unconditionally, bridge for histories "
              "with increasing block numbers). The model is tied to the code by source-fact obligations (guard shapes, `rowsAffected > 0`, "
              "the two halting sites and their conditions, the driver's reaction, the tree dropping its index on Reorg / rollback) and by "
              "running the real facades over real processors on SQLite: every exported method found by reflection, in every phase of "
              "every history, including the two regression histories of the fixed defect " + FINDING_STALE_INDEX + ".")
LEVEL_NOTE = ("Trusted: Coq kernel + vm_compute; the hand transcription of ProcessBlock/Reorg/UnhaltIfAffectedRows into Model/Halt.v "
              "(validated by the correspondence on every run); tools/gofacts/facts_c14.go (syntactic recognition, conservative); Go "
              "reflection; SQLite. Not covered: the synchronizer goroutine itself (tied by one source fact), database faults, and "
              "arguments other than zero/small ones (the guard precedes any use of the arguments).")
TECHNIQUE = ("Coq proof (state-machine invariants, induction over histories) + proof obligation over a list regenerated from the Go AST "
             "+ differential correspondence of real facades via reflection, evaluated by vm_compute")
