"""C13 - certificate bookkeeping survives crashes and a lost database."""
from vlib import cN, cNhex, cbytes, cbool, clist, copt

ID = "C13"
PROPERTIES_V = ["theories/Properties/C13.v"]
MAKE_TARGETS = ["theories/Properties/C13.vo", "theories/Model/C13Cases.vo", "theories/Proofs/GenAgreeInitialState.vo"]
HARNESS = "c13"
CASES_IMPORTS = ("From Coq Require Import NArith List.\n"
                 "From Verif Require Import Base.Bytes Model.Reconcile Model.C13Cases.")
CASE_TYPE = "case13"
CORR = "corr"
SPEC = "spec"
SHARD = 150
RULE = ("protocol states satisfying the invariant, systematically: Agglayer state of the latest certificate {pending, proven, candidate, "
        "in error, settled} (+ nothing at all) x height 0..3 (= with / without settled history) x send step {idle, first certificate, "
        "next certificate, replacement of an InError certificate} x crash point {before submit, after submit before store, after store, "
        "database lost} x metadata version {2,1,0} x local settled history {kept, absent}, plus random draws of the same; "
        "contradiction cases (local-only, Agglayer lower, different id at equal height) derived from every consistent state; "
        "random unstructured Agglayer views / local tables (every branch of process()); storage faults on each statement class "
        "{history insert, delete, insert, none} x table size 0..3 x target height x history on/off; metadata encode/decode at the "
        "uint32/uint64 boundaries. The next certificate's (height, previous LER, first block, retry count) of every case is computed twice on the real code - by the hook that calls the three flow functions and through the public entry points GetCertificateBuildParamsInternal / VerifyBuildParams / BuildCertificate of a real base flow - and the two routes must agree. A case is non-trivial when the recovery had something to decide (local or Agglayer side non-empty), "
        "a fault case when the table was non-empty or a fault was armed, a metadata case always; distinct = distinct "
        "(kind, crash point, step, Agglayer class, height, metadata version, history, outcome, error kind, next-parameter class)")
ASSUMPTIONS = [
    "SQLite commit/rollback atomicity and PRIMARY KEY enforcement are trusted (the model's transaction = all statements or none)",
    "GetLatestPendingCertificateHeader returns the latest certificate that is not settled, including one in error; "
    "GetLatestSettledCertificateHeader the latest settled one (this is what initial_state.go itself assumes)",
    "hypothesis of recovery_refines_nocrash, explicit in Inv: the Agglayer header of the node's own certificate carries "
    "prev_local_exit_root and its metadata decodes to the certificate's block range (true for metadata V1/V2 when to-from < 2^32; "
    "V0 carries only the last block)",
    "certificate ids are distinct for distinct certificates (they are hashes)",
    "block numbers and heights below 2^63 (database/sql refuses larger uint64 arguments; modelled as a storage error)",
    "timestamps (updated_at; created_at for V0 headers), retry counts, the signed JSON blob and the aggchain proof are outside the property",
]


def cases_n(tier):
    return 250 if tier == "quick" else 4000


STATUS = ["Pending", "Proven", "Candidate", "InError", "Settled"]
ERRK = {"agg_inconsistent": "EAggInconsistent", "suspicious_height": "ESuspiciousHeight", "local_only": "ELocalOnly",
        "agg_lower": "EAggLower", "different_id": "EDifferentId", "bad_metadata": "EBadMetadata", "storage": "EStorage",
        "not_closed": "ENotClosed", "no_prev_settled": "ENoPrevSettled", "prev_not_settled": "EPrevNotSettled",
        "unknown_status": "EUnknownStatus", "retry_from_mismatch": "ERetryFromMismatch", "other": "EOther"}


def chash(h):
    return None if h is None else cNhex(h)


def crow(r):
    return ("{| r_height := %s; r_retry := %s; r_id := %s; r_status := %s; r_prev_ler := %s; r_new_ler := %s; "
            "r_from := %s; r_to := %s; r_created := Some %s; r_ctype := %s; r_from_agg := %s |}" % (
                cN(r["height"]), cN(r["retry"]), cNhex(r["id"]), STATUS[r["status"]], copt(chash(r["prev_ler"])),
                cNhex(r["new_ler"]), cN(r["from"]), cN(r["to"]), cN(r["created"]), cN(r["ctype"]), cbool(r["from_agg"])))


def chdr(h):
    return ("{| h_height := %s; h_id := %s; h_status := %s; h_new_ler := %s; h_prev_ler := %s; h_meta := %s |}" % (
        cN(h["height"]), cNhex(h["id"]), STATUS[h["status"]], cNhex(h["new_ler"]), copt(chash(h["prev_ler"])), cbytes(h["meta"])))


def cop(o):
    if o["op"] == "save":
        return "OpSave %s" % crow(o["row"])
    return "OpStatus %s %s" % (cNhex(o["id"]), STATUS[o.get("status", 0)])


def chist(hs):
    return clist(["(%s, %s, %s)" % (cN(k["height"]), cN(k["retry"]), cNhex(k["id"])) for k in hs])


def cagg(a):
    return "{| a_settled := %s; a_pending := %s; a_known := %s |}" % (
        copt(chdr(a["settled"]) if a["settled"] else None), copt(chdr(a["pending"]) if a["pending"] else None),
        clist([chdr(h) for h in a["known"] or []]))


def cmeta(m):
    return ("{| m_version := %s; m_to_v0 := %s; m_from := %s; m_offset := %s; m_created := %s; m_ctype := %s |}" % (
        cN(m["version"]), cN(m["to_v0"]), cN(m["from"]), cN(m["to"]), cN(m["created"]), cN(m["ctype"])))


def coq_case(o):
    i = o["in"]
    if o.get("harness_err"):
        raise RuntimeError("harness error on a case: " + o["harness_err"])
    if i["kind"] == "meta":
        m = i["meta"]
        return ("CM {| mi_raw := %s; mi_version := %s; mi_to_v0 := %s; mi_from := %s; mi_to := %s; mi_created := %s; "
                "mi_ctype := %s; mo_enc := %s; mo_dec := %s |}" % (
                    copt(cbytes(m["raw"]) if m.get("raw") else None), cN(m["version"]), cN(m["to_v0"]), cN(m["from"]), cN(m["to"]),
                    cN(m["created"]), cN(m["ctype"]), cbytes(o["meta_enc"]),
                    copt(cmeta(o["meta_dec"]) if o.get("meta_dec") else None)))
    cfg = i["cfg"]
    if i["kind"] == "fault":
        return ("CF {| f_keep := %s; f_ops := %s; f_class := %s; f_row := %s; fo_before := %s; fo_hist_before := %s; "
                "fo_err := %s; fo_after := %s; fo_hist_after := %s |}" % (
                    cbool(cfg["keep"]), clist([cop(x) for x in i["ops"]]),
                    {"hist": "FHist", "delete": "FDelete", "insert": "FInsert"}.get(i["fault_class"], "FNone"),
                    crow(i["fault_row"]), clist([crow(r) for r in o["before"]]), chist(o["hist_before"]),
                    cbool(o["save_err"]), clist([crow(r) for r in o["after"]]), chist(o["hist_after"])))
    outcome = {"none": "ONone", "update": "OUpdate", "insert": "OInsert"}.get(o["outcome"])
    if outcome is None:
        outcome = "(ORefused %s)" % ERRK.get(o["err_kind"], "EOther")
    nx = o["next"]
    if nx["ok"]:
        cnext = "(Ok (%s, %s, %s))" % (cN(nx["height"]), cNhex(nx["ler"]), cN(nx["from"]))
    else:
        cnext = "(Err %s)" % ERRK.get(nx["err"], "EOther")
    return ("CR {| k_cfg := {| c_start_block := %s; c_start_ler := %s; c_keep_history := %s |}; k_ops := %s; k_lost := %s; "
            "k_agg := %s; k_scenario := %s; k_ideal := %s; o_before := %s; o_hist_before := %s; o_outcome := %s; "
            "o_after := %s; o_hist_after := %s; o_next := %s |}" % (
                cN(cfg["start_block"]), cNhex(cfg["start_ler"]), cbool(cfg["keep"]), clist([cop(x) for x in i["ops"]]),
                cbool(i["lost"]), cagg(i["agg"]), cbool(i["scenario"]), copt(crow(i["ideal"]) if i.get("ideal") else None),
                clist([crow(r) for r in o["before"]]), chist(o["hist_before"]), outcome,
                clist([crow(r) for r in o["after"]]), chist(o["hist_after"]), cnext))


def _latest(a):
    return a["pending"] or a["settled"]


def _next_class(o):
    nx = o["next"]
    return "ok" if nx["ok"] else nx["err"]


def nontrivial_key(o):
    i = o["in"]
    if i["kind"] == "meta":
        m = i["meta"]
        return ["meta", m.get("raw", "") != "", m["version"], m["from"], m["to"], m["created"], m["ctype"], m.get("raw", "")]
    if i["kind"] == "fault":
        if not o["before"] and i["fault_class"] == "none":
            return None
        return ["fault", i["cfg"]["keep"], i["fault_class"], len(o["before"]), i["fault_row"]["height"], o["save_err"], len(o["hist_after"])]
    l = _latest(i["agg"])
    if not o["before"] and l is None:
        return None
    return ["recover", i["scenario"], i["cp"], i["step"], i["agg_class"], l["height"] if l else -1, l["status"] if l else -1,
            i["meta_v"], len(o["before"]), i["cfg"]["keep"], o["outcome"], o["err_kind"], _next_class(o)]


def finding_key(o):
    return None


def distribution(outs):
    d = {"recover_scenario": 0, "recover_contradiction": 0, "recover_random": 0, "fault": 0, "meta": 0,
         "db_lost": 0, "outcomes": {}, "scenario_table": {}, "refused_pairs_in_scenarios": {},
         "boundary_v0_inerror_first_block_not_recoverable": 0, "boundary_header_without_prev_ler_no_next_certificate": 0,
         "fault_failed_saves": 0, "setup_ops_rejected": 0}
    for o in outs:
        i = o["in"]
        if i["kind"] == "meta":
            d["meta"] += 1
            continue
        d["setup_ops_rejected"] += o.get("op_errs", 0)
        if i["kind"] == "fault":
            d["fault"] += 1
            d["fault_failed_saves"] += 1 if o["save_err"] else 0
            continue
        oc = o["outcome"] + ((":" + o["err_kind"]) if o["outcome"] == "refused" else "")
        d["outcomes"][oc] = d["outcomes"].get(oc, 0) + 1
        if i["lost"]:
            d["db_lost"] += 1
        if i["scenario"]:
            d["recover_scenario"] += 1
            k = "%s | %s | agglayer=%s" % (i["cp"], i["step"], i["agg_class"])
            t = d["scenario_table"].setdefault(k, {})
            t[oc] = t.get(oc, 0) + 1
            if o["outcome"] == "refused":
                d["refused_pairs_in_scenarios"][k] = d["refused_pairs_in_scenarios"].get(k, 0) + 1
            l = _latest(i["agg"])
            rebuilt = bool(o["after"]) and max(o["after"], key=lambda r: r["height"])["from_agg"]
            if l and rebuilt and l["status"] == 3 and o["outcome"] != "refused":
                if l["meta"][:2] == "00" and not o["next"]["ok"] and o["next"]["err"] == "retry_from_mismatch":
                    d["boundary_v0_inerror_first_block_not_recoverable"] += 1
                if l["prev_ler"] is None and not o["next"]["ok"] and o["next"]["err"] == "no_prev_settled":
                    d["boundary_header_without_prev_ler_no_next_certificate"] += 1
        elif i["agg_class"].startswith("contra"):
            d["recover_contradiction"] += 1
        else:
            d["recover_random"] += 1
    return d


LEVEL_TEXT = ("Kernel-checked theorems over a one-for-one Gallina transcription of initialStatus.process, the consistency checks, the "
              "header-to-row reconstruction with the three metadata versions, SaveLastSentCertificate's transaction and the flow's "
              "next-certificate parameters: for EVERY protocol state satisfying the stated invariant and every crash point (before submit, "
              "after submit before store, after store, database lost), whenever the restart reconciliation succeeds the next "
              "(height, previous LER, first block) equal those of the node that did not crash; exact table of which crash/state pairs "
              "are reconciled and which are refused; contradictory records are always refused; one row per height; a failed save "
              "leaves the store unchanged for every fault position; metadata round trip under to-from < 2^32. The model is tied to the "
              "Go code by running the real status checker, real SQLite storage and real flow functions on thousands of cases per run.")
LEVEL_NOTE = ("Stated openly: the crash after submitting a REPLACEMENT of an InError certificate and before storing it is refused "
              "(different id at the same height; CheckInitialStatus then retries forever) - safe, not live; a version-0 metadata hash "
              "does not carry the first block, so an InError certificate rebuilt from it has from_block 0 and VerifyBuildParams refuses to build the retry (nothing built); a header "
              "without prev_local_exit_root for an InError certificate at height > 0 after a lost database leaves no next certificate. "
              "Trusted: Coq kernel + vm_compute, SQLite atomicity, the hand transcription (validated by the correspondence), "
              "the fake Agglayer's reading of the two 'latest' endpoints.")
TECHNIQUE = "Coq proof (case analysis over the reconciliation table, list invariants of the store) + differential correspondence via vm_compute, SQL-trigger fault injection"
