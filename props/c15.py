"""C15 - the GER oracle injects only finalized, current, not-yet-present roots (and keeps doing so while the syncer lags)."""
import hashlib
import json

from vlib import cN, cNhex, cbool, cnat, clist

ID = "C15"
PROPERTIES_V = ["theories/Properties/C15.v"]
MAKE_TARGETS = ["theories/Properties/C15.vo", "theories/Model/C15Cases.vo", "theories/Model/C15Reorg.vo", "theories/Proofs/GenAgreeOracle.vo"]
HARNESS = "c15"
CASES_IMPORTS = ("From Coq Require Import NArith ZArith List.\n"
                 "From Verif Require Import Base.Bytes Model.Oracle Model.C19Cases Model.C15Cases Model.C15Reorg.")
CASE_TYPE = "case15r"
# the model compared with the code is the REPAIRED tick (tick_fixed): on the pinned (unrepaired) commit the
# correspondence breaks on every schedule in which the syncer lags, and spec fails on the lag schedules (finding F3)
CORR = "corr_any"
SPEC = "spec_any"
SHARD = 60
RULE = ("schedules of oracle ticks against the real AggOracle + real l1infotreesync store: boundary schedules (finalized block 0, "
        "no root at or below the finalized block, syncer far ahead with roots beyond the finalized block, root already on L2, "
        "each dependency failing once, failures while lagging, block numbers around 2^40), lag schedules (syncer exactly k = 1..5 "
        "ticks behind a finalized block advancing every tick, roots every 1..3 finalized blocks), random schedules with the "
        "syncer mostly behind / mostly ahead / mixed, with and without injected failures of the L1 client, the syncer, "
        "IsGERInjected and InjectGER, for finality FinalizedBlock / SafeBlock / LatestBlock; thorough tier adds all 540 three-tick "
        "schedules over finalized block 1..3 x syncer position 0..3; L1 REORGS between ticks (stream 'reorg': the real processor's Reorg, "
        "then the new fork's blocks): directed histories (reorg starting exactly at / below / above the block of the newest root the "
        "syncer holds, the sampled block itself reorganised away while the oracle waits, a failed injection followed by a reorg, a "
        "reorg from block 1) and random schedules with 1..3 reorgs - for these the correspondence per tick and the safety clause are "
        "evaluated against the history canonical at each tick; a case is non-trivial when the "
        "implementation injected at least one root or waited at least once for the syncer (ErrBlockNotProcessed); "
        "distinct = distinct schedule")
ASSUMPTIONS = ["L1 block numbers fit uint64 (header.Number.Uint64())",
               "liveness clauses: the L1 info tree history below a block that had the configured finality when sampled does not change (no reorg below finality); the safety clauses are proved and checked for histories that change arbitrarily between ticks",
               "the syncer has processed exactly the blocks up to its last processed block (GetLatestInfoUntilBlock's own guard), lpb non-decreasing",
               "one tick is atomic with respect to the syncer and to other L2 writers (ticker timing and goroutines not modelled)",
               "liveness premise (fairness): the syncer eventually reaches every sampled block and no dependency fails in between"]

TAGS = {"FinalizedBlock": -3, "SafeBlock": -4, "LatestBlock": -2}
ERR = {"": 0, "l1": 1, "notprocessed": 2, "notfound": 3, "noblock0": 4, "info": 5, "isinj": 6, "inject": 7, "other": 99}


def cases_n(tier):
    return 300 if tier == "quick" else 1500


def cZ(v):
    return "(%d)%%Z" % int(v)


def fnum(inp, t):
    return {"FinalizedBlock": t["fin"], "SafeBlock": t["safe"], "LatestBlock": t["latest"]}[inp["finality"]]


def coq_case(o):
    i = o["in"]
    pool = list(i.get("leaves") or [])
    for t in i.get("ticks") or []:
        if t.get("reorg"):
            pool += t["reorg"].get("leaves") or []
    hists = o.get("hists") or []      # per tick: pool indices of the canonical history (cases with a reorg only)
    hist = clist(["(%s, %s, %s)" % (cN(l["b"]), cNhex(l["mer"]), cNhex(l["rer"])) for l in pool])
    ticks = []
    obs = o.get("obs") or []
    for k, t in enumerate(i.get("ticks") or []):
        if k >= len(obs):
            break
        ob = obs[k]
        tin = ("{| i_F := %s; i_l1err := %s; i_lpb := %s; i_infoerr := %s; i_l2add := %s; i_isinjerr := %s; i_injecterr := %s |}" % (
            cN(fnum(i, t)), cbool(t.get("l1_err") or t.get("l1_err_once")), cN(t["lpb"]), cbool(t.get("info_err")),
            clist([cnat(l2pos(hists, k, x)) for x in (t.get("l2_add") or [])]), cbool(t.get("isinj_err")), cbool(t.get("inject_err"))))
        tob = ("{| o_tags := %s; o_inj := %s; o_att := %s; o_err := %s; o_target := %s |}" % (
            clist([cZ(x) for x in (ob.get("tags") or [])]), clist([cNhex(x) for x in (ob.get("inj") or [])]),
            clist([cNhex(x) for x in (ob.get("att") or [])]), cN(ERR.get(ob.get("err", ""), 99)), cN(ob["target"])))
        ticks.append("(%s, %s)" % (tin, tob))
    base = ("{| c_tag := %s; c_hist := %s; c_gers := %s; c_l2init := %s; c_ticks := %s; c_harness_err := %s |}" % (
        cZ(TAGS.get(i.get("finality"), -3)), hist, clist([cNhex(g) for g in (o.get("gers") or [])]),
        clist([cnat(x) for x in (i.get("l2_init") or [])]), clist(ticks), cbool(bool(o.get("err")))))
    return "{| r_base := %s; r_hists := %s |}" % (base, clist([clist([cnat(x) for x in h]) for h in hists]))


def l2pos(hists, k, x):
    """l2_add names a leaf of the pool; the model's tick indexes the history canonical at that tick (linear case: the same)."""
    if not hists:
        return x
    h = hists[k] if k < len(hists) else []
    return h.index(x) if x in h else len(h) + 1000     # not in the canonical history: resolves to nothing


def nontrivial_key(o):
    obs = o.get("obs") or []
    if any(ob.get("inj") for ob in obs) or any(ob.get("err") == "notprocessed" for ob in obs):
        return hashlib.sha1(json.dumps(o["in"], sort_keys=True).encode()).hexdigest()
    return None


def finding_key(o):
    """Class of a failing case. F3 = the oracle waited for the syncer (ErrBlockNotProcessed for a sampled block != 0)
    and did NOT remember the block (blockNumToFetch still 0 after the tick)."""
    i = o["in"]
    for t, ob in zip(i.get("ticks") or [], o.get("obs") or []):
        if ob.get("err") == "notprocessed" and ob.get("target") == 0 and ob.get("tags") and fnum(i, t) != 0:
            return "C15:sampled-block-not-remembered-while-syncer-lags"
    return None


def distribution(outs):
    d = {"ticks": 0, "injections": 0, "ticks_with_remembered_block": 0, "harness_errors": 0}
    for o in outs:
        k = "kind_" + o["in"].get("kind", "?")
        d[k] = d.get(k, 0) + 1
        f = "finality_" + o["in"].get("finality", "?")
        d[f] = d.get(f, 0) + 1
        if o.get("err"):
            d["harness_errors"] += 1
        d["reorgs"] = d.get("reorgs", 0) + sum(1 for t in o["in"].get("ticks") or [] if t.get("reorg"))
        for ob in o.get("obs") or []:
            d["ticks"] += 1
            d["injections"] += len(ob.get("inj") or [])
            if ob.get("target"):
                d["ticks_with_remembered_block"] += 1
            e = "tick_" + (ob.get("err") or ("inject" if ob.get("inj") else "already_on_l2"))
            d[e] = d.get(e, 0) + 1
    return d


LEVEL_TEXT = ("Kernel-checked theorems over a one-for-one model of the oracle tick (processLatestGER, getLastFinalizedGER, "
              "GetLatestInfoUntilBlock), for ALL L1 histories, schedules of finality / syncer progress / ticks and failures of each "
              "dependency: every injected root is the most recent root of the L1 history at or below a block that was sampled with the "
              "configured finality, it was not on L2, no root is injected twice, a failing dependency injects nothing, a caught-up "
              "syncer gives progress in the same tick; for the repaired tick, progress under lag (the syncer reaches the sampled "
              "block => the root is on L2 at that very tick and the oracle samples again); for the tick as written at the pinned "
              "commit the remembered block is provably always 0 and the lag schedules starve (no injection for any number of ticks) "
              "- the machine-checked form of finding F3. The two run-level safety theorems are also proved for runs in which the L1 history is "
              "REORGANISED between ticks in any way (run_r: an injected root is the most recent one, at or below the last sampled block, of the "
              "history canonical at the tick of the injection; no root twice). The model is tied to the Go code by running the real AggOracle tick against "
              "the real l1infotreesync store (its real Reorg included), a scripted L1 client and a recording sender on hundreds of schedules per run.")
LEVEL_NOTE = ("Trusted: Coq kernel + vm_compute, the translator tools/go2coq for oracle.go (its output proved equal to the model), the hand "
              "transcription of GetLatestInfoUntilBlock (validated per tick by the correspondence), the scripted L1 client / fault wrapper / recording sender of harness/c15, SQLite below the real "
              "store. Not modelled: ticker timing, goroutines, the EVM sender's transaction management (chaingersender).")
TECHNIQUE = ("Coq proof (induction over schedules, invariants); aggoracle/oracle.go processLatestGER / getLastFinalizedGER TRANSLATED to Gallina on every run "
             "(tools/go2coq -> Gen/GenOracle.v) and proved equal to the model's tick; differential correspondence per tick via vm_compute")
