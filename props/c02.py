"""C02 - bridge exits settle exactly once through a gap-free certificate chain.
(Also the shared transcription for C03: same harness, same case type, different SPEC.)"""
import json

ID = "C02"
PROPERTIES_V = ["theories/Properties/C02.v"]
MAKE_TARGETS = ["theories/Properties/C02.vo", "theories/Model/C02Cases.vo", "theories/Proofs/GenAgreeFlowBase.vo", "theories/Proofs/GenAgreeLimitCert.vo", "theories/Proofs/GenAgreeGetParams.vo", "theories/Proofs/GenAgreeProverFlow.vo"]
HARNESS = "aggsender"
CASES_IMPORTS = ("From Coq Require Import NArith ZArith List Uint63.\n"
                 "From Verif Require Import Base.Bytes Model.BridgeStore Model.Commitment Model.Reconcile "
                 "Model.AggsenderProtocol Model.C02Cases.\nOpen Scope N_scope.")
CASE_TYPE = "case02"
CORR = "corr"
SPEC = "spec_c02"
SHARD = 7
HARNESS_TIMEOUT = 3000
RULE = ("boundary schedules first, for both RetryCertAfterInError settings: three certificates in a row with a status poll at every "
        "Agglayer stage; a certificate going InError at each stage {Pending, Proven, Candidate} with a block arriving before the "
        "replacement, replaced by a status tick or by the next epoch, failing again, then settling; scripted Agglayer failures on the "
        "send and on the poll; empty blocks / empty ranges; ranges cut by MaxCertSize to a prefix (1 byte, 300, 4000); claims-only "
        "certificates; pre-synced history with StartL2Block > 0 (start LER = the real tree's root there); certificate tables that exist "
        "before the sender starts (restart: last certificate settled / in error / pending; a row in error rebuilt from version-0 "
        "metadata with FromBlock = 0, which must never be replaced); process restarts for Agglayer headers with and without "
        "prev_local_exit_root: crash between 'accepted by the Agglayer' and 'row stored' for a new height (last block holding a bridge), "
        "for the first certificate, for a certificate that then goes InError and is replaced, and for a replacement (start-up check "
        "refuses for ever); database lost while the latest certificate is pending / proven / in error / settled; plain restarts. "
        "an aggchain-prover (FEP) stream - the REAL AggchainProverFlow with a scripted prover answering "
        "EndBlock = requested / middle / first block / outside the range / error per tick: empty certificates, shortened ranges, "
        "refusals, a certificate in error resent with the same range from its stored proof, plus a quarter as many FEP walks as PP "
        "walks. Then random walks of 20-60 "
        "events over {block with 0-2 bridges and 0-1 claims (30% empty, block numbers may skip), epoch tick and status tick with "
        "MaxCertSize from {0,1,200,400,3100,6000}, Agglayer moves its latest certificate (biased to the natural next stage, 25% InError), "
        "move of a random certificate to a random status, next Agglayer call fails, restart (1 in 3 with the database lost), 1 tick in 12 "
        "crashing between accept and store}, field values from {0,1,2^32-1 / 0x00,0xff..,random / "
        "0,1,2^256-1,random}, metadata lengths {0,1,31,32,33,100,300}, global indexes mainnet / rollup / non-canonical / > 9 bytes. "
        "Thorough tier adds EVERY sequence of 6 symbols over {block, epoch, status, settle latest, latest InError} for both retry settings "
        "and every sequence of 5 symbols with 'next call fails' added. A case is non-trivial when the node submitted at least two "
        "certificates; distinct = distinct schedule")
ASSUMPTIONS = [
    "the Agglayer is the permissive environment of the model: it accepts every certificate (Pending) unless the next call is scripted "
    "to fail, a failed call delivers nothing, statuses move only Pending->Proven->Candidate->Settled or open->InError, ids are distinct",
    "deposit counts of synced bridge events are consecutive from 0 (the bridge contract guarantees it; any other block is refused by "
    "the processor, which then halts: C14)",
    "configuration consistency (Init): StartL2Block is already synced and the start LER is the exit-tree root after the last deposit "
    "at or before it",
    "the exit tree is SOME function of the appended leaves (Section hypotheses t_add_repr / t_add_root; C01 proves the real tree is "
    "the reference Merkle root)",
    "block numbers and heights below 2^63 (SQLite integers); ranges shorter than 2^32 blocks for the metadata offset",
    "one aggsender process at a time, events of the loop handled one at a time (the Go select does this)",
    "process restarts (same / lost certificate database, crash between 'accepted by the Agglayer' and 'row stored'): PARTIAL - events "
    "of the executable model (xrstep, recovery = Model/Reconcile.v recover of C13), compared with the real restart + CheckInitialStatus "
    "iteration and judged by the property predicates; the inductive theorems cover restart-free stretches from any state satisfying "
    "Inv (incl. rows without stored previous LER: C02_inerror_prev_ler_fallback); no theorem that a restart re-establishes Inv. "
    "Environment conventions: a scripted Agglayer failure does not outlive the process; while the start-up check is refused every "
    "tick is another attempt; Agglayer headers carry metadata V2 and, per case, may or may not carry prev_local_exit_root",
    "aggchain-prover (FEP) flow: theorems *_fep_partial are about build_fep, which the FEP stream of the harness compares with the real "
    "AggchainProverFlow (scripted prover; stored proof always present). Still outside: optimistic mode, a certificate in error of "
    "another certificate type, a missing stored proof (table rebuilt from the Agglayer), maxL2BlockNumber, injected-GER proofs",
]
TRUSTED_EXTRA = [
    "scripted Agglayer / L1-info-tree querier / LER querier / signer of harness/aggsender (environment of the model)",
    "hook aggsender/verif_export_c02.go: wires real components as aggsender.New + flows.NewFlow do for the PP flow; "
    "VerifStepC02 = sendCertificates(ctx, 1) with the ticker period / epoch channel chosen so that exactly the wanted select case fires",
    "MaxCertSize per tick is turned into the model's cut by the C17 model of limitCertSize (Model/CertCut.v, Flocq binary64 size estimate)",
]

STATUS = ["Pending", "Proven", "Candidate", "InError", "Settled"]


def cases_n(tier):
    global SHARD
    if tier == "quick":
        SHARD = 7
        return 60
    SHARD = 1800
    return 2000


# ---------------------------------------------------------------------------------------------
# literals
# ---------------------------------------------------------------------------------------------

def num(v):
    v = int(v)
    if v < 2 ** 60:
        return str(v)
    limbs = []
    while v:
        limbs.append(str(v & (2 ** 60 - 1)))
        v >>= 60
    return "(nb [%s]%%uint63)" % ";".join(limbs)


def hexnum(h):
    return num(int(h, 16) if h else 0)


def bx(h):
    """bytes from hex: (fbe LEN value) reproduces the byte string, leading zeros included"""
    if not h:
        return "[]"
    return "(fbe %d%%nat %s)" % (len(h) // 2, hexnum(h))


def cbool(b):
    return "true" if b else "false"


def clist(items):
    return "[" + "; ".join(items) + "]"


class Tbl:
    """per-case table of 256-bit values"""

    def __init__(self):
        self.idx = {}
        self.vals = []

    def ref(self, h):
        h = h.lower()
        if h not in self.idx:
            self.idx[h] = len(self.vals)
            self.vals.append(h)
        return "(hx T %d%%nat)" % self.idx[h]


def bridge(e, pos):
    return "(mkB %d %s %s %s %s %s %s %s %s 0)" % (
        pos, num(e.get("dc", 0)), num(e.get("lt", 0)), num(e.get("onet", 0)), hexnum(e.get("oaddr", "")),
        num(e.get("dnet", 0)), hexnum(e.get("daddr", "")), num(e["amount"]), bx(e.get("meta", "")))


def claim(e, pos):
    return "(mkC %d %s %s %s %s %s %s %s %s)" % (
        pos, num(e["gi"]), num(e.get("onet", 0)), hexnum(e.get("oaddr", "")), num(e.get("dnet", 0)),
        hexnum(e.get("daddr", "")), num(e["amount"]), bx(e.get("meta", "")), cbool(e.get("is_msg", False)))


def step(s, fep=False, obs=None):
    k = s["k"]
    if k == "l2reorg":   # applied only when it drops no block a live certificate covers (harness decides at run time)
        return "XReorg %s" % num(s.get("b", 0)) if (obs or {}).get("applied") else "XNop"
    if fep and k in ("epoch", "status"):
        return "XTickF %s %s %s" % (cbool(k == "epoch"), num(s.get("max", 0)), num(s.get("rule", 0)))
    if k == "block":
        bs, cs = [], []
        for i, e in enumerate(s.get("evs") or []):
            (bs if e["t"] == "b" else cs).append(bridge(e, i) if e["t"] == "b" else claim(e, i))
        return "XBlock %s %s %s" % (num(s.get("skip", 0)), clist(bs), clist(cs))
    if k == "epoch":
        return "%s %s" % ("XCrashEpoch" if s.get("crash") else "XEpoch", num(s.get("max", 0)))
    if k == "status":
        return "%s %s" % ("XCrashStatus" if s.get("crash") else "XStatus", num(s.get("max", 0)))
    if k == "restart":
        return "XRestart %s" % cbool(s.get("lost", False))
    if k == "move":
        return "XMove %s %s" % (num(s.get("id", 0)), STATUS[s.get("st", 0)])
    if k == "movelast":
        return "XMoveLast %s" % STATUS[s.get("st", 0)]
    if k == "fail":
        return "XFail"
    raise ValueError(k)


def exit_obs(x):
    amt = "None" if x["amount"] == "nil" else "(Some %s)" % num(x["amount"])
    meta = "None" if x["meta"] is None else "(Some %s)" % bx(x["meta"])
    return "(mkXO (Build_bridge_exit %s %s %s %s %s %s %s) %s)" % (
        num(x["lt"]), num(x["onet"]), hexnum(x["oaddr"]), num(x["dnet"]), hexnum(x["daddr"]), amt, meta, hexnum(x["hash"]))


def sub_obs(s, t):
    return "(mkSO %d %d %s %s %s %s %s)" % (
        s["id"], s["height"], t.ref(s["prev"]), t.ref(s["new"]), bx(s["meta"]),
        clist([exit_obs(x) for x in s["exits"] or []]),
        clist(["(mkIO %s (%s, %s, %s))" % (exit_obs(i["exit"]), cbool(i["m"]), num(i["r"]), num(i["l"])) for i in s["imp"] or []]))


def row_obs(r, t):
    return "(mkRO %d %s %s %d %d %s %s %d)" % (
        r["height"], "None" if r["id"] < 0 else "(Some %d)" % r["id"], STATUS[r["status"]], r["from"], r["to"],
        "None" if r["prev"] is None else "(Some %s)" % t.ref(r["prev"]), t.ref(r["new"]), r["retry"])


def coq_case(o):
    if o.get("harness_err"):
        raise RuntimeError("harness error on a case: " + o["harness_err"])
    i = o["in"]
    t = Tbl()
    ler = t.ref(o["start_ler"])
    obs = []
    prev_rows = None
    for so in o["steps"]:
        if so.get("blk_err"):
            raise RuntimeError("the bridge processor refused a generated block: " + so["blk_err"])
        rows = json.dumps(so["rows"], sort_keys=True)
        rterm = "None" if rows == prev_rows else "(Some %s)" % clist([row_obs(r, t) for r in so["rows"] or []])
        prev_rows = rows
        rec = so.get("recov")
        obs.append("(mkST %s %s %d %s)" % (clist([sub_obs(s, t) for s in so["subs"] or []]), rterm, so["synced"],
                                           "None" if not rec else "(Some %s)" % cbool(rec == "refused")))
    fep = i.get("flow") == "fep"
    body = "mkCase02 %s %s %s %d %s %s %s %s %s" % (
        cbool(fep), cbool(i["retry"]), cbool(i.get("agg_prev", False)), i["start_block"], ler,
        clist([step(s) for s in i.get("pre") or []]), clist([row_obs(r, t) for r in o.get("seeds") or []]),
        clist([step(s, fep, so) for s, so in zip(i["steps"], o["steps"])]), clist(obs))
    return "(let T := %s in %s)" % (clist([hexnum(h) for h in t.vals]), body)


def n_subs(o):
    return sum(len(s.get("subs") or []) for s in o["steps"])


def nontrivial_key(o):
    return None if n_subs(o) < 2 else [o["in"].get("flow"), o["in"]["retry"], o["in"].get("agg_prev"), o["in"]["start_block"], o["in"].get("seeds"), o["in"]["steps"]]


def finding_key(o):
    return None


def distribution(outs):
    d = {"cases": len(outs), "events": 0, "blocks": 0, "epoch_ticks": 0, "status_ticks": 0, "agglayer_moves": 0,
         "scripted_failures": 0, "certificates_received": 0, "replacements_of_inerror": 0, "certificates_settled_max_per_case": 0,
         "cut_ranges": 0, "retry_true": 0, "retry_false": 0, "with_start_block": 0, "bridge_events": 0, "claim_events": 0,
         "seeded_tables": 0, "restarts_same_db": 0, "restarts_lost_db": 0, "crash_ticks": 0, "crash_ticks_with_certificate": 0,
         "recoveries_refused": 0, "headers_with_prev_ler": 0, "fep_flow_cases": 0, "fep_certificates": 0, "fep_empty_certificates": 0,
         "fep_prover_shortened": 0, "fep_prover_refused_or_outside": 0, "loop_errors": {}, "by_tag": {}}
    for o in outs:
        i = o["in"]
        d["retry_true" if i["retry"] else "retry_false"] += 1
        d["with_start_block"] += 1 if i["start_block"] else 0
        d["seeded_tables"] += 1 if i.get("seeds") else 0
        d["headers_with_prev_ler"] += 1 if i.get("agg_prev") else 0
        fep = i.get("flow") == "fep"
        d["fep_flow_cases"] += 1 if fep else 0
        d["by_tag"][i.get("tag", "")] = d["by_tag"].get(i.get("tag", ""), 0) + 1
        heights = set()
        for s, so in zip(i["steps"], o["steps"]):
            d["events"] += 1
            k = s["k"]
            if k == "block":
                d["blocks"] += 1
                for e in s.get("evs") or []:
                    d["bridge_events" if e["t"] == "b" else "claim_events"] += 1
            elif k == "epoch":
                d["epoch_ticks"] += 1
            elif k == "status":
                d["status_ticks"] += 1
            elif k in ("move", "movelast"):
                d["agglayer_moves"] += 1
            elif k == "fail":
                d["scripted_failures"] += 1
            elif k == "restart":
                d["restarts_lost_db" if s.get("lost") else "restarts_same_db"] += 1
            if s.get("crash"):
                d["crash_ticks"] += 1
                d["crash_ticks_with_certificate"] += 1 if so.get("subs") else 0
            if so.get("recov") == "refused":
                d["recoveries_refused"] += 1
            if so.get("err"):
                d["loop_errors"][so["err"].split(":")[0]] = d["loop_errors"].get(so["err"].split(":")[0], 0) + 1
            if fep and so.get("err", "").startswith("prover"):
                d["fep_prover_refused_or_outside"] += 1
            for sb in so.get("subs") or []:
                d["certificates_received"] += 1
                if fep:
                    d["fep_certificates"] += 1
                    d["fep_empty_certificates"] += 0 if (sb["exits"] or sb["imp"]) else 1
                    d["fep_prover_shortened"] += 1 if s.get("rule") in (1, 2) and sb["m_from"] + sb["m_offset"] < so["synced"] else 0
                if sb["height"] in heights:
                    d["replacements_of_inerror"] += 1
                heights.add(sb["height"])
                if sb["m_from"] + sb["m_offset"] < so["synced"]:
                    d["cut_ranges"] += 1
        settled = sum(1 for r in (o["steps"][-1]["rows"] if o["steps"] else []) if r["status"] == 4)
        d["certificates_settled_max_per_case"] = max(d["certificates_settled_max_per_case"], settled)
    return d


LEVEL_TEXT = ("Kernel-checked inductive invariant of the send protocol (model of the real loop body: status refresh, pending gate, retry "
              "rule, range selection with an ARBITRARY cut, storage replace-at-height, Agglayer as a permissive environment): Inv holds "
              "initially, every event preserves it, hence it holds after EVERY schedule of {new block, epoch tick, status tick, Agglayer "
              "move, Agglayer failure} of any length, for both retry settings and every start block. Consequences proved from it: every "
              "submitted certificate has height / previous exit root / first block of the last settled one (or reuses those of the one in "
              "error), nothing is submitted while a certificate is undecided, and the settled certificates read in height order are "
              "exactly the bridge exits and claims of the blocks they cover, once, in chain order. The executable instance of the same "
              "step function is compared event by event with the REAL aggsender loop (real storage, status checker, PP flow, bridge "
              "syncer store and exit tree) and the property itself is re-evaluated on the real observations with naive references.")
LEVEL_NOTE = ("Trusted: Coq kernel + vm_compute; the hand transcription of sendCertificates / CheckPendingCertificatesStatus / PPFlow / "
              "baseFlow into Model/AggsenderProtocol.v (validated by the event-by-event correspondence); the scripted Agglayer; SQLite. "
              "Partial: the aggchain-prover flow (theorems *_fep_partial, model only); goroutine scheduling and process crashes are not "
              "modelled; restarts are executable-model + correspondence only (see assumptions). Recorded, not claimed (storage faults are outside C02's quantifier): if saveCertificateToStorage "
              "exhausts its retries after the Agglayer accepted the certificate, the loop goes on with a stale table and the next epoch "
              "submits a second certificate for the same height while the first is undecided (reproduced on the real loop with "
              "harness/aggsender/probe_store_exhaustion.jsonl; the code has a TODO there).")
TECHNIQUE = "Coq proof of an inductive protocol invariant (all schedules) + differential correspondence of the real loop via vm_compute"
