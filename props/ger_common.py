"""Injected-GER store (lastgersync processor) parts of properties C07 (all-or-nothing under storage faults, clean retry)
and C04 (reorg = never seen). Called from props/c07.py and props/c04.py:

    import ger_common
    def extra_checks(chk):
        ger_common.run_c07_part(chk)        # resp. run_c04_part(chk)

Both functions build harness/c16, run it in the store mode (`-prop c07` / `-prop c04`) against the REAL processor, evaluate
`corr_c07`/`corr_c04` (model Model/GerIndex.v process_block_f / reorg vs implementation) and `spec_asif_c07`/`spec_asif_c04`
(every observation of the faulted / reorged run equals the fault-free twin's / the twin's that never saw the dropped blocks)
with vlib.eval_cases, and append to the passed vlib.Check exactly what Check.step_compare appends:
  chk.violations   (replay file, "")                       concrete failing input (spec_asif false, not a known class)
                   (replay file, " no-failing-input-found") only the correspondence / a proof obligation broke
  chk.known_hits   the known_findings.json entry            (class C16:ger-remove-then-reorg, reported under its existing key)
  chk.cov["ger_store"]  coverage numbers of this part (see _coverage)
"""
import json
import os

import vlib
from vlib import cN, cNhex, cbool, clist, copt

HARNESS = "c16"
PROPERTIES_V = ["theories/Properties/GerStore.v"]
MAKE_TARGETS = ["theories/Properties/GerStore.vo", "theories/Model/GerStoreCases.vo"]
IMPORTS = "From Coq Require Import NArith List.\nFrom Verif Require Import Model.GerIndex Model.GerStoreCases."
KNOWN_KEY = "C16:ger-remove-then-reorg"
SHARD = 100

RULES = {
    "c07": ("3 seed-independent cases, then random histories of 3..10 blocks (3..22 thorough) with 0..3 events each (GER insertion as "
            "GEREvent or GERInfo, removal of a stored / absent root; 1 block in 12 may carry two insertions = primary-key clash); two "
            "thirds of the blocks are first processed once or twice with an injected storage fault (SQL trigger raising ABORT on the "
            "block insert, on the k-th GER insert or on the k-th deleted GER row of the call, k chosen so that it fires; 1 in 10 beyond "
            "reach), a quarter of the faulted attempts followed by a restart of the processor, then processed again without fault; the "
            "twin processes every block once without fault. Non-trivial: at least one attempt returned the injected fault; distinct = "
            "distinct op list"),
    "c04": ("2 seed-independent cases, then random histories of 3..10 operations (3..22 thorough): blocks as above (no faults) and, one "
            "operation in four, Reorg(b) with b the number of an already processed block (1 in 8: above all blocks), the new fork may "
            "reuse the dropped numbers; after every reorg and at the end a twin store is rebuilt from scratch by the real code from the "
            "blocks a node that never saw the dropped ones would have processed. Non-trivial: some reorg dropped at least one processed "
            "block; distinct = distinct op list"),
}

RES = {"ok": 0, "fault": 1, "constraint": 2, "error": 3}
TBL = {"block_ins": "GBlockIns", "ger_ins": "GGerIns", "ger_del": "GGerDel"}


def cases_n(tier):
    return 150 if tier == "quick" else 2500


# ---------------------------------------------------------------------------------------------
# transcription
# ---------------------------------------------------------------------------------------------

def _names(i):
    return {g["hash"]: "g%d" % n for n, g in enumerate(i["gers"])}


def _g(nm, h):
    return nm.get(h) or cNhex(h)


def _events(i, nm, evs):
    out = []
    for e in evs or []:
        g = i["gers"][e["g"]]
        out.append("rmv %s" % _g(nm, g["hash"]) if e["rm"] else "ins %s %s" % (_g(nm, g["hash"]), cN(g["idx"])))
    return clist(out)


def _snap(nm, s):
    rows = clist(["(Build_row %s %s %s)" % (cN(r["b"]), _g(nm, r["ger"]), cN(r["idx"])) for r in s["rows"]])
    ans = clist([copt(None if a is None else "(%s, %s)" % (cN(a["idx"]), _g(nm, a["ger"]))) for a in s["answers"]])
    return "(Build_snap %s %s %s %s)" % (cN(s["last"]), clist([cN(b) for b in s["blocks"]]), rows, ans)


def _fault(f):
    return "None" if f is None else "(Some (%s, %d%%nat))" % (TBL[f["table"]], f["k"])


def _lets(i, nm):
    return "".join("let %s := %s in " % (nm[g["hash"]], cNhex(g["hash"])) for n, g in enumerate(i["gers"]) if nm[g["hash"]] == "g%d" % n)


def coq_case_c07(o):
    i = o["in"]
    nm = _names(i)
    ops = []
    for op, oo in zip(i["ops"], o["ops"]):
        atts = clist(["(%s, %s, %s)" % (_fault(a["fault"]), cN(RES[a["res"]]), _snap(nm, a["snap"])) for a in oo["attempts"]])
        ops.append("(Build_fop %s %s %s (%s, %s))" % (cN(op["num"]), _events(i, nm, op.get("events")), atts,
                                                      cN(RES[oo["twin_res"]]), _snap(nm, oo["twin"])))
    return "(%sBuild_case_c07 %s %s %s)" % (_lets(i, nm), clist([cN(x) for x in i["queries"]]), _snap(nm, o["init"]), clist(ops))


def coq_case_c04(o):
    i = o["in"]
    nm = _names(i)
    ops = []
    for op, oo in zip(i["ops"], o["ops"]):
        if op["k"] == "block":
            ops.append("(RBlock %s %s %s)" % (cN(op["num"]), _events(i, nm, op.get("events")), cN(RES[oo["res"]])))
        else:
            ops.append("(RReorg %s %s %s)" % (cN(op["num"]), _snap(nm, oo["run"]), _snap(nm, oo["twin"])))
    return "(%sBuild_case_c04 %s %s (%s, %s))" % (_lets(i, nm), clist([cN(x) for x in i["queries"]]), clist(ops),
                                                 _snap(nm, o["final_run"]), _snap(nm, o["final_twin"]))


# ---------------------------------------------------------------------------------------------
# classification (python re-statement of the store, used only for coverage and finding keys)
# ---------------------------------------------------------------------------------------------

def _apply_block(i, blocks, rows, num, evs):
    """the real table semantics (destructive delete); returns (blocks, rows) after the block or the inputs on a clash"""
    if num in blocks:
        return blocks, rows
    work = list(rows)
    for e in evs or []:
        g = i["gers"][e["g"]]
        if e["rm"]:
            work = [r for r in work if r[1] != g["hash"]]
        else:
            if any(r[0] == num for r in work):
                return blocks, rows
            work.append((num, g["hash"], g["idx"]))
    return blocks + [num], work


def _same_store(snap, blocks, rows):
    return (snap["blocks"] == blocks and [(r["b"], r["ger"], r["idx"]) for r in snap["rows"]] == rows
            and snap["last"] == (max(blocks) if blocks else 0))


def finding_key_c04(o):
    """C16:ger-remove-then-reorg when the implementation behaves exactly as the store with destructive deletes (every snapshot
    of the reorged run equals the python re-statement of Model/GerIndex.v) — by theorem GerStore_reorg_as_if_never_seen such a
    store differs from the twin only when a dropped block carried a removal. Anything else: None (a new violation)."""
    i = o["in"]
    blocks, rows = [], []
    for op, oo in zip(i["ops"], o["ops"]):
        if op["k"] == "block":
            blocks, rows = _apply_block(i, blocks, rows, op["num"], op.get("events"))
        else:
            blocks = [b for b in blocks if b < op["num"]]
            rows = [r for r in rows if r[0] < op["num"]]
            if not _same_store(oo["run"], blocks, rows):
                return None
    if not _same_store(o["final_run"], blocks, rows):
        return None
    return KNOWN_KEY


def nontrivial_c07(o):
    fired = any(a["res"] == "fault" for oo in o["ops"] for a in oo["attempts"])
    return o["in"]["ops"] if fired else None


def nontrivial_c04(o):
    seen = []
    for op in o["in"]["ops"]:
        if op["k"] == "block":
            seen.append(op["num"])
        elif any(b >= op["num"] for b in seen):
            return o["in"]["ops"]
    return None


def distribution(prop, outs):
    d = {"cases": len(outs), "blocks": 0, "events": 0, "removals": 0, "gerinfo_events": 0}
    if prop == "c07":
        d.update(faulted_attempts=0, fault_fired=0, fault_not_reached=0, restarts=0, constraint_errors=0,
                 by_table={"block_ins": 0, "ger_ins": 0, "ger_del": 0})
    else:
        d.update(reorgs=0, reorgs_dropping_blocks=0, run_differs_from_twin=0)
    for o in outs:
        seen = []
        for op, oo in zip(o["in"]["ops"], o["ops"]):
            if op["k"] == "block":
                d["blocks"] += 1
                seen.append(op["num"])
                for e in op.get("events") or []:
                    d["events"] += 1
                    d["removals"] += 1 if e["rm"] else 0
                    d["gerinfo_events"] += 1 if e.get("info") else 0
            if prop == "c07":
                for a in oo["attempts"]:
                    if a["fault"] is not None:
                        d["faulted_attempts"] += 1
                        d["by_table"][a["fault"]["table"]] += 1
                        d["fault_fired"] += 1 if a["res"] == "fault" else 0
                        d["fault_not_reached"] += 1 if a["res"] == "ok" else 0
                        d["restarts"] += 1 if a["fault"].get("restart") else 0
                    d["constraint_errors"] += 1 if a["res"] == "constraint" else 0
            elif op["k"] == "reorg":
                d["reorgs"] += 1
                d["reorgs_dropping_blocks"] += 1 if any(b >= op["num"] for b in seen) else 0
                seen = [b for b in seen if b < op["num"]]
                d["run_differs_from_twin"] += 1 if oo["run"] != oo["twin"] else 0
    return d


# ---------------------------------------------------------------------------------------------
# the two entry points
# ---------------------------------------------------------------------------------------------

def _proofs(chk, cov):
    """GerStore theorems: build, record obligations and Print Assumptions; a break is reported like a broken proof obligation."""
    rc, out = vlib.coq_make(MAKE_TARGETS, timeout=1500)
    obs = [n for vf in PROPERTIES_V for (n, _) in vlib.obligations_of(vf)]
    cov["obligation_names"] = obs
    cov["obligations"] = len(obs)
    cov["discharged"] = 0
    if rc != 0:
        chk.obligation_broken("make %s failed:\n%s" % (" ".join(MAKE_TARGETS), out[-2500:]), theorem=", ".join(PROPERTIES_V))
        return False
    for vf in PROPERTIES_V:
        rc2, out2 = vlib.coqc(vf, timeout=600)
        if rc2 != 0:
            chk.obligation_broken("coqc %s failed:\n%s" % (vf, out2[-2500:]), theorem=vf)
            return False
        ass = vlib.parse_assumptions(out2)
        cov["print_assumptions"] = dict(closed=sum(1 for e in ass if e["closed"]), with_axioms=sum(1 for e in ass if not e["closed"]),
                                        axioms=sorted({a for e in ass for a in e["axioms"]}))
        bad = [a for a in cov["print_assumptions"]["axioms"] if a not in vlib.STD_AXIOMS_ALLOWED]
        if bad:
            chk.obligation_broken("GerStore theorems depend on axioms outside the stated trusted base: %s" % bad, theorem=vf)
            return False
    cov["discharged"] = len(obs)
    return True


def _run_part(chk, prop):
    pid = chk.pid
    tag = "ger_" + prop
    cov = {"rule": RULES[prop], "harness": "harness/c16 -prop " + prop}
    chk.cov["ger_store"] = cov
    coq_case = coq_case_c07 if prop == "c07" else coq_case_c04
    corr, spec, ctype = ("corr_c07", "spec_asif_c07", "case_c07") if prop == "c07" else ("corr_c04", "spec_asif_c04", "case_c04")
    _proofs(chk, cov)
    rc, out, exe = vlib.build_harness(HARNESS)
    if rc != 0:
        chk.obligation_broken("harness c16 does not build against the current source (tag verif):\n" + out[-3000:],
                              theorem="correspondence harness c16 -prop " + prop)
        return
    wd = os.path.join(vlib.BUILD, pid)
    os.makedirs(wd, exist_ok=True)
    of = os.path.join(wd, tag + ".jsonl")
    if chk.replay is not None:
        with open(chk.replay) as f:
            rp = json.load(f)
        if rp.get("harness") != tag:
            cov["skipped"] = "replay file belongs to another harness"
            return
        inp = os.path.join(wd, tag + "_replay_in.jsonl")
        with open(inp, "w") as f:
            for c in rp.get("cases", [rp.get("case")]):
                f.write(json.dumps(c["in"] if isinstance(c, dict) and "in" in c else c) + "\n")
        args = ["-prop", prop, "-replay", inp, "-out", of, "-tier", chk.tier]
    else:
        args = ["-prop", prop, "-seed", str(chk.seed), "-n", str(cases_n(chk.tier)), "-out", of, "-tier", chk.tier]
    rc, o = vlib.run_harness(exe, args, timeout=1500)
    if rc != 0:
        chk.obligation_broken("harness c16 %s failed (rc=%d):\n%s" % (" ".join(args), rc, o[-3000:]),
                              theorem="correspondence harness c16 -prop " + prop)
        return
    outs = vlib.read_jsonl(of)
    terms = [coq_case(x) for x in outs]
    mism, viol, log = vlib.eval_cases(pid + tag.replace("_", ""), IMPORTS, terms, ctype, corr, spec, shard_size=SHARD)
    if mism is None:
        chk.obligation_broken("GER store case file did not evaluate (model broken or transcription error):\n" + log[-2500:],
                              theorem="correspondence %s/%s" % (corr, spec))
        return
    nontrivial = nontrivial_c07 if prop == "c07" else nontrivial_c04
    keys = {json.dumps(k, sort_keys=True) for k in (nontrivial(x) for x in outs) if k is not None}
    cov.update(evaluations=len(outs), distinct_nontrivial=len(keys), traces_validated_against_impl=len(outs) - len(mism),
               correspondence_mismatches=len(mism), spec_violations_raw=len(viol),
               input_distribution=distribution(prop, outs), samples=[outs[len(outs) // 2]] if outs else [])
    # known class: listed under property C16 (the store's own property); reported here under the same key
    known = [e for e in vlib.known_findings("C16") + vlib.known_findings(pid) if e.get("key") == KNOWN_KEY]
    reported = set()
    unknown_viol = []
    for i in viol:
        x = outs[i]
        fk = finding_key_c04(x) if prop == "c04" else None
        hit = next((e for e in known if fk is not None and e["key"] == fk), None)
        if hit and hit.get("model_reproduces") and i in set(mism):
            hit = None      # not the recorded behaviour (the model of the code as written does not reproduce this run): a different failure
        if hit:
            if fk not in reported:
                reported.add(fk)
                if not any(h.get("key") == fk for h in chk.known_hits):
                    chk.known_hits.append(hit)
            continue
        unknown_viol.append(i)
        if ("viol", fk) in reported:
            continue
        reported.add(("viol", fk))
        path = vlib.write_replay(pid, chk.seed, "input", dict(
            case=x, harness=tag, finding_key=fk,
            what="injected-GER store (lastgersync processor): %s is false on what the implementation returned for this input: %s" % (
                spec, "an observation of the faulted run differs from the fault-free twin run" if prop == "c07"
                else "an observation after a reorg differs from the twin that never saw the dropped blocks")))
        chk.violations.append((path, ""))
    cov["known_findings_hit"] = sorted(k for k in reported if isinstance(k, str))
    cov["spec_violations_unknown"] = len(unknown_viol)
    if not unknown_viol:
        only_mism = [i for i in mism if i not in set(viol)]
        if only_mism:
            path = vlib.write_replay(pid, chk.seed, "obligation", dict(
                case=outs[only_mism[0]], cases=[outs[i] for i in only_mism[:5]], harness=tag,
                theorem="correspondence %s (GER store model vs lastgersync processor) no longer checks on %d case(s); the "
                        "property predicate %s still holds on the implementation's outputs" % (corr, len(only_mism), spec)))
            chk.violations.append((path, " no-failing-input-found"))


def run_c07_part(chk):
    """C07 over the injected-GER store: storage faults + retry vs fault-free twin. Mutates chk (violations, known_hits, cov)."""
    _run_part(chk, "c07")


def run_c04_part(chk):
    """C04 over the injected-GER store: reorgs vs a twin that never saw the dropped blocks. Mutates chk."""
    _run_part(chk, "c04")
