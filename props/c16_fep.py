"""C16, FEP mode: the real lastgersync FEP downloader + driver + processor vs Model/GerFep.v (second part of the C16 check)."""
import json
import os

import vlib
from vlib import cN, cNhex, cbool, clist, copt

HARNESS = "c16"
IMPORTS = ("From Coq Require Import NArith List.\n"
           "From Verif Require Import Model.GerIndex Model.GerFep Model.C16Cases Model.C16FepCases.")
SHARD = 150
RULE = ("FEP mode: L1 info trees of 1..8 leaves (1..16 thorough; one case in twelve with two leaves carrying the same root), "
        "injections of a random subset of the leaves on L2 at non-decreasing blocks (index order four times out of five), 1..4 "
        "segments per node life (start / restart on the same database / reorg notification below, at or above the processed tip "
        "with a regenerated fork), 1..6 polls per segment (tip advancing by 0..6 blocks, stale tips), the L1 info tree syncer's leaf "
        "count monotone and, in three cases out of four, always covering the leaves injected by the polled tip (otherwise lagging: "
        "completeness is then not judged, soundness always is); six seed-independent boundary cases first. A case is non-trivial "
        "when some poll lets the downloader see a newly injected root (a row is written); distinct = distinct input")


def cases_n(tier):
    return 300 if tier == "quick" else 5000


def _names(i):
    nm = {}
    for n, h in enumerate(i["leaves"]):
        nm.setdefault(h, "g%d" % n)
    return nm


def _g(nm, h):
    return nm.get(h) or cNhex(h)


def _inj(i, nm, inj):
    return clist(["(%s, %s)" % (cN(e["b"]), _g(nm, i["leaves"][e["g"]])) for e in (inj or [])])


def _obs(nm, so):
    deliv = clist(["(%s, %s)" % (cN(b["b"]), clist(
        ["(Build_log %s %s %s)" % (cbool(e["rm"]), _g(nm, e["ger"]), cN(e["idx"])) for e in b["evs"]]))
        for b in so["delivered"]])
    rows = clist(["(Build_row %s %s %s)" % (cN(r["b"]), _g(nm, r["ger"]), cN(r["idx"])) for r in so["rows"]])
    answers = clist([copt(None if a is None else "(%s, %s)" % (cN(a["idx"]), _g(nm, a["ger"]))) for a in so["answers"]])
    return "(Build_seg_obs %s %s %s %s %s %s)" % (
        deliv, cbool(so["stuck"]), cN(so["last"]), clist([cN(b) for b in so["blocks"]]), rows, answers)


def coq_case(o):
    i = o["in"]
    nm = _names(i)
    segs = []
    for si, so in zip(i["segs"], o["segs"]):
        ro = copt(None if si.get("reorg") is None else "(%s, %s)" % (cN(si["reorg"]["b"]), _inj(i, nm, si["reorg"]["inj"])))
        polls = clist(["(%s, %s)" % (cN(p["t"]), cN(p["l1"])) for p in si["polls"]])
        segs.append("(Build_fseg_in %s %s, %s)" % (ro, polls, _obs(nm, so)))
    lets = "".join("let %s := %s in " % (v, cNhex(h)) for h, v in nm.items())
    return "(%sBuild_fcase %s %s %s %s)" % (
        lets, clist([_g(nm, h) for h in i["leaves"]]), _inj(i, nm, i["inj"]), clist([cN(x) for x in i["queries"]]), clist(segs))


def nontrivial(o):
    return o["in"] if any(so["rows"] for so in o["segs"]) else None


def distribution(outs):
    d = {"cases": len(outs), "segments": 0, "restarts": 0, "reorgs": 0, "polls": 0, "delivered_blocks": 0, "rows_final": 0,
         "answers_found": 0, "answers_not_found": 0, "stuck": 0, "lagging_l1_info_syncer": 0, "duplicate_root_leaves": 0}
    for o in outs:
        i = o["in"]
        if len(set(i["leaves"])) < len(i["leaves"]):
            d["duplicate_root_leaves"] += 1
        lag = False
        for k, s in enumerate(i["segs"]):
            d["segments"] += 1
            d["polls"] += len(s["polls"])
            if s.get("reorg") is not None:
                d["reorgs"] += 1
            elif k > 0:
                d["restarts"] += 1
        for so in o["segs"]:
            d["delivered_blocks"] += len(so["delivered"])
            d["stuck"] += 1 if so["stuck"] else 0
            for a in so["answers"]:
                d["answers_not_found" if a is None else "answers_found"] += 1
        if o["segs"]:
            d["rows_final"] += len(o["segs"][-1]["rows"])
        # lag: some poll with fewer leaves than the highest injected index at or below its tip (initial chain only: indicative)
        for s in i["segs"]:
            for p in s["polls"]:
                if any(e["b"] <= p["t"] and e["g"] >= p["l1"] for e in (i["inj"] or [])):
                    lag = True
        d["lagging_l1_info_syncer"] += 1 if lag else 0
    return d


def run_part(chk):
    """Mutates chk (violations, cov). The theorems of Properties/C16Fep.v are built by the main flow (PROPERTIES_V of c16.py)."""
    pid = chk.pid
    tag = "fep"
    cov = {"rule": RULE, "harness": "harness/c16 -prop fep"}
    chk.cov["fep_mode"] = cov
    rc, out, exe = vlib.build_harness(HARNESS)
    if rc != 0:
        chk.obligation_broken("harness c16 does not build against the current source (tag verif):\n" + out[-3000:],
                              theorem="correspondence harness c16 -prop fep")
        return
    wd = os.path.join(vlib.BUILD, pid)
    os.makedirs(wd, exist_ok=True)
    of = os.path.join(wd, tag + ".jsonl")
    if chk.replay is not None:
        with open(chk.replay) as f:
            rp = json.load(f)
        if rp.get("harness") != tag:
            cov["skipped"] = "replay file belongs to another harness"
            return
        inp = os.path.join(wd, tag + "_replay_in.jsonl")
        with open(inp, "w") as f:
            for c in rp.get("cases", [rp.get("case")]):
                f.write(json.dumps(c["in"] if isinstance(c, dict) and "in" in c else c) + "\n")
        args = ["-prop", "fep", "-replay", inp, "-out", of, "-tier", chk.tier]
    else:
        args = ["-prop", "fep", "-seed", str(chk.seed), "-n", str(cases_n(chk.tier)), "-out", of, "-tier", chk.tier]
    rc, o = vlib.run_harness(exe, args, timeout=1500)
    if rc != 0:
        chk.obligation_broken("harness c16 %s failed (rc=%d):\n%s" % (" ".join(args), rc, o[-3000:]),
                              theorem="correspondence harness c16 -prop fep")
        return
    outs = vlib.read_jsonl(of)
    terms = [coq_case(x) for x in outs]
    mism, viol, log = vlib.eval_cases(pid + "fep", IMPORTS, terms, "fcase", "corr_fep", "spec_fep", shard_size=SHARD)
    if mism is None:
        chk.obligation_broken("FEP case file did not evaluate (model broken or transcription error):\n" + log[-2500:],
                              theorem="correspondence corr_fep/spec_fep")
        return
    keys = {json.dumps(k, sort_keys=True) for k in (nontrivial(x) for x in outs) if k is not None}
    cov.update(evaluations=len(outs), distinct_nontrivial=len(keys), traces_validated_against_impl=len(outs) - len(mism),
               correspondence_mismatches=len(mism), spec_violations_raw=len(viol), mismatch_indices=mism[:20],
               violation_indices=viol[:20], input_distribution=distribution(outs), samples=[outs[len(outs) // 2]] if outs else [])
    for i in viol[:3]:
        path = vlib.write_replay(pid, chk.seed, "input", dict(
            case=outs[i], harness=tag, finding_key=None,
            what="FEP mode (real evmdownloader_fep.go + driver + processor): spec_fep is false on what the implementation answered: "
                 "a returned root is not a leaf injected at or below a processed block / has index < X, or not-found although such "
                 "a leaf exists and the L1 info tree syncer held it at every poll"))
        chk.violations.append((path, ""))
    if not viol:
        only_mism = [i for i in mism]
        if only_mism:
            path = vlib.write_replay(pid, chk.seed, "obligation", dict(
                case=outs[only_mism[0]], cases=[outs[i] for i in only_mism[:5]], harness=tag,
                theorem="correspondence corr_fep (Model/GerFep.v vs the real FEP downloader) no longer checks on %d case(s); the "
                        "property predicate spec_fep still holds on the implementation's outputs" % len(only_mism)))
            chk.violations.append((path, " no-failing-input-found"))
