"""C11 - the L1 info tree and the rollup exit tree mirror the L1 contracts."""
import l1info_common as lc

ID = "C11"
PROPERTIES_V = ["theories/Properties/C11.v"]
MAKE_TARGETS = ["theories/Properties/C11.vo", "theories/Model/L1InfoCases.vo", "theories/Proofs/GenAgreeUpdatable.vo"]
HARNESS = "l1info"
HARNESS_ARGS = ["-prop", "c11"]
CASES_IMPORTS = lc.IMPORTS
CASE_TYPE = "lcase"
CORR = "corr"
SPEC = "spec_c11"
SHARD = 4
RULE = ("random L1 histories given as block headers + logs (the logs are ABI-encoded and converted by the real downloader appender): "
        "1-3 blocks apart, 0-5 events per block; UpdateL1InfoTree with mainnet/rollup exit roots from {random, 0, 0xff..}, usually followed "
        "by the UpdateL1InfoTreeV2 announcement a consistent contract emits; VerifyBatches / VerifyBatchesTrustedAggregator for rollup ids "
        "from {1,2,3, one of 0 / 2^32-1 / random} with exit roots from a pool of {0, three fixed values, 0xff.., random} so that zero, "
        "unchanged and repeated exit roots occur (sequences that make the rollup tree return to an earlier root are kept out of the main "
        "stream and generated as a separate first case: known finding); InitL1InfoRootMap at most once; timestamps from {0, 1, 2^63-1, "
        "random}, parent hashes from {0, 0xff.., random}; restarts and intermediate snapshots at random points; every 6th case from a "
        "malformed stream (announcement with a wrong root / a wrong leaf count only, announcement before any leaf, a GER announced twice, "
        "timestamp >= 2^63); one case per run takes its logs, headers and expected roots from the REAL GlobalExitRoot contract and the "
        "repository's rollup-manager mock in go-ethereum's simulated backend. Every snapshot asks all 20 data queries of the facade. "
        "A case is non-trivial when the node accepted >= 2 info updates and >= 1 rollup tree update; distinct = distinct op list")
ASSUMPTIONS = [
    "global exit roots announced on L1 are pairwise distinct (the contract emits UpdateL1InfoTree only for a new GER); histories that "
    "violate it are compared model-vs-implementation only",
    "UpdateL1InfoTreeV2 is only emitted after a leaf was added (same contract call); InitL1InfoRootMap at most once",
    "block numbers, log positions, timestamps and batch numbers are < 2^63: database/sql refuses to bind larger uint64 values, so a block "
    "with such a timestamp can never be stored (unreachable on a real chain; reported, not counted as a violation)",
    "leaf index arithmetic is modelled without the uint32 wrap (needs 2^32 leaves)",
    "Keccak-256 modelled as an injective node function in the theorems that read stored tree nodes (restart, proofs, upsert); the zero "
    "hash is not the digest of a leaf",
    "the Solidity side is a hand transcription (Model/Contracts.v: DepositContractBase, GER leaf layout) tied to the bytecode by the "
    "simulated-backend cases only; the rollup manager is represented by the repository's mock of getRollupExitRoot",
]
TRUSTED_EXTRA = ["go-ethereum simulated backend + contract bindings (cdk-contracts-tooling v0.0.4 bytecode) as oracle for the contract cases"]
coq_case = lc.coq_case
distribution = lc.distribution


def cases_n(tier):
    global SHARD
    SHARD = 4 if tier == "quick" else 30
    return 22 if tier == "quick" else 360


def nontrivial_key(o):
    leaves = max((len([q for q in s.get("infos") or [] if q.get("leaf")]) for s in o.get("snaps") or []), default=0)
    rollup = any(s.get("last_rollup") for s in o.get("snaps") or [])
    return o["in"]["ops"] if leaves >= 2 and rollup else None


def _rollup_recurrence(o):
    """Replays the rollup-tree bookkeeping of the blocks the node accepted; True when a block it refused with a constraint error
    would have brought the rollup exit tree back to a leaf map that already has a root row (F4)."""
    cur = {}
    recorded = set()

    def key(m):
        return tuple(sorted(m.items()))

    for op, res in zip(o["in"].get("ops") or [], o.get("res") or []):
        if op["k"] == "reorg":
            return False
        if op["k"] != "block":
            continue
        m = dict(cur)
        new = []
        hit = False
        for l in op.get("logs") or []:
            if l["t"] not in ("vb", "vbt"):
                continue
            exit_ = int(l.get("exit") or "0", 16)
            idx = (l.get("rid", 0) - 1) % 2 ** 32
            if exit_ == 0 or m.get(idx) == exit_:
                continue
            m[idx] = exit_
            if key(m) in recorded or key(m) in new:
                hit = True
            new.append(key(m))
        if res == "ok":
            cur = m
            recorded.update(new)
        elif res == "constraint" and hit:
            return True
    return False


def finding_key(o):
    return "C11:rollup-root-recurrence" if _rollup_recurrence(o) else None


def extra_checks(chk):
    """Search for a failing input when an obligation broke but the L1-history stream (no reorgs, no storage faults) found none:
    the reorg and fault/retry scenarios of the same store (the l1infotreesync parts of C04 / C07) are run as well."""
    concrete = any(sfx == "" for (_, sfx) in chk.violations)
    if getattr(chk, "proof_failed", None) and not concrete:
        lc.run_c04_part(chk)
        if not any(sfx == "" for (_, sfx) in chk.violations):
            cov04 = chk.cov.get("l1info_store")
            lc.run_c07_part(chk)
            chk.cov["l1info_store_c04"] = cov04


LEVEL_TEXT = ("Kernel-checked theorems over the executable store model (all histories of blocks with any storage fault, reorgs and restarts): "
              "L1 info leaves carry consecutive indices in (block, position) order; leaf hash = the GER contract's leaf value; lookups by "
              "index and by GER are total; a consistent announcement never halts and a mismatching one halts; a failed block leaves the "
              "database untouched; generic (abstract hash) theorems: frontier append = DepositContract root (reused from C01), and the "
              "sparse-tree upsert computes the root of the updated leaf map and keeps the node store closed, hence the rollup tree holds the "
              "last non-zero exit root per rollup; the root-recurrence failure (F4) is proved of the model by a vm_compute witness. The "
              "property itself is evaluated on every run against an independent reference (DepositContract transcription, sparse reference "
              "root, naive filters) on what the real processor answered, and for one history per run against the real contracts.")
LEVEL_NOTE = ("Trusted: Coq kernel + vm_compute; Gallina Keccak (cross-checked); hand transcription of ProcessBlock / processVerifyBatches / "
              "tree algorithms / downloader conversion and of the Solidity side; SQLite; go-ethereum ABI + simulated EVM as oracle; the "
              "theorems that read stored nodes assume an injective node hash (stated hypothesis).")
TECHNIQUE = ("Coq proof by induction over histories (store invariants) and over tree height (frontier / sparse upsert) + differential "
             "correspondence and reference evaluation via vm_compute")
