"""C04"""
import bridge_common as bc

ID = "C04"
PROPERTIES_V = ["theories/Properties/C04.v"]
MAKE_TARGETS = ["theories/Properties/C04.vo", "theories/Model/BridgeCases.vo"]
HARNESS = "bridge"
HARNESS_ARGS = ["-prop", "c04"]
CASES_IMPORTS = bc.IMPORTS
CASE_TYPE = "bcase"
CORR = "corr"
SPEC = "spec_asif"
SHARD = 4
RULE = ('random histories (bridges, claims, token mappings, legacy migrations; every 5th case also RemoveLegacyToken = destructive stream) with 1-3 rounds of {blocks, reorg at first block / inside / at tip / above tip, optional nested reorg, optional restart, snapshot, continuation on the new fork, snapshot}; the twin run only ever processes the surviving blocks; non-trivial = at least one reorg that deletes a block with events; distinct = distinct op list')
ASSUMPTIONS = ["deposit counts on chain are consecutive from 0 (the contract guarantees it)",
               "Keccak-256 modelled as an injective node function in the theorems that read the stored nodes (restart)",
               "the EVM/Solidity side is represented by a hand transcription of DepositContractBase (Model/Contracts.v)"]
coq_case = bc.coq_case
distribution = bc.distribution


def cases_n(tier):
    return 14 if tier == "quick" else 300


def nontrivial_key(o):
    ops = o["in"]["ops"]
    return ops if any(x["k"] == "reorg" for x in ops) else None


def finding_key(o):
    """F6: the only difference to the twin is the legacy_token_migration listing, and the history removed a legacy token."""
    has_rm = any(e["t"] == "rmlegacy" for x in o["in"]["ops"] if x["k"] == "block" for e in x.get("events") or [])
    if not has_rm:
        return None
    diff = set()
    for a, b in zip(o.get("snaps") or [], o.get("twin_snaps") or []):
        for k in a:
            if k == "extra":
                # the further facade queries: only the legacy-migration listings may differ in this class
                ea, eb = a.get("extra") or [], b.get("extra") or []
                if len(ea) != len(eb) or any(x["q"] != y["q"] for x, y in zip(ea, eb)):
                    diff.add("extra")
                else:
                    diff.update("extra:" + x["q"] for x, y in zip(ea, eb) if x["d"] != y["d"] and not x["q"].startswith("legacy/"))
            elif k != "mem_last" and a.get(k) != b.get(k):
                diff.add(k)
    if len(o.get("snaps") or []) != len(o.get("twin_snaps") or []):
        diff.add("count")
    return "C04:legacy-remove-then-reorg" if diff == {"legacy"} else None


LEVEL_TEXT = ('Kernel-checked frontier/initCache theorems cover the tree after a reorg (index mismatch => cache rebuilt from the surviving roots); the executable store model with ON DELETE CASCADE as filters is compared with the real processor, and the property is evaluated as equality of every query between the reorged run and a twin run of the real code that never saw the dropped blocks, at every snapshot (after the reorg and after the continuation).')
LEVEL_NOTE = ("Trusted: Coq kernel + vm_compute; Gallina Keccak (cross-checked); hand transcription of AddLeaf/initCache/Bridge.Hash and of the "
              "Solidity DepositContract; SQLite; the theorems that read stored nodes assume an injective node hash (stated hypothesis).")
TECHNIQUE = "Coq proof by induction over tree height (frontier invariant) + differential correspondence via vm_compute"

# the injected-GER store part of C04 (real lastgersync processor: reorgs vs a twin that never saw the dropped blocks)
import ger_common
PROPERTIES_V = PROPERTIES_V + ["theories/Properties/GerStore.v"]
MAKE_TARGETS = MAKE_TARGETS + ["theories/Properties/GerStore.vo"]


import l1info_common


def extra_checks(chk):
    ger_common.run_c04_part(chk)
    l1info_common.run_c04_part(chk)      # the L1 info tree store part (real l1infotreesync processor)
