"""C01 - synced exit-tree root equals the bridge contract's root at every deposit."""
import bridge_common as bc

ID = "C01"
PROPERTIES_V = ["theories/Properties/C01.v"]
MAKE_TARGETS = ["theories/Properties/C01.vo", "theories/Proofs/GenAgreeTree.vo", "theories/Proofs/AbiProofs.vo", "theories/Model/BridgeCases.vo"]
HARNESS = "bridge"
HARNESS_ARGS = ["-prop", "c01", "-par", "4"]
CASES_IMPORTS = bc.IMPORTS
CASE_TYPE = "bcase"
CORR = "corr"
SPEC = "spec_c01"
SHARD = 4
RULE = ("random deposit histories: fields from {0,1,2^32-1 / 0x00..,0xff.. / nil,0,1,2^256-1,random}, metadata lengths "
        "{0,1,31,32,33,64,135,136,137,300,1000}, both leaf types, 0-4 events per block incl. claims and token mappings, restarts "
        "(new processor on the same DB) at random points; every 4th case starts from a synthetic pre-state (root row + path nodes of a tree of n equal leaves, "
        "n in {1,2,3,7,8,255,256,2^16-1,2^16,2^24-2,2^31-1,2^31,2^32-6,2^32-3, 2^k-{0,1,2}}) and appends real deposits across the carry; "
        "the last 4 (thorough 12) cases are long histories (40 blocks, about 100 deposits each) and the harness runs 4 cases at a time in one "
        "process (as the node runs its L1 bridge, L2 bridge and L1 info tree syncers), so several trees hash and store concurrently; "
        "a case is non-trivial when it contains >= 2 deposits; distinct = distinct op list")
ASSUMPTIONS = ["deposit counts on chain are consecutive from 0 (the contract guarantees it)",
               "Keccak-256 modelled as an injective node function in the theorems that read the stored nodes (restart)",
               "the EVM/Solidity side is a hand transcription (Model/Contracts.v) validated on every run against the deployed bridge / GlobalExitRootV2 bytecode in go-ethereum's simulated backend (props/evm_common.py): a sampled correspondence, not a proof about EVM bytecode"]
coq_case = bc.coq_case
distribution = bc.distribution


def cases_n(tier):
    return 16 if tier == "quick" else 200


def nontrivial_key(o):
    nb = sum(1 for x in o["in"]["ops"] if x["k"] == "block" for e in x.get("events") or [] if e["t"] == "bridge")
    return None if nb < 2 else o["in"]["ops"]


def finding_key(o):
    return None


LEVEL_TEXT = ("Kernel-checked theorems (abstract hash, all indices < 2^32, no bound on the number of deposits): the frontier append "
              "computes the reference Merkle root of the first i+1 leaves and preserves the frontier invariant; the cache rebuilt "
              "from the stored nodes after a restart re-establishes it; the DepositContract algorithm computes the same reference root. "
              "The executable instance (real Keccak) of the same definitions is compared with the real bridgesync processor on generated histories.")
LEVEL_NOTE = ("Trusted: Coq kernel + vm_compute; Gallina Keccak (cross-checked); hand transcription of AddLeaf/initCache/Bridge.Hash and of the "
              "Solidity DepositContract; SQLite; the theorems that read stored nodes assume an injective node hash (stated hypothesis).")
TECHNIQUE = ("Coq proof by induction over tree height (frontier invariant); the hashing loop of AddLeaf and CalculateRoot are TRANSLATED from the Go "
             "source on every run (tools/go2coq -> Gen/GenAppendOnlyTree.v, Gen/GenTree.v) and proved equal to the model; differential "
             "correspondence via vm_compute for the store, the processor and the contract")

# Model/Contracts.v (the Solidity transcription) is validated on every run against the deployed contract bytecode
import evm_common


def extra_checks(chk):
    evm_common.run_evm_part(chk)
