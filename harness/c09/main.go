// C09 harness: "claim proofs inside a certificate verify against the L1 info root it names".
//
// REAL code path of one case:
//   - L1 side: the REAL l1infotreesync processor store (SQLite, real L1 info tree + rollup exit tree) behind the real
//     L1InfoTreeSync facade, fed with the case's UpdateL1InfoTree / VerifyBatches blocks (hook NewVerifC09Sync);
//   - the REAL query.L1InfoTreeDataQuerier over it and over a scripted L1 node (HeaderByNumber(finalized) / (n): positions of
//     the finalized pointer before / inside / at the end of / beyond the syncer's blocks, fork hashes, empty hashes, RPC errors);
//   - L2 side: the REAL bridgesync processor store fed with the case's Claim events, read through the REAL
//     query.bridgeDataQuerier (GetClaims: the meddler round trip of proofs, big ints, metadata is part of the path);
//   - the REAL flows.baseFlow + flows.PPFlow (NewBaseFlow / NewPPFlow) over a real empty AggSenderSQLStorage:
//     PPFlow.GetCertificateBuildParams (VerifyBuildParams, GetLatestFinalizedL1InfoRoot, root.Hash / root.Index+1) and
//     PPFlow.BuildCertificate (getImportedBridgeExits, ConvertClaimToImportedBridgeExit, GetProofForGER, signing);
//   - second observation: the REAL baseFlow.VerifyBuildParams, then baseFlow.getImportedBridgeExits (hook VerifC09GetImportedBridgeExits)
//     with a NAMED root that is not necessarily the latest one (what the aggchain-prover flow does with the prover's root).
//
// Claims are generated from genuinely valid data: the mainnet exit tree and the other rollups' local exit trees are REAL
// bridgesync stores (roots and proofs read back with GetExitRootByIndex / GetProof), the rollup exit tree is a REAL
// l1infotreesync store fed with the same VerifyBatches sequence (GetLastRollupExitRoot / GetRollupExitTreeMerkleProof).
// So ProofLocalExitRoot / ProofRollupExitRoot verify against MER / RER of an existing L1 info leaf, as the bridge contract
// demands. Separate streams: claims whose GER is beyond the finalized root, unknown to the syncer, or inconsistent.
package main

import (
	"context"
	"crypto/ecdsa"
	"encoding/binary"
	"encoding/json"
	"errors"
	"fmt"
	"math/big"
	"os"
	"path/filepath"
	"strings"
	"time"

	agglayertypes "github.com/agglayer/aggkit/agglayer/types"
	aggsenderdb "github.com/agglayer/aggkit/aggsender/db"
	"github.com/agglayer/aggkit/aggsender/flows"
	"github.com/agglayer/aggkit/aggsender/query"
	aggsendertypes "github.com/agglayer/aggkit/aggsender/types"
	"github.com/agglayer/aggkit/bridgesync"
	"github.com/agglayer/aggkit/l1infotreesync"
	"github.com/agglayer/aggkit/log"
	aggsync "github.com/agglayer/aggkit/sync"
	"github.com/agglayer/aggkit/tree"
	treetypes "github.com/agglayer/aggkit/tree/types"
	aggkittypes "github.com/agglayer/aggkit/types"
	"github.com/ethereum/go-ethereum/common"
	ethtypes "github.com/ethereum/go-ethereum/core/types"
	"github.com/ethereum/go-ethereum/crypto"

	"verifharness/hlib"
)

const l2Network = 7 // the network the aggsender works for

// ---------------------------------------------------------------------------------------------
// case format
// ---------------------------------------------------------------------------------------------

type L1Ev struct {
	T      string `json:"t"` // info (UpdateL1InfoTree) | vb (VerifyBatches)
	Pos    uint64 `json:"pos"`
	MER    string `json:"mer,omitempty"`
	RER    string `json:"rer,omitempty"`
	Parent string `json:"parent,omitempty"`
	TS     uint64 `json:"ts,omitempty"`
	RID    uint32 `json:"rid,omitempty"`
	Exit   string `json:"exit,omitempty"`
	Batch  uint64 `json:"batch,omitempty"`
}
type L1Blk struct {
	Num  uint64 `json:"num"`
	Salt uint64 `json:"salt"`           // the L1 node's header for this number is header(num, salt)
	Hash string `json:"hash,omitempty"` // hash the syncer stores; "" = the L1 node's header hash
	Evs  []L1Ev `json:"evs"`
}
type ClaimIn struct {
	Pos    uint64   `json:"pos"`
	GI     string   `json:"gi"` // decimal
	ONet   uint32   `json:"onet"`
	OAddr  string   `json:"oaddr"`
	DNet   uint32   `json:"dnet"`
	DAddr  string   `json:"daddr"`
	Amount string   `json:"amount"` // decimal
	PLER   []string `json:"pler"`   // 32 hashes
	PRER   []string `json:"prer"`
	MER    string   `json:"mer"`
	RER    string   `json:"rer"`
	GER    string   `json:"ger"`
	Meta   string   `json:"meta"`
	IsMsg  bool     `json:"msg"`
	Stream string   `json:"stream,omitempty"` // fin | unfin | unknown | badger | wrongger  (generator's intent; not read by the run)
}
type L2Blk struct {
	Num    uint64    `json:"num"`
	Claims []ClaimIn `json:"claims"`
}
type In struct {
	L1      []L1Blk `json:"l1"`
	Fin     uint64  `json:"fin"`      // number of the L1 node's finalized block
	FinSalt uint64  `json:"fin_salt"` // header salt for numbers that are not blocks of L1
	FinErr  bool    `json:"fin_err,omitempty"`
	// Warm: before the attempt that is observed, the SAME querier and flow make one attempt while the L1 node reports this (older)
	// finalized block and nothing fails; its result is discarded. What it may leave behind must not matter afterwards.
	Warm     *uint64 `json:"warm,omitempty"`
	HdrErr   bool    `json:"hdr_err,omitempty"` // HeaderByNumber(n) fails
	L2       []L2Blk `json:"l2"`
	NamedIdx int64   `json:"named_idx"` // direct call against the root recorded for this L1 info index; -1 = none
	Tag      string  `json:"tag"`
	// PrevErr: the certificate database already holds a certificate of height 0 for blocks [1, To] that ended InError and that
	// was built against the L1 info root recorded for index RootIdx (an OLDER root than the latest finalized one): the flow
	// then builds its replacement (blocks 1 .. last L2 block), which must be proven against the latest finalized root like
	// any other certificate
	PrevErr *PrevErr `json:"prev_err,omitempty"`
}
type PrevErr struct {
	To      uint64 `json:"to"`
	RootIdx uint32 `json:"root_idx"`
}

type XExit struct {
	LT  uint8   `json:"lt"`
	ON  uint32  `json:"on"`
	OA  string  `json:"oa"`
	DN  uint32  `json:"dn"`
	DA  string  `json:"da"`
	Amt *string `json:"amt"`
	MD  *string `json:"md"` // null = nil slice
}
type XProof struct {
	Root string   `json:"root"`
	Sib  []string `json:"sib"`
}
type XLeaf struct {
	Idx uint32 `json:"idx"`
	RER string `json:"rer"`
	MER string `json:"mer"`
	GER string `json:"ger"`
	BH  string `json:"bh"`
	TS  uint64 `json:"ts"`
}
type XImp struct {
	Exit  XExit    `json:"exit"`
	Kind  string   `json:"kind"` // mainnet: p = [leaf_mer, ger_l1root]; rollup: p = [leaf_ler, ler_rer, ger_l1root]
	P     []XProof `json:"p"`
	Leaf  XLeaf    `json:"leaf"`
	M     bool     `json:"m"`
	R     uint32   `json:"r"`
	L     uint32   `json:"l"`
	GerOK bool     `json:"ger_ok"` // evidence only: real tree.CalculateRoot(L1Leaf.Hash(), ProofGERToL1Root.Proof, index) == named root
}
type Obs struct {
	Kind string `json:"kind"` // nocert | err | cert | none
	Err  string `json:"err,omitempty"`
	Root string `json:"root,omitempty"`
	LC   uint32 `json:"lc,omitempty"`
	Imp  []XImp `json:"imp,omitempty"`
}
type HdrObs struct {
	Num  uint64 `json:"num"`
	Hash string `json:"hash"`
}
type Out struct {
	In       In        `json:"in"`
	L1Res    []string  `json:"l1res"`
	L1Hash   []string  `json:"l1hash"`              // the hash the syncer stored per block
	Fin      *HdrObs   `json:"fin"`                 // the scripted node's finalized block
	FinFails bool      `json:"fin_fails,omitempty"` // ... and whether the query for it fails in the observed attempt
	Hdrs     []HdrObs  `json:"hdrs"`                // ... and for every explicit number of an L1 block (empty when HdrErr)
	Claims   []ClaimIn `json:"claims"`              // the claims as the REAL L2 store returned them for [1, last]
	RTripOK  bool      `json:"rtrip_ok"`
	Named    string    `json:"named"` // resolved named root ("" = none)
	PP       Obs       `json:"pp"`
	Direct   Obs       `json:"direct"`
	Guard    string    `json:"guard,omitempty"` // CheckIfClaimsArePartOfFinalizedL1InfoTree(named root, claims): "ok" | "err" ("" = no named root)
	Err      string    `json:"err,omitempty"`
}

// ---------------------------------------------------------------------------------------------
// helpers
// ---------------------------------------------------------------------------------------------

func h32(s string) common.Hash    { return common.BytesToHash(hlib.UnHex(s)) }
func a20(s string) common.Address { return common.BytesToAddress(hlib.UnHex(s)) }
func hx(h common.Hash) string     { return hlib.Hex(h.Bytes()) }
func sp(s string) *string         { return &s }

func proofToStrs(p treetypes.Proof) []string {
	out := make([]string, 0, len(p))
	for _, h := range p {
		out = append(out, hx(h))
	}
	return out
}
func strsToProof(s []string) (p treetypes.Proof) {
	for i := 0; i < len(p) && i < len(s); i++ {
		p[i] = h32(s[i])
	}
	return
}

// header of the scripted L1 node: the hash is go-ethereum's real header hash
func header(num, salt uint64) *ethtypes.Header {
	extra := make([]byte, 8)
	binary.BigEndian.PutUint64(extra, salt)
	return &ethtypes.Header{Number: new(big.Int).SetUint64(num), Extra: extra}
}

var errRPC = errors.New("scripted: L1 RPC failure")

type l1Client struct {
	aggkittypes.BaseEthereumClienter // nil: any other method panics (none is called)
	in                               *In
	warm                             *uint64 // while set: the node's finalized block is this one and no call fails
}

func (c *l1Client) saltOf(n uint64) uint64 {
	for _, b := range c.in.L1 {
		if b.Num == n {
			return b.Salt
		}
	}
	return c.in.FinSalt
}
func (c *l1Client) HeaderByNumber(_ context.Context, number *big.Int) (*ethtypes.Header, error) {
	if number != nil && number.Sign() < 0 {
		if number.Int64() != int64(aggkittypes.Finalized) {
			return nil, fmt.Errorf("scripted: unexpected tag %s", number)
		}
		if c.warm != nil {
			return header(*c.warm, c.saltOf(*c.warm)), nil
		}
		if c.in.FinErr {
			return nil, errRPC
		}
		return header(c.in.Fin, c.saltOf(c.in.Fin)), nil
	}
	if (c.in.HdrErr && c.warm == nil) || number == nil {
		return nil, errRPC
	}
	return header(number.Uint64(), c.saltOf(number.Uint64())), nil
}

type fixedLER struct{}

func (fixedLER) GetLastLocalExitRoot() (common.Hash, error) { return common.Hash{}, nil }

type keySigner struct{ key *ecdsa.PrivateKey }

func (s *keySigner) Initialize(context.Context) error { return nil }
func (s *keySigner) PublicAddress() common.Address    { return crypto.PubkeyToAddress(s.key.PublicKey) }
func (s *keySigner) String() string                   { return "verif signer" }
func (s *keySigner) SignHash(_ context.Context, h common.Hash) ([]byte, error) {
	return crypto.Sign(h.Bytes(), s.key)
}
func (s *keySigner) SignTx(_ context.Context, tx *ethtypes.Transaction) (*ethtypes.Transaction, error) {
	return tx, nil
}

func errClass(err error) string {
	if err == nil {
		return ""
	}
	m := err.Error()
	switch {
	case strings.Contains(m, "GER mismatch"):
		return "ger_mismatch"
	case strings.Contains(m, "error getting info by global exit root"):
		if errors.Is(err, l1infotreesync.ErrNotFound) || strings.Contains(m, "not found") {
			return "ger_notfound"
		}
		return "other:" + m
	case errors.Is(err, errRPC):
		if strings.Contains(m, "error getting latest finalized L1 block") {
			return "client_fin"
		}
		return "client_hdr"
	case strings.Contains(m, "error getting latest processed block from l1infotreesyncer"):
		return "processed_until"
	case strings.Contains(m, "did not process any block yet"):
		return "no_block_yet"
	case strings.Contains(m, "returned a different hash"):
		return "hash_mismatch"
	case strings.Contains(m, "error getting latest l1 info tree info until block num"):
		switch {
		case errors.Is(err, l1infotreesync.ErrBlockNotProcessed):
			return "info_notprocessed"
		case errors.Is(err, l1infotreesync.ErrNoBlock0):
			return "info_noblock0"
		case errors.Is(err, l1infotreesync.ErrNotFound):
			return "info_notfound"
		}
		return "other:" + m
	case strings.Contains(m, "error getting L1 Info tree root by index"):
		return "root_notfound"
	}
	return "other:" + m
}

func toClaim(num uint64, c ClaimIn) *bridgesync.Claim {
	return &bridgesync.Claim{
		BlockNum: num, BlockPos: c.Pos,
		GlobalIndex:         hlib.UnDec(c.GI),
		OriginNetwork:       c.ONet,
		OriginAddress:       a20(c.OAddr),
		DestinationAddress:  a20(c.DAddr),
		Amount:              hlib.UnDec(c.Amount),
		ProofLocalExitRoot:  strsToProof(c.PLER),
		ProofRollupExitRoot: strsToProof(c.PRER),
		MainnetExitRoot:     h32(c.MER),
		RollupExitRoot:      h32(c.RER),
		GlobalExitRoot:      h32(c.GER),
		DestinationNetwork:  c.DNet,
		Metadata:            hlib.UnHex(c.Meta),
		IsMessage:           c.IsMsg,
	}
}
func fromClaim(c bridgesync.Claim) ClaimIn {
	return ClaimIn{Pos: c.BlockPos, GI: hlib.Dec(c.GlobalIndex), ONet: c.OriginNetwork, OAddr: hlib.Hex(c.OriginAddress.Bytes()),
		DNet: c.DestinationNetwork, DAddr: hlib.Hex(c.DestinationAddress.Bytes()), Amount: hlib.Dec(c.Amount),
		PLER: proofToStrs(c.ProofLocalExitRoot), PRER: proofToStrs(c.ProofRollupExitRoot),
		MER: hx(c.MainnetExitRoot), RER: hx(c.RollupExitRoot), GER: hx(c.GlobalExitRoot),
		Meta: hlib.Hex(c.Metadata), IsMsg: c.IsMessage}
}
func sameClaim(a, b ClaimIn) bool {
	a.Stream, b.Stream = "", ""
	x, _ := json.Marshal(a)
	y, _ := json.Marshal(b)
	return string(x) == string(y)
}

func fromProof(m *agglayertypes.MerkleProof) XProof {
	if m == nil {
		return XProof{Root: "nil"}
	}
	return XProof{Root: hx(m.Root), Sib: proofToStrs(m.Proof)}
}
func fromLeaf(l *agglayertypes.L1InfoTreeLeaf) XLeaf {
	if l == nil || l.Inner == nil {
		return XLeaf{RER: "nil"}
	}
	return XLeaf{Idx: l.L1InfoTreeIndex, RER: hx(l.RollupExitRoot), MER: hx(l.MainnetExitRoot),
		GER: hx(l.Inner.GlobalExitRoot), BH: hx(l.Inner.BlockHash), TS: l.Inner.Timestamp}
}
func fromImp(i *agglayertypes.ImportedBridgeExit, named common.Hash) XImp {
	x := XImp{}
	if b := i.BridgeExit; b != nil {
		x.Exit = XExit{LT: uint8(b.LeafType), DN: b.DestinationNetwork, DA: hlib.Hex(b.DestinationAddress.Bytes())}
		if b.TokenInfo != nil {
			x.Exit.ON, x.Exit.OA = b.TokenInfo.OriginNetwork, hlib.Hex(b.TokenInfo.OriginTokenAddress.Bytes())
		}
		if b.Amount != nil {
			x.Exit.Amt = sp(b.Amount.String())
		}
		if b.Metadata != nil {
			x.Exit.MD = sp(hlib.Hex(b.Metadata))
		}
	}
	if g := i.GlobalIndex; g != nil {
		x.M, x.R, x.L = g.MainnetFlag, g.RollupIndex, g.LeafIndex
	}
	var leaf *agglayertypes.L1InfoTreeLeaf
	var pger *agglayertypes.MerkleProof
	switch c := i.ClaimData.(type) {
	case *agglayertypes.ClaimFromMainnnet:
		x.Kind, x.P, leaf, pger = "mainnet", []XProof{fromProof(c.ProofLeafMER), fromProof(c.ProofGERToL1Root)}, c.L1Leaf, c.ProofGERToL1Root
	case *agglayertypes.ClaimFromRollup:
		x.Kind, x.P, leaf, pger = "rollup", []XProof{fromProof(c.ProofLeafLER), fromProof(c.ProofLERToRER), fromProof(c.ProofGERToL1Root)}, c.L1Leaf, c.ProofGERToL1Root
	default:
		x.Kind = "none"
	}
	x.Leaf = fromLeaf(leaf)
	if leaf != nil && leaf.Inner != nil && pger != nil {
		x.GerOK = tree.CalculateRoot(leaf.Hash(), pger.Proof, leaf.L1InfoTreeIndex) == named
	}
	return x
}

// ---------------------------------------------------------------------------------------------
// running one case on the real code
// ---------------------------------------------------------------------------------------------

func toL1Event(e L1Ev) l1infotreesync.Event {
	switch e.T {
	case "info":
		return l1infotreesync.Event{UpdateL1InfoTree: &l1infotreesync.UpdateL1InfoTree{BlockPosition: e.Pos,
			MainnetExitRoot: h32(e.MER), RollupExitRoot: h32(e.RER), ParentHash: h32(e.Parent), Timestamp: e.TS}}
	case "vb":
		return l1infotreesync.Event{VerifyBatches: &l1infotreesync.VerifyBatches{BlockPosition: e.Pos, RollupID: e.RID,
			NumBatch: e.Batch, ExitRoot: h32(e.Exit)}}
	}
	panic("bad L1 event kind " + e.T)
}

func run(in In, dir string, n int) (out Out) {
	out.In = in
	out.PP.Kind, out.Direct.Kind = "none", "none"
	defer func() {
		if e := recover(); e != nil {
			out.Err = fmt.Sprint(e)
		}
	}()
	ctx := context.Background()
	sub := filepath.Join(dir, fmt.Sprintf("case%d", n))
	os.MkdirAll(sub, 0o755)
	defer os.RemoveAll(sub)

	// L1 side
	l1s, err := l1infotreesync.NewVerifC09Sync(filepath.Join(sub, "l1info.sqlite"))
	if err != nil {
		panic(err)
	}
	defer l1infotreesync.VerifC09Close(l1s)
	client := &l1Client{in: &in}
	for _, b := range in.L1 {
		hash := header(b.Num, b.Salt).Hash()
		if b.Hash != "" {
			hash = h32(b.Hash)
		}
		blk := aggsync.Block{Num: b.Num, Hash: hash}
		for _, e := range b.Evs {
			blk.Events = append(blk.Events, toL1Event(e))
		}
		if err := l1infotreesync.VerifC09ProcessBlock(ctx, l1s, blk); err != nil {
			out.L1Res = append(out.L1Res, "error:"+err.Error())
		} else {
			out.L1Res = append(out.L1Res, "ok")
		}
		out.L1Hash = append(out.L1Hash, hx(hash))
		if !in.HdrErr {
			out.Hdrs = append(out.Hdrs, HdrObs{b.Num, hx(header(b.Num, b.Salt).Hash())})
		}
	}
	out.FinFails = in.FinErr
	{ // the node's finalized block is reported also when the query for it is scripted to fail: the property speaks about it
		out.Fin = &HdrObs{in.Fin, hx(header(in.Fin, client.saltOf(in.Fin)).Hash())}
	}

	// L2 side
	l2s, err := bridgesync.NewVerifBridgeSync(filepath.Join(sub, "l2bridge.sqlite"), l2Network)
	if err != nil {
		panic(err)
	}
	defer bridgesync.VerifClose(l2s)
	var want []ClaimIn
	last := uint64(0)
	for _, b := range in.L2 {
		blk := aggsync.Block{Num: b.Num, Hash: common.BigToHash(new(big.Int).SetUint64(b.Num + 5000))}
		for _, c := range b.Claims {
			blk.Events = append(blk.Events, bridgesync.Event{Claim: toClaim(b.Num, c)})
			want = append(want, c)
		}
		if err := bridgesync.VerifProcessBlock(ctx, l2s, blk); err != nil {
			panic(fmt.Sprintf("L2 block %d: %v", b.Num, err))
		}
		last = b.Num
	}
	logger := log.WithFields("module", "verif-c09")
	bq := query.NewBridgeDataQuerier(logger, l2s, time.Millisecond)
	var claims []bridgesync.Claim
	if last > 0 {
		_, claims, err = bq.GetBridgesAndClaims(ctx, 1, last)
		if err != nil {
			panic(err)
		}
	}
	out.RTripOK = len(claims) == len(want)
	for i, c := range claims {
		ci := fromClaim(c)
		if i < len(want) {
			ci.Stream = want[i].Stream
			if !sameClaim(ci, want[i]) {
				out.RTripOK = false
			}
		}
		out.Claims = append(out.Claims, ci)
	}

	// the real flow
	storage, err := aggsenderdb.NewAggSenderSQLStorage(logger, aggsenderdb.AggSenderSQLStorageConfig{DBPath: filepath.Join(sub, "aggsender.sqlite")})
	if err != nil {
		panic(err)
	}
	if in.PrevErr != nil {
		h := &aggsendertypes.CertificateHeader{Height: 0, RetryCount: 0, CertificateID: common.HexToHash("0xc09"), NewLocalExitRoot: common.HexToHash("0x1"),
			FromBlock: 1, ToBlock: in.PrevErr.To, Status: agglayertypes.InError, CreatedAt: 1, UpdatedAt: 2,
			CertType: aggsendertypes.CertificateTypePP, CertSource: aggsendertypes.CertificateSourceLocal}
		zero := common.Hash{}
		h.PreviousLocalExitRoot = &zero
		if r, err := l1s.GetL1InfoTreeRootByIndex(ctx, in.PrevErr.RootIdx); err == nil {
			rh := r.Hash
			h.FinalizedL1InfoTreeRoot, h.L1InfoTreeLeafCount = &rh, r.Index+1
		}
		if err := storage.SaveLastSentCertificate(ctx, aggsendertypes.Certificate{Header: h}); err != nil {
			panic(err)
		}
	}
	l1q := query.NewL1InfoTreeDataQuerier(client, l1s)
	key, _ := crypto.ToECDSA(common.LeftPadBytes([]byte{0x42}, 32))
	base := flows.NewBaseFlow(logger, bq, storage, l1q, fixedLER{}, flows.NewBaseFlowConfigDefault())
	pp := flows.NewPPFlow(logger, base, storage, l1q, bq, &keySigner{key: key}, false, 0)

	if in.Warm != nil {
		client.warm = in.Warm
		_, _ = pp.GetCertificateBuildParams(ctx)
		client.warm = nil
	}
	params, err := pp.GetCertificateBuildParams(ctx)
	switch {
	case err != nil:
		out.PP = Obs{Kind: "err", Err: errClass(err)}
	case params == nil:
		out.PP = Obs{Kind: "nocert"}
	default:
		cert, err := pp.BuildCertificate(ctx, params)
		if err != nil {
			out.PP = Obs{Kind: "err", Err: errClass(err)}
		} else {
			o := Obs{Kind: "cert", Root: hx(params.L1InfoTreeRootFromWhichToProve), LC: cert.L1InfoTreeLeafCount}
			for _, i := range cert.ImportedBridgeExits {
				o.Imp = append(o.Imp, fromImp(i, params.L1InfoTreeRootFromWhichToProve))
			}
			out.PP = o
		}
	}

	// direct call with a named root
	if in.NamedIdx >= 0 {
		if r, err := l1s.GetL1InfoTreeRootByIndex(ctx, uint32(in.NamedIdx)); err == nil {
			out.Named = hx(r.Hash)
			// the test the aggchain-prover flow makes before it builds a certificate against a root
			if gerr := l1q.CheckIfClaimsArePartOfFinalizedL1InfoTree(&r, claims); gerr == nil {
				out.Guard = "ok"
			} else {
				out.Guard = "err"
			}
			// as both flows do: VerifyBuildParams (verifyClaimGERs) first, then the exits against the named root
			var ibes []*agglayertypes.ImportedBridgeExit
			err := base.VerifyBuildParams(ctx, &aggsendertypes.CertificateBuildParams{Claims: claims})
			if err == nil {
				ibes, err = flows.VerifC09GetImportedBridgeExits(ctx, logger, l1q, claims, r.Hash)
			}
			if err != nil {
				out.Direct = Obs{Kind: "err", Err: errClass(err)}
			} else {
				o := Obs{Kind: "cert", Root: hx(r.Hash)}
				for _, i := range ibes {
					o.Imp = append(o.Imp, fromImp(i, r.Hash))
				}
				out.Direct = o
			}
		}
	}
	return
}

func main() {
	f := hlib.ParseFlags()
	hlib.QuietLogs()
	dir, err := os.MkdirTemp("", "verif_c09_")
	if err != nil {
		panic(err)
	}
	defer os.RemoveAll(dir)
	var ins []In
	if f.Replay != "" {
		for _, raw := range hlib.ReadJSONL(f.Replay) {
			var in In
			if err := json.Unmarshal(raw, &in); err != nil {
				panic(err)
			}
			ins = append(ins, in)
		}
	} else {
		ins = generate(f, dir)
	}
	w := hlib.NewWriter(f.Out)
	defer w.Close()
	for i, in := range ins {
		w.Emit(run(in, dir, i))
	}
}
