package main

// Case generator. All randomness from hlib.NewRng(seed). Exit trees and proofs come from REAL stores:
//   world.main / world.rollups : real bridgesync processors holding the deposits of L1 (network 0) and of three other rollups;
//   scratch (one per case)     : real l1infotreesync processor fed with the case's VerifyBatches sequence = rollup exit tree oracle.

import (
	"context"
	"fmt"
	"math/big"
	"path/filepath"

	"github.com/agglayer/aggkit/bridgesync"
	"github.com/agglayer/aggkit/l1infotreesync"
	aggsync "github.com/agglayer/aggkit/sync"
	treetypes "github.com/agglayer/aggkit/tree/types"
	"github.com/ethereum/go-ethereum/common"
	"github.com/ethereum/go-ethereum/crypto"

	"verifharness/hlib"
)

type dep struct {
	LT    uint8
	ONet  uint32
	OAddr common.Address
	DAddr common.Address
	Amt   *big.Int
	Meta  []byte
}

type exitStore struct {
	s     *bridgesync.BridgeSync
	deps  []dep
	roots []common.Hash // roots[k] = exit root after deposit k
}

func newExitStore(ctx context.Context, path string, net uint32, rng *hlib.Rng, n int) *exitStore {
	s, err := bridgesync.NewVerifBridgeSync(path, net)
	if err != nil {
		panic(err)
	}
	e := &exitStore{s: s}
	for i := 0; i < n; i++ {
		d := dep{LT: uint8(rng.Intn(2)), ONet: hlib.Pick(rng, uint32(0), 1, net, 4294967295),
			OAddr: common.BytesToAddress(rng.Bytes(20)), DAddr: common.BytesToAddress(rng.Bytes(20))}
		switch rng.Intn(5) {
		case 0:
			d.Amt = big.NewInt(0)
		case 1:
			d.Amt = new(big.Int).Sub(new(big.Int).Lsh(big.NewInt(1), 256), big.NewInt(1))
		default:
			d.Amt = rng.Big(8 + rng.Intn(200))
		}
		switch rng.Intn(4) {
		case 0: // empty metadata
		case 1:
			d.Meta = rng.Bytes(32)
		default:
			d.Meta = rng.Bytes(1 + rng.Intn(90))
		}
		if i == 0 {
			d.OAddr, d.ONet = common.Address{}, 0 // native token of L1: all-zero origin
		}
		b := &bridgesync.Bridge{BlockNum: uint64(i + 1), BlockPos: 0, LeafType: d.LT, OriginNetwork: d.ONet, OriginAddress: d.OAddr,
			DestinationNetwork: l2Network, DestinationAddress: d.DAddr, Amount: new(big.Int).Set(d.Amt), Metadata: d.Meta, DepositCount: uint32(i)}
		blk := aggsync.Block{Num: uint64(i + 1), Hash: common.BigToHash(big.NewInt(int64(i + 77))), Events: []any{bridgesync.Event{Bridge: b}}}
		if err := bridgesync.VerifProcessBlock(ctx, s, blk); err != nil {
			panic(err)
		}
		r, err := s.GetExitRootByIndex(ctx, uint32(i))
		if err != nil {
			panic(err)
		}
		e.deps = append(e.deps, d)
		e.roots = append(e.roots, r.Hash)
	}
	return e
}

func (e *exitStore) proof(ctx context.Context, i, k int) treetypes.Proof {
	p, err := e.s.GetProof(ctx, uint32(i), e.roots[k])
	if err != nil {
		panic(err)
	}
	return p
}

type world struct {
	main    *exitStore
	rollups map[uint32]*exitStore
	rids    []uint32
}

func newWorld(ctx context.Context, dir string, rng *hlib.Rng) *world {
	w := &world{rollups: map[uint32]*exitStore{}, rids: []uint32{1, 2, 5}}
	w.main = newExitStore(ctx, filepath.Join(dir, "w_main.sqlite"), 0, rng, 9)
	for _, rid := range w.rids {
		w.rollups[rid] = newExitStore(ctx, filepath.Join(dir, fmt.Sprintf("w_r%d.sqlite", rid)), rid, rng, 5)
	}
	return w
}
func (w *world) close() {
	bridgesync.VerifClose(w.main.s)
	for _, r := range w.rollups {
		bridgesync.VerifClose(r.s)
	}
}

type leafInfo struct {
	idx int
	blk uint64
	km  int
	kr  map[uint32]int
	mer common.Hash
	rer common.Hash
	ger common.Hash
}

type shape struct {
	tag      string
	nBlocks  int
	first    uint64 // number of the first L1 block
	finMode  string // at | last | beyond | before | between | far
	hashMode string // ok | fork | legacy | fork_other
	finErr   bool
	hdrErr   bool
	lateInfo bool     // no info leaf in the first block(s)
	streams  []string // per claim
	named    string   // none | last | old | rand | missing
}

func gerOf(mer, rer common.Hash) common.Hash { return crypto.Keccak256Hash(mer.Bytes(), rer.Bytes()) }

func (w *world) claimFor(ctx context.Context, rng *hlib.Rng, scratch *l1infotreesync.L1InfoTreeSync, L leafInfo, stream string) ClaimIn {
	// candidates: mainnet deposit <= km, or a rollup verified in L's snapshot
	var rids []uint32
	for _, rid := range w.rids {
		if L.kr[rid] >= 0 {
			rids = append(rids, rid)
		}
	}
	useRollup := len(rids) > 0 && rng.Intn(2) == 0
	var d dep
	c := ClaimIn{DNet: l2Network, MER: hx(L.mer), RER: hx(L.rer), GER: hx(L.ger), Stream: stream}
	if useRollup {
		rid := rids[rng.Intn(len(rids))]
		k := L.kr[rid]
		i := rng.Intn(k + 1)
		d = w.rollups[rid].deps[i]
		c.PLER = proofToStrs(w.rollups[rid].proof(ctx, i, k))
		p, err := scratch.GetRollupExitTreeMerkleProof(ctx, rid, L.rer)
		if err != nil {
			panic(err)
		}
		c.PRER = proofToStrs(p)
		gi := new(big.Int).Lsh(new(big.Int).SetUint64(uint64(rid-1)), 32)
		c.GI = gi.Add(gi, big.NewInt(int64(i))).String()
	} else {
		i := rng.Intn(L.km + 1)
		d = w.main.deps[i]
		c.PLER = proofToStrs(w.main.proof(ctx, i, L.km))
		var pr treetypes.Proof
		if rng.Intn(2) == 0 { // the contract ignores the rollup proof of a mainnet claim: anything may be there
			for j := range pr {
				pr[j] = common.BytesToHash(rng.Bytes(32))
			}
		}
		c.PRER = proofToStrs(pr)
		gi := new(big.Int).Lsh(big.NewInt(1), 64)
		c.GI = gi.Add(gi, big.NewInt(int64(i))).String()
	}
	c.ONet, c.OAddr, c.DAddr, c.Amount, c.Meta, c.IsMsg = d.ONet, hlib.Hex(d.OAddr.Bytes()), hlib.Hex(d.DAddr.Bytes()), d.Amt.String(), hlib.Hex(d.Meta), d.LT == 1
	return c
}

func (w *world) genCase(ctx context.Context, rng *hlib.Rng, dir string, n int, sh shape) In {
	scratch, err := l1infotreesync.NewVerifC09Sync(filepath.Join(dir, fmt.Sprintf("scratch%d.sqlite", n)))
	if err != nil {
		panic(err)
	}
	defer l1infotreesync.VerifC09Close(scratch)
	in := In{Tag: sh.tag, FinErr: sh.finErr, HdrErr: sh.hdrErr, FinSalt: rng.U64() % 1000, NamedIdx: -1}
	km := -1
	kr := map[uint32]int{}
	for _, rid := range w.rids {
		kr[rid] = -1
	}
	curRER := common.BytesToHash(rng.Bytes(32)) // before any verified batch: nothing is claimed against it
	var leaves []leafInfo
	lastKey := ""
	scratchBlk := uint64(0)
	num := sh.first
	for b := 0; b < sh.nBlocks; b++ {
		blk := L1Blk{Num: num, Salt: rng.U64() % 100000}
		pos := uint64(rng.Intn(3))
		nEv := 1 + rng.Intn(4)
		if sh.lateInfo && b == 0 {
			nEv = 1
		}
		for e := 0; e < nEv; e++ {
			wantInfo := rng.Intn(3) != 0
			if sh.lateInfo && b == 0 {
				wantInfo = false
			}
			if b == sh.nBlocks-1 && e == nEv-1 && len(leaves) == 0 && !sh.lateInfo {
				wantInfo = true
			}
			if !wantInfo {
				rid := w.rids[rng.Intn(len(w.rids))]
				ev := L1Ev{T: "vb", Pos: pos, RID: rid, Batch: rng.U64() % 1000}
				switch {
				case rng.Intn(8) == 0: // zero exit root: skipped by the processor
					ev.Exit = hx(common.Hash{})
				case rng.Intn(8) == 0 && kr[rid] >= 0: // unchanged exit root: skipped
					ev.Exit = hx(w.rollups[rid].roots[kr[rid]])
				case kr[rid] < len(w.rollups[rid].roots)-1:
					kr[rid] += 1 + rng.Intn(min(2, len(w.rollups[rid].roots)-1-kr[rid]))
					ev.Exit = hx(w.rollups[rid].roots[kr[rid]])
				default:
					ev.Exit = hx(common.Hash{})
				}
				blk.Evs = append(blk.Evs, ev)
				if h32(ev.Exit) != (common.Hash{}) {
					scratchBlk++
					sb := aggsync.Block{Num: scratchBlk, Hash: common.BigToHash(new(big.Int).SetUint64(scratchBlk)),
						Events: []any{toL1Event(ev)}}
					if err := l1infotreesync.VerifC09ProcessBlock(ctx, scratch, sb); err != nil {
						panic(fmt.Sprintf("scratch VerifyBatches: %v", err))
					}
					r, err := scratch.GetLastRollupExitRoot(ctx)
					if err != nil {
						panic(err)
					}
					curRER = r.Hash
				}
			} else {
				if km < 0 {
					km = rng.Intn(3)
				} else if km < len(w.main.roots)-1 {
					km += rng.Intn(min(3, len(w.main.roots)-km))
				}
				key := fmt.Sprintf("%d/%s", km, hx(curRER))
				if key == lastKey { // the contract emits a new leaf only for a new global exit root
					if km < len(w.main.roots)-1 {
						km++
					} else {
						pos++
						continue
					}
					key = fmt.Sprintf("%d/%s", km, hx(curRER))
				}
				lastKey = key
				mer := w.main.roots[km]
				ev := L1Ev{T: "info", Pos: pos, MER: hx(mer), RER: hx(curRER), Parent: hlib.Hex(rng.Bytes(32)),
					TS: hlib.Pick(rng, uint64(0), 1, 1700000000+rng.U64()%1000000, 1700000000+rng.U64()%1000000, ^uint64(0)>>1)} // database/sql rejects uint64 >= 2^63
				blk.Evs = append(blk.Evs, ev)
				snap := map[uint32]int{}
				for k, v := range kr {
					snap[k] = v
				}
				leaves = append(leaves, leafInfo{idx: len(leaves), blk: num, km: km, kr: snap, mer: mer, rer: curRER, ger: gerOf(mer, curRER)})
			}
			pos += 1 + uint64(rng.Intn(3))
		}
		in.L1 = append(in.L1, blk)
		num += 1 + uint64(rng.Intn(3))
	}
	lastBlk := in.L1[len(in.L1)-1].Num
	// finalized pointer
	switch sh.finMode {
	case "last":
		in.Fin = lastBlk
	case "beyond":
		in.Fin = lastBlk + 1 + uint64(rng.Intn(4))
	case "far":
		in.Fin = lastBlk + 1000000
	case "before":
		if sh.first > 0 {
			in.Fin = sh.first - 1
		}
	case "first":
		in.Fin = in.L1[0].Num
	case "between":
		in.Fin = in.L1[rng.Intn(len(in.L1))].Num + 1
	default: // at
		in.Fin = in.L1[rng.Intn(len(in.L1))].Num
	}
	// the block the querier compares hashes for: the last block <= fin
	cmp := -1
	for i, b := range in.L1 {
		if b.Num <= in.Fin {
			cmp = i
		}
	}
	if cmp >= 0 {
		switch sh.hashMode {
		case "fork":
			in.L1[cmp].Hash = hx(header(in.L1[cmp].Num, in.L1[cmp].Salt+1).Hash())
		case "legacy":
			in.L1[cmp].Hash = hx(common.Hash{})
		case "fork_other":
			o := (cmp + 1) % len(in.L1)
			if o != cmp {
				in.L1[o].Hash = hx(header(in.L1[o].Num, in.L1[o].Salt+1).Hash())
			}
		}
	}
	// leaves at or below the finalized pointer
	finCount := 0
	for _, l := range leaves {
		if l.blk <= in.Fin {
			finCount++
		}
	}
	// claims
	var claims []ClaimIn
	for _, st := range sh.streams {
		switch st {
		case "fin":
			if finCount == 0 {
				if len(leaves) > 0 && sh.tag != "b_no_claims" { // nothing is finalized yet: the claim can only be outside the quantifier
					claims = append(claims, w.claimFor(ctx, rng, scratch, leaves[rng.Intn(len(leaves))], "unfin"))
				}
				continue
			}
			claims = append(claims, w.claimFor(ctx, rng, scratch, leaves[rng.Intn(finCount)], "fin"))
		case "unfin":
			if finCount >= len(leaves) {
				continue
			}
			claims = append(claims, w.claimFor(ctx, rng, scratch, leaves[finCount+rng.Intn(len(leaves)-finCount)], "unfin"))
		case "unknown":
			if len(leaves) == 0 {
				continue
			}
			L := leaves[rng.Intn(len(leaves))]
			L.rer = common.BytesToHash(rng.Bytes(32))
			L.kr = map[uint32]int{1: -1, 2: -1, 5: -1}
			L.ger = gerOf(L.mer, L.rer)
			claims = append(claims, w.claimFor(ctx, rng, scratch, L, "unknown"))
		case "wrongger": // the GER of ANOTHER finalized leaf: known to the syncer, but not the hash of the claim's exit roots
			if finCount < 2 {
				continue
			}
			a := rng.Intn(finCount)
			b := (a + 1 + rng.Intn(finCount-1)) % finCount
			c := w.claimFor(ctx, rng, scratch, leaves[a], "wrongger")
			c.GER = hx(leaves[b].ger)
			claims = append(claims, c)
		case "badger":
			if len(leaves) == 0 {
				continue
			}
			c := w.claimFor(ctx, rng, scratch, leaves[rng.Intn(len(leaves))], "badger")
			c.GER = hlib.Hex(rng.Bytes(32))
			claims = append(claims, c)
		}
	}
	l2num := uint64(1 + rng.Intn(3))
	pos := uint64(0)
	cur := L2Blk{Num: l2num}
	for i, c := range claims {
		c.Pos = pos
		pos += 1 + uint64(rng.Intn(2))
		cur.Claims = append(cur.Claims, c)
		if i < len(claims)-1 && rng.Intn(3) == 0 {
			in.L2 = append(in.L2, cur)
			l2num += 1 + uint64(rng.Intn(2))
			cur = L2Blk{Num: l2num}
			pos = 0
		}
	}
	in.L2 = append(in.L2, cur)
	switch sh.named {
	case "last":
		in.NamedIdx = int64(len(leaves) - 1)
	case "old":
		if len(leaves) > 0 {
			in.NamedIdx = int64(rng.Intn((len(leaves) + 1) / 2))
		}
	case "rand":
		if len(leaves) > 0 {
			in.NamedIdx = int64(rng.Intn(len(leaves)))
		}
	case "missing":
		in.NamedIdx = int64(len(leaves))
	}
	return in
}

func generate(f *hlib.Flags, dir string) []In {
	ctx := context.Background()
	rng := hlib.NewRng(f.Seed)
	w := newWorld(ctx, dir, rng)
	defer w.close()
	fin3 := []string{"fin", "fin", "fin"}
	boundary := []shape{
		{tag: "b_one_block", nBlocks: 1, first: 1, finMode: "last", hashMode: "ok", streams: []string{"fin"}, named: "last"},
		{tag: "b_syncer_behind", nBlocks: 3, first: 2, finMode: "beyond", hashMode: "ok", streams: fin3, named: "old"},
		{tag: "b_syncer_ahead_unfinalized", nBlocks: 4, first: 3, finMode: "at", hashMode: "ok", streams: []string{"fin", "unfin", "fin", "unfin"}, named: "last"},
		{tag: "b_hash_mismatch", nBlocks: 3, first: 1, finMode: "at", hashMode: "fork", streams: fin3, named: "rand"},
		{tag: "b_hash_mismatch_behind", nBlocks: 3, first: 1, finMode: "beyond", hashMode: "fork", streams: fin3, named: "rand"},
		{tag: "b_empty_hash_accepted", nBlocks: 3, first: 1, finMode: "at", hashMode: "legacy", streams: fin3, named: "rand"},
		{tag: "b_fin_before_first", nBlocks: 2, first: 5, finMode: "before", hashMode: "ok", streams: []string{"unfin", "unfin"}, named: "rand"},
		{tag: "b_block_zero_only", nBlocks: 1, first: 0, finMode: "last", hashMode: "ok", streams: []string{"unfin", "unknown"}, named: "last"},
		{tag: "b_fin_rpc_error", nBlocks: 2, first: 1, finMode: "last", hashMode: "ok", finErr: true, streams: []string{"unfin", "fin"}, named: "last"},
		{tag: "b_hdr_rpc_error_behind", nBlocks: 2, first: 1, finMode: "beyond", hashMode: "ok", hdrErr: true, streams: fin3, named: "last"},
		{tag: "b_no_claims", nBlocks: 2, first: 1, finMode: "last", hashMode: "ok", streams: nil, named: "last"},
		{tag: "b_unknown_ger", nBlocks: 3, first: 1, finMode: "last", hashMode: "ok", streams: []string{"fin", "unknown", "fin"}, named: "last"},
		{tag: "b_bad_ger", nBlocks: 3, first: 1, finMode: "last", hashMode: "ok", streams: []string{"fin", "badger"}, named: "last"},
		{tag: "b_wrong_ger", nBlocks: 4, first: 1, finMode: "last", hashMode: "ok", streams: []string{"fin", "wrongger", "fin"}, named: "last"},
		{tag: "b_no_leaf_until_finalized", nBlocks: 3, first: 1, finMode: "first", hashMode: "ok", lateInfo: true, streams: []string{"unfin", "fin"}, named: "old"},
		{tag: "b_far_beyond", nBlocks: 5, first: 1, finMode: "far", hashMode: "fork_other", streams: []string{"fin", "fin", "fin", "fin", "fin"}, named: "old"},
		{tag: "b_between_blocks", nBlocks: 4, first: 10, finMode: "between", hashMode: "ok", streams: []string{"fin", "fin", "unfin"}, named: "missing"},
	}
	var ins []In
	for i := 0; i < f.N; i++ {
		var sh shape
		if i < len(boundary) {
			sh = boundary[i]
		} else {
			sh = shape{tag: "random", nBlocks: 2 + rng.Intn(5), first: uint64(rng.Intn(6)),
				finMode:  hlib.Pick(rng, "at", "at", "last", "beyond", "between", "far", "before"),
				hashMode: hlib.Pick(rng, "ok", "ok", "ok", "ok", "legacy", "fork_other", "fork"),
				named:    hlib.Pick(rng, "last", "old", "rand", "rand", "none")}
			nc := 1 + rng.Intn(5)
			malformed := i%5 == 4 // separate stream: claims outside the quantifier
			for c := 0; c < nc; c++ {
				st := "fin"
				if malformed && rng.Intn(2) == 0 {
					st = hlib.Pick(rng, "unfin", "unfin", "unfin", "unknown", "badger", "wrongger", "wrongger")
				}
				sh.streams = append(sh.streams, st)
			}
			if malformed {
				sh.tag = "random_outside"
			}
		}
		in := w.genCase(ctx, rng, dir, i, sh)
		// every third case with at least two L2 blocks: the certificate being built is the replacement of a certificate for the
		// first L2 block(s) that ended InError and had been built against the OLDEST recorded L1 info root
		if len(in.L2) >= 2 && i%3 == 1 {
			in.PrevErr = &PrevErr{To: in.L2[rng.Intn(len(in.L2)-1)].Num, RootIdx: 0}
			in.Tag += "+retry_of_inerror"
		}
		ins = append(ins, in)
		// every case whose finalized block is at or beyond the second L1 block, once more after a warm-up attempt made while the node
		// reported the FIRST L1 block as finalized: with the observed attempt as scripted, and with its finalized query failing
		if !in.FinErr && !in.HdrErr && len(in.L1) >= 2 && in.Fin >= in.L1[1].Num && in.PrevErr == nil {
			w0 := in.L1[0].Num
			a := in
			a.Warm, a.Tag = &w0, in.Tag+"+warm"
			b := a
			b.FinErr, b.Tag = true, in.Tag+"+warm_fin_rpc_error"
			ins = append(ins, a, b)
		}
	}
	return ins
}
