// C19 harness: runs the real global-index producers/consumers on generated triples and on-chain values.
package main

import (
	"context"
	"encoding/json"
	"fmt"
	"math/big"
	"time"

	node "buf.build/gen/go/agglayer/agglayer/grpc/go/agglayer/node/v1/nodev1grpc"
	v1nodetypes "buf.build/gen/go/agglayer/agglayer/protocolbuffers/go/agglayer/node/types/v1"
	v1 "buf.build/gen/go/agglayer/agglayer/protocolbuffers/go/agglayer/node/v1"
	v1types "buf.build/gen/go/agglayer/interop/protocolbuffers/go/agglayer/interop/types/v1"
	agglayergrpc "github.com/agglayer/aggkit/agglayer/grpc"
	agglayertypes "github.com/agglayer/aggkit/agglayer/types"
	"github.com/agglayer/aggkit/aggsender/aggchainproofclient"
	"github.com/agglayer/aggkit/aggsender/optimistic/optimistichash"
	aggsendertypes "github.com/agglayer/aggkit/aggsender/types"
	"github.com/agglayer/aggkit/bridgesync"
	aggkitcommon "github.com/agglayer/aggkit/common"
	cfgtypes "github.com/agglayer/aggkit/config/types"
	aggkitgrpc "github.com/agglayer/aggkit/grpc"
	"github.com/ethereum/go-ethereum/common"
	"google.golang.org/grpc"

	"verifharness/hlib"
)

type In struct {
	Kind string `json:"kind"` // "triple" | "value" | "batch"
	M    bool   `json:"m"`
	R    uint32 `json:"r"`
	L    uint32 `json:"l"`
	V    string `json:"v"`            // decimal, for kind=value
	Ts   []Dec3 `json:"ts,omitempty"` // kind=batch: the claims of ONE certificate / prover request, in order
}

type Dec3 struct {
	M bool   `json:"m"`
	R uint32 `json:"r"`
	L uint32 `json:"l"`
}

type Out struct {
	In       In     `json:"in"`
	Enc      string `json:"enc,omitempty"`
	Dec      Dec3   `json:"dec"`
	Reenc    string `json:"reenc,omitempty"`
	Wire     string `json:"wire"`
	Commit   string `json:"commit"`
	GIHash   string `json:"gihash,omitempty"`
	Prover   string `json:"prover,omitempty"`
	OptLE    string `json:"opt_le,omitempty"`
	ExitHash string `json:"exit_hash,omitempty"`
	OptHash  string `json:"opt_hash,omitempty"`
	Err      string `json:"err,omitempty"`
	// kind=batch: one certificate carrying all claims of In.Ts (claim i has amount 1000+i)
	BWire     []string `json:"b_wire,omitempty"`      // SubmitCertificateRequest built by the real SendCertificate: imported_bridge_exits[i].global_index
	BProver   []string `json:"b_prover,omitempty"`    // GenerateAggchainProofRequest: imported_bridge_exits[i].global_index
	BExitHash []string `json:"b_exit_hash,omitempty"` // BridgeExit.Hash() of claim i
	BLER      string   `json:"b_ler,omitempty"`
	BPPHash   string   `json:"b_pp_hash,omitempty"`  // Certificate.PPHashToSign()
	BOptHash  string   `json:"b_opt_hash,omitempty"` // CalculateCommitImportedBrdigeExitsHashFromClaims(claims with GlobalIndex = GenerateGlobalIndex(triple))
}

// fakeSubmission captures the request the real client builds.
type fakeSubmission struct{ last *v1.SubmitCertificateRequest }

func (f *fakeSubmission) SubmitCertificate(_ context.Context, in *v1.SubmitCertificateRequest, _ ...grpc.CallOption) (*v1.SubmitCertificateResponse, error) {
	f.last = in
	return &v1.SubmitCertificateResponse{CertificateId: &v1nodetypes.CertificateId{Value: &v1types.FixedBytes32{Value: make([]byte, 32)}}}, nil
}

var _ node.CertificateSubmissionServiceClient = (*fakeSubmission)(nil)

func exitN(i int) *agglayertypes.BridgeExit {
	e := fixedExit()
	e.Amount = big.NewInt(int64(1000 + i))
	return e
}

func runBatch(in In, o *Out) {
	ler := common.HexToHash("0xc19c19c19c19c19c19c19c19c19c19c19c19c19c19c19c19c19c19c19c19c19c1")
	cert := &agglayertypes.Certificate{NetworkID: 1, Height: 5, NewLocalExitRoot: ler,
		AggchainData: &agglayertypes.AggchainDataSignature{Signature: make([]byte, 65)}}
	req := &aggsendertypes.AggchainProofRequest{}
	var claims []bridgesync.Claim
	for i, t := range in.Ts {
		ibe := &agglayertypes.ImportedBridgeExit{
			BridgeExit:  exitN(i),
			GlobalIndex: &agglayertypes.GlobalIndex{MainnetFlag: t.M, RollupIndex: t.R, LeafIndex: t.L},
			ClaimData: &agglayertypes.ClaimFromMainnnet{
				ProofLeafMER:     &agglayertypes.MerkleProof{},
				ProofGERToL1Root: &agglayertypes.MerkleProof{},
				L1Leaf:           &agglayertypes.L1InfoTreeLeaf{Inner: &agglayertypes.L1InfoTreeLeafInner{}},
			},
		}
		cert.ImportedBridgeExits = append(cert.ImportedBridgeExits, ibe)
		req.ImportedBridgeExitsWithBlockNumber = append(req.ImportedBridgeExitsWithBlockNumber,
			&agglayertypes.ImportedBridgeExitWithBlockNumber{BlockNumber: uint64(i + 1), ImportedBridgeExit: ibe})
		ex := exitN(i)
		o.BExitHash = append(o.BExitHash, hlib.Hex(ex.Hash().Bytes()))
		claims = append(claims, bridgesync.Claim{
			GlobalIndex:        bridgesync.GenerateGlobalIndex(t.M, t.R, t.L),
			OriginNetwork:      ex.TokenInfo.OriginNetwork,
			OriginAddress:      ex.TokenInfo.OriginTokenAddress,
			DestinationNetwork: ex.DestinationNetwork,
			DestinationAddress: ex.DestinationAddress,
			Amount:             ex.Amount,
		})
	}
	sub := &fakeSubmission{}
	cfg := aggkitgrpc.DefaultConfig()
	cfg.RequestTimeout = cfgtypes.NewDuration(5 * time.Second)
	cl := agglayergrpc.NewVerifClient(cfg, nil, nil, sub)
	if _, err := cl.SendCertificate(context.Background(), cert); err != nil {
		o.Err = err.Error()
		return
	}
	for _, p := range sub.last.Certificate.ImportedBridgeExits {
		var v []byte
		if p.GlobalIndex != nil {
			v = p.GlobalIndex.Value
		}
		o.BWire = append(o.BWire, hlib.Hex(v))
	}
	preq := aggchainproofclient.VerifConvertAggchainProofRequest(req)
	for _, p := range preq.ImportedBridgeExits {
		var v []byte
		if p.GlobalIndex != nil {
			v = p.GlobalIndex.Value
		}
		o.BProver = append(o.BProver, hlib.Hex(v))
	}
	o.BLER = hlib.Hex(ler.Bytes())
	o.BPPHash = hlib.Hex(cert.PPHashToSign().Bytes())
	o.BOptHash = hlib.Hex(optimistichash.CalculateCommitImportedBrdigeExitsHashFromClaims(claims).Bytes())
}

func fixedExit() *agglayertypes.BridgeExit {
	return &agglayertypes.BridgeExit{
		LeafType:           agglayertypes.LeafTypeAsset,
		TokenInfo:          &agglayertypes.TokenInfo{OriginNetwork: 3, OriginTokenAddress: common.HexToAddress("0x1111")},
		DestinationNetwork: 7,
		DestinationAddress: common.HexToAddress("0x2222"),
		Amount:             big.NewInt(12345),
	}
}

func consumers(m bool, r, l uint32) (wire, commit, gihash, prover []byte, err error) {
	ibe := &agglayertypes.ImportedBridgeExit{
		BridgeExit:  fixedExit(),
		GlobalIndex: &agglayertypes.GlobalIndex{MainnetFlag: m, RollupIndex: r, LeafIndex: l},
		ClaimData: &agglayertypes.ClaimFromMainnnet{
			ProofLeafMER:     &agglayertypes.MerkleProof{},
			ProofGERToL1Root: &agglayertypes.MerkleProof{},
			L1Leaf:           &agglayertypes.L1InfoTreeLeaf{Inner: &agglayertypes.L1InfoTreeLeafInner{}},
		},
	}
	p, err := agglayergrpc.VerifConvertToProtoImportedBridgeExit(ibe)
	if err != nil {
		return nil, nil, nil, nil, err
	}
	if p.GlobalIndex != nil { // a wire message without a global index is observed as an empty value
		wire = p.GlobalIndex.Value
	}
	commit = ibe.GlobalIndexToLittleEndianBytes()
	gihash = ibe.GlobalIndex.Hash().Bytes()
	req := &aggsendertypes.AggchainProofRequest{
		ImportedBridgeExitsWithBlockNumber: []*agglayertypes.ImportedBridgeExitWithBlockNumber{
			{BlockNumber: 1, ImportedBridgeExit: ibe},
		},
	}
	preq := aggchainproofclient.VerifConvertAggchainProofRequest(req)
	if gi := preq.ImportedBridgeExits[0].GlobalIndex; gi != nil {
		prover = gi.Value
	}
	return
}

func run(in In) (o Out) {
	o = Out{In: in}
	defer func() {
		if r := recover(); r != nil { // a consumer that panics on this value: observed as an error, outputs as far as they got
			o.Err = fmt.Sprint("panic: ", r)
		}
	}()
	switch in.Kind {
	case "batch":
		runBatch(in, &o)
	case "triple":
		enc := bridgesync.GenerateGlobalIndex(in.M, in.R, in.L)
		o.Enc = enc.String()
		m, r, l, err := bridgesync.DecodeGlobalIndex(enc)
		if err != nil {
			o.Err = err.Error()
		}
		o.Dec = Dec3{m, r, l}
		w, c, h, p, err := consumers(in.M, in.R, in.L)
		if err != nil {
			o.Err = err.Error()
		}
		o.Wire, o.Commit, o.GIHash, o.Prover = hlib.Hex(w), hlib.Hex(c), hlib.Hex(h), hlib.Hex(p)
	case "value":
		v := hlib.UnDec(in.V)
		m, r, l, err := bridgesync.DecodeGlobalIndex(v)
		if err != nil {
			o.Err = err.Error()
		}
		o.Dec = Dec3{m, r, l}
		o.Reenc = bridgesync.GenerateGlobalIndex(m, r, l).String()
		w, c, _, _, err := consumers(m, r, l)
		if err != nil {
			o.Err = err.Error()
		}
		o.Wire, o.Commit = hlib.Hex(w), hlib.Hex(c)
		o.OptLE = hlib.Hex(aggkitcommon.BigIntToLittleEndianBytes(v))
		ex := fixedExit()
		o.ExitHash = hlib.Hex(ex.Hash().Bytes())
		claim := bridgesync.Claim{
			GlobalIndex:        v,
			OriginNetwork:      ex.TokenInfo.OriginNetwork,
			OriginAddress:      ex.TokenInfo.OriginTokenAddress,
			DestinationNetwork: ex.DestinationNetwork,
			DestinationAddress: ex.DestinationAddress,
			Amount:             ex.Amount,
		}
		o.OptHash = hlib.Hex(optimistichash.CalculateCommitImportedBrdigeExitsHashFromClaims([]bridgesync.Claim{claim}).Bytes())
	}
	return o
}

func boundaryU32() []uint32 {
	return []uint32{0, 1, 2, 255, 256, 257, 65535, 65536, 1<<24 - 1, 1 << 24, 1<<31 - 1, 1 << 31, 1<<32 - 2, 1<<32 - 1}
}

func gen(f *hlib.Flags) []In {
	var ins []In
	// boundary triples exhaustively
	for _, m := range []bool{false, true} {
		for _, r := range boundaryU32() {
			for _, l := range boundaryU32() {
				ins = append(ins, In{Kind: "triple", M: m, R: r, L: l})
			}
		}
	}
	rng := hlib.NewRng(f.Seed)
	for i := 0; i < f.N; i++ {
		r, l := rng.U32(), rng.U32()
		if rng.Intn(4) == 0 { // few significant bytes: exercises the leading-zero byte lengths
			r >>= uint(rng.Intn(32))
		}
		if rng.Intn(4) == 0 {
			l >>= uint(rng.Intn(32))
		}
		ins = append(ins, In{Kind: "triple", M: rng.Bool(), R: r, L: l})
	}
	// batches: 2..6 claims with different global indexes in one certificate / prover request (per-claim buffers must not be shared)
	bs := boundaryU32()
	ins = append(ins, In{Kind: "batch", Ts: []Dec3{{true, 0, 7}, {false, 3, 9}, {false, 0, 0xffffffff}}})
	for i := 0; i < 20+f.N/100; i++ {
		n := 2 + rng.Intn(5)
		var ts []Dec3
		for j := 0; j < n; j++ {
			t := Dec3{M: rng.Bool(), R: rng.U32(), L: rng.U32()}
			if rng.Intn(3) == 0 {
				t.R = bs[rng.Intn(len(bs))]
			}
			if rng.Intn(3) == 0 {
				t.L = bs[rng.Intn(len(bs))]
			}
			ts = append(ts, t)
		}
		ins = append(ins, In{Kind: "batch", Ts: ts})
	}
	// on-chain values: canonical rollup (< 2^64), canonical mainnet (2^64 + l), and a separate non-canonical stream
	one := big.NewInt(1)
	p64 := new(big.Int).Lsh(one, 64)
	for k := 0; k <= 72; k++ { // every byte-length boundary 2^k-1, 2^k, 2^k+1
		for d := -1; d <= 1; d++ {
			v := new(big.Int).Lsh(one, uint(k))
			v.Add(v, big.NewInt(int64(d)))
			if v.Sign() >= 0 {
				ins = append(ins, In{Kind: "value", V: v.String()})
			}
		}
	}
	for i := 0; i < f.N/2; i++ {
		var v *big.Int
		switch rng.Intn(4) {
		case 0, 1:
			v = rng.Big(1 + rng.Intn(64))
		case 2:
			v = new(big.Int).Add(p64, rng.Big(1+rng.Intn(32)))
		default: // malformed / non-canonical stream
			v = rng.Big(65 + rng.Intn(191))
		}
		ins = append(ins, In{Kind: "value", V: v.String()})
	}
	return ins
}

func main() {
	f := hlib.ParseFlags()
	var ins []In
	if f.Replay != "" {
		for _, raw := range hlib.ReadJSONL(f.Replay) {
			var in In
			if err := json.Unmarshal(raw, &in); err != nil {
				panic(err)
			}
			ins = append(ins, in)
		}
	} else {
		ins = gen(f)
	}
	w := hlib.NewWriter(f.Out)
	defer w.Close()
	for _, in := range ins {
		w.Emit(run(in))
	}
}
