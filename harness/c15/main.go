// C15 harness: drives the REAL aggoracle tick (processLatestGER + handleGERProcessingError, through the hook
// AggOracle.VerifTick) against
//   - a scripted L1 client (answers HeaderByNumber(tag) from the schedule: finalized / safe / latest number, or an error),
//   - the REAL l1infotreesync processor store (SQLite, real GetLatestInfoUntilBlock through L1InfoTreeSync incl. translateError),
//     fed with the blocks of the scripted L1 history up to the tick's "last processed block"; a thin wrapper injects
//     transient failures,
//   - a recording ChainSender (set of GERs the L2 contract has; IsGERInjected / InjectGER with injectable failures).
//
// One case = one schedule; one observation per tick.
package main

import (
	"context"
	"encoding/json"
	"errors"
	"fmt"
	"math/big"
	"os"
	"path/filepath"
	"sort"
	"time"

	"github.com/agglayer/aggkit/aggoracle"
	"github.com/agglayer/aggkit/l1infotreesync"
	"github.com/agglayer/aggkit/log"
	"github.com/agglayer/aggkit/sync"
	aggkittypes "github.com/agglayer/aggkit/types"
	"github.com/ethereum/go-ethereum"
	"github.com/ethereum/go-ethereum/common"
	"github.com/ethereum/go-ethereum/core/types"

	"verifharness/hlib"
)

// ---------------------------------------------------------------------------------------------
// case format
// ---------------------------------------------------------------------------------------------

type Leaf struct {
	B   uint64 `json:"b"`   // L1 block of the UpdateL1InfoTree event
	Mer string `json:"mer"` // 32-byte hex
	Rer string `json:"rer"` // 32-byte hex; GER = keccak(mer ++ rer)
}

type Tick struct {
	Fin       uint64 `json:"fin"`    // number the L1 node answers for the tag "finalized" at this tick
	Safe      uint64 `json:"safe"`   // ... for "safe"
	Latest    uint64 `json:"latest"` // ... for "latest" / nil / "pending"
	L1Err     bool   `json:"l1_err,omitempty"`
	L1ErrOnce bool   `json:"l1_err_once,omitempty"` // only the FIRST request to the L1 client in this tick fails (a transient error)
	Lpb       uint64 `json:"lpb"`                   // last block the info-tree syncer has processed when the tick runs (non-decreasing)
	InfoErr   bool   `json:"info_err,omitempty"`
	L2Add     []int  `json:"l2_add,omitempty"` // indices of leaves whose GER somebody else put on L2 before this tick
	IsInjErr  bool   `json:"isinj_err,omitempty"`
	InjectErr bool   `json:"inject_err,omitempty"`
	Reorg     *Reorg `json:"reorg,omitempty"` // the L1 chain is reorganised BEFORE this tick (and the syncer follows the new fork up to Lpb)
}

// Reorg replaces the L1 history from block B on: the leaves of blocks >= B disappear, Leaves (blocks >= B) take their place.
// The leaves of all forks of a case form one pool: in.Leaves first, then the leaves of each reorg in tick order; l2_add
// indexes the pool and is kept only when the leaf is in the history that is canonical at that tick.
type Reorg struct {
	B      uint64 `json:"b"`
	Leaves []Leaf `json:"leaves,omitempty"`
}

type In struct {
	Kind     string `json:"kind"`     // generator stream (informative)
	Finality string `json:"finality"` // FinalizedBlock | SafeBlock | LatestBlock
	Leaves   []Leaf `json:"leaves"`   // L1 info tree history in L1 order (block non-decreasing, distinct GERs)
	L2Init   []int  `json:"l2_init,omitempty"`
	Ticks    []Tick `json:"ticks"`
}

type TickObs struct {
	Tags   []int64  `json:"tags"`          // block tags the oracle asked the L1 client for in this tick (nil = latest = -2)
	Inj    []string `json:"inj"`           // GERs successfully injected in this tick
	Att    []string `json:"att,omitempty"` // GERs whose injection was attempted and failed
	Err    string   `json:"err"`           // "" | l1 | notprocessed | notfound | noblock0 | info | isinj | inject | other
	Target uint64   `json:"target"`        // value of the loop variable blockNumToFetch after the tick
}

type Out struct {
	In   In       `json:"in"`
	Gers []string `json:"gers"` // GER of each leaf of the pool as GetGlobalExitRoot computes it
	// only for cases with a reorg: per tick, the pool indices (L1 order) of the leaves of the history canonical at that tick
	Hists [][]int   `json:"hists,omitempty"`
	Obs   []TickObs `json:"obs"`
	Err   string    `json:"err,omitempty"` // harness-level problem (unusable input)
}

// ---------------------------------------------------------------------------------------------
// scripted dependencies
// ---------------------------------------------------------------------------------------------

var (
	errL1     = errors.New("scripted: L1 node unavailable")
	errInfo   = errors.New("scripted: info tree syncer unavailable")
	errIsInj  = errors.New("scripted: L2 read failed")
	errInject = errors.New("scripted: L2 transaction failed")
)

type l1Client struct {
	cur  *Tick
	tags []int64
}

func (c *l1Client) HeaderByNumber(_ context.Context, number *big.Int) (*types.Header, error) {
	tag := int64(aggkittypes.Latest)
	if number != nil {
		tag = number.Int64()
	}
	c.tags = append(c.tags, tag)
	if c.cur.L1Err || (c.cur.L1ErrOnce && len(c.tags) == 1) {
		return nil, errL1
	}
	var n uint64
	switch {
	case tag == int64(aggkittypes.Finalized):
		n = c.cur.Fin
	case tag == int64(aggkittypes.Safe):
		n = c.cur.Safe
	case tag == int64(aggkittypes.Latest), tag == int64(aggkittypes.Pending):
		n = c.cur.Latest
	case tag >= 0: // explicit number (Earliest = 0)
		n = uint64(tag)
	default:
		return nil, fmt.Errorf("scripted: unknown tag %d", tag)
	}
	return &types.Header{Number: new(big.Int).SetUint64(n)}, nil
}
func (c *l1Client) BlockByHash(context.Context, common.Hash) (*types.Block, error) {
	return nil, errors.New("not scripted")
}
func (c *l1Client) BlockByNumber(context.Context, *big.Int) (*types.Block, error) {
	return nil, errors.New("not scripted")
}
func (c *l1Client) HeaderByHash(context.Context, common.Hash) (*types.Header, error) {
	return nil, errors.New("not scripted")
}
func (c *l1Client) TransactionCount(context.Context, common.Hash) (uint, error) {
	return 0, errors.New("not scripted")
}
func (c *l1Client) TransactionInBlock(context.Context, common.Hash, uint) (*types.Transaction, error) {
	return nil, errors.New("not scripted")
}
func (c *l1Client) SubscribeNewHead(context.Context, chan<- *types.Header) (ethereum.Subscription, error) {
	return nil, errors.New("not scripted")
}

// infoTree = the real L1InfoTreeSync (real processor + store) behind a fault-injecting wrapper.
type infoTree struct {
	real *l1infotreesync.L1InfoTreeSync
	cur  *Tick
}

func (i *infoTree) GetLatestInfoUntilBlock(ctx context.Context, blockNum uint64) (*l1infotreesync.L1InfoTreeLeaf, error) {
	if i.cur.InfoErr {
		return nil, errInfo
	}
	return i.real.GetLatestInfoUntilBlock(ctx, blockNum)
}

type sender struct {
	has map[common.Hash]bool
	cur *Tick
	inj []common.Hash
	att []common.Hash
}

func (s *sender) IsGERInjected(ger common.Hash) (bool, error) {
	if s.cur.IsInjErr {
		return false, errIsInj
	}
	return s.has[ger], nil
}
func (s *sender) InjectGER(_ context.Context, ger common.Hash) error {
	if s.cur.InjectErr {
		s.att = append(s.att, ger)
		return errInject
	}
	s.has[ger] = true
	s.inj = append(s.inj, ger)
	return nil
}

func errKind(err error) string {
	switch {
	case err == nil:
		return ""
	case errors.Is(err, errL1):
		return "l1"
	case errors.Is(err, l1infotreesync.ErrBlockNotProcessed):
		return "notprocessed"
	case errors.Is(err, l1infotreesync.ErrNotFound):
		return "notfound"
	case errors.Is(err, l1infotreesync.ErrNoBlock0):
		return "noblock0"
	case errors.Is(err, errInfo):
		return "info"
	case errors.Is(err, errIsInj):
		return "isinj"
	case errors.Is(err, errInject):
		return "inject"
	}
	return "other"
}

// ---------------------------------------------------------------------------------------------
// running one schedule
// ---------------------------------------------------------------------------------------------

func h32(s string) common.Hash { return common.BytesToHash(hlib.UnHex(s)) }

// sanitize makes any input a well-formed schedule (and the sanitized input is what is reported):
// leaves sorted by block, distinct (mer, rer), block >= 1; lpb non-decreasing; indices in range.
func sanitize(in In) In {
	switch in.Finality {
	case "FinalizedBlock", "SafeBlock", "LatestBlock":
	default:
		in.Finality = "FinalizedBlock"
	}
	seen := map[string]bool{}
	clean := func(raw []Leaf, minB uint64) []Leaf {
		var ls []Leaf
		for _, l := range raw {
			m, r := h32(l.Mer), h32(l.Rer)
			k := m.Hex() + r.Hex()
			if l.B == 0 || l.B < minB || seen[k] {
				continue
			}
			seen[k] = true
			ls = append(ls, Leaf{B: l.B, Mer: hlib.Hex(m[:]), Rer: hlib.Hex(r[:])})
		}
		sort.SliceStable(ls, func(i, j int) bool { return ls[i].B < ls[j].B })
		return ls
	}
	in.Leaves = clean(in.Leaves, 0)
	// canonical history as pool indices, updated along the ticks
	var blocks []uint64 // block of each pool leaf
	var hist []int
	for k, l := range in.Leaves {
		blocks = append(blocks, l.B)
		hist = append(hist, k)
	}
	keep := func(ix []int) []int {
		var o []int
		for _, k := range ix {
			for _, h := range hist {
				if h == k {
					o = append(o, k)
					break
				}
			}
		}
		return o
	}
	in.L2Init = keep(in.L2Init)
	var lpb uint64
	ts := make([]Tick, len(in.Ticks))
	for i, t := range in.Ticks {
		if t.Reorg != nil {
			if t.Reorg.B == 0 {
				t.Reorg.B = 1
			}
			r := &Reorg{B: t.Reorg.B, Leaves: clean(t.Reorg.Leaves, t.Reorg.B)}
			t.Reorg = r
			var nh []int
			for _, k := range hist {
				if blocks[k] < r.B {
					nh = append(nh, k)
				}
			}
			for _, l := range r.Leaves {
				nh = append(nh, len(blocks))
				blocks = append(blocks, l.B)
			}
			hist = nh
		}
		if t.Lpb < lpb {
			t.Lpb = lpb
		}
		lpb = t.Lpb
		t.L2Add = keep(t.L2Add)
		ts[i] = t
	}
	in.Ticks = ts
	return in
}

var tmpRoot string
var caseNo int

func run(in In) (out Out) {
	in = sanitize(in)
	out = Out{In: in, Gers: []string{}, Obs: []TickObs{}}
	ctx := context.Background()
	caseNo++
	dbPath := filepath.Join(tmpRoot, fmt.Sprintf("c15_%d.sqlite", caseNo))
	real, err := l1infotreesync.NewVerifC15Sync(dbPath)
	if err != nil {
		out.Err = "store: " + err.Error()
		return
	}
	defer func() {
		real.VerifC15Close()
		for _, sfx := range []string{"", "-wal", "-shm"} {
			os.Remove(dbPath + sfx)
		}
	}()

	// the pool of leaves of all forks; hist = the canonical history (pool indices in L1 order)
	pool := append([]Leaf{}, in.Leaves...)
	hasReorg := false
	for _, t := range in.Ticks {
		if t.Reorg != nil {
			hasReorg = true
			pool = append(pool, t.Reorg.Leaves...)
		}
	}
	var hist []int
	for k := range in.Leaves {
		hist = append(hist, k)
	}
	poolNext := len(in.Leaves) // next pool index a reorg will introduce
	gers := make([]common.Hash, len(pool))
	for i, l := range pool {
		lf := l1infotreesync.L1InfoTreeLeaf{MainnetExitRoot: h32(l.Mer), RollupExitRoot: h32(l.Rer)}
		gers[i] = lf.GetGlobalExitRoot()
		out.Gers = append(out.Gers, hlib.Hex(gers[i][:]))
	}

	cur := &Tick{}
	l1 := &l1Client{cur: cur}
	info := &infoTree{real: real, cur: cur}
	snd := &sender{has: map[common.Hash]bool{}, cur: cur}
	for _, k := range in.L2Init {
		snd.has[gers[k]] = true
	}
	oracle, err := aggoracle.New(log.GetDefaultLogger(), snd, l1, info,
		aggkittypes.NewBlockNumberFinality(in.Finality), time.Hour)
	if err != nil {
		out.Err = "oracle: " + err.Error()
		return
	}

	var target uint64 // the loop variable `blockNumToFetch` of Start
	var lpb uint64    // what the store has been fed so far
	next := 0         // position in hist of the next leaf to feed
	feed := func(num uint64, evs []interface{}) error {
		return real.VerifC15ProcessBlock(ctx, sync.Block{Num: num, Hash: common.BigToHash(new(big.Int).SetUint64(num)), Events: evs})
	}
	leafAt := func(pos int) Leaf { return pool[hist[pos]] }
	for _, t := range in.Ticks {
		if r := t.Reorg; r != nil {
			// the L1 chain is reorganised from block r.B on: the real processor drops what it had from there (when it had got
			// that far), the canonical history loses its leaves >= r.B and gains the ones of the new fork
			if lpb >= r.B {
				if err := l1infotreesync.VerifC14Reorg(ctx, real, r.B); err != nil {
					out.Err = "reorg: " + err.Error()
					return
				}
			}
			var nh []int
			fed := 0
			for pos, k := range hist {
				if pool[k].B < r.B {
					nh = append(nh, k)
					if pos < next {
						fed++
					}
				}
			}
			for range r.Leaves {
				nh = append(nh, poolNext)
				poolNext++
			}
			hist, next = nh, fed
			if lpb >= r.B {
				lpb = r.B - 1 // every block >= r.B is gone; the tick's Lpb (>= the old one) is fed again below
			}
		}
		if hasReorg {
			out.Hists = append(out.Hists, append([]int{}, hist...))
		}
		// the syncer advances to t.Lpb: every leaf-bearing block <= t.Lpb, then block t.Lpb itself
		for next < len(hist) && leafAt(next).B <= t.Lpb {
			b := leafAt(next).B
			var evs []interface{}
			for pos := uint64(0); next < len(hist) && leafAt(next).B == b; pos, next = pos+1, next+1 {
				evs = append(evs, l1infotreesync.Event{UpdateL1InfoTree: &l1infotreesync.UpdateL1InfoTree{
					BlockPosition: pos, MainnetExitRoot: h32(leafAt(next).Mer), RollupExitRoot: h32(leafAt(next).Rer),
					ParentHash: common.BigToHash(new(big.Int).SetUint64(b - 1)), Timestamp: 1000 + b,
				}})
			}
			if err := feed(b, evs); err != nil {
				out.Err = "feed: " + err.Error()
				return
			}
			lpb = b
		}
		if t.Lpb > lpb {
			if err := feed(t.Lpb, nil); err != nil {
				out.Err = "feed: " + err.Error()
				return
			}
			lpb = t.Lpb
		}
		*cur = t
		for _, k := range t.L2Add {
			snd.has[gers[k]] = true
		}
		l1.tags, snd.inj, snd.att = nil, nil, nil

		err := oracle.VerifTick(ctx, &target)

		o := TickObs{Tags: []int64{}, Inj: []string{}, Err: errKind(err), Target: target}
		o.Tags = append(o.Tags, l1.tags...)
		for _, g := range snd.inj {
			o.Inj = append(o.Inj, hlib.Hex(g[:]))
		}
		for _, g := range snd.att {
			o.Att = append(o.Att, hlib.Hex(g[:]))
		}
		out.Obs = append(out.Obs, o)
	}
	return
}

// ---------------------------------------------------------------------------------------------
// generation
// ---------------------------------------------------------------------------------------------

func rh(rng *hlib.Rng) string { return hlib.Hex(rng.Bytes(32)) }

// lagCase: finalized block advances by `step` every tick; the syncer is exactly k ticks behind
// (lpb(t) = fin(t-k)), so it reaches every sampled block k ticks later; a fresh root at every finalized block
// (every `every`-th one when every > 1); no errors.
func lagCase(rng *hlib.Rng, k, step, n, every int, f0 uint64) In {
	in := In{Kind: "lag", Finality: "FinalizedBlock"}
	fin := func(t int) uint64 {
		v := int64(f0) + int64(t)*int64(step)
		if v < 0 {
			return 0
		}
		return uint64(v)
	}
	for t := -k; t < n; t++ {
		if b := fin(t); b >= 1 && (t+k)%every == 0 {
			in.Leaves = append(in.Leaves, Leaf{B: b, Mer: rh(rng), Rer: rh(rng)})
		}
	}
	for t := 0; t < n; t++ {
		in.Ticks = append(in.Ticks, Tick{Fin: fin(t), Safe: fin(t) + 2, Latest: fin(t) + 5, Lpb: fin(t - k)})
	}
	return in
}

func randomCase(rng *hlib.Rng, errs bool) In {
	in := In{Kind: "random", Finality: hlib.Pick(rng, "FinalizedBlock", "FinalizedBlock", "FinalizedBlock", "SafeBlock", "LatestBlock")}
	if errs {
		in.Kind = "random_err"
	}
	nl := rng.Intn(9)
	b := uint64(1 + rng.Intn(4))
	for i := 0; i < nl; i++ {
		in.Leaves = append(in.Leaves, Leaf{B: b, Mer: rh(rng), Rer: rh(rng)})
		b += uint64(rng.Intn(4)) // 0 => two leaves in one block
	}
	for i := 0; i < nl; i++ {
		if rng.Intn(6) == 0 {
			in.L2Init = append(in.L2Init, i)
		}
	}
	n := 1 + rng.Intn(10)
	fin := uint64(rng.Intn(4))
	lpb := uint64(rng.Intn(4))
	mode := rng.Intn(3) // 0: syncer tends to lag, 1: tends to be ahead, 2: mixed
	for t := 0; t < n; t++ {
		tk := Tick{Fin: fin, Safe: fin + uint64(rng.Intn(3)), Lpb: lpb}
		tk.Latest = tk.Safe + uint64(rng.Intn(4))
		if errs {
			tk.L1Err = rng.Intn(8) == 0
			if tk.L1Err && t%2 == 1 { // every second failing tick: only the first request fails (no extra random draw)
				tk.L1Err, tk.L1ErrOnce = false, true
			}
			tk.InfoErr = rng.Intn(8) == 0
			tk.IsInjErr = rng.Intn(10) == 0
			tk.InjectErr = rng.Intn(8) == 0
		}
		if nl > 0 && rng.Intn(8) == 0 {
			tk.L2Add = []int{rng.Intn(nl)}
		}
		in.Ticks = append(in.Ticks, tk)
		fin += uint64(rng.Intn(4))
		switch mode {
		case 0:
			lpb += uint64(rng.Intn(3))
		case 1:
			lpb = maxU(lpb, fin+uint64(rng.Intn(6)))
		default:
			lpb += uint64(rng.Intn(6))
		}
	}
	return in
}

func maxU(a, b uint64) uint64 {
	if a > b {
		return a
	}
	return b
}

func boundary(rng *hlib.Rng) []In {
	var ins []In
	one := func(b uint64) []Leaf { return []Leaf{{B: b, Mer: rh(rng), Rer: rh(rng)}} }
	// nothing at all / no ticks
	ins = append(ins, In{Kind: "boundary", Finality: "FinalizedBlock"})
	// finalized block 0 (ErrNoBlock0), then 1
	ins = append(ins, In{Kind: "boundary", Finality: "FinalizedBlock", Leaves: one(1),
		Ticks: []Tick{{Fin: 0, Safe: 1, Latest: 2, Lpb: 3}, {Fin: 1, Safe: 1, Latest: 2, Lpb: 3}, {Fin: 1, Safe: 1, Latest: 2, Lpb: 3}}})
	// no root at or below the finalized block (not found), root appears later
	ins = append(ins, In{Kind: "boundary", Finality: "FinalizedBlock", Leaves: one(5),
		Ticks: []Tick{{Fin: 3, Safe: 6, Latest: 7, Lpb: 7}, {Fin: 4, Safe: 6, Latest: 7, Lpb: 7}, {Fin: 5, Safe: 6, Latest: 7, Lpb: 7}, {Fin: 6, Safe: 6, Latest: 7, Lpb: 7}}})
	// syncer behind a sampled block that holds no root yet: target is reached, nothing found, later sample succeeds
	ins = append(ins, In{Kind: "boundary", Finality: "FinalizedBlock", Leaves: one(6),
		Ticks: []Tick{{Fin: 4, Safe: 6, Latest: 7, Lpb: 2}, {Fin: 5, Safe: 6, Latest: 7, Lpb: 4}, {Fin: 6, Safe: 6, Latest: 7, Lpb: 5}, {Fin: 7, Safe: 8, Latest: 9, Lpb: 6},
			{Fin: 7, Safe: 8, Latest: 9, Lpb: 7}, {Fin: 8, Safe: 8, Latest: 9, Lpb: 9}}})
	// syncer far ahead, roots beyond the finalized block must not be injected
	two := []Leaf{{B: 2, Mer: rh(rng), Rer: rh(rng)}, {B: 4, Mer: rh(rng), Rer: rh(rng)}, {B: 4, Mer: rh(rng), Rer: rh(rng)}, {B: 9, Mer: rh(rng), Rer: rh(rng)}}
	for _, f := range []string{"FinalizedBlock", "SafeBlock", "LatestBlock"} {
		ins = append(ins, In{Kind: "boundary", Finality: f, Leaves: two,
			Ticks: []Tick{{Fin: 3, Safe: 4, Latest: 9, Lpb: 20}, {Fin: 3, Safe: 4, Latest: 9, Lpb: 20}, {Fin: 4, Safe: 8, Latest: 10, Lpb: 20}, {Fin: 8, Safe: 9, Latest: 10, Lpb: 20}, {Fin: 9, Safe: 9, Latest: 10, Lpb: 20}}})
	}
	// root already on L2; somebody else injects it meanwhile
	ins = append(ins, In{Kind: "boundary", Finality: "FinalizedBlock", Leaves: two, L2Init: []int{0},
		Ticks: []Tick{{Fin: 3, Safe: 4, Latest: 9, Lpb: 20}, {Fin: 4, Safe: 4, Latest: 9, Lpb: 20, L2Add: []int{2}}, {Fin: 9, Safe: 9, Latest: 9, Lpb: 20}}})
	// each dependency failing once, then recovering
	ins = append(ins, In{Kind: "boundary", Finality: "FinalizedBlock", Leaves: two,
		Ticks: []Tick{{Fin: 3, Safe: 4, Latest: 9, Lpb: 20, L1Err: true}, {Fin: 3, Safe: 4, Latest: 9, Lpb: 20, InfoErr: true},
			{Fin: 3, Safe: 4, Latest: 9, Lpb: 20, IsInjErr: true}, {Fin: 3, Safe: 4, Latest: 9, Lpb: 20, InjectErr: true}, {Fin: 3, Safe: 4, Latest: 9, Lpb: 20}}})
	// a transient L1 error on the request by finality tag only, while unfinalized roots exist above the finalized block and the
	// syncer is ahead: nothing may be injected in that tick
	for _, f := range []string{"FinalizedBlock", "SafeBlock"} {
		ins = append(ins, In{Kind: "boundary", Finality: f, Leaves: two,
			Ticks: []Tick{{Fin: 3, Safe: 4, Latest: 9, Lpb: 20, L1ErrOnce: true}, {Fin: 3, Safe: 4, Latest: 9, Lpb: 20}, {Fin: 4, Safe: 4, Latest: 10, Lpb: 20, L1ErrOnce: true},
				{Fin: 9, Safe: 9, Latest: 10, Lpb: 20}}})
	}
	// an injection fails, and before the next tick the root is on L2 after all (the failed transaction was mined in the end, or
	// somebody else injected it): the oracle must look again before it injects; then the retry of a failure that left nothing behind
	ins = append(ins, In{Kind: "boundary", Finality: "FinalizedBlock", Leaves: two,
		Ticks: []Tick{{Fin: 3, Safe: 4, Latest: 9, Lpb: 20, InjectErr: true}, {Fin: 3, Safe: 4, Latest: 9, Lpb: 20, L2Add: []int{0}},
			{Fin: 4, Safe: 4, Latest: 9, Lpb: 20, InjectErr: true}, {Fin: 4, Safe: 4, Latest: 9, Lpb: 20}, {Fin: 9, Safe: 9, Latest: 9, Lpb: 20}}})
	// failures while the syncer lags
	ins = append(ins, In{Kind: "boundary", Finality: "FinalizedBlock", Leaves: two,
		Ticks: []Tick{{Fin: 4, Safe: 4, Latest: 9, Lpb: 2}, {Fin: 9, Safe: 9, Latest: 9, Lpb: 3, InfoErr: true}, {Fin: 9, Safe: 9, Latest: 9, Lpb: 3, L1Err: true},
			{Fin: 9, Safe: 9, Latest: 9, Lpb: 4, InjectErr: true}, {Fin: 9, Safe: 9, Latest: 9, Lpb: 4}, {Fin: 9, Safe: 9, Latest: 9, Lpb: 9}}})
	// large block numbers (uint64 range is not an issue for the comparison, but keep the boundary)
	big1 := uint64(1) << 40
	ins = append(ins, In{Kind: "boundary", Finality: "FinalizedBlock", Leaves: one(big1),
		Ticks: []Tick{{Fin: big1, Safe: big1, Latest: big1, Lpb: big1 - 1}, {Fin: big1 + 1, Safe: big1 + 1, Latest: big1 + 1, Lpb: big1}, {Fin: big1 + 2, Safe: big1 + 2, Latest: big1 + 2, Lpb: big1 + 1}}})
	return ins
}

// exhaustive small scope: roots in blocks 1, 2, 3; three ticks; every finalized block in 1..3 and every
// non-decreasing syncer position in 0..3 per tick (540 schedules), no failures.
func exhaustive(rng *hlib.Rng) []In {
	leaves := []Leaf{{B: 1, Mer: rh(rng), Rer: rh(rng)}, {B: 2, Mer: rh(rng), Rer: rh(rng)}, {B: 3, Mer: rh(rng), Rer: rh(rng)}}
	var ins []In
	for f0 := uint64(1); f0 <= 3; f0++ {
		for f1 := uint64(1); f1 <= 3; f1++ {
			for f2 := uint64(1); f2 <= 3; f2++ {
				for l0 := uint64(0); l0 <= 3; l0++ {
					for l1 := l0; l1 <= 3; l1++ {
						for l2 := l1; l2 <= 3; l2++ {
							ins = append(ins, In{Kind: "exhaustive", Finality: "FinalizedBlock", Leaves: leaves, Ticks: []Tick{
								{Fin: f0, Safe: f0, Latest: 3, Lpb: l0}, {Fin: f1, Safe: f1, Latest: 3, Lpb: l1}, {Fin: f2, Safe: f2, Latest: 3, Lpb: l2}}})
						}
					}
				}
			}
		}
	}
	return ins
}

// reorgBoundary: directed histories with an L1 reorg between two ticks.
func reorgBoundary(rng *hlib.Rng) []In {
	var ins []In
	lf := func(b uint64) Leaf { return Leaf{B: b, Mer: rh(rng), Rer: rh(rng)} }
	for _, f := range []string{"FinalizedBlock", "SafeBlock", "LatestBlock"} {
		// the syncer is ahead of the sampled block and holds a root (block 7) that is then reorganised away, the reorg starting
		// exactly at that block; the new fork has no root up to the blocks sampled afterwards, then one at 12
		ins = append(ins, In{Kind: "reorg", Finality: f, Leaves: []Leaf{lf(2), lf(5), lf(7)},
			Ticks: []Tick{{Fin: 5, Safe: 5, Latest: 5, Lpb: 7}, {Fin: 8, Safe: 8, Latest: 8, Lpb: 9, Reorg: &Reorg{B: 7}},
				{Fin: 9, Safe: 9, Latest: 9, Lpb: 9}, {Fin: 12, Safe: 12, Latest: 12, Lpb: 12, Reorg: &Reorg{B: 10, Leaves: []Leaf{lf(12)}}}}})
		// same, the reorg starting below / above the newest root's block
		ins = append(ins, In{Kind: "reorg", Finality: f, Leaves: []Leaf{lf(2), lf(5), lf(7)},
			Ticks: []Tick{{Fin: 5, Safe: 5, Latest: 5, Lpb: 7}, {Fin: 8, Safe: 8, Latest: 8, Lpb: 9, Reorg: &Reorg{B: 6}},
				{Fin: 9, Safe: 9, Latest: 9, Lpb: 9}}})
		ins = append(ins, In{Kind: "reorg", Finality: f, Leaves: []Leaf{lf(2), lf(5), lf(7)},
			Ticks: []Tick{{Fin: 5, Safe: 5, Latest: 5, Lpb: 7}, {Fin: 8, Safe: 8, Latest: 8, Lpb: 9, Reorg: &Reorg{B: 8, Leaves: []Leaf{lf(8)}}},
				{Fin: 9, Safe: 9, Latest: 9, Lpb: 9}}})
		// the sampled block itself is reorganised away while the oracle waits for the syncer: the new fork's root is the answer
		ins = append(ins, In{Kind: "reorg", Finality: f, Leaves: []Leaf{lf(2), lf(6)},
			Ticks: []Tick{{Fin: 6, Safe: 6, Latest: 6, Lpb: 3}, {Fin: 6, Safe: 6, Latest: 6, Lpb: 4, Reorg: &Reorg{B: 5, Leaves: []Leaf{lf(5), lf(6)}}},
				{Fin: 7, Safe: 7, Latest: 7, Lpb: 6}, {Fin: 7, Safe: 7, Latest: 7, Lpb: 8}}})
		// the injection of the newest root fails, then its block is reorganised away (nothing of the dead fork may be retried)
		ins = append(ins, In{Kind: "reorg", Finality: f, Leaves: []Leaf{lf(3), lf(4)},
			Ticks: []Tick{{Fin: 4, Safe: 4, Latest: 4, Lpb: 4, InjectErr: true}, {Fin: 4, Safe: 4, Latest: 4, Lpb: 4, Reorg: &Reorg{B: 4}},
				{Fin: 6, Safe: 6, Latest: 6, Lpb: 6, Reorg: &Reorg{B: 1, Leaves: []Leaf{lf(1), lf(1)}}}, {Fin: 6, Safe: 6, Latest: 6, Lpb: 6}}})
	}
	return ins
}

// reorgCase: a random schedule with one to three reorgs; most of them start at the block of a root the syncer holds
// (half of those: the newest one), the others anywhere.
func reorgCase(rng *hlib.Rng) In {
	in := randomCase(rng, rng.Intn(3) == 0)
	in.Kind = "reorg"
	cur := append([]Leaf{}, in.Leaves...) // canonical history while generating
	nr := 1 + rng.Intn(3)
	for r := 0; r < nr && len(in.Ticks) > 0; r++ {
		ti := rng.Intn(len(in.Ticks))
		if in.Ticks[ti].Reorg != nil {
			continue
		}
		lpbBefore := uint64(0)
		if ti > 0 {
			lpbBefore = in.Ticks[ti-1].Lpb
		}
		var held []Leaf
		for _, l := range cur {
			if l.B <= lpbBefore {
				held = append(held, l)
			}
		}
		var b uint64
		switch {
		case len(held) > 0 && rng.Intn(4) != 0:
			if rng.Bool() {
				b = held[len(held)-1].B
			} else {
				b = held[rng.Intn(len(held))].B
			}
		default:
			b = uint64(1 + rng.Intn(int(lpbBefore)+4))
		}
		re := &Reorg{B: b}
		nb := b + uint64(rng.Intn(4))
		for k := rng.Intn(4); k > 0; k-- {
			re.Leaves = append(re.Leaves, Leaf{B: nb, Mer: rh(rng), Rer: rh(rng)})
			nb += uint64(rng.Intn(4))
		}
		in.Ticks[ti].Reorg = re
		var nc []Leaf
		for _, l := range cur {
			if l.B < b {
				nc = append(nc, l)
			}
		}
		cur = append(nc, re.Leaves...)
	}
	return in
}

func gen(f *hlib.Flags) []In {
	rng := hlib.NewRng(f.Seed)
	ins := boundary(rng)
	// lag schedules: syncer exactly k ticks behind a finalized block that advances every tick
	for k := 1; k <= 4; k++ {
		for step := 1; step <= 2; step++ {
			ins = append(ins, lagCase(rng, k, step, 2*k+4, 1, uint64(1+k*step)))
		}
	}
	if f.Tier == "thorough" {
		ins = append(ins, exhaustive(rng)...)
	}
	n := f.N
	for i := 0; i < n; i++ {
		switch i % 4 {
		case 0:
			k := 1 + rng.Intn(5)
			ins = append(ins, lagCase(rng, k, 1+rng.Intn(3), k+2+rng.Intn(8), 1+rng.Intn(3), uint64(rng.Intn(12))))
		case 1:
			ins = append(ins, randomCase(rng, false))
		default:
			ins = append(ins, randomCase(rng, true))
		}
	}
	// L1 reorgs between ticks: a stream of its own (own generator state: the schedules above do not move)
	rrng := hlib.NewRng(f.Seed ^ 0xC15C15)
	ins = append(ins, reorgBoundary(rrng)...)
	for i := 0; i < n/3; i++ {
		ins = append(ins, reorgCase(rrng))
	}
	return ins
}

func main() {
	f := hlib.ParseFlags()
	log.Init(log.Config{Environment: log.EnvironmentProduction, Level: "fatal", Outputs: []string{"stderr"}})
	var err error
	tmpRoot, err = os.MkdirTemp("", "verif_c15_")
	if err != nil {
		panic(err)
	}
	defer os.RemoveAll(tmpRoot)
	var ins []In
	if f.Replay != "" {
		for _, raw := range hlib.ReadJSONL(f.Replay) {
			var in In
			if err := json.Unmarshal(raw, &in); err != nil {
				panic(err)
			}
			ins = append(ins, in)
		}
	} else {
		ins = gen(f)
	}
	w := hlib.NewWriter(f.Out)
	for _, in := range ins {
		w.Emit(run(in))
	}
	w.Close()
}
