// C17 harness: drives the REAL CertificateBuildParams.Range / EstimatedSize / NumberOfBlocks,
// baseFlow.limitCertSize (through the verif hook), MaxL2BlockNumberLimiter.AdaptCertificate and
// the real baseFlow.GetCertificateBuildParamsInternal (kind "flow": the cut as the flows observe it), BlockRange.Gap / CountBlocks /
// IsEmpty on generated inputs and prints one JSON object per case.
package main

import (
	"context"
	"encoding/json"
	"errors"
	"fmt"
	"math/big"
	"sort"
	"strings"
	"time"

	agglayertypes "github.com/agglayer/aggkit/agglayer/types"
	aggsenderdb "github.com/agglayer/aggkit/aggsender/db"
	"github.com/agglayer/aggkit/aggsender/flows"
	aggsendertypes "github.com/agglayer/aggkit/aggsender/types"
	"github.com/agglayer/aggkit/bridgesync"

	"verifharness/hlib"
)

// Ev is one bridge or claim: block number, metadata length, identity tag
// (Bridge.DepositCount / Claim.GlobalIndex) so that drops, duplicates and reorderings are observable.
type Ev struct {
	B  uint64 `json:"b"`
	M  int    `json:"m"`
	ID uint32 `json:"id"`
}

type Params struct {
	From    uint64 `json:"from"`
	To      uint64 `json:"to"`
	Bridges []Ev   `json:"bridges"`
	Claims  []Ev   `json:"claims"`
	Retry   int    `json:"retry"`    // RetryCount
	HasLast bool   `json:"has_last"` // LastSentCertificate != nil
	Type    uint8  `json:"type"`     // CertificateType: 0 unknown, 1 pp, 2 fep, 3 optimistic
}

type In struct {
	Kind    string    `json:"kind"` // "range" | "limit" | "flow" | "adapt" | "gap"
	C       *Params   `json:"c,omitempty"`
	F       uint64    `json:"f"`       // range: fromBlock
	T       uint64    `json:"t"`       // range: toBlock
	Max     uint64    `json:"max"`     // limit: MaxCertSize; adapt: maxL2BlockNumber
	Allow   bool      `json:"allow"`   // adapt: allowToResizeRetryCert
	Require bool      `json:"require"` // adapt: requireOneBridgeInCertificate
	A       [2]uint64 `json:"a"`       // gap: receiver (from, to)
	B       [2]uint64 `json:"b"`       // gap: other (from, to)
	Note    string    `json:"note,omitempty"`
}

// POut is what is observed of a *CertificateBuildParams returned by the real code.
type POut struct {
	Params
	Size    uint64 `json:"size"`    // EstimatedSize()
	NBlocks int64  `json:"nblocks"` // NumberOfBlocks()
	NB      int    `json:"nb"`      // NumberOfBridges()
	NC      int    `json:"nc"`      // NumberOfClaims()
	Empty   bool   `json:"empty"`   // IsEmpty()
	IsRetry bool   `json:"is_retry"`
}

type Out struct {
	In       In        `json:"in"`
	Res      *POut     `json:"res,omitempty"` // nil: the call returned a nil pointer
	Err      string    `json:"err"`           // "" or a small enum
	InSize   uint64    `json:"in_size"`       // EstimatedSize() of the input
	InBlocks int64     `json:"in_nblocks"`    // NumberOfBlocks() of the input
	Sizes    []uint64  `json:"sizes"`         // limit: EstimatedSize of the harness-built prefix [from..from+i], i = 0..to-from
	Gap      [2]uint64 `json:"gap"`
	GapCount uint64    `json:"gap_count"` // CountBlocks() of the gap
	GapEmpty bool      `json:"gap_empty"` // IsEmpty() of the gap
}

type nolog struct{}

func (nolog) Panicf(string, ...interface{}) {}
func (nolog) Fatalf(string, ...interface{}) {}
func (nolog) Info(...interface{})           {}
func (nolog) Infof(string, ...interface{})  {}
func (nolog) Error(...interface{})          {}
func (nolog) Errorf(string, ...interface{}) {}
func (nolog) Warn(...interface{})           {}
func (nolog) Warnf(string, ...interface{})  {}
func (nolog) Debug(...interface{})          {}
func (nolog) Debugf(string, ...interface{}) {}

func build(p *Params) *aggsendertypes.CertificateBuildParams {
	if p == nil {
		return nil
	}
	c := &aggsendertypes.CertificateBuildParams{
		FromBlock:       p.From,
		ToBlock:         p.To,
		RetryCount:      p.Retry,
		CertificateType: aggsendertypes.CertificateType(p.Type),
		CreatedAt:       7,
	}
	if p.HasLast {
		c.LastSentCertificate = &aggsendertypes.CertificateHeader{Height: 3}
	}
	for _, e := range p.Bridges {
		c.Bridges = append(c.Bridges, bridgesync.Bridge{BlockNum: e.B, Metadata: make([]byte, e.M), DepositCount: e.ID,
			Amount: big.NewInt(1)})
	}
	for _, e := range p.Claims {
		c.Claims = append(c.Claims, bridgesync.Claim{BlockNum: e.B, Metadata: make([]byte, e.M),
			GlobalIndex: new(big.Int).SetUint64(uint64(e.ID)), Amount: big.NewInt(1)})
	}
	return c
}

func observe(c *aggsendertypes.CertificateBuildParams) *POut {
	if c == nil {
		return nil
	}
	o := &POut{Params: Params{From: c.FromBlock, To: c.ToBlock, Retry: c.RetryCount,
		HasLast: c.LastSentCertificate != nil, Type: uint8(c.CertificateType), Bridges: []Ev{}, Claims: []Ev{}}}
	for _, b := range c.Bridges {
		o.Bridges = append(o.Bridges, Ev{B: b.BlockNum, M: len(b.Metadata), ID: b.DepositCount})
	}
	for _, cl := range c.Claims {
		id := uint32(0)
		if cl.GlobalIndex != nil {
			id = uint32(cl.GlobalIndex.Uint64())
		}
		o.Claims = append(o.Claims, Ev{B: cl.BlockNum, M: len(cl.Metadata), ID: id})
	}
	o.Size = uint64(c.EstimatedSize())
	o.NBlocks = int64(c.NumberOfBlocks())
	o.NB, o.NC, o.Empty, o.IsRetry = c.NumberOfBridges(), c.NumberOfClaims(), c.IsEmpty(), c.IsARetry()
	return o
}

// errEnum maps the errors of the functions under test to a small enum.
func errEnum(err error) string {
	if err == nil {
		return ""
	}
	msg := err.Error()
	switch {
	case errors.Is(err, flows.ErrBuildParamsIsNil):
		return "nil"
	case errors.Is(err, flows.ErrMaxL2BlockNumberExceededInARetryCert):
		return "retry_exceeded"
	case errors.Is(err, flows.ErrComplete) && strings.Contains(msg, "just the upcoming next range"):
		return "complete_upcoming"
	case errors.Is(err, flows.ErrComplete) && strings.Contains(msg, "Cert has exceeded the maximum block"):
		return "complete_far"
	case errors.Is(err, flows.ErrComplete):
		return "complete_nothing"
	case strings.Contains(msg, "has no bridges but have"):
		return "no_bridges_but_claims"
	case strings.Contains(msg, "are not within"):
		return "not_within"
	case strings.Contains(msg, "is greater than toBlock"):
		return "from_gt_to"
	}
	return "other:" + msg
}

// prefix builds, with the harness's own filter (not the repo's Range), the certificate restricted to [from, t].
func prefix(p *Params, t uint64) *Params {
	q := *p
	q.To = t
	q.Bridges, q.Claims = nil, nil
	for _, e := range p.Bridges {
		if e.B >= p.From && e.B <= t {
			q.Bridges = append(q.Bridges, e)
		}
	}
	for _, e := range p.Claims {
		if e.B >= p.From && e.B <= t {
			q.Claims = append(q.Claims, e)
		}
	}
	return &q
}

func prefixSizes(p *Params) []uint64 {
	sizes := []uint64{}
	if p == nil || p.To < p.From || p.To-p.From > 64 {
		return sizes
	}
	for t := p.From; ; t++ {
		sizes = append(sizes, uint64(build(prefix(p, t)).EstimatedSize()))
		if t == p.To {
			break
		}
	}
	return sizes
}

// run executes one case under a watchdog: a function that does not return within caseTimeout (the unchanged code needs
// microseconds) is observed as the error "timeout" (its goroutine is abandoned).
const caseTimeout = 10 * time.Second

func run(in In) Out {
	done := make(chan Out, 1)
	go func() { done <- runCase(in) }()
	select {
	case o := <-done:
		return o
	case <-time.After(caseTimeout):
		return Out{In: in, Sizes: []uint64{}, Err: "timeout"}
	}
}

func runCase(in In) (o Out) {
	o = Out{In: in, Sizes: []uint64{}}
	defer func() {
		if r := recover(); r != nil {
			o.Err = "panic"
		}
	}()
	switch in.Kind {
	case "range":
		c := build(in.C)
		o.InSize, o.InBlocks = uint64(c.EstimatedSize()), int64(c.NumberOfBlocks())
		r, err := c.Range(in.F, in.T)
		o.Res, o.Err = observe(r), errEnum(err)
	case "limit":
		c := build(in.C)
		o.InSize, o.InBlocks = uint64(c.EstimatedSize()), int64(c.NumberOfBlocks())
		o.Sizes = prefixSizes(in.C)
		r, err := flows.VerifLimitCertSize(uint(in.Max), nolog{}, c)
		o.Res, o.Err = observe(r), errEnum(err)
	case "flow":
		// the same cut, observed where the flows use it: the real GetCertificateBuildParamsInternal of a real base flow whose
		// storage and L2 bridge syncer are stubs that make it build exactly the certificate in.C (first block, retry count,
		// last sent certificate, type, events) before it cuts
		c := build(in.C)
		o.InSize, o.InBlocks = uint64(c.EstimatedSize()), int64(c.NumberOfBlocks())
		o.Sizes = prefixSizes(in.C)
		r, err := runFlow(in, c)
		o.Res, o.Err = observe(r), errEnum(err)
	case "adapt":
		c := build(in.C)
		o.InSize, o.InBlocks = uint64(c.EstimatedSize()), int64(c.NumberOfBlocks())
		l := flows.NewMaxL2BlockNumberLimiter(in.Max, nolog{}, in.Allow, in.Require)
		r, err := l.AdaptCertificate(c)
		o.Res, o.Err = observe(r), errEnum(err)
	case "gap":
		a := aggsendertypes.NewBlockRange(in.A[0], in.A[1])
		b := aggsendertypes.NewBlockRange(in.B[0], in.B[1])
		g := a.Gap(b)
		o.Gap = [2]uint64{g.FromBlock, g.ToBlock}
		o.GapCount, o.GapEmpty = g.CountBlocks(), g.IsEmpty()
	}
	return o
}

// stubs behind the real base flow (only the methods GetCertificateBuildParamsInternal calls are implemented)
type flowStorage struct {
	aggsenderdb.AggSenderStorage
	hdr *aggsendertypes.CertificateHeader
}

func (s flowStorage) GetLastSentCertificateHeader() (*aggsendertypes.CertificateHeader, error) {
	return s.hdr, nil
}

type flowBridge struct {
	aggsendertypes.BridgeQuerier
	c *aggsendertypes.CertificateBuildParams
}

func (b flowBridge) GetLastProcessedBlock(context.Context) (uint64, error) { return b.c.ToBlock, nil }
func (b flowBridge) GetBridgesAndClaims(_ context.Context, from, to uint64) ([]bridgesync.Bridge, []bridgesync.Claim, error) {
	if from != b.c.FromBlock || to != b.c.ToBlock {
		return nil, nil, fmt.Errorf("harness: asked for [%d,%d], scripted [%d,%d]", from, to, b.c.FromBlock, b.c.ToBlock)
	}
	return b.c.Bridges, b.c.Claims, nil
}

// flowable: the certificate can be the one GetCertificateBuildParamsInternal builds (first block >= 1 so that a previous
// certificate / start block exists below it; a first certificate is never a retry)
func flowable(p *Params) bool {
	return p != nil && p.From >= 1 && (p.HasLast || p.Retry == 0) && p.Retry >= 0
}

func runFlow(in In, c *aggsendertypes.CertificateBuildParams) (*aggsendertypes.CertificateBuildParams, error) {
	p := in.C
	if !flowable(p) {
		return nil, errors.New("harness: not a certificate the flow can build")
	}
	var hdr *aggsendertypes.CertificateHeader
	switch {
	case !p.HasLast:
	case p.Retry == 0:
		hdr = &aggsendertypes.CertificateHeader{Height: 3, FromBlock: p.From - 1, ToBlock: p.From - 1, Status: agglayertypes.Settled}
	default:
		hdr = &aggsendertypes.CertificateHeader{Height: 3, FromBlock: p.From, ToBlock: p.To, Status: agglayertypes.InError, RetryCount: p.Retry - 1}
	}
	f := flows.NewBaseFlow(nolog{}, flowBridge{c: c}, flowStorage{hdr: hdr}, nil, nil, flows.NewBaseFlowConfig(uint(in.Max), p.From-1, false))
	return f.GetCertificateBuildParamsInternal(context.Background(), aggsendertypes.CertificateType(p.Type))
}

// ---------------------------------------------------------------------------------------------
// generator
// ---------------------------------------------------------------------------------------------

const maxU64 = ^uint64(0)

// counts (bridges, claims) at which the exact (rational) estimate is an integer, so that the binary64
// rounding of the running sums decides the truncated value: pp: .16a+.2b+.68, fep: .16a+.2b.
var floatEdgePP = [][2]int{{2, 0}, {7, 1}, {12, 2}, {17, 3}, {22, 4}, {27, 0}, {3, 4}, {8, 0}, {13, 1}}
var floatEdgeFEP = [][2]int{{0, 5}, {5, 1}, {10, 2}, {15, 3}, {20, 4}, {25, 0}, {0, 10}, {5, 6}, {50, 0}}

func pickFrom(rng *hlib.Rng, nb uint64) uint64 {
	switch rng.Intn(8) {
	case 0:
		return 0
	case 1:
		return 1
	case 2:
		return maxU64 - nb + 1 // last block is 2^64-1
	case 3:
		return maxU64 - nb // last block is 2^64-2
	case 4:
		return 1<<63 - nb/2
	case 5:
		return 2
	default:
		return uint64(rng.Intn(1000)) + 3
	}
}

func metaLen(rng *hlib.Rng) int {
	switch rng.Intn(6) {
	case 0:
		return rng.Intn(4)
	case 1:
		return rng.Intn(300)
	default:
		return 0
	}
}

// layout: nb blocks starting at from; per block 0..4 bridges and 0..4 claims (empty blocks allowed).
func layout(rng *hlib.Rng) *Params {
	nb := uint64(1 + rng.Intn(6))
	p := &Params{Type: hlib.Pick(rng, uint8(1), uint8(1), uint8(2), uint8(2), uint8(3), uint8(0))}
	p.From = pickFrom(rng, nb)
	p.To = p.From + nb - 1
	style := rng.Intn(5)
	for i := uint64(0); i < nb; i++ {
		k, c := rng.Intn(5), rng.Intn(5)
		if style == 0 && rng.Intn(2) == 0 { // many empty blocks
			k, c = 0, 0
		}
		if style == 1 { // bridges only
			c = 0
		}
		for j := 0; j < k; j++ {
			p.Bridges = append(p.Bridges, Ev{B: p.From + i, M: metaLen(rng)})
		}
		for j := 0; j < c; j++ {
			p.Claims = append(p.Claims, Ev{B: p.From + i, M: metaLen(rng)})
		}
	}
	finish(rng, p, style == 2)
	return p
}

// edgeLayout: total counts chosen so that the exact estimate of some prefix is an integer.
func edgeLayout(rng *hlib.Rng, k int) *Params {
	nb := uint64(1 + rng.Intn(6))
	p := &Params{}
	var ab [2]int
	if k%2 == 0 {
		p.Type = hlib.Pick(rng, uint8(1), uint8(3), uint8(0))
		ab = floatEdgePP[(k/2)%len(floatEdgePP)]
	} else {
		p.Type = 2
		ab = floatEdgeFEP[(k/2)%len(floatEdgeFEP)]
	}
	p.From = pickFrom(rng, nb)
	p.To = p.From + nb - 1
	var bs, cs []uint64
	for j := 0; j < ab[0]; j++ {
		bs = append(bs, p.From+uint64(rng.Intn(int(nb))))
	}
	for j := 0; j < ab[1]; j++ {
		cs = append(cs, p.From+uint64(rng.Intn(int(nb))))
	}
	sort.Slice(bs, func(i, j int) bool { return bs[i] < bs[j] })
	sort.Slice(cs, func(i, j int) bool { return cs[i] < cs[j] })
	for _, b := range bs {
		p.Bridges = append(p.Bridges, Ev{B: b})
	}
	for _, b := range cs {
		p.Claims = append(p.Claims, Ev{B: b})
	}
	finish(rng, p, false)
	return p
}

func finish(rng *hlib.Rng, p *Params, shuffle bool) {
	if shuffle { // event lists not sorted by block: the order of the input list is what must be preserved
		for i := len(p.Bridges) - 1; i > 0; i-- {
			j := rng.Intn(i + 1)
			p.Bridges[i], p.Bridges[j] = p.Bridges[j], p.Bridges[i]
		}
		for i := len(p.Claims) - 1; i > 0; i-- {
			j := rng.Intn(i + 1)
			p.Claims[i], p.Claims[j] = p.Claims[j], p.Claims[i]
		}
	}
	for i := range p.Bridges {
		p.Bridges[i].ID = uint32(i + 1)
	}
	for i := range p.Claims {
		p.Claims[i].ID = uint32(1000 + i)
	}
	if p.Bridges == nil {
		p.Bridges = []Ev{}
	}
	if p.Claims == nil {
		p.Claims = []Ev{}
	}
	switch rng.Intn(4) {
	case 0:
		p.Retry, p.HasLast = 1+rng.Intn(3), true
	case 1:
		p.Retry, p.HasLast = 0, true
	case 2:
		p.Retry, p.HasLast = 0, false
	default:
		p.Retry, p.HasLast = hlib.Pick(rng, 1, 0, -1), rng.Bool()
	}
}

func clone(p *Params) *Params {
	q := *p
	q.Bridges = append([]Ev{}, p.Bridges...)
	q.Claims = append([]Ev{}, p.Claims...)
	return &q
}

func uniq(xs []uint64) []uint64 {
	seen := map[uint64]bool{}
	var out []uint64
	for _, x := range xs {
		if !seen[x] {
			seen[x] = true
			out = append(out, x)
		}
	}
	return out
}

// around returns the block numbers from-2 .. to+2 that exist in uint64, plus 0 and 2^64-1.
func around(from, to uint64) []uint64 {
	var xs []uint64
	for d := uint64(2); d >= 1; d-- {
		if from >= d {
			xs = append(xs, from-d)
		}
	}
	for b := from; ; b++ {
		xs = append(xs, b)
		if b == to || b == maxU64 {
			break
		}
	}
	for d := uint64(1); d <= 2; d++ {
		if to <= maxU64-d {
			xs = append(xs, to+d)
		}
	}
	xs = append(xs, 0, maxU64)
	return uniq(xs)
}

func casesOfLayout(rng *hlib.Rng, p *Params, heavy bool) []In {
	var ins []In
	blocks := around(p.From, p.To)
	// Range: the full range, every prefix and suffix, random sub-ranges, and error cases around the borders
	type ft struct{ f, t uint64 }
	var fts []ft
	for b := p.From; ; b++ {
		fts = append(fts, ft{p.From, b}, ft{b, p.To})
		if b == p.To {
			break
		}
	}
	nr := 6
	if heavy {
		nr = 20
	}
	for i := 0; i < nr; i++ {
		fts = append(fts, ft{blocks[rng.Intn(len(blocks))], blocks[rng.Intn(len(blocks))]})
	}
	seen := map[ft]bool{}
	for _, x := range fts {
		if !seen[x] {
			seen[x] = true
			ins = append(ins, In{Kind: "range", C: clone(p), F: x.f, T: x.t})
		}
	}
	// limitCertSize: limits around the exact estimated size of every prefix, 0 (= unlimited) and 1
	limits := []uint64{0, 1}
	for _, s := range prefixSizes(p) {
		limits = append(limits, s-1, s, s+1)
	}
	for _, m := range uniq(limits) {
		ins = append(ins, In{Kind: "limit", C: clone(p), Max: m})
	}
	if flowable(p) {
		for _, m := range uniq(limits) {
			ins = append(ins, In{Kind: "flow", C: clone(p), Max: m})
		}
	}
	// AdaptCertificate: last-block limits below / inside / above the range, 0 (= disabled)
	for _, m := range blocks {
		reps := 2
		if heavy {
			reps = 6
		}
		for r := 0; r < reps; r++ {
			ins = append(ins, In{Kind: "adapt", C: clone(p), Max: m, Allow: rng.Bool(), Require: rng.Bool()})
		}
	}
	return ins
}

func gapBoundary() []uint64 { return []uint64{0, 1, 2, 1 << 63, maxU64 - 1, maxU64} }

func gen(f *hlib.Flags) []In {
	rng := hlib.NewRng(f.Seed)
	heavy := f.Tier != "quick"
	var ins []In
	// --- Gap: all well-formed ranges over the boundary values, all ordered pairs
	var rs [][2]uint64
	bv := gapBoundary()
	for _, a := range bv {
		for _, b := range bv {
			if a <= b {
				rs = append(rs, [2]uint64{a, b})
			}
		}
	}
	for _, a := range rs {
		for _, b := range rs {
			ins = append(ins, In{Kind: "gap", A: a, B: b})
		}
	}
	// --- fixed boundary certificates
	fixed := []*Params{
		{From: 0, To: 0, Type: 1, Bridges: []Ev{{B: 0}, {B: 0}}},                                       // block 0 only, 2 bridges: exact size 256.0
		{From: 0, To: 3, Type: 1, Bridges: []Ev{{B: 0}, {B: 1}, {B: 1}, {B: 3}}, Claims: []Ev{{B: 2}}}, // starts at block 0
		{From: maxU64 - 2, To: maxU64, Type: 2, Bridges: []Ev{{B: maxU64 - 2}, {B: maxU64}}, Claims: []Ev{{B: maxU64 - 1}, {B: maxU64}}},
		{From: 5, To: 9, Type: 1}, // no events at all
		{From: 5, To: 9, Type: 2, Claims: []Ev{{B: 6}, {B: 6}, {B: 7}, {B: 9}, {B: 9}}},  // claims only, fep: 5 claims = integer
		{From: 10, To: 12, Type: 1, Bridges: []Ev{{B: 12, M: 100000}}},                   // only the last block is large
		{From: 10, To: 12, Type: 1, Bridges: []Ev{{B: 10, M: 100000}, {B: 11}, {B: 12}}}, // first block alone exceeds
	}
	for _, p := range fixed {
		finish(rng, p, false)
		ins = append(ins, casesOfLayout(rng, p, true)...)
	}
	// adapt on a nil certificate (enabled and disabled limiter)
	ins = append(ins, In{Kind: "adapt", C: nil, Max: 0}, In{Kind: "adapt", C: nil, Max: 7, Allow: true},
		In{Kind: "adapt", C: nil, Max: maxU64, Require: true})
	// NumberOfBlocks() overflows int when the range spans >= 2^63 blocks: limitCertSize returns at once
	// (see Properties/C17.v exceeds_limit_only_if_single_block_unbounded_refuted); outside the stated precondition of spec
	for _, to := range []uint64{1 << 63, 1<<63 - 1 + 5, maxU64} {
		p := &Params{From: 0, To: to, Type: 1, Bridges: []Ev{{B: 0, ID: 1}, {B: 1, ID: 2}}, Claims: []Ev{}, Retry: 0}
		ins = append(ins, In{Kind: "limit", C: p, Max: 1, Note: "span>=2^63"})
		ins = append(ins, In{Kind: "range", C: clone(p), F: 0, T: 1, Note: "span>=2^63"})
	}
	// --- generated layouts
	for i := 0; i < f.N; i++ {
		var p *Params
		if i%4 == 3 {
			p = edgeLayout(rng, i/4)
		} else {
			p = layout(rng)
		}
		ins = append(ins, casesOfLayout(rng, p, heavy)...)
	}
	// --- random Gap pairs: near each other, near the ends of uint64, and arbitrary
	ng := f.N * 8
	for i := 0; i < ng; i++ {
		base := pickFrom(rng, 40)
		mk := func() [2]uint64 {
			a := base + uint64(rng.Intn(20))
			if a < base {
				a = maxU64
			}
			b := a + uint64(rng.Intn(8))
			if b < a {
				b = maxU64
			}
			return [2]uint64{a, b}
		}
		a, b := mk(), mk()
		if rng.Intn(6) == 0 {
			x, y := rng.U64(), rng.U64()
			if x > y {
				x, y = y, x
			}
			b = [2]uint64{x, y}
		}
		ins = append(ins, In{Kind: "gap", A: a, B: b})
	}
	// --- malformed stream (model-vs-code only; outside the property's quantifier)
	nm := f.N / 2
	for i := 0; i < nm; i++ {
		p := layout(rng)
		switch rng.Intn(4) {
		case 0: // events outside the certificate's own range
			if len(p.Bridges) > 0 {
				p.Bridges[rng.Intn(len(p.Bridges))].B = p.To + 3
			}
			if len(p.Claims) > 0 {
				p.Claims[rng.Intn(len(p.Claims))].B = p.From - 1
			}
		case 1: // inverted range
			p.From, p.To = p.To+1, p.From
		case 2: // inverted range whose uint64 difference wraps to a small positive number of blocks
			p.From, p.To = maxU64-uint64(rng.Intn(2)), uint64(rng.Intn(3))
		case 3: // duplicated identity tags
			for j := range p.Bridges {
				p.Bridges[j].ID = 1
			}
		}
		bl := []uint64{0, 1, p.From, p.To, p.From + 1, p.To - 1, p.To + 1, maxU64}
		ins = append(ins, In{Kind: "range", C: clone(p), F: bl[rng.Intn(len(bl))], T: bl[rng.Intn(len(bl))], Note: "malformed"})
		ins = append(ins, In{Kind: "limit", C: clone(p), Max: hlib.Pick(rng, uint64(0), 1, 100, 3000), Note: "malformed"})
		ins = append(ins, In{Kind: "adapt", C: clone(p), Max: bl[rng.Intn(len(bl))], Allow: rng.Bool(), Require: rng.Bool(), Note: "malformed"})
		ins = append(ins, In{Kind: "gap", A: [2]uint64{rng.U64() >> uint(rng.Intn(64)), rng.U64() >> uint(rng.Intn(64))},
			B: [2]uint64{rng.U64() >> uint(rng.Intn(64)), rng.U64() >> uint(rng.Intn(64))}, Note: "malformed"})
	}
	return ins
}

func main() {
	f := hlib.ParseFlags()
	var ins []In
	if f.Replay != "" {
		for _, raw := range hlib.ReadJSONL(f.Replay) {
			var in In
			if err := json.Unmarshal(raw, &in); err != nil {
				panic(err)
			}
			ins = append(ins, in)
		}
	} else {
		ins = gen(f)
	}
	w := hlib.NewWriter(f.Out)
	defer w.Close()
	for _, in := range ins {
		w.Emit(run(in))
	}
}
