package main

import (
	"math/big"
	"sort"

	"github.com/ethereum/go-ethereum/common"
	"github.com/ethereum/go-ethereum/crypto"

	"verifharness/hlib"
)

// ---------- independent Merkle roots (generator side only; not the code under test) ----------

var zeroH = func() [33]common.Hash {
	var z [33]common.Hash
	for i := 1; i <= 32; i++ {
		z[i] = crypto.Keccak256Hash(z[i-1][:], z[i-1][:])
	}
	return z
}()

// treeRoot: root of the depth-32 tree whose non-zero leaves are m (plain recursion over the key bits).
func treeRoot(m map[uint32]common.Hash) common.Hash {
	keys := make([]uint32, 0, len(m))
	for k := range m {
		keys = append(keys, k)
	}
	sort.Slice(keys, func(i, j int) bool { return keys[i] < keys[j] })
	var rec func(h int, ks []uint32) common.Hash
	rec = func(h int, ks []uint32) common.Hash {
		if len(ks) == 0 {
			return zeroH[h]
		}
		if h == 0 {
			return m[ks[0]]
		}
		i := sort.Search(len(ks), func(i int) bool { return ks[i]&(1<<(h-1)) != 0 })
		return crypto.Keccak256Hash(rec(h-1, ks[:i]).Bytes(), rec(h-1, ks[i:]).Bytes())
	}
	return rec(32, keys)
}

// exitRoots[i] = root of the exit tree holding leaves[0..i]
func exitRoots(leaves []common.Hash) []common.Hash {
	m := map[uint32]common.Hash{}
	var out []common.Hash
	for i, l := range leaves {
		m[uint32(i)] = l
		out = append(out, treeRoot(m))
	}
	return out
}

// ---------- bridge events ----------

var maxU256 = new(big.Int).Sub(new(big.Int).Lsh(big.NewInt(1), 256), big.NewInt(1))

func genAddr(r *hlib.Rng) string {
	switch r.Intn(4) {
	case 0:
		return "0000000000000000000000000000000000000000"
	case 1:
		return "ffffffffffffffffffffffffffffffffffffffff"
	default:
		return hlib.Hex(r.Bytes(20))
	}
}

func genBridge(r *hlib.Rng, dc uint32, pos uint64, tag uint64) Ev {
	e := Ev{T: "bridge", Pos: pos, Tag: tag, DC: dc, LT: uint8(r.Intn(2))}
	e.ONet = hlib.Pick(r, uint32(0), 1, 2, 0xffffffff, r.U32())
	e.DNet = hlib.Pick(r, uint32(0), 1, 2, 0xffffffff, r.U32())
	e.OAddr, e.DAddr = genAddr(r), genAddr(r)
	switch r.Intn(6) {
	case 0:
		e.Amount = "" // nil
	case 1:
		e.Amount = "0"
	case 2:
		e.Amount = maxU256.String()
	default:
		e.Amount = r.Big(1 + r.Intn(256)).String()
	}
	ml := hlib.Pick(r, 0, 0, 1, 32, 33, 136, 200)
	if ml > 0 {
		e.Meta = hlib.Hex(r.Bytes(ml))
	}
	return e
}

func genBridgeBlocks(r *hlib.Rng, nb int, start uint64) ([]BBlock, []common.Hash) {
	var blocks []BBlock
	var leaves []common.Hash
	var all []Ev
	num := start
	dc := uint32(0)
	tag := uint64(100)
	for int(dc) < nb {
		b := BBlock{Num: num}
		k := 1 + r.Intn(3)
		pos := uint64(0)
		for i := 0; i < k && int(dc) < nb; i++ {
			pos += uint64(r.Intn(3))
			tag++
			e := genBridge(r, dc, pos, tag)
			if n := len(all); n >= 2 && dc%5 == 4 { // deposits 4, 9, 14 ..: equal to the one two counts earlier (equal leaves on positions of the same parity); no random draw, so that the rest of the history is what it was before this rule existed
				e = all[n-2]
				e.Pos, e.Tag, e.DC = pos, tag, dc
			}
			all = append(all, e)
			b.Events = append(b.Events, e)
			leaves = append(leaves, toBridge(num, e).Hash())
			dc++
			pos++
		}
		blocks = append(blocks, b)
		num += uint64(1 + r.Intn(3))
	}
	return blocks, leaves
}

// ---------- joint histories ----------

type opts struct {
	block0   bool // the first L1 info block is block 0 (the targetBlock-1 underflow)
	lagL1    bool // the L1 bridge syncer has not processed the last blocks yet
	lagL2    bool
	net0     bool // the service's own network id is 0 (the rollup branch is shadowed)
	empty    bool // no info leaf at all
	wideGaps bool // block numbers far apart (long binary searches)
	allBad   bool // every malformed request
	clean    bool // only roots the bridge syncers know (current or older), no unknown / random roots
	ladder   bool // every block: VerifyBatches with the next L2 exit root, then a leaf with the next L1 exit root and the new rollup exit root
	note     string
}

func hx(h common.Hash) string { return hlib.Hex(h[:]) }

func genCase(r *hlib.Rng, tier string, o opts) In {
	maxB, maxIB := 8, 7
	if tier != "quick" {
		maxB, maxIB = 16, 12
	}
	in := In{Net: hlib.Pick(r, uint32(1), 1, 2, 7, 0xffffffff, 1+r.U32()%1000), Note: o.note}
	if o.net0 {
		in.Net = 0
	}
	nb1, nb2 := r.Intn(maxB+1), r.Intn(maxB+1)
	if o.ladder {
		nb1, nb2 = maxB-r.Intn(3), maxB-r.Intn(3)
	}
	var leaves1, leaves2 []common.Hash
	in.L1B, leaves1 = genBridgeBlocks(r, nb1, hlib.Pick(r, uint64(0), 1, 2, 10))
	in.L2B, leaves2 = genBridgeBlocks(r, nb2, hlib.Pick(r, uint64(0), 1, 5))
	roots1, roots2 := exitRoots(leaves1), exitRoots(leaves2)

	// the L1 chain as the info-tree contracts see it: c1 / c2 bridges already reflected in the roots they publish
	c1, c2 := 0, 0
	m := map[uint32]common.Hash{} // rollup exit tree: rollupID-1 -> last non-zero exit root
	usedGER := map[[2]common.Hash]bool{}
	usedExit := map[uint32]map[common.Hash]bool{}
	var rerHist []common.Hash
	curRER := func() common.Hash {
		if len(m) == 0 {
			return hlib.Pick(r, common.Hash{}, zeroH[32])
		}
		return treeRoot(m)
	}
	rnd := func() common.Hash { return common.BytesToHash(r.Bytes(32)) }

	num := hlib.Pick(r, uint64(1), 3, 20)
	if o.block0 {
		num = 0
		c1, c2 = nb1, nb2 // every info leaf covers everything: the search walks left down to block 0
	}
	if o.clean { // every published root is a recorded one: at least one bridge is on chain before the first event
		if nb1 > 0 {
			c1 = 1 + r.Intn(nb1)
		}
		if nb2 > 0 {
			c2 = 1 + r.Intn(nb2)
		}
	}
	nblocks := 1 + r.Intn(maxIB)
	if o.empty {
		nblocks = 1
	}
	ts := uint64(1700000000)
	if o.ladder {
		nblocks = maxB
		c1, c2 = 0, 0
	}
	for bi := 0; bi < nblocks; bi++ {
		b := IBlock{Num: num}
		if o.ladder {
			// strictly growing roots, a few deposits per block
			pos := uint64(0)
			if c2 < nb2 && in.Net != 0 {
				c2 += 1 + r.Intn(3) // skipping deposit counts: no exact match for some of them
				if c2 > nb2 {
					c2 = nb2
				}
				b.Events, pos = appendVB(b.Events, pos, in.Net, roots2[c2-1], m, usedExit)
			}
			if c1 < nb1 {
				c1 += 1 + r.Intn(3)
				if c1 > nb1 {
					c1 = nb1
				}
			}
			var mer common.Hash
			if c1 > 0 {
				mer = roots1[c1-1]
			}
			rer := curRER()
			if !usedGER[[2]common.Hash{mer, rer}] {
				usedGER[[2]common.Hash{mer, rer}] = true
				ts += 12
				b.Events = append(b.Events, IEv{T: "info", Pos: pos, MER: hx(mer), RER: hx(rer), PH: hx(rnd()), TS: ts})
			}
			in.L1I = append(in.L1I, b)
			if o.wideGaps {
				num += uint64(1 + r.Intn(1<<uint(1+r.Intn(40))))
			} else {
				num += uint64(1 + r.Intn(4))
			}
			continue
		}
		nev := r.Intn(6)
		if o.block0 && bi == 0 && nev == 0 {
			nev = 2
		}
		pos := uint64(0)
		for i := 0; i < nev; i++ {
			pos += uint64(r.Intn(3))
			c1 += r.Intn(3)
			if c1 > nb1 {
				c1 = nb1
			}
			c2 += r.Intn(3)
			if c2 > nb2 {
				c2 = nb2
			}
			kind := r.Intn(100)
			switch {
			case o.empty || kind >= 50 && kind < 85: // VerifyBatches of the own rollup
				if in.Net == 0 {
					continue
				}
				var exit common.Hash
				x := r.Intn(100)
				if o.clean {
					x %= 80
				}
				switch {
				case x < 65 && c2 > 0:
					exit = roots2[c2-1]
				case x < 80 && c2 > 0:
					exit = roots2[r.Intn(c2)] // lagging / going backwards
				case x < 90:
					exit = rnd() // a local exit root the L2 bridge syncer never recorded
				case x < 95:
					exit = common.Hash{}
				default:
					exit = m[in.Net-1] // same value again (skipped by the processor)
				}
				b.Events, pos = appendVB(b.Events, pos, in.Net, exit, m, usedExit)
			case kind >= 85: // another rollup
				rid := hlib.Pick(r, uint32(1), 2, 3, in.Net+1, in.Net-1, 0xffffffff, 0)
				exit := rnd()
				if r.Intn(8) == 0 {
					exit = common.Hash{}
				}
				if rid == in.Net && c2 > 0 {
					exit = roots2[c2-1]
				}
				b.Events, pos = appendVB(b.Events, pos, rid, exit, m, usedExit)
			default: // UpdateL1InfoTree
				var mer common.Hash
				x := r.Intn(100)
				if o.clean {
					x %= 85
				}
				switch {
				case x < 70 && c1 > 0:
					mer = roots1[c1-1]
				case x < 85 && c1 > 0:
					mer = roots1[r.Intn(c1)]
				case x < 92:
					mer = rnd()
				case x < 97 && nb1 > 0:
					mer = roots1[nb1-1]
				}
				rer := curRER()
				y := r.Intn(100)
				if o.clean {
					y %= 90
				}
				if y >= 75 && y < 90 && len(rerHist) > 0 {
					rer = rerHist[r.Intn(len(rerHist))]
				} else if y >= 90 {
					rer = rnd()
				}
				if usedGER[[2]common.Hash{mer, rer}] {
					continue
				}
				usedGER[[2]common.Hash{mer, rer}] = true
				ts += uint64(r.Intn(100))
				b.Events = append(b.Events, IEv{T: "info", Pos: pos, MER: hx(mer), RER: hx(rer), PH: hx(rnd()), TS: ts})
				pos++
			}
			if len(m) > 0 {
				rerHist = append(rerHist, treeRoot(m))
			}
		}
		in.L1I = append(in.L1I, b)
		if o.wideGaps {
			num += uint64(1 + r.Intn(1<<uint(1+r.Intn(40))))
		} else {
			num += uint64(1 + r.Intn(4))
		}
	}
	if o.lagL1 && len(in.L1B) > 0 {
		in.L1B = in.L1B[:r.Intn(len(in.L1B))]
	}
	if o.lagL2 && len(in.L2B) > 0 {
		in.L2B = in.L2B[:r.Intn(len(in.L2B))]
	}
	in.Extra = genExtra(r, in, o.allBad)
	return in
}

func appendVB(evs []IEv, pos uint64, rid uint32, exit common.Hash, m map[uint32]common.Hash,
	used map[uint32]map[common.Hash]bool) ([]IEv, uint64) {
	idx := rid - 1 // uint32 wrap for rid 0, as the processor does
	if exit != (common.Hash{}) && exit != m[idx] {
		if used[rid] == nil {
			used[rid] = map[common.Hash]bool{}
		}
		if used[rid][exit] {
			// a rollup returning to an earlier exit root can make the whole tree return to an earlier root:
			// UNIQUE failure on rollup exit root (finding F4, property C11) -- outside this property's histories
			return evs, pos
		}
		used[rid][exit] = true
		m[idx] = exit
	}
	return append(evs, IEv{T: "vb", Pos: pos, RID: rid, Exit: hx(exit)}), pos + 1
}

func genExtra(r *hlib.Rng, in In, all bool) []Query {
	other := in.Net + 1
	if other == 0 {
		other = 5
	}
	bad := func(s string) Param { return Param{K: "bad", Raw: s} }
	missing := Param{K: "missing"}
	n0 := num(0)
	pool := []Query{
		{K: "proof", Net: num(uint64(other)), Idx: n0, DC: n0}, // unsupported network
		{K: "index", Net: num(uint64(other)), DC: n0},
		{K: "leaf", Net: num(uint64(other)), Idx: n0},
		{K: "proof", Net: missing, Idx: n0, DC: n0},
		{K: "proof", Net: bad("abc"), Idx: missing, DC: n0}, // the first failing parameter is reported
		{K: "proof", Net: n0, Idx: missing, DC: bad("x")},
		{K: "proof", Net: n0, Idx: n0, DC: num(1 << 32)}, // out of range for uint32
		{K: "proof", Net: n0, Idx: num(^uint64(0)), DC: n0},
		{K: "proof", Net: n0, Idx: n0, DC: bad("18446744073709551616")}, // not a uint64
		{K: "proof", Net: n0, Idx: n0, DC: missing},
		{K: "index", Net: n0, DC: bad("-1")},
		{K: "index", Net: n0, DC: missing},
		{K: "index", Net: num(1 << 32), DC: n0},
		{K: "index", Net: bad(""), DC: n0}, // empty string = absent
		{K: "index", Net: n0, DC: num(0xffffffff)},
		{K: "index", Net: num(uint64(in.Net)), DC: num(0xffffffff)},
		{K: "leaf", Net: n0, Idx: bad("1.5")},
		{K: "leaf", Net: missing, Idx: n0},
		{K: "leaf", Net: n0, Idx: num(0xffffffff)},
	}
	if all {
		return pool
	}
	var out []Query
	for i := 0; i < 5; i++ {
		out = append(out, pool[r.Intn(len(pool))])
	}
	return out
}

// the two witnesses of Properties/C12.v (index_search_not_minimal, index_search_block0_incomplete) as real histories:
// seven L1 bridges; info leaves whose mainnet exit roots are the exit roots of the given indices
func witnessCase(r *hlib.Rng, note string, blocks map[uint64][]int, order []uint64) In {
	in := In{Net: 1, Note: note}
	var leaves []common.Hash
	in.L1B, leaves = genBridgeBlocks(r, 7, 1)
	roots := exitRoots(leaves)
	for _, num := range order {
		b := IBlock{Num: num}
		for pos, ri := range blocks[num] {
			b.Events = append(b.Events, IEv{T: "info", Pos: uint64(pos), MER: hx(roots[ri]), RER: hx(common.Hash{}),
				PH: hx(common.BytesToHash(r.Bytes(32))), TS: 1700000000 + num})
		}
		in.L1I = append(in.L1I, b)
	}
	return in
}

func generate(f *hlib.Flags) []In {
	r := hlib.NewRng(f.Seed)
	boundary := []opts{
		{allBad: true, note: "every malformed request"},
		{block0: true, note: "first info block is block 0"},
		{empty: true, note: "no info leaf"},
		{lagL1: true, lagL2: true, note: "bridge syncers lag behind the info tree syncer"},
		{net0: true, note: "own network id 0"},
		{wideGaps: true, note: "block numbers far apart"},
		{ladder: true, note: "ladder: one new L1 and L2 exit root per block"},
		{ladder: true, wideGaps: true, note: "ladder, block numbers far apart"},
	}
	var ins []In
	if f.N > 2 {
		// block 5 holds leaf 0 (root index 1) and leaf 1 (root index 5), block 7 leaf 2 (root index 6): dc 3 -> leaf 2, not leaf 1
		ins = append(ins, witnessCase(r, "witness: not minimal", map[uint64][]int{5: {1, 5}, 7: {6}}, []uint64{5, 7}))
		// leaf 0 in block 0 (root index 5), leaf 1 in block 2 (root index 6): dc 3 -> targetBlock-1 underflow -> error
		ins = append(ins, witnessCase(r, "witness: block 0 underflow", map[uint64][]int{0: {5}, 2: {6}}, []uint64{0, 2}))
	}
	for i := 0; len(ins) < f.N; i++ {
		var o opts
		if i < len(boundary) {
			o = boundary[i]
		} else {
			o = opts{block0: r.Intn(8) == 0, lagL1: r.Intn(7) == 0, lagL2: r.Intn(7) == 0, wideGaps: r.Intn(5) == 0, clean: r.Intn(2) == 0, ladder: r.Intn(5) == 0}
		}
		ins = append(ins, genCase(r, f.Tier, o))
	}
	return ins
}
