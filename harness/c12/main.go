// C12 harness: the REAL bridgeservice.BridgeService (real gin router, real handlers) in front of REAL stores:
// two bridgesync facades (L1, L2) and one l1infotreesync facade, each around its real processor on its own SQLite file.
// A case is a joint history (L1 bridge blocks, L2 bridge blocks, L1 info tree blocks with UpdateL1InfoTree / VerifyBatches
// events whose exit roots are real roots of the two bridge histories) followed by every claim-proof / l1-info-tree-index /
// injected-l1-info-leaf request, served through net/http/httptest. One JSON object per case.
package main

import (
	"context"
	"encoding/json"
	"fmt"
	"math/big"
	"net/http"
	"net/http/httptest"
	"net/url"
	"os"
	"path/filepath"
	"strconv"
	"strings"
	"time"

	"github.com/agglayer/aggkit/bridgeservice"
	"github.com/agglayer/aggkit/bridgesync"
	"github.com/agglayer/aggkit/l1infotreesync"
	"github.com/agglayer/aggkit/lastgersync"
	aggkitlog "github.com/agglayer/aggkit/log"
	aggsync "github.com/agglayer/aggkit/sync"
	"github.com/ethereum/go-ethereum/common"

	"verifharness/hlib"
)

// ---------- case format ----------

// Ev is a bridge event (same field names as harness/bridge).
type Ev struct {
	T      string `json:"t"` // bridge
	Pos    uint64 `json:"pos"`
	Tag    uint64 `json:"tag"`
	DC     uint32 `json:"dc"`
	LT     uint8  `json:"lt,omitempty"`
	ONet   uint32 `json:"onet,omitempty"`
	OAddr  string `json:"oaddr,omitempty"`
	DNet   uint32 `json:"dnet,omitempty"`
	DAddr  string `json:"daddr,omitempty"`
	Amount string `json:"amount,omitempty"` // decimal; "" = nil
	Meta   string `json:"meta,omitempty"`   // hex
}
type BBlock struct {
	Num    uint64 `json:"num"`
	Events []Ev   `json:"events"`
}

// IEv is an event of the L1 info tree syncer: UpdateL1InfoTree ("info") or VerifyBatches ("vb").
type IEv struct {
	T    string `json:"t"`
	Pos  uint64 `json:"pos"`
	MER  string `json:"mer,omitempty"`
	RER  string `json:"rer,omitempty"`
	PH   string `json:"ph,omitempty"`
	TS   uint64 `json:"ts,omitempty"`
	RID  uint32 `json:"rid,omitempty"`
	Exit string `json:"exit,omitempty"`
}
type IBlock struct {
	Num    uint64 `json:"num"`
	Events []IEv  `json:"events"`
}

// Param is one query-string parameter: a number, absent, or a raw string that is not a uint64.
type Param struct {
	K   string `json:"k"` // num | missing | bad
	V   uint64 `json:"v,omitempty"`
	Raw string `json:"raw,omitempty"`
}
type Query struct {
	K   string `json:"k"` // proof | index | leaf
	Net Param  `json:"net"`
	Idx Param  `json:"idx"`
	DC  Param  `json:"dc"`
}
type In struct {
	Net   uint32   `json:"net"` // the service's own (L2) network id
	L1B   []BBlock `json:"l1b"`
	L2B   []BBlock `json:"l2b"`
	L1I   []IBlock `json:"l1i"`
	Extra []Query  `json:"extra,omitempty"` // malformed / out-of-domain requests, besides the exhaustive ones
	Note  string   `json:"note,omitempty"`
}

type InfoObs struct {
	Block uint64 `json:"block"`
	Pos   uint64 `json:"pos"`
	Index uint32 `json:"index"`
	MER   string `json:"mer"`
	RER   string `json:"rer"`
	GER   string `json:"ger"`
}
type QObs struct {
	Q      Query    `json:"q"`
	Status int      `json:"status"`
	Err    string   `json:"err,omitempty"` // error class
	PL     []string `json:"pl,omitempty"`
	PR     []string `json:"pr,omitempty"`
	Info   *InfoObs `json:"info,omitempty"`
	Index  *uint64  `json:"index,omitempty"`
}
type Out struct {
	In     In       `json:"in"`
	ResL1B []string `json:"res_l1b"`
	ResL2B []string `json:"res_l2b"`
	ResL1I []string `json:"res_l1i"`
	Qs     []QObs   `json:"qs"`
	Err    string   `json:"err,omitempty"`
}

// ---------- running ----------

func toBridge(num uint64, e Ev) *bridgesync.Bridge {
	var amt *big.Int
	if e.Amount != "" {
		amt = hlib.UnDec(e.Amount)
	}
	var meta []byte
	if e.Meta != "" {
		meta = hlib.UnHex(e.Meta)
	}
	return &bridgesync.Bridge{
		BlockNum: num, BlockPos: e.Pos, BlockTimestamp: e.Tag,
		LeafType: e.LT, OriginNetwork: e.ONet, OriginAddress: common.HexToAddress(e.OAddr),
		DestinationNetwork: e.DNet, DestinationAddress: common.HexToAddress(e.DAddr),
		Amount: amt, Metadata: meta, DepositCount: e.DC,
	}
}

func blockHash(num uint64) common.Hash { return common.BigToHash(new(big.Int).SetUint64(num + 1000)) }

func errClass(err error) string {
	if err == nil {
		return "ok"
	}
	s := err.Error()
	switch {
	case strings.Contains(s, "UNIQUE constraint") || strings.Contains(s, "constraint failed"):
		return "constraint"
	case strings.Contains(s, aggsync.ErrInconsistentState.Error()):
		return "inconsistent"
	default:
		return "error:" + s
	}
}

// msgClass maps the error text of an HTTP error body to a small enum.
func msgClass(status int, msg string) string {
	switch {
	case strings.Contains(msg, "is mandatory") || strings.Contains(msg, "invalid ") && strings.Contains(msg, " parameter") ||
		strings.Contains(msg, "out of range for uint32"):
		for _, k := range []string{"network_id", "leaf_index", "deposit_count"} {
			if strings.Contains(msg, k) {
				return "badparam:" + k
			}
		}
		return "badparam"
	case strings.Contains(msg, "unsupported network"):
		return "unsupported"
	case strings.Contains(msg, bridgeservice.ErrNotOnL1Info.Error()):
		return "notonl1info"
	case strings.Contains(msg, "network 0 is not a rollup"):
		return "netzero"
	case strings.Contains(msg, "inconsistent state"):
		return "inconsistent"
	case strings.Contains(msg, "not found") || strings.Contains(msg, "no rows in result set"):
		return "notfound"
	}
	return fmt.Sprintf("other:%d:%s", status, msg)
}

type fakeGERs struct{}

func (fakeGERs) GetFirstGERAfterL1InfoTreeIndex(ctx context.Context, idx uint32) (lastgersync.GlobalExitRootInfo, error) {
	return lastgersync.GlobalExitRootInfo{L1InfoTreeIndex: idx}, nil
}

func (p Param) str() (string, bool) {
	switch p.K {
	case "num":
		return strconv.FormatUint(p.V, 10), true
	case "bad":
		return p.Raw, true
	}
	return "", false
}

func num(v uint64) Param { return Param{K: "num", V: v} }

func strip0x(s string) string { return strings.ToLower(strings.TrimPrefix(s, "0x")) }

func request(h http.Handler, q Query) QObs {
	path := map[string]string{"proof": "/claim-proof", "index": "/l1-info-tree-index", "leaf": "/injected-l1-info-leaf"}[q.K]
	vals := url.Values{}
	if s, ok := q.Net.str(); ok {
		vals.Set("network_id", s)
	}
	if s, ok := q.Idx.str(); ok && q.K != "index" {
		vals.Set("leaf_index", s)
	}
	if s, ok := q.DC.str(); ok && q.K != "leaf" {
		vals.Set("deposit_count", s)
	}
	req := httptest.NewRequest(http.MethodGet, bridgeservice.BridgeV1Prefix+path+"?"+vals.Encode(), nil)
	w := httptest.NewRecorder()
	h.ServeHTTP(w, req)
	o := QObs{Q: q, Status: w.Code}
	body := w.Body.Bytes()
	if w.Code != http.StatusOK {
		var e struct {
			Error string `json:"error"`
		}
		if err := json.Unmarshal(body, &e); err != nil || e.Error == "" {
			o.Err = fmt.Sprintf("other:%d:undecodable body %q", w.Code, string(body))
		} else {
			o.Err = msgClass(w.Code, e.Error)
		}
		return o
	}
	type leafJSON struct {
		Block uint64 `json:"block_num"`
		Pos   uint64 `json:"block_pos"`
		Index uint32 `json:"l1_info_tree_index"`
		MER   string `json:"mainnet_exit_root"`
		RER   string `json:"rollup_exit_root"`
		GER   string `json:"global_exit_root"`
	}
	conv := func(l leafJSON) *InfoObs {
		return &InfoObs{Block: l.Block, Pos: l.Pos, Index: l.Index, MER: strip0x(l.MER), RER: strip0x(l.RER), GER: strip0x(l.GER)}
	}
	switch q.K {
	case "proof":
		var cp struct {
			PL   []string `json:"proof_local_exit_root"`
			PR   []string `json:"proof_rollup_exit_root"`
			Leaf leafJSON `json:"l1_info_tree_leaf"`
		}
		if err := json.Unmarshal(body, &cp); err != nil {
			o.Err = "other:200:undecodable claim proof: " + err.Error()
			return o
		}
		for _, x := range cp.PL {
			o.PL = append(o.PL, strip0x(x))
		}
		for _, x := range cp.PR {
			o.PR = append(o.PR, strip0x(x))
		}
		o.Info = conv(cp.Leaf)
	case "index":
		var idx uint64
		if err := json.Unmarshal(body, &idx); err != nil {
			o.Err = "other:200:undecodable index: " + err.Error()
			return o
		}
		o.Index = &idx
	case "leaf":
		var l leafJSON
		if err := json.Unmarshal(body, &l); err != nil {
			o.Err = "other:200:undecodable leaf: " + err.Error()
			return o
		}
		o.Info = conv(l)
	}
	return o
}

func countBridges(bs []BBlock) uint64 {
	var n uint64
	for _, b := range bs {
		n += uint64(len(b.Events))
	}
	return n
}

// allQueries: the exhaustive part of a case's requests, a function of the case input alone.
func allQueries(in In) []Query {
	var ninfo uint64
	for _, b := range in.L1I {
		for _, e := range b.Events {
			if e.T == "info" {
				ninfo++
			}
		}
	}
	type nn struct {
		net uint32
		nb  uint64
	}
	nets := []nn{{0, countBridges(in.L1B)}}
	if in.Net != 0 {
		nets = append(nets, nn{in.Net, countBridges(in.L2B)})
	}
	var qs []Query
	for _, n := range nets {
		for dc := uint64(0); dc <= n.nb; dc++ { // one deposit count beyond the recorded ones
			qs = append(qs, Query{K: "index", Net: num(uint64(n.net)), DC: num(dc)})
		}
		for idx := uint64(0); idx <= ninfo; idx++ { // one index beyond the recorded ones
			for dc := uint64(0); dc <= n.nb; dc++ {
				qs = append(qs, Query{K: "proof", Net: num(uint64(n.net)), Idx: num(idx), DC: num(dc)})
			}
		}
	}
	for idx := uint64(0); idx <= ninfo; idx++ {
		qs = append(qs, Query{K: "leaf", Net: num(0), Idx: num(idx)})
	}
	return qs
}

func run(in In, dir string, n int) (out Out) {
	out.In = in
	defer func() {
		if e := recover(); e != nil {
			out.Err = fmt.Sprint(e)
		}
	}()
	sub := filepath.Join(dir, fmt.Sprintf("case%d", n))
	os.MkdirAll(sub, 0o755)
	defer os.RemoveAll(sub)
	ctx := context.Background()

	l1, err := bridgesync.NewVerifBridgeSync(filepath.Join(sub, "l1.sqlite"), 0)
	if err != nil {
		panic(err)
	}
	defer bridgesync.VerifClose(l1)
	l2, err := bridgesync.NewVerifBridgeSync(filepath.Join(sub, "l2.sqlite"), in.Net)
	if err != nil {
		panic(err)
	}
	defer bridgesync.VerifClose(l2)
	li, err := l1infotreesync.NewVerifC12L1InfoTreeSync(filepath.Join(sub, "l1info.sqlite"))
	if err != nil {
		panic(err)
	}
	defer l1infotreesync.VerifC12Close(li)

	feed := func(s *bridgesync.BridgeSync, blocks []BBlock) (res []string) {
		for _, b := range blocks {
			blk := aggsync.Block{Num: b.Num, Hash: blockHash(b.Num)}
			for _, e := range b.Events {
				blk.Events = append(blk.Events, bridgesync.Event{Bridge: toBridge(b.Num, e)})
			}
			res = append(res, errClass(bridgesync.VerifProcessBlock(ctx, s, blk)))
		}
		return
	}
	out.ResL1B = feed(l1, in.L1B)
	out.ResL2B = feed(l2, in.L2B)
	for _, b := range in.L1I {
		blk := aggsync.Block{Num: b.Num, Hash: blockHash(b.Num)}
		for _, e := range b.Events {
			switch e.T {
			case "info":
				blk.Events = append(blk.Events, l1infotreesync.Event{UpdateL1InfoTree: &l1infotreesync.UpdateL1InfoTree{
					BlockPosition: e.Pos, MainnetExitRoot: common.HexToHash(e.MER), RollupExitRoot: common.HexToHash(e.RER),
					ParentHash: common.HexToHash(e.PH), Timestamp: e.TS}})
			case "vb":
				blk.Events = append(blk.Events, l1infotreesync.Event{VerifyBatches: &l1infotreesync.VerifyBatches{
					BlockPosition: e.Pos, RollupID: e.RID, NumBatch: e.Pos + 1, StateRoot: common.HexToHash(e.Exit),
					ExitRoot: common.HexToHash(e.Exit), Aggregator: common.HexToAddress("0xa99")}})
			default:
				panic("bad l1 info event kind " + e.T)
			}
		}
		out.ResL1I = append(out.ResL1I, errClass(l1infotreesync.VerifC12ProcessBlock(ctx, li, blk)))
	}

	svc := bridgeservice.New(&bridgeservice.Config{
		Logger: aggkitlog.WithFields("module", "verif-c12"), Address: "127.0.0.1:0",
		ReadTimeout: time.Minute, WriteTimeout: time.Minute, NetworkID: in.Net,
	}, li, fakeGERs{}, l1, l2)
	h := bridgeservice.VerifC12Handler(svc)
	for _, q := range append(allQueries(in), in.Extra...) {
		out.Qs = append(out.Qs, request(h, q))
	}
	return
}

func main() {
	f := hlib.ParseFlags()
	hlib.QuietLogs()
	os.Setenv("GIN_MODE", "release")
	var ins []In
	if f.Replay != "" {
		for _, raw := range hlib.ReadJSONL(f.Replay) {
			var in In
			if err := json.Unmarshal(raw, &in); err != nil {
				panic(err)
			}
			ins = append(ins, in)
		}
	} else {
		ins = generate(f)
	}
	dir, err := os.MkdirTemp("", "verif_c12_")
	if err != nil {
		panic(err)
	}
	defer os.RemoveAll(dir)
	w := hlib.NewWriter(f.Out)
	defer w.Close()
	for i, in := range ins {
		w.Emit(run(in, dir, i))
	}
}
