// C06 harness: the REAL reorgdetector.ReorgDetector (real SQLite file), the REAL sync.EVMDriver and the REAL
// sync.EVMDownloader against a scripted FORKING in-memory chain, with a recording processor (ProcessBlock appends
// (num, hash, events), Reorg truncates).
//
// Two streams.
//
//   - kind "lock" (model-vs-code AND property): the harness is the scheduler. The case is a script of events
//     w (the node moves: chain version / head / finalized answer), p (ONE block-tag query of the downloader and the rest
//     of that loop iteration), h / H (the driver takes one / every queued block), t (ONE detectReorgInTrackedList, called
//     through the hook VerifTick; Start is the real one with a one-hour ticker), r (stop + start: new detector on the same DB file, new
//     driver, new downloader; Start then Subscribe), m (stop inside handleNewBlock between AddBlockToTrack and ProcessBlock,
//     then start), n (ONE tick during which the node is KILLED while the subscriber is being notified of a reorg: the
//     driver has received the block number and is about to call processor.Reorg, the detector waits for ReorgProcessed;
//     the blocked goroutines are abandoned as a kill would, the DB handle is closed, and the node is started again on the
//     same DB file). The downloader's block-tag queries wait at a gate until the script grants them; a tap between the real
//     Download and the real driver holds the sent blocks until the script lets the driver take them. Nothing depends on
//     wall time; every goroutine hand-over (ReorgedBlock / ReorgProcessed, cancel, goto reset) is the real one, only
//     serialised. One exception is absorbed, not hidden: reorg_event has PRIMARY KEY (detected_at [seconds], subscriber,
//     from, to), so a second detection of the same range within the same wall-clock second fails before notifying; the
//     harness waits for the next second and calls the tick again (counted in pk_retries).
//
//   - kind "free" (property only, schedule-independent observables): real Start with a 1 ms ticker, no gate, no tap; world
//     changes are applied when the node has answered a given number of RPC calls; after the last change the harness waits
//     for quiescence and reports the final store, the Reorg calls and the final tracked set.
package main

import (
	"context"
	"database/sql"
	"encoding/binary"
	"encoding/json"
	"errors"
	"fmt"
	"math/big"
	"os"
	"path/filepath"
	"strings"
	gosync "sync"
	"sync/atomic"
	"time"

	cfgtypes "github.com/agglayer/aggkit/config/types"
	dbtypes "github.com/agglayer/aggkit/db/types"
	aggkitlog "github.com/agglayer/aggkit/log"
	"github.com/agglayer/aggkit/reorgdetector"
	aggsync "github.com/agglayer/aggkit/sync"
	aggkittypes "github.com/agglayer/aggkit/types"
	"github.com/ethereum/go-ethereum"
	"github.com/ethereum/go-ethereum/common"
	"github.com/ethereum/go-ethereum/core/types"
	_ "github.com/mattn/go-sqlite3"

	"verifharness/hlib"
)

// ---------------------------------------------------------------------------------------------
// case format

type LogIn struct {
	A int  `json:"a"` // address id
	T int  `json:"t"` // topic id
	R bool `json:"r"` // Removed flag
	D int  `json:"d"` // payload id (becomes the log index the appender stores)
}

type BlockIn struct {
	H    uint64  `json:"h"` // hash id: equal ids at the same height = same block
	Logs []LogIn `json:"logs"`
}

type WorldIn struct {
	V    int    `json:"v"`
	Head uint64 `json:"head"`
	Fin  uint64 `json:"fin"`
}

type EvIn struct {
	Op    string `json:"op"` // w p h H t r m n x
	V     int    `json:"v"`
	Head  uint64 `json:"head"`
	Fin   uint64 `json:"fin"`
	Err   bool   `json:"err"`   // p: the block-tag query fails; t: the finalized-tag query fails
	ErrAt int    `json:"errat"` // t: the errat-th numbered header query of the tick fails (0 = none)
	At    int    `json:"at"`    // free stream, w: applied when the node has answered this many RPC calls
}

type In struct {
	Kind     string      `json:"kind"` // lock | free
	Mode     string      `json:"mode"` // LF (downloader finalized type = finalized) | LS (= safe: every block is tracked) | SF (block finality safe, finalized type finalized)
	Chunk    uint64      `json:"chunk"`
	Buf      int         `json:"buf"`
	Addrs    []int       `json:"addrs"`
	Topics   []int       `json:"topics"`
	Versions [][]BlockIn `json:"versions"` // versions[i][k] = block k of chain version i
	W0       WorldIn     `json:"w0"`
	Script   []EvIn      `json:"script"`
	Quiet    bool        `json:"quiet"` // the generator's claim: the script ends with a long quiescent, fully finalized tail
	Tag      string      `json:"tag"`   // free text: what the generator put in (forks, restarts, ...)
}

type BlockOut struct {
	Num    uint64      `json:"num"`
	Hash   uint64      `json:"hash"` // hash id
	Events [][2]uint64 `json:"events"`
}

type OpOut struct {
	At     int         `json:"at"`   // index of the script event during which the processor was called
	Kind   string      `json:"kind"` // pb | rg
	Num    uint64      `json:"num"`  // block number / first reorged block
	Hash   uint64      `json:"hash"`
	Events [][2]uint64 `json:"events"`
}

type Out struct {
	In        In          `json:"in"`
	Ops       []OpOut     `json:"ops"`
	Store     []BlockOut  `json:"store"`
	LP        uint64      `json:"lp"`
	Rewinds   []uint64    `json:"rewinds"`
	Mem       [][2]uint64 `json:"mem"`   // final in-memory tracked headers (num, hash id), ascending
	Rows      [][2]uint64 `json:"rows"`  // final rows of tracked_block in rowid order
	Trace     [][4]uint64 `json:"trace"` // lock: after every event (len store, last processed, len tracked memory, queued blocks)
	Done      bool        `json:"done"`
	PKRetries int         `json:"pk_retries"`
	Kills     int         `json:"kills"` // op n: times the node was actually killed inside a reorg hand-over
	Note      string      `json:"note,omitempty"`
}

const unknownHash = uint64(1) << 62

func addrOf(i int) common.Address { return common.BigToAddress(big.NewInt(int64(0xA000 + i))) }
func topicOf(i int) common.Hash   { return common.BigToHash(big.NewInt(int64(0x7000 + i))) }

func normalise(in *In) {
	if in.Chunk == 0 {
		in.Chunk = 1
	}
	if in.Mode == "" {
		in.Mode = "LF"
	}
	if in.Kind == "" {
		in.Kind = "lock"
	}
	if in.Addrs == nil {
		in.Addrs = []int{}
	}
	if in.Topics == nil {
		in.Topics = []int{}
	}
	if in.Script == nil {
		in.Script = []EvIn{}
	}
	for i := range in.Versions {
		for k := range in.Versions[i] {
			if in.Versions[i][k].Logs == nil {
				in.Versions[i][k].Logs = []LogIn{}
			}
		}
	}
}

// ---------------------------------------------------------------------------------------------
// the world: what the node answers

type world struct {
	mu       gosync.Mutex
	in       *In
	cur      WorldIn
	byHash   map[common.Hash]uint64
	calls    int // RPC calls answered (free stream schedule)
	pending  []EvIn
	applied  int
	lastCall time.Time
}

func headerOf(k, hid uint64) *types.Header {
	extra := make([]byte, 8)
	binary.BigEndian.PutUint64(extra, hid)
	return &types.Header{Number: new(big.Int).SetUint64(k), Time: 1000 + k, Difficulty: big.NewInt(0), Extra: extra}
}

func newWorld(in *In) *world {
	w := &world{in: in, cur: in.W0, byHash: map[common.Hash]uint64{}}
	for _, v := range in.Versions {
		for k, b := range v {
			w.byHash[headerOf(uint64(k), b.H).Hash()] = b.H
		}
	}
	return w
}

func (w *world) hid(h common.Hash) uint64 {
	if id, ok := w.byHash[h]; ok {
		return id
	}
	return unknownHash
}

// block k of the current version (hash id 0 and no logs beyond the version's list); caller holds mu
func (w *world) block(k uint64) BlockIn {
	if w.cur.V >= 0 && w.cur.V < len(w.in.Versions) && k < uint64(len(w.in.Versions[w.cur.V])) {
		return w.in.Versions[w.cur.V][k]
	}
	return BlockIn{}
}

// free stream: a call is being answered; apply the world changes that are due. caller holds mu
func (w *world) tickCall() {
	w.calls++
	for w.applied < len(w.pending) && w.pending[w.applied].At <= w.calls {
		e := w.pending[w.applied]
		w.cur = WorldIn{V: e.V, Head: e.Head, Fin: e.Fin}
		w.applied++
	}
}

var errScripted = errors.New("scripted transient rpc error")

// numbered header and logs, shared by both clients; caller holds mu
func (w *world) numbered(n uint64) (*types.Header, error) {
	if n > w.cur.Head {
		return nil, ethereum.NotFound
	}
	return headerOf(n, w.block(n).H), nil
}

// ---------------------------------------------------------------------------------------------
// the downloader's RPC client

type permit struct{ err bool }

type waiter struct{ ctx context.Context }

type dlClient struct {
	aggkittypes.BaseEthereumClienter // nil: any other method panics
	w                                *world
	free                             bool
	finTag                           int64
	safeIsHead                       bool

	mu       gosync.Mutex
	waiters  map[*waiter]struct{}
	arrivals int
	permits  chan permit
}

func newDLClient(w *world, free bool) *dlClient {
	return &dlClient{w: w, free: free, waiters: map[*waiter]struct{}{}, permits: make(chan permit)}
}

func (c *dlClient) live() int {
	c.mu.Lock()
	defer c.mu.Unlock()
	n := 0
	for x := range c.waiters {
		if x.ctx.Err() == nil {
			n++
		}
	}
	return n
}

func (c *dlClient) arrived() int {
	c.mu.Lock()
	defer c.mu.Unlock()
	return c.arrivals
}

func (c *dlClient) tagAnswer(number *big.Int) (*types.Header, error) {
	n := c.w.cur.Head
	if number.Int64() != int64(aggkittypes.Latest) {
		n = c.w.cur.Fin
	}
	if c.safeIsHead && number.Int64() == int64(aggkittypes.Safe) { // mode SF: the syncer follows the safe block, which is the scripted head
		n = c.w.cur.Head
	}
	return headerOf(n, c.w.block(n).H), nil
}

func (c *dlClient) HeaderByNumber(ctx context.Context, number *big.Int) (*types.Header, error) {
	if ctx.Err() != nil {
		return nil, ctx.Err()
	}
	if number != nil && number.Sign() < 0 {
		if c.free {
			c.w.mu.Lock()
			defer c.w.mu.Unlock()
			c.w.tickCall()
			return c.tagAnswer(number)
		}
		// lock stream: wait for the script to grant this query
		x := &waiter{ctx: ctx}
		c.mu.Lock()
		c.waiters[x] = struct{}{}
		c.arrivals++
		c.mu.Unlock()
		defer func() {
			c.mu.Lock()
			delete(c.waiters, x)
			c.mu.Unlock()
		}()
		select {
		case <-ctx.Done():
			return nil, ctx.Err()
		case p := <-c.permits:
			if ctx.Err() != nil { // a cancelled download took the permit: hand it back
				go func() { c.permits <- p }()
				return nil, ctx.Err()
			}
			if p.err {
				return nil, errScripted
			}
			c.w.mu.Lock()
			defer c.w.mu.Unlock()
			return c.tagAnswer(number)
		}
	}
	c.w.mu.Lock()
	defer c.w.mu.Unlock()
	if c.free {
		c.w.tickCall()
	}
	var n uint64
	if number != nil {
		if !number.IsUint64() {
			return nil, ethereum.NotFound
		}
		n = number.Uint64()
	}
	return c.w.numbered(n)
}

func (c *dlClient) FilterLogs(ctx context.Context, q ethereum.FilterQuery) ([]types.Log, error) {
	if ctx.Err() != nil {
		return nil, ctx.Err()
	}
	c.w.mu.Lock()
	defer c.w.mu.Unlock()
	if c.free {
		c.w.tickCall()
	}
	from, to := q.FromBlock.Uint64(), q.ToBlock.Uint64()
	if to > c.w.cur.Head {
		to = c.w.cur.Head
	}
	logs := []types.Log{}
	for k := from; k <= to; k++ {
		b := c.w.block(k)
		bh := headerOf(k, b.H).Hash()
		for i, l := range b.Logs {
			a := addrOf(l.A)
			if len(q.Addresses) > 0 {
				ok := false
				for _, qa := range q.Addresses {
					if qa == a {
						ok = true
					}
				}
				if !ok {
					continue
				}
			}
			logs = append(logs, types.Log{Address: a, Topics: []common.Hash{topicOf(l.T)}, Data: []byte{byte(l.D)},
				BlockNumber: k, BlockHash: bh, Index: uint(l.D), TxIndex: uint(i), Removed: l.R})
		}
		if k == ^uint64(0) {
			break
		}
	}
	return logs, nil
}

func (c *dlClient) ChainID(ctx context.Context) (*big.Int, error) { return big.NewInt(1), nil }

// ---------------------------------------------------------------------------------------------
// the detector's RPC client (same world)

type rdClient struct {
	aggkittypes.BaseEthereumClienter
	w     *world
	free  bool
	mu    gosync.Mutex
	ferr  bool
	errAt int // countdown: the errAt-th numbered call fails
}

func (c *rdClient) arm(ferr bool, errAt int) {
	c.mu.Lock()
	c.ferr, c.errAt = ferr, errAt
	c.mu.Unlock()
}

func (c *rdClient) HeaderByNumber(ctx context.Context, number *big.Int) (*types.Header, error) {
	if ctx.Err() != nil {
		return nil, ctx.Err()
	}
	c.w.mu.Lock()
	defer c.w.mu.Unlock()
	if c.free {
		c.w.tickCall()
	}
	c.mu.Lock()
	defer c.mu.Unlock()
	if number != nil && number.Sign() < 0 {
		if c.ferr {
			return nil, errScripted
		}
		n := c.w.cur.Fin
		return headerOf(n, c.w.block(n).H), nil
	}
	if c.errAt > 0 {
		c.errAt--
		if c.errAt == 0 {
			return nil, errScripted
		}
	}
	return c.w.numbered(number.Uint64())
}

// ---------------------------------------------------------------------------------------------
// recording processor (the store): persists across restarts of the node

type evt struct{ blk, idx uint64 }

func eventsOf(evs []interface{}) [][2]uint64 {
	out := make([][2]uint64, 0, len(evs))
	for _, e := range evs {
		if v, ok := e.(evt); ok {
			out = append(out, [2]uint64{v.blk, v.idx})
		} else {
			out = append(out, [2]uint64{^uint64(0), ^uint64(0)})
		}
	}
	return out
}

type recProc struct {
	mu        gosync.Mutex
	w         *world
	blocks    []BlockOut
	ops       []OpOut
	rewinds   []uint64
	processed int
	at        int32 // current script event
	hangNext  bool
	hanging   chan struct{}
	onReorg   func() // witness op x: called inside Reorg, i.e. while the detector waits for ReorgProcessed
	killReorg chan struct{} // op n: the next Reorg call signals here and never returns (the node is being killed)
	// op g (graceful stop while a reorg is handed over): the first Reorg call signals gracefulReorg, then (like the next one)
	// waits for the shutdown signal and fails with ctx.Err() as an ExecContext on a cancelled context does; the third call
	// closes gracefulGone and never returns (the process has exited by then)
	gracefulReorg chan struct{}
	gracefulGone  chan struct{}
	gracefulCalls int
}

func (p *recProc) GetLastProcessedBlock(ctx context.Context) (uint64, error) {
	p.mu.Lock()
	defer p.mu.Unlock()
	return p.lpLocked(), nil
}
func (p *recProc) lpLocked() uint64 {
	if len(p.blocks) == 0 {
		return 0
	}
	return p.blocks[len(p.blocks)-1].Num
}
func (p *recProc) ProcessBlock(ctx context.Context, b aggsync.Block) error {
	p.mu.Lock()
	if p.hangNext {
		p.hangNext = false
		ch := p.hanging
		p.mu.Unlock()
		close(ch)
		<-ctx.Done()
		return ctx.Err()
	}
	defer p.mu.Unlock()
	bo := BlockOut{Num: b.Num, Hash: p.w.hid(b.Hash), Events: eventsOf(b.Events)}
	p.blocks = append(p.blocks, bo)
	p.ops = append(p.ops, OpOut{At: int(atomic.LoadInt32(&p.at)), Kind: "pb", Num: bo.Num, Hash: bo.Hash, Events: bo.Events})
	p.processed++
	return nil
}
func (p *recProc) Reorg(ctx context.Context, first uint64) error {
	p.mu.Lock()
	if ch := p.killReorg; ch != nil {
		p.killReorg = nil
		p.mu.Unlock()
		close(ch)
		select {} // killed before processor.Reorg did anything; this goroutine belongs to the dead incarnation
	}
	if ch := p.gracefulReorg; ch != nil {
		p.gracefulCalls++
		k := p.gracefulCalls
		gone := p.gracefulGone
		p.mu.Unlock()
		if k == 1 {
			close(ch)
		}
		if k <= 2 {
			<-ctx.Done()
			return ctx.Err()
		}
		if k == 3 {
			close(gone)
		}
		select {}
	}
	defer p.mu.Unlock()
	if p.onReorg != nil {
		p.onReorg()
		p.onReorg = nil
	}
	keep := p.blocks[:0:0]
	for _, b := range p.blocks {
		if b.Num < first {
			keep = append(keep, b)
		}
	}
	p.blocks = keep
	p.rewinds = append(p.rewinds, first)
	p.ops = append(p.ops, OpOut{At: int(atomic.LoadInt32(&p.at)), Kind: "rg", Num: first, Events: [][2]uint64{}})
	return nil
}
func (p *recProc) GetCompatibilityData(ctx context.Context, tx dbtypes.Querier) (bool, aggsync.RuntimeData, error) {
	return false, aggsync.RuntimeData{}, nil
}
func (p *recProc) SetCompatibilityData(ctx context.Context, tx dbtypes.Querier, data aggsync.RuntimeData) error {
	return nil
}
func (p *recProc) counts() (int, int) {
	p.mu.Lock()
	defer p.mu.Unlock()
	return p.processed, len(p.rewinds)
}

// ---------------------------------------------------------------------------------------------
// tap between the real Download and the real driver (lock stream): holds what was sent until the script releases it

type session struct {
	ctx   context.Context
	out   chan aggsync.EVMBlock
	mu    gosync.Mutex
	queue []aggsync.EVMBlock
	flush chan chan struct{}
	done  chan struct{}
}

type tap struct {
	d   *aggsync.EVMDownloader
	mu  gosync.Mutex
	cur *session
	all []*session
}

func (t *tap) RuntimeData(ctx context.Context) (aggsync.RuntimeData, error) { return t.d.RuntimeData(ctx) }
func (t *tap) Download(ctx context.Context, fromBlock uint64, downloadedCh chan aggsync.EVMBlock) {
	s := &session{ctx: ctx, out: downloadedCh, flush: make(chan chan struct{}), done: make(chan struct{})}
	t.mu.Lock()
	t.cur = s
	t.all = append(t.all, s)
	t.mu.Unlock()
	inner := make(chan aggsync.EVMBlock)
	go t.d.Download(ctx, fromBlock, inner)
	for {
		select {
		case b, ok := <-inner:
			if !ok {
				close(downloadedCh)
				close(s.done)
				return
			}
			s.mu.Lock()
			s.queue = append(s.queue, b)
			s.mu.Unlock()
		case ack := <-s.flush:
			close(ack)
		}
	}
}
func (t *tap) session() *session {
	t.mu.Lock()
	defer t.mu.Unlock()
	return t.cur
}

// ---------------------------------------------------------------------------------------------
// one node incarnation

const (
	subscriberID = "c06"
	stepTimeout  = 5 * time.Second
)

type node struct {
	ctx      context.Context
	cancel   context.CancelFunc
	rd       *reorgdetector.ReorgDetector
	tp       *tap
	syncDone chan struct{}
}

type runner struct {
	in     *In
	w      *world
	dlc    *dlClient
	rdc    *rdClient
	proc   *recProc
	dbPath string
	n      *node
	out    *Out
	free   bool
}

func (r *runner) fail(format string, a ...any) error {
	err := fmt.Errorf(format, a...)
	if r.out.Note == "" {
		r.out.Note = err.Error()
	}
	return err
}

func waitFor(cond func() bool, d time.Duration) bool {
	deadline := time.Now().Add(d)
	for !cond() {
		if time.Now().After(deadline) {
			return false
		}
		time.Sleep(30 * time.Microsecond)
	}
	return true
}

func (r *runner) start() error {
	ctx, cancel := context.WithCancel(context.Background())
	interval := time.Hour
	if r.free {
		interval = time.Millisecond
	}
	rd, err := reorgdetector.New(r.rdc, reorgdetector.Config{DBPath: r.dbPath,
		CheckReorgsInterval: cfgtypes.Duration{Duration: interval}, FinalizedBlock: aggkittypes.FinalizedBlock}, reorgdetector.L1)
	if err != nil {
		cancel()
		return r.fail("reorgdetector.New: %v", err)
	}
	// real start order: Start (loadTrackedHeaders + ticker goroutine), then the syncer subscribes
	if err := rd.Start(ctx); err != nil {
		cancel()
		return r.fail("Start: %v", err)
	}
	rh := &aggsync.RetryHandler{RetryAfterErrorPeriod: 50 * time.Microsecond, MaxRetryAttemptsAfterError: -1}
	appender := aggsync.LogAppenderMap{}
	for _, t := range r.in.Topics {
		appender[topicOf(t)] = func(b *aggsync.EVMBlock, l types.Log) error {
			b.Events = append(b.Events, evt{l.BlockNumber, uint64(l.Index)})
			return nil
		}
	}
	addrs := make([]common.Address, 0, len(r.in.Addrs))
	for _, a := range r.in.Addrs {
		addrs = append(addrs, addrOf(a))
	}
	finType := aggkittypes.FinalizedBlock
	if r.in.Mode == "LS" {
		finType = aggkittypes.SafeBlock
	}
	blockFinality := aggkittypes.LatestBlock
	if r.in.Mode == "SF" { // the syncer follows the SAFE block (the scripted head) with finalized type Finalized: the constructor clamps the finalized type to Safe, so every block is tracked as in LS
		blockFinality = aggkittypes.SafeBlock
		r.dlc.safeIsHead = true
	}
	wait := time.Millisecond
	if r.free {
		wait = 2 * time.Millisecond
	}
	d, err := aggsync.NewEVMDownloader(subscriberID, r.dlc, r.in.Chunk, blockFinality, wait, appender, addrs, rh, finType)
	if err != nil {
		cancel()
		return r.fail("NewEVMDownloader: %v", err)
	}
	n := &node{ctx: ctx, cancel: cancel, rd: rd, syncDone: make(chan struct{})}
	var dl aggsync.Downloader = d
	if !r.free {
		n.tp = &tap{d: d}
		dl = n.tp
	}
	drv, err := aggsync.NewEVMDriver(rd, r.proc, dl, subscriberID, r.in.Buf, rh, false)
	if err != nil {
		cancel()
		return r.fail("NewEVMDriver: %v", err)
	}
	go func() { drv.Sync(ctx); close(n.syncDone) }()
	r.n = n
	if !r.free {
		if !waitFor(func() bool { return r.dlc.live() == 1 }, stepTimeout) {
			return r.fail("timeout: the downloader did not reach its first block-tag query")
		}
	}
	return nil
}

func (r *runner) stop() error {
	n := r.n
	if n == nil {
		return nil
	}
	n.cancel()
	select {
	case <-n.syncDone:
	case <-time.After(stepTimeout):
		return r.fail("timeout: Sync did not return after cancel")
	}
	if n.tp != nil {
		n.tp.mu.Lock()
		all := append([]*session(nil), n.tp.all...)
		n.tp.mu.Unlock()
		for _, s := range all {
			select {
			case <-s.done:
			case <-time.After(stepTimeout):
				return r.fail("timeout: a Download goroutine did not stop after cancel")
			}
		}
	}
	r.n = nil
	return n.rd.VerifClose()
}

func (r *runner) parked() bool { return r.dlc.live() == 1 }

// flush: every block the downloader has sent is in the session's queue
func (r *runner) flush() error {
	s := r.n.tp.session()
	if s == nil {
		return r.fail("no download session")
	}
	ack := make(chan struct{})
	select {
	case s.flush <- ack:
		<-ack
		return nil
	case <-s.done:
		return nil
	case <-time.After(stepTimeout):
		return r.fail("timeout: tap not reachable")
	}
}

func (r *runner) poll(err bool) error {
	if !waitFor(r.parked, stepTimeout) {
		return r.fail("timeout: no downloader waiting at a block-tag query")
	}
	a0 := r.dlc.arrived()
	select {
	case r.dlc.permits <- permit{err: err}:
	case <-time.After(stepTimeout):
		return r.fail("timeout: permit not taken")
	}
	if !waitFor(func() bool { return r.dlc.arrived() > a0 && r.parked() }, stepTimeout) {
		return r.fail("timeout: the downloader did not come back to a block-tag query (stuck in a retry loop?)")
	}
	return r.flush()
}

func (r *runner) queued() int {
	if r.n == nil || r.n.tp == nil {
		return 0
	}
	s := r.n.tp.session()
	if s == nil {
		return 0
	}
	s.mu.Lock()
	defer s.mu.Unlock()
	return len(s.queue)
}

// handle: the driver takes the oldest queued block
func (r *runner) handle() (bool, error) {
	s := r.n.tp.session()
	s.mu.Lock()
	if len(s.queue) == 0 {
		s.mu.Unlock()
		return false, nil
	}
	b := s.queue[0]
	s.queue = s.queue[1:]
	s.mu.Unlock()
	p0, _ := r.proc.counts()
	select {
	case s.out <- b:
	case <-time.After(stepTimeout):
		return true, r.fail("timeout: the driver did not take the block")
	}
	if !waitFor(func() bool { p, _ := r.proc.counts(); return p > p0 }, stepTimeout) {
		return true, r.fail("timeout: the driver did not process the block")
	}
	return true, nil
}

func (r *runner) tick(ferr bool, errAt int) error {
	for attempt := 0; ; attempt++ {
		r.rdc.arm(ferr, errAt)
		err := r.n.rd.VerifTick(r.n.ctx)
		if err != nil && strings.Contains(err.Error(), "failed to insert reorg event") && attempt < 3 {
			// (detected_at seconds, subscriber, from, to) already present: the real detector would succeed on a later tick
			r.out.PKRetries++
			now := time.Now()
			time.Sleep(now.Truncate(time.Second).Add(time.Second + 15*time.Millisecond).Sub(now))
			errAt = 0
			continue
		}
		break
	}
	// after a reorg the driver has cancelled the old download and started a new one
	if !waitFor(r.parked, stepTimeout) {
		return r.fail("timeout: no downloader waiting after the tick")
	}
	return nil
}

func (r *runner) crashMid() error {
	s := r.n.tp.session()
	s.mu.Lock()
	if len(s.queue) == 0 {
		s.mu.Unlock()
		return nil
	}
	b := s.queue[0]
	s.queue = s.queue[1:]
	s.mu.Unlock()
	r.proc.mu.Lock()
	r.proc.hangNext = true
	r.proc.hanging = make(chan struct{})
	hanging := r.proc.hanging
	r.proc.mu.Unlock()
	select {
	case s.out <- b:
	case <-time.After(stepTimeout):
		return r.fail("timeout: the driver did not take the block")
	}
	select {
	case <-hanging: // AddBlockToTrack is done, ProcessBlock has been entered
	case <-time.After(stepTimeout):
		return r.fail("timeout: ProcessBlock not reached")
	}
	return nil
}

// raceTick (op x, witness only, never generated): ONE detector tick during which the detector's DELETE of the reorged
// range is held up (another connection holds the SQLite write lock from inside processor.Reorg until released), while the
// driver, which has already answered ReorgProcessed, restarts the download (e.Head polls are granted), takes one block and
// calls AddBlockToTrack for it. Then the lock is released. This is a legal schedule of the real goroutines (the detector
// is merely slow between `<-sub.ReorgProcessed` and removeTrackedBlockRange).
func (r *runner) raceTick(polls int) error {
	lockDB, err := sql.Open("sqlite3", "file:"+r.dbPath+"?_txlock=immediate&_busy_timeout=10000&_journal_mode=WAL")
	if err != nil {
		return r.fail("lock connection: %v", err)
	}
	defer lockDB.Close()
	var tx *sql.Tx
	locked := make(chan error, 1)
	r.proc.mu.Lock()
	r.proc.onReorg = func() {
		var e error
		tx, e = lockDB.Begin()
		locked <- e
	}
	r.proc.mu.Unlock()
	_, rw0 := r.proc.counts()
	a0 := r.dlc.arrived()
	done := make(chan error, 1)
	r.rdc.arm(false, 0)
	go func() { done <- r.n.rd.VerifTick(r.n.ctx) }()
	select {
	case <-done: // no reorg was notified: an ordinary tick
		r.proc.mu.Lock()
		r.proc.onReorg = nil
		r.proc.mu.Unlock()
		if !waitFor(r.parked, stepTimeout) {
			return r.fail("timeout: no downloader waiting after the tick")
		}
		return nil
	case e := <-locked:
		if e != nil {
			return r.fail("lock: %v", e)
		}
	case <-time.After(stepTimeout):
		return r.fail("timeout: tick neither finished nor notified")
	}
	release := func() {
		if tx != nil {
			_ = tx.Rollback()
			tx = nil
		}
	}
	defer release()
	// the driver has run processor.Reorg; it answers ReorgProcessed and restarts; the detector is stuck in its DELETE
	if !waitFor(func() bool { _, rw := r.proc.counts(); return rw > rw0 && r.dlc.arrived() > a0 && r.parked() }, stepTimeout) {
		return r.fail("timeout: the driver did not restart the download")
	}
	for i := 0; i < polls; i++ {
		if err := r.poll(false); err != nil {
			return err
		}
	}
	// one block to the driver: AddBlockToTrack updates the memory map, then waits for the DB like the detector does
	s := r.n.tp.session()
	s.mu.Lock()
	if len(s.queue) > 0 {
		b := s.queue[0]
		s.queue = s.queue[1:]
		s.mu.Unlock()
		p0, _ := r.proc.counts()
		select {
		case s.out <- b:
		case <-time.After(stepTimeout):
			return r.fail("timeout: the driver did not take the block")
		}
		if !b.IsFinalizedBlock {
			if !waitFor(func() bool {
				nums, _, _ := r.n.rd.VerifTracked(subscriberID)
				for _, n := range nums {
					if n == b.Num {
						return true
					}
				}
				return false
			}, stepTimeout) {
				return r.fail("timeout: AddBlockToTrack did not reach the memory map")
			}
		}
		release()
		if !waitFor(func() bool { p, _ := r.proc.counts(); return p > p0 }, stepTimeout) {
			return r.fail("timeout: the driver did not process the block")
		}
	} else {
		s.mu.Unlock()
		release()
	}
	select {
	case <-done:
	case <-time.After(stepTimeout):
		return r.fail("timeout: the tick did not return after the lock was released")
	}
	return nil
}

// kill: the incarnation dies with goroutines blocked (driver inside processor.Reorg, detector inside notifySubscriber);
// they are abandoned, the download is cancelled, the DB handle is closed
func (r *runner) kill() error {
	n := r.n
	n.cancel()
	if n.tp != nil {
		n.tp.mu.Lock()
		all := append([]*session(nil), n.tp.all...)
		n.tp.mu.Unlock()
		for _, s := range all {
			select {
			case <-s.done:
			case <-time.After(stepTimeout):
				return r.fail("timeout: a Download goroutine did not stop after the kill")
			}
		}
	}
	r.n = nil
	return n.rd.VerifClose()
}

// crashNotify (op n): one tick; if it notifies a reorg the node is killed before processor.Reorg runs, otherwise the
// tick completes and the node is stopped normally; then a start
//
// graceful (op g): instead of a kill, the shutdown signal (cancellation of the node's context) arrives when processor.Reorg
// has been entered; Reorg then fails with the context's error. The node is given the time to do whatever it does on that
// path: the harness waits until either the tick has returned (the subscriber acknowledged the reorg) or the driver is in
// its third Reorg attempt (it did not), and only then abandons the incarnation and starts a new one.
func (r *runner) crashNotify(ferr bool, errAt int, graceful bool) error {
	for attempt := 0; ; attempt++ {
		entered := make(chan struct{})
		gone := make(chan struct{})
		r.proc.mu.Lock()
		if graceful {
			r.proc.gracefulReorg, r.proc.gracefulGone, r.proc.gracefulCalls = entered, gone, 0
		} else {
			r.proc.killReorg = entered
		}
		r.proc.mu.Unlock()
		r.rdc.arm(ferr, errAt)
		done := make(chan error, 1)
		n := r.n
		go func() { done <- n.rd.VerifTick(n.ctx) }()
		select {
		case <-entered:
			r.out.Kills++
			if graceful {
				n.cancel() // the shutdown signal
				select {
				case <-done: // the subscriber acknowledged: the detector went on (and deleted what it deletes after an acknowledgement)
				case <-gone: // the driver kept retrying: no acknowledgement; the process is gone
				case <-time.After(stepTimeout):
					return r.fail("timeout: graceful stop during the reorg hand-over neither acknowledged nor kept retrying")
				}
			}
			err := r.kill()
			r.proc.mu.Lock()
			r.proc.gracefulReorg, r.proc.gracefulGone = nil, nil
			r.proc.mu.Unlock()
			if err != nil {
				return err
			}
			return r.start()
		case err := <-done:
			r.proc.mu.Lock()
			r.proc.killReorg, r.proc.gracefulReorg, r.proc.gracefulGone = nil, nil, nil
			r.proc.mu.Unlock()
			if err != nil && strings.Contains(err.Error(), "failed to insert reorg event") && attempt < 3 {
				r.out.PKRetries++
				now := time.Now()
				time.Sleep(now.Truncate(time.Second).Add(time.Second + 15*time.Millisecond).Sub(now))
				errAt = 0
				continue
			}
			if !waitFor(r.parked, stepTimeout) {
				return r.fail("timeout: no downloader waiting after the tick")
			}
			if err := r.stop(); err != nil {
				return err
			}
			return r.start()
		case <-time.After(stepTimeout):
			return r.fail("timeout: tick neither finished nor notified")
		}
	}
}

func (r *runner) snapshot() error {
	nums, hashes, _ := r.n.rd.VerifTracked(subscriberID)
	r.out.Mem = [][2]uint64{}
	for i := range nums {
		r.out.Mem = append(r.out.Mem, [2]uint64{nums[i], r.w.hid(hashes[i])})
	}
	rn, rh, err := r.n.rd.VerifTrackedRows(subscriberID)
	if err != nil {
		return r.fail("tracked rows: %v", err)
	}
	r.out.Rows = [][2]uint64{}
	for i := range rn {
		r.out.Rows = append(r.out.Rows, [2]uint64{rn[i], r.w.hid(rh[i])})
	}
	return nil
}

func (r *runner) tracePoint() {
	nums, _, _ := r.n.rd.VerifTracked(subscriberID)
	r.proc.mu.Lock()
	ls, lp := len(r.proc.blocks), r.proc.lpLocked()
	r.proc.mu.Unlock()
	r.out.Trace = append(r.out.Trace, [4]uint64{uint64(ls), lp, uint64(len(nums)), uint64(r.queued())})
}

func (r *runner) runLock() error {
	if err := r.start(); err != nil {
		return err
	}
	for i, e := range r.in.Script {
		atomic.StoreInt32(&r.proc.at, int32(i))
		var err error
		switch e.Op {
		case "w":
			r.w.mu.Lock()
			r.w.cur = WorldIn{V: e.V, Head: e.Head, Fin: e.Fin}
			r.w.mu.Unlock()
		case "p":
			err = r.poll(e.Err)
		case "h":
			_, err = r.handle()
		case "H":
			for err == nil {
				var more bool
				more, err = r.handle()
				if !more {
					break
				}
			}
		case "t":
			err = r.tick(e.Err, e.ErrAt)
		case "r":
			if err = r.stop(); err == nil {
				err = r.start()
			}
		case "n":
			err = r.crashNotify(e.Err, e.ErrAt, false)
		case "g":
			err = r.crashNotify(e.Err, e.ErrAt, true)
		case "x":
			err = r.raceTick(int(e.Head))
		case "m":
			if err = r.crashMid(); err == nil {
				if err = r.stop(); err == nil {
					err = r.start()
				}
			}
		default:
			err = r.fail("unknown op %q", e.Op)
		}
		if err != nil {
			return err
		}
		r.tracePoint()
	}
	return r.snapshot()
}

func (r *runner) runFree() error {
	for _, e := range r.in.Script {
		if e.Op == "w" {
			r.w.pending = append(r.w.pending, e)
		}
	}
	if err := r.start(); err != nil {
		return err
	}
	// quiescence: every scheduled change applied, the store has reached the final head, nothing tracked any more
	ok := waitFor(func() bool {
		r.w.mu.Lock()
		applied, head := r.w.applied == len(r.w.pending), r.w.cur.Head
		r.w.mu.Unlock()
		if !applied {
			return false
		}
		r.proc.mu.Lock()
		lp := r.proc.lpLocked()
		r.proc.mu.Unlock()
		nums, _, _ := r.n.rd.VerifTracked(subscriberID)
		return lp == head && len(nums) == 0
	}, 6*time.Second)
	if !ok {
		r.out.Note = "timeout: no quiescence (last processed block != head or blocks still tracked)"
	}
	// let two more ticker periods pass so that a late detection would still be seen
	time.Sleep(5 * time.Millisecond)
	r.n.cancel()
	select {
	case <-r.n.syncDone:
	case <-time.After(stepTimeout):
		return r.fail("timeout: Sync did not return after cancel")
	}
	if err := r.snapshot(); err != nil {
		return err
	}
	if !ok {
		return errors.New(r.out.Note)
	}
	return nil
}

func runCase(in In, tmp string, idx int) Out {
	normalise(&in)
	o := Out{In: in, Ops: []OpOut{}, Store: []BlockOut{}, Rewinds: []uint64{}, Mem: [][2]uint64{}, Rows: [][2]uint64{}, Trace: [][4]uint64{}}
	w := newWorld(&o.In)
	free := in.Kind == "free"
	r := &runner{in: &o.In, w: w, dlc: newDLClient(w, free), rdc: &rdClient{w: w, free: free}, proc: &recProc{w: w},
		dbPath: filepath.Join(tmp, fmt.Sprintf("rd_%d.sqlite", idx)), out: &o, free: free}
	var err error
	if free {
		err = r.runFree()
	} else {
		err = r.runLock()
	}
	if r.n != nil {
		r.n.cancel()
		select {
		case <-r.n.syncDone:
		case <-time.After(time.Second):
		}
		_ = r.n.rd.VerifClose()
	}
	for _, sfx := range []string{"", "-wal", "-shm"} {
		os.Remove(r.dbPath + sfx)
	}
	r.proc.mu.Lock()
	o.Ops = append(o.Ops, r.proc.ops...)
	o.Store = append(o.Store, r.proc.blocks...)
	o.LP = r.proc.lpLocked()
	o.Rewinds = append(o.Rewinds, r.proc.rewinds...)
	r.proc.mu.Unlock()
	o.Done = err == nil
	return o
}

// ---------------------------------------------------------------------------------------------
// generators

const maxLen = 64 // every version is generated up to this height; the head reveals it progressively

type gen struct {
	rng      *hlib.Rng
	nextHID  uint64
	nextD    int
	versions [][]BlockIn
}

func (g *gen) freshLogs(density int) []LogIn {
	logs := []LogIn{}
	if g.rng.Intn(100) < density {
		n := 1 + g.rng.Intn(3)
		for i := 0; i < n; i++ {
			g.nextD++
			logs = append(logs, LogIn{A: hlib.Pick(g.rng, 1, 1, 1, 2, 3), T: hlib.Pick(g.rng, 1, 1, 1, 2, 3), R: g.rng.Intn(12) == 0, D: g.nextD % 250})
		}
	}
	return logs
}

func (g *gen) freshBlock(density int) BlockIn {
	g.nextHID++
	return BlockIn{H: g.nextHID, Logs: g.freshLogs(density)}
}

func (g *gen) newChain(density int) int {
	v := make([]BlockIn, maxLen)
	for k := range v {
		v[k] = g.freshBlock(density)
	}
	v[0].Logs = []LogIn{}
	g.versions = append(g.versions, v)
	return len(g.versions) - 1
}

// fork of version `from` at height f: blocks below f shared, blocks from f on new; the logs of the replaced blocks up to
// `upto` are kept in place, moved to another height, or dropped; new logs are added
func (g *gen) fork(from int, f, upto uint64, density int) int {
	old := g.versions[from]
	v := make([]BlockIn, maxLen)
	copy(v, old[:f])
	for k := f; k < maxLen; k++ {
		g.nextHID++
		v[k] = BlockIn{H: g.nextHID, Logs: []LogIn{}}
	}
	style := g.rng.Intn(4) // 0: same events, new hashes; 1: moved; 2: mostly dropped; 3: mixed + added
	for k := f; k < maxLen; k++ {
		if k <= upto {
			for _, l := range old[k].Logs {
				switch {
				case style == 0:
					v[k].Logs = append(v[k].Logs, l)
				case style == 1 || (style == 3 && g.rng.Intn(2) == 0):
					span := upto - f + 2
					t := f + uint64(g.rng.Intn(int(span)))
					v[t].Logs = append(v[t].Logs, l)
				case style == 2 && g.rng.Intn(4) != 0:
					// dropped
				default:
					v[k].Logs = append(v[k].Logs, l)
				}
			}
			if style == 3 {
				v[k].Logs = append(v[k].Logs, g.freshLogs(density/2)...)
			}
		} else {
			v[k].Logs = g.freshLogs(density)
		}
	}
	g.versions = append(g.versions, v)
	return len(g.versions) - 1
}

func agreeUpTo(a, b []BlockIn, n uint64) bool {
	for k := uint64(0); k <= n && k < maxLen; k++ {
		if a[k].H != b[k].H {
			return false
		}
	}
	return true
}

type lockOpts struct {
	restarts bool
	mid      bool
	errs     bool
	small    bool
}

func genLock(rng *hlib.Rng, o lockOpts) In {
	g := &gen{rng: rng}
	density := hlib.Pick(rng, 15, 35, 60, 90)
	in := In{Kind: "lock", Mode: hlib.Pick(rng, "LF", "LF", "LF", "LF", "LS"), Chunk: hlib.Pick(rng, uint64(1), 2, 3, 5, 100),
		Buf: hlib.Pick(rng, 0, 1, 3, 100), Addrs: hlib.Pick(rng, []int{1, 2}, []int{1, 2}, []int{1}, []int{}),
		Topics: hlib.Pick(rng, []int{1, 2}, []int{1, 2}, []int{1})}
	cur := g.newChain(density)
	head := uint64(2 + rng.Intn(8))
	lag := uint64(hlib.Pick(rng, 1, 2, 4, 8))
	fin := uint64(0)
	if head > lag {
		fin = head - lag
	}
	final := fin // highest finalized answer so far
	in.W0 = WorldIn{V: cur, Head: head, Fin: fin}
	maxHead := head
	steps := 30 + rng.Intn(70)
	if o.small {
		steps = 10 + rng.Intn(20)
	}
	nfork, nrestart, nmid, nback, nnotify := 0, 0, 0, 0, 0
	var script []EvIn
	emitW := func() {
		script = append(script, EvIn{Op: "w", V: cur, Head: head, Fin: fin})
		if head > maxHead {
			maxHead = head
		}
		if fin > final {
			final = fin
		}
	}
	for i := 0; i < steps; i++ {
		x := rng.Intn(100)
		switch {
		case x < 14: // the chain grows, finality follows
			if head+3 < maxLen-8 {
				head += uint64(1 + rng.Intn(3))
			}
			if head > lag && head-lag > fin && rng.Intn(3) != 0 {
				fin = head - lag
				if rng.Intn(3) == 0 && fin > final+1 { // the finalized answer moves in several steps
					fin = final + 1 + uint64(rng.Intn(int(fin-final)))
				}
			}
			emitW()
		case x < 24: // reorg: fork above everything the node ever called finalized
			if head <= final {
				continue
			}
			f := final + 1 + uint64(rng.Intn(int(head-final)))
			y := rng.Intn(10)
			switch {
			case y < 2 && len(g.versions) > 1: // back to an earlier version (A -> B -> A)
				cand := rng.Intn(len(g.versions))
				if cand != cur && agreeUpTo(g.versions[cand], g.versions[cur], final) {
					cur = cand
					nback++
				} else {
					cur = g.fork(cur, f, head, density)
				}
			default:
				cur = g.fork(cur, f, head, density)
			}
			nfork++
			// new head: shorter, equal or longer than before, never below the fork point or the finalized block
			switch rng.Intn(4) {
			case 0:
				head = f + uint64(rng.Intn(int(head-f)+1))
			case 1:
				// same height
			default:
				if head+2 < maxLen-8 {
					head += uint64(rng.Intn(3))
				}
			}
			if fin > head {
				fin = head
			}
			emitW()
		case x < 58:
			script = append(script, EvIn{Op: "p", Err: o.errs && rng.Intn(6) == 0})
		case x < 78:
			script = append(script, EvIn{Op: hlib.Pick(rng, "h", "h", "H")})
		case x < 94:
			e := EvIn{Op: "t"}
			if o.errs && rng.Intn(5) == 0 {
				if rng.Bool() {
					e.Err = true
				} else {
					e.ErrAt = 1 + rng.Intn(3)
				}
			}
			script = append(script, e)
		default:
			if o.restarts {
				if o.mid && rng.Intn(3) == 0 {
					script = append(script, EvIn{Op: "m"})
					nmid++
				} else if rng.Intn(3) == 0 { // stopped while a reorg is being handed over (if the tick finds one)
					if head > final && rng.Intn(3) != 0 {
						// make it likely that there is one: everything queued is processed, then a fork right above the
						// finalized block
						script = append(script, EvIn{Op: "H"})
						cur = g.fork(cur, final+1, head, density)
						nfork++
						emitW()
					}
					script = append(script, EvIn{Op: hlib.Pick(rng, "n", "g")})
					nnotify++
				} else {
					script = append(script, EvIn{Op: "r"})
					nrestart++
				}
			} else {
				script = append(script, EvIn{Op: "p"})
			}
		}
	}
	// quiescent tail: same version from here on, the chain only grows and becomes final; generous number of polls
	if o.restarts && rng.Intn(3) == 0 {
		script = append(script, EvIn{Op: "r"})
		nrestart++
	}
	head = maxHead
	for j := 0; j < 3; j++ {
		head++
		fin = head
		emitW()
		script = append(script, EvIn{Op: "t"})
		k := 2*int(head)/int(in.Chunk+1) + 8
		for i := 0; i < k; i++ {
			script = append(script, EvIn{Op: "p"}, EvIn{Op: "H"})
		}
	}
	script = append(script, EvIn{Op: "t"}, EvIn{Op: "t"})
	in.Script = script
	in.Versions = g.versions
	in.Quiet = true
	in.Tag = fmt.Sprintf("forks=%d back=%d restarts=%d mid=%d notify=%d", nfork, nback, nrestart, nmid, nnotify)
	return in
}

// free stream: a few world changes at RPC-call counts, the last one final
func genFree(rng *hlib.Rng) In {
	g := &gen{rng: rng}
	density := hlib.Pick(rng, 35, 60, 90)
	in := In{Kind: "free", Mode: hlib.Pick(rng, "LF", "LF", "LS"), Chunk: hlib.Pick(rng, uint64(1), 2, 3, 100), Buf: hlib.Pick(rng, 0, 1, 100),
		Addrs: []int{1, 2}, Topics: []int{1, 2}}
	cur := g.newChain(density)
	head := uint64(4 + rng.Intn(8))
	fin := uint64(rng.Intn(3))
	in.W0 = WorldIn{V: cur, Head: head, Fin: fin}
	final := fin
	at := 0
	n := 1 + rng.Intn(4)
	nfork := 0
	for i := 0; i < n; i++ {
		at += 15 + rng.Intn(120)
		if rng.Intn(4) != 0 && head > final {
			f := final + 1 + uint64(rng.Intn(int(head-final)))
			cur = g.fork(cur, f, head, density)
			nfork++
			if rng.Intn(3) == 0 {
				head = f + uint64(rng.Intn(int(head-f)+1))
			} else {
				head += uint64(rng.Intn(3))
			}
		} else {
			head += uint64(1 + rng.Intn(3))
		}
		if rng.Bool() && head > 2 {
			nf := head - 2
			if nf > final {
				final = nf
			}
		}
		fin = final
		if fin > head {
			fin = head
		}
		in.Script = append(in.Script, EvIn{Op: "w", V: cur, Head: head, Fin: fin, At: at})
	}
	// final state: the chain has grown past everything seen and is final
	at += 40 + rng.Intn(60)
	mh := in.W0.Head
	for _, e := range in.Script {
		if e.Head > mh {
			mh = e.Head
		}
	}
	in.Script = append(in.Script, EvIn{Op: "w", V: cur, Head: mh + 2, Fin: mh + 2, At: at})
	in.Versions = g.versions
	in.Quiet = true
	in.Tag = fmt.Sprintf("forks=%d", nfork)
	return in
}

// fixed boundary cases, run first
func boundary() []In {
	mk := func(h uint64, logs ...LogIn) BlockIn {
		if logs == nil {
			logs = []LogIn{}
		}
		return BlockIn{H: h, Logs: logs}
	}
	ev := func(d int) LogIn { return LogIn{A: 1, T: 1, D: d} }
	chainA := []BlockIn{mk(1), mk(2, ev(1)), mk(3), mk(4, ev(2)), mk(5, ev(3)), mk(6), mk(7, ev(4)), mk(8), mk(9), mk(10), mk(11), mk(12)}
	// fork at 4: the event of block 4 moves to block 5, block 5's event is dropped, block 6 gets a new one
	chainB := []BlockIn{mk(1), mk(2, ev(1)), mk(3), mk(24, ev(5)), mk(25, ev(2)), mk(26, ev(6)), mk(27), mk(28), mk(29), mk(30), mk(31), mk(32)}
	tail := func(v int, h uint64) []EvIn {
		var s []EvIn
		for j := uint64(1); j <= 3; j++ {
			s = append(s, EvIn{Op: "w", V: v, Head: h + j, Fin: h + j}, EvIn{Op: "t"})
			for i := 0; i < 10; i++ {
				s = append(s, EvIn{Op: "p"}, EvIn{Op: "H"})
			}
		}
		return append(s, EvIn{Op: "t"}, EvIn{Op: "t"})
	}
	p, H, t := EvIn{Op: "p"}, EvIn{Op: "H"}, EvIn{Op: "t"}
	base := In{Kind: "lock", Mode: "LF", Chunk: 100, Buf: 3, Addrs: []int{1}, Topics: []int{1}, Versions: [][]BlockIn{chainA, chainB},
		W0: WorldIn{V: 0, Head: 6, Fin: 2}, Quiet: true}
	var ins []In
	add := func(tag string, script []EvIn, h uint64, v int) {
		c := base
		c.Tag = tag
		c.Script = append(append([]EvIn{}, script...), tail(v, h)...)
		ins = append(ins, c)
	}
	// 1. no reorg at all: never rewound
	add("b:no-reorg", []EvIn{p, p, H, t, p, H, t}, 6, 0)
	// 2. reorg of processed blocks 4 and 5, detected by the next tick
	add("b:reorg-processed", []EvIn{p, p, H, {Op: "w", V: 1, Head: 6, Fin: 2}, t, p, p, H}, 6, 1)
	// 3. reorg while the blocks sit in the channel (downloaded, not handled)
	add("b:reorg-in-channel", []EvIn{p, p, {Op: "w", V: 1, Head: 6, Fin: 2}, H, t, p, p, H}, 6, 1)
	// 4. reorg of blocks not yet downloaded: nothing processed was replaced
	add("b:reorg-unseen", []EvIn{{Op: "w", V: 1, Head: 6, Fin: 2}, p, p, H, t}, 6, 1)
	// 5. node stopped, reorg while down, restarted
	add("b:reorg-while-down", []EvIn{p, p, H, {Op: "r"}, {Op: "w", V: 1, Head: 7, Fin: 2}, p, t, p, p, H}, 7, 1)
	// 6. two successive reorgs, back to the first chain
	add("b:A-B-A", []EvIn{p, p, H, {Op: "w", V: 1, Head: 6, Fin: 2}, t, p, p, H, {Op: "w", V: 0, Head: 7, Fin: 2}, t, p, p, H}, 7, 0)
	// 7. shorter fork: the new chain ends below what was processed
	add("b:shorter", []EvIn{p, p, H, {Op: "w", V: 1, Head: 4, Fin: 2}, p, t, p, p, H}, 6, 1)
	// 8. RPC failures inside the tick
	add("b:tick-errors", []EvIn{p, p, H, {Op: "w", V: 1, Head: 6, Fin: 3}, {Op: "t", Err: true}, {Op: "t", ErrAt: 1}, {Op: "t", ErrAt: 2}, t}, 6, 1)
	// 9. stop between AddBlockToTrack(3, hash on A) and ProcessBlock; the node comes back on fork B where block 3 also has
	//    events: block 3 is delivered again with another hash, the memory entry is overwritten, tracked_block holds two
	//    rows for block 3; no rewind may follow
	add("b:mid-redeliver", []EvIn{p, p, {Op: "h"}, {Op: "m"}, {Op: "w", V: 1, Head: 6, Fin: 2}, p, p, H, t}, 6, 1)
	// 10. the same, then stop + start: loadTrackedHeaders must let the later row win
	add("b:mid-redeliver-restart", []EvIn{p, p, {Op: "h"}, {Op: "m"}, {Op: "w", V: 1, Head: 6, Fin: 2}, p, p, H, {Op: "r"}, t, p}, 6, 1)
	// 11. the node is killed while the reorg of processed blocks 3, 4, 6 is being handed over (mismatch found, subscriber
	//     notified, processor.Reorg not run); after the start the same reorg must be detected again
	add("b:crash-during-notify", []EvIn{p, p, H, {Op: "w", V: 1, Head: 6, Fin: 2}, {Op: "n"}, p, t, p, p, H}, 6, 1)
	// 12. the same kill, but the node is back on chain A when it starts again: nothing processed is replaced any more,
	//     the store was never rewound, and no rewind may follow
	add("b:graceful-stop-during-notify", []EvIn{p, p, H, {Op: "w", V: 1, Head: 6, Fin: 2}, {Op: "g"}, p, t, p, p, H}, 6, 1)
	add("b:crash-during-notify-fork-undone", []EvIn{p, p, H, {Op: "w", V: 1, Head: 6, Fin: 2}, {Op: "n"}, {Op: "w", V: 0, Head: 7, Fin: 2}, p, t, p, p, H}, 7, 0)
	return ins
}

func generate(f *hlib.Flags) []In {
	ins := boundary()
	rng := hlib.NewRng(f.Seed)
	nfree := f.N / 6
	nlock := f.N - nfree
	for i := 0; i < nlock; i++ {
		o := lockOpts{restarts: i%3 == 0, errs: i%4 == 1, small: i%5 == 2}
		ins = append(ins, genLock(rng, o))
	}
	for i := 0; i < nfree; i++ {
		ins = append(ins, genFree(rng))
	}
	// free-running histories of a syncer that follows the SAFE block with the finalized type Finalized (mode SF): reorgs between the
	// finalized block and the head must still be noticed. A separate random stream: the cases above are what they were.
	rsf := hlib.NewRng(f.Seed ^ 0xc065f)
	for i := 0; i < 3+nfree/4; i++ {
		in := genFree(rsf)
		in.Mode = "SF"
		ins = append(ins, in)
	}
	return ins
}

func main() {
	mid := false
	for i, a := range os.Args {
		if a == "-mid" { // private experiments: also generate stops between AddBlockToTrack and ProcessBlock
			mid = true
			os.Args = append(os.Args[:i], os.Args[i+1:]...)
			break
		}
	}
	f := hlib.ParseFlags()
	aggkitlog.Init(aggkitlog.Config{Environment: aggkitlog.EnvironmentProduction, Level: "fatal", Outputs: []string{"stderr"}})
	var ins []In
	if f.Replay != "" {
		for _, raw := range hlib.ReadJSONL(f.Replay) {
			var in In
			if err := json.Unmarshal(raw, &in); err != nil {
				panic(err)
			}
			ins = append(ins, in)
		}
	} else {
		ins = generate(f)
		if mid {
			rng := hlib.NewRng(f.Seed + 7777)
			for i := 0; i < f.N; i++ {
				ins = append(ins, genLock(rng, lockOpts{restarts: true, mid: true}))
			}
		}
	}
	base := os.TempDir()
	if st, err := os.Stat("/dev/shm"); err == nil && st.IsDir() {
		base = "/dev/shm"
	}
	tmp, err := os.MkdirTemp(base, "verif_c06_")
	if err != nil {
		panic(err)
	}
	defer os.RemoveAll(tmp)

	outs := make([]Out, len(ins))
	jobs := make(chan int)
	var wg gosync.WaitGroup
	var tmu gosync.Mutex
	failures := 0
	for w := 0; w < 8; w++ {
		wg.Add(1)
		go func() {
			defer wg.Done()
			for i := range jobs {
				tmu.Lock()
				skip := failures >= 6
				tmu.Unlock()
				if skip { // the code under test hangs: the reported cases suffice
					in := ins[i]
					normalise(&in)
					outs[i] = Out{In: in, Note: "skipped"}
					continue
				}
				outs[i] = runCase(ins[i], tmp, i)
				if !outs[i].Done {
					tmu.Lock()
					failures++
					tmu.Unlock()
				}
			}
		}()
	}
	for i := range ins {
		jobs <- i
	}
	close(jobs)
	wg.Wait()
	wr := hlib.NewWriter(f.Out)
	defer wr.Close()
	for i := range outs {
		if outs[i].Note != "skipped" {
			wr.Emit(outs[i])
		}
	}
}
