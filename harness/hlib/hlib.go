// Package hlib: shared helpers of the verification harness (deterministic PRNG, JSONL output, hex).
package hlib

import (
	aggkitlog "github.com/agglayer/aggkit/log"
	"bufio"
	"encoding/hex"
	"encoding/json"
	"flag"
	"fmt"
	"math/big"
	"os"
)

// Rng is splitmix64: every random choice of a run derives from one seed, so runs replay exactly.
type Rng struct{ s uint64 }

func NewRng(seed uint64) *Rng { return &Rng{s: seed*0x9E3779B97F4A7C15 + 0x1234567} }

func (r *Rng) U64() uint64 {
	r.s += 0x9E3779B97F4A7C15
	z := r.s
	z = (z ^ (z >> 30)) * 0xBF58476D1CE4E5B9
	z = (z ^ (z >> 27)) * 0x94D049BB133111EB
	return z ^ (z >> 31)
}
func (r *Rng) U32() uint32 { return uint32(r.U64() >> 32) }
func (r *Rng) Intn(n int) int {
	if n <= 0 {
		return 0
	}
	return int(r.U64() % uint64(n))
}
func (r *Rng) Bool() bool { return r.U64()&1 == 1 }
func (r *Rng) Bytes(n int) []byte {
	b := make([]byte, n)
	for i := range b {
		b[i] = byte(r.U64())
	}
	return b
}

// Pick returns one of the given values.
func Pick[T any](r *Rng, xs ...T) T { return xs[r.Intn(len(xs))] }

// Big returns a random big.Int below 2^bits.
func (r *Rng) Big(bits int) *big.Int {
	b := r.Bytes((bits + 7) / 8)
	v := new(big.Int).SetBytes(b)
	return v.Mod(v, new(big.Int).Lsh(big.NewInt(1), uint(bits)))
}

// Flags common to every harness binary.
type Flags struct {
	Seed   uint64
	N      int
	Out    string
	Replay string
	Tier   string
}

func ParseFlags() *Flags {
	f := &Flags{}
	flag.Uint64Var(&f.Seed, "seed", 1, "PRNG seed")
	flag.IntVar(&f.N, "n", 100, "number of generated cases")
	flag.StringVar(&f.Out, "out", "", "output JSONL file (default stdout)")
	flag.StringVar(&f.Replay, "replay", "", "JSONL file of case inputs to run instead of generating")
	flag.StringVar(&f.Tier, "tier", "quick", "quick|thorough")
	flag.Parse()
	return f
}

// Writer emits one JSON object per line.
type Writer struct {
	f *os.File
	w *bufio.Writer
}

func NewWriter(path string) *Writer {
	f := os.Stdout
	if path != "" {
		var err error
		f, err = os.Create(path)
		if err != nil {
			panic(err)
		}
	}
	return &Writer{f: f, w: bufio.NewWriterSize(f, 1<<20)}
}
func (w *Writer) Emit(v any) {
	b, err := json.Marshal(v)
	if err != nil {
		panic(err)
	}
	w.w.Write(b)
	w.w.WriteByte('\n')
}
func (w *Writer) Close() {
	w.w.Flush()
	if w.f != os.Stdout {
		w.f.Close()
	}
}

// ReadJSONL reads a JSONL file into raw messages.
func ReadJSONL(path string) []json.RawMessage {
	f, err := os.Open(path)
	if err != nil {
		panic(err)
	}
	defer f.Close()
	var out []json.RawMessage
	sc := bufio.NewScanner(f)
	sc.Buffer(make([]byte, 1<<20), 1<<28)
	for sc.Scan() {
		line := append([]byte(nil), sc.Bytes()...)
		if len(line) == 0 {
			continue
		}
		out = append(out, json.RawMessage(line))
	}
	return out
}

func Hex(b []byte) string { return hex.EncodeToString(b) }
func UnHex(s string) []byte {
	b, err := hex.DecodeString(s)
	if err != nil {
		panic(fmt.Sprintf("bad hex %q: %v", s, err))
	}
	return b
}

// Dec renders a big.Int in decimal ("0" for nil).
func Dec(v *big.Int) string {
	if v == nil {
		return "0"
	}
	return v.String()
}
func UnDec(s string) *big.Int {
	v, ok := new(big.Int).SetString(s, 10)
	if !ok {
		panic("bad decimal " + s)
	}
	return v
}

// QuietLogs silences the repository's logger (fatal only) so that harness output stays readable.
func QuietLogs() {
	aggkitlog.Init(aggkitlog.Config{Environment: aggkitlog.EnvironmentDevelopment, Level: "fatal", Outputs: []string{"stderr"}})
}
