// C18 harness: drives the REAL epoch notifier (aggsender/epoch_notifier_per_block.go) through the hooks of
// aggsender/verif_export_c18.go and prints what it published.
//
//	kind "run":   NewEpochNotifierPerBlock + the real startInternal loop on a goroutine, blocks delivered through the
//	              new-block channel, events recorded by a synchronous subscriber (per delivery attribution).
//	              `ps` lists every percentage for which exactly this output was observed (the exhaustive streams try all
//	              percentages of their sample and group them by what the implementation did).
//	kind "steps": the real step called directly from an arbitrary internal status.
package main

import (
	"encoding/json"
	"fmt"
	"math/big"
	"runtime"
	"sort"
	"strings"
	"sync"

	"github.com/agglayer/aggkit/aggsender"

	"verifharness/hlib"
)

type In struct {
	Kind    string      `json:"kind"` // "run" | "steps"
	S       uint64      `json:"s"`
	N       uint64      `json:"n"`
	Ps      []uint64    `json:"ps,omitempty"` // percentages to try, listed ...
	PR      [][2]uint64 `json:"pr,omitempty"` // ... and/or as inclusive ranges
	Last    uint64      `json:"last,omitempty"`
	Waiting uint64      `json:"waiting,omitempty"`
	Blocks  []uint64    `json:"blocks"`
	Float   bool        `json:"float,omitempty"` // also compare with the float64 model
	Tag     string      `json:"tag,omitempty"`   // which generator produced the case (evidence only)
}

type Ev struct {
	I    int    `json:"i"`
	B    uint64 `json:"b"`
	E    uint64 `json:"e"`
	Pend int64  `json:"pend"`
}

type StepObs struct {
	Last     uint64 `json:"last"`
	Waiting  uint64 `json:"waiting"`
	Notified bool   `json:"notified"`
	E        uint64 `json:"e"`
	Pend     int64  `json:"pend"`
}

// Group: every percentage in the ranges Ps showed exactly this behaviour.
type Group struct {
	Ps     [][2]uint64 `json:"ps"`
	Err    string      `json:"err,omitempty"` // "" | "invalid_config"
	Events []Ev        `json:"events"`
}

type Out struct {
	In     In        `json:"in"`
	Groups []Group   `json:"groups,omitempty"` // kind "run"
	Err    string    `json:"err,omitempty"`    // kind "steps"
	Steps  []StepObs `json:"steps,omitempty"`
}

func (in In) percentages() []uint64 {
	ps := append([]uint64(nil), in.Ps...)
	for _, r := range in.PR {
		for p := r[0]; p <= r[1] && p >= r[0]; p++ {
			ps = append(ps, p)
			if p == ^uint64(0) {
				break
			}
		}
	}
	sort.Slice(ps, func(i, j int) bool { return ps[i] < ps[j] })
	return ps
}

func errEnum(err error) string {
	if err == nil {
		return ""
	}
	if strings.Contains(err.Error(), "invalid config") {
		return "invalid_config"
	}
	return "other_error"
}

func runOne(s, n, p uint64, blocks []uint64) (string, []Ev) {
	got, err := aggsender.VerifEpochRun(s, uint(n), uint(p), blocks)
	evs := make([]Ev, 0, len(got))
	for _, g := range got {
		evs = append(evs, Ev{I: g.Index, B: g.Block, E: g.Epoch, Pend: g.Pending})
	}
	return errEnum(err), evs
}

func sig(err string, evs []Ev) string {
	b, _ := json.Marshal(evs)
	return err + "|" + string(b)
}

// run executes one input. For kind "run" every percentage is tried and the observations are grouped by behaviour.
func run(in In) Out {
	switch in.Kind {
	case "steps":
		o := Out{In: in}
		ps := in.percentages()
		p := uint64(0)
		if len(ps) > 0 {
			p = ps[0]
		}
		got, err := aggsender.VerifEpochSteps(in.S, uint(in.N), uint(p), in.Last, in.Waiting, in.Blocks)
		o.Err = errEnum(err)
		for _, g := range got {
			o.Steps = append(o.Steps, StepObs{Last: g.LastBlockSeen, Waiting: g.WaitingForEpoch, Notified: g.Notified, E: g.Epoch, Pend: g.Pending})
		}
		return o
	default:
		o := Out{In: in}
		idx := map[string]int{}
		for _, p := range in.percentages() {
			e, evs := runOne(in.S, in.N, p, in.Blocks)
			k := sig(e, evs)
			gi, ok := idx[k]
			if !ok {
				gi = len(o.Groups)
				idx[k] = gi
				o.Groups = append(o.Groups, Group{Err: e, Events: evs})
			}
			g := &o.Groups[gi]
			if n := len(g.Ps); n > 0 && g.Ps[n-1][1]+1 == p {
				g.Ps[n-1][1] = p
			} else if n > 0 && g.Ps[n-1][1] == p {
				// same percentage listed twice
			} else {
				g.Ps = append(g.Ps, [2]uint64{p, p})
			}
		}
		return o
	}
}

// ---------------------------------------------------------------------------------------------------------
// generation
// ---------------------------------------------------------------------------------------------------------

// increasing sequences of length <= maxLen over the values lo..hi-1, in lexicographic order
func subsets(lo, hi uint64, maxLen int, f func([]uint64)) {
	var cur []uint64
	var rec func(from uint64)
	rec = func(from uint64) {
		f(append([]uint64(nil), cur...))
		if len(cur) == maxLen {
			return
		}
		for v := from; v < hi; v++ {
			cur = append(cur, v)
			rec(v + 1)
			cur = cur[:len(cur)-1]
		}
	}
	rec(lo)
}

var allPercent = [][2]uint64{{0, 99}}

// first block of epoch e (e >= 1) and the first position at or beyond P percent, in exact integer arithmetic
func firstBlock(s, n, e uint64) uint64 { return s + (e-1)*n }
func thresholdPos(n, p uint64) uint64 {
	t := new(big.Int).Mul(big.NewInt(0).SetUint64(n), big.NewInt(0).SetUint64(p))
	t.Add(t, big.NewInt(99))
	t.Div(t, big.NewInt(100)) // ceil(P*n/100)
	pos := t.Uint64()
	if pos > n-1 {
		pos = n - 1
	}
	return pos
}

func boundary() []In {
	ins := []In{
		// the repo's own unit-test shape and the non-vacuity examples of Properties/C18.v
		{Kind: "run", S: 5, N: 10, Ps: []uint64{50}, Blocks: []uint64{6, 9, 12, 14, 16, 19, 30, 34, 100}, Float: true},
		{Kind: "run", S: 5, N: 10, Ps: []uint64{50}, Blocks: []uint64{3, 5, 9, 9, 7, 12, 11, 30}, Float: true},
		{Kind: "run", S: 7, N: 1, Ps: []uint64{99}, Blocks: []uint64{7, 8, 9, 12}, Float: true},
		{Kind: "run", S: 0, N: 10, Ps: []uint64{99}, Blocks: []uint64{8, 9, 18, 19, 20}, Float: true},
		// block S itself is dropped: P = 0 announces epoch 1 at S+1; with N = 1 epoch 1 is never announced
		{Kind: "run", S: 100, N: 10, Ps: []uint64{0}, Blocks: []uint64{100, 101, 102, 110}, Float: true},
		{Kind: "run", S: 100, N: 1, Ps: []uint64{0}, Blocks: []uint64{100, 101, 102}, Float: true},
		{Kind: "run", S: 0, N: 1, Ps: []uint64{0}, Blocks: []uint64{0, 1, 2, 3}, Float: true},
		{Kind: "run", S: 0, N: 2, Ps: []uint64{0, 49, 50, 51, 99}, Blocks: []uint64{0, 1, 2, 3, 4, 5}, Float: true},
		// every block below S
		{Kind: "run", S: 1000, N: 10, Ps: []uint64{50}, Blocks: []uint64{0, 1, 500, 999}, Float: true},
		// percentages whose quotient P/100 is not a binary fraction, at positions where P*N/100 is an integer
		{Kind: "run", S: 0, N: 100, PR: allPercent, Blocks: []uint64{1, 7, 10, 33, 49, 50, 51, 57, 70, 83, 98, 99, 100}, Float: true},
		{Kind: "run", S: 3, N: 1000, PR: allPercent, Blocks: []uint64{3 + 69, 3 + 70, 3 + 289, 3 + 290, 3 + 569, 3 + 570, 3 + 989, 3 + 990, 3 + 999}, Float: true},
		// invalid configurations are rejected by the real constructor
		{Kind: "run", S: 0, N: 0, Ps: []uint64{50}, Blocks: []uint64{1, 2, 3}, Tag: "malformed"},
		{Kind: "run", S: 0, N: 10, Ps: []uint64{100, 101, 1 << 40}, Blocks: []uint64{1, 2, 3, 9, 10}, Tag: "malformed"},
		// outside the claimed float range (documented in Properties/C18.v: C18_float_differs_beyond): compared with the
		// float64 model only
		{Kind: "run", S: 0, N: 109313241698193, Ps: []uint64{57}, Blocks: []uint64{62308547767969, 62308547767970, 62308547767971, 109313241698193 + 5}, Float: true, Tag: "beyond"},
	}
	for i := range ins {
		if ins[i].Tag == "" {
			ins[i].Tag = "boundary"
		}
	}
	return ins
}

func pickN(rng *hlib.Rng) uint64 {
	switch rng.Intn(10) {
	case 0:
		return 1
	case 1, 2:
		return uint64(1 + rng.Intn(10))
	case 3, 4:
		return uint64(1 + rng.Intn(1000))
	case 5: // multiples of 100 and their neighbours: P*N/100 is an integer exactly at the threshold
		return uint64(100*(1+rng.Intn(1_000_000)) + rng.Intn(3) - 1)
	case 6: // around powers of two up to 2^45
		k := uint(1 + rng.Intn(45))
		v := (uint64(1) << k) + uint64(rng.Intn(5)) - 2
		if v >= 1<<45 {
			v = 1<<45 - 1 - uint64(rng.Intn(100))
		}
		if v == 0 {
			v = 1
		}
		return v
	case 7: // large, just below the proved bound
		return 1<<45 - 1 - rng.U64()%(1<<44)
	default:
		return 1 + rng.U64()%(1<<uint(1+rng.Intn(44)))
	}
}

func pickP(rng *hlib.Rng) uint64 {
	if rng.Intn(2) == 0 {
		return hlib.Pick(rng, uint64(0), 1, 2, 33, 49, 50, 51, 57, 66, 67, 83, 98, 99)
	}
	return uint64(rng.Intn(100))
}

func pickS(rng *hlib.Rng) uint64 {
	switch rng.Intn(5) {
	case 0:
		return 0
	case 1:
		return uint64(rng.Intn(3))
	case 2:
		return uint64(rng.Intn(100000))
	default:
		return rng.U64() % (1 << uint(1+rng.Intn(46)))
	}
}

// a structured delivery sequence: mostly increasing, aimed at the threshold positions, epoch borders and skips
func genBlocks(rng *hlib.Rng, s, n, p uint64, malformed bool) []uint64 {
	ln := 1 + rng.Intn(10)
	tp := thresholdPos(n, p)
	var cur uint64
	switch rng.Intn(4) {
	case 0:
		cur = s
	case 1:
		if s > 0 {
			cur = s - 1 - uint64(rng.Intn(2))%s
		}
	default:
		cur = s + rng.U64()%(2*n)
	}
	var bs []uint64
	for i := 0; i < ln; i++ {
		if malformed && len(bs) > 0 && rng.Intn(3) == 0 { // repeat or go back
			switch rng.Intn(3) {
			case 0:
				bs = append(bs, bs[len(bs)-1])
			case 1:
				bs = append(bs, bs[rng.Intn(len(bs))])
			default:
				back := uint64(1 + rng.Intn(5))
				if back > cur {
					back = cur
				}
				bs = append(bs, cur-back)
			}
			continue
		}
		var e uint64 = 1
		if cur >= s {
			e = 1 + (cur-s)/n
		}
		var next uint64
		switch rng.Intn(9) {
		case 0:
			next = cur + 1
		case 1:
			next = cur + 1 + uint64(rng.Intn(4))
		case 2, 3: // around the threshold of the current or the next epoch
			t := firstBlock(s, n, e+uint64(rng.Intn(2))) + tp
			next = t + uint64(rng.Intn(3)) - 1
		case 4: // last block of the epoch / first of the next
			next = firstBlock(s, n, e+1) - 1 + uint64(rng.Intn(2))
		case 5: // skip whole epochs
			next = firstBlock(s, n, e+1+uint64(rng.Intn(4))) + rng.U64()%n
		case 6:
			next = cur + 1 + rng.U64()%n
		case 7:
			next = firstBlock(s, n, e+1) + tp - 1 + uint64(rng.Intn(3))
		default:
			next = cur + 1 + rng.U64()%(3*n)
		}
		if next >= 1<<62 { // an underflow of the arithmetic above (threshold position 0 of the very first epoch)
			next = cur + 1
		}
		if !malformed && next <= cur {
			next = cur + 1
		}
		bs = append(bs, next)
		if next > cur {
			cur = next
		}
	}
	return bs
}

func gen(f *hlib.Flags) []In {
	ins := boundary()
	rng := hlib.NewRng(f.Seed)
	thorough := f.Tier == "thorough"

	// exhaustive small parameters; all increasing sequences over S .. S+3N-1 (S itself included: it is ignored)
	maxN, maxS, maxLen := uint64(4), uint64(2), 5
	ps := []uint64{0, 1, 25, 33, 34, 49, 50, 51, 66, 67, 75, 76, 98, 99}
	var pr [][2]uint64
	if thorough {
		maxN, maxS, maxLen = 6, 3, 6
		ps, pr = nil, allPercent
	}
	for n := uint64(1); n <= maxN; n++ {
		for s := uint64(0); s <= maxS; s++ {
			lo := s
			if s > 0 {
				lo = s - 1 // one block below S as well
			}
			subsets(lo, s+3*n, maxLen, func(bs []uint64) {
				ins = append(ins, In{Kind: "run", S: s, N: n, Ps: ps, PR: pr, Blocks: bs, Tag: "exhaustive"})
			})
		}
	}

	// random structured runs, in the claimed range
	for i := 0; i < f.N; i++ {
		n, p, s := pickN(rng), pickP(rng), pickS(rng)
		malformed := rng.Intn(8) == 0
		in := In{Kind: "run", S: s, N: n, Ps: []uint64{p}, Blocks: genBlocks(rng, s, n, p, malformed), Tag: "random"}
		if malformed {
			in.Tag = "malformed"
		}
		// the float64 model is evaluated too where rounding could matter: large N, or a sample of the rest
		in.Float = (n >= 1<<30 && rng.Intn(3) == 0) || rng.Intn(40) == 0
		ins = append(ins, in)
	}
	// direct step calls from arbitrary statuses
	for i := 0; i < f.N/8; i++ {
		n, p, s := pickN(rng), pickP(rng), pickS(rng)
		last := s + rng.U64()%(3*n)
		var waiting uint64
		switch rng.Intn(3) {
		case 0:
			waiting = 1 + (last-s)/n // epoch of last
		case 1:
			waiting = 2 + (last-s)/n
		default:
			waiting = uint64(rng.Intn(5))
		}
		bs := genBlocks(rng, s, n, p, rng.Intn(6) == 0)
		ins = append(ins, In{Kind: "steps", S: s, N: n, Ps: []uint64{p}, Last: last, Waiting: waiting, Blocks: bs, Tag: "steps"})
	}
	// invalid configurations
	for i := 0; i < 10; i++ {
		in := In{Kind: "run", S: pickS(rng), N: pickN(rng), Ps: []uint64{100 + rng.U64()%1000}, Blocks: []uint64{1, 2, 3}, Tag: "malformed"}
		if rng.Bool() {
			in.N, in.Ps = 0, []uint64{pickP(rng)}
		}
		ins = append(ins, in)
	}
	// outside the claimed float range (2^45 <= N < 2^53): compared with the float64 model only
	nb := 40
	if thorough {
		nb = 400
	}
	for i := 0; i < nb; i++ {
		n := (uint64(1) << 45) + rng.U64()%((1<<53)-(1<<45))
		p, s := pickP(rng), uint64(rng.Intn(1000))
		ins = append(ins, In{Kind: "run", S: s, N: n, Ps: []uint64{p}, Blocks: genBlocks(rng, s, n, p, false), Float: true, Tag: "beyond"})
	}
	return ins
}

func main() {
	f := hlib.ParseFlags()
	var ins []In
	if f.Replay != "" {
		for _, raw := range hlib.ReadJSONL(f.Replay) {
			var in In
			if err := json.Unmarshal(raw, &in); err != nil {
				panic(err)
			}
			ins = append(ins, in)
		}
	} else {
		ins = gen(f)
	}
	w := hlib.NewWriter(f.Out)
	defer w.Close()
	seen := map[string]bool{}
	var todo []In
	for _, in := range ins {
		if in.Blocks == nil {
			in.Blocks = []uint64{}
		}
		key := fmt.Sprint(in.Kind, in.S, in.N, in.Ps, in.PR, in.Last, in.Waiting, in.Blocks)
		if f.Replay == "" && seen[key] { // generated duplicates add nothing
			continue
		}
		seen[key] = true
		todo = append(todo, in)
	}
	// the cases are independent: run them on all cores, emit in generation order
	const chunk = 8192
	workers := runtime.NumCPU()
	for lo := 0; lo < len(todo); lo += chunk {
		hi := lo + chunk
		if hi > len(todo) {
			hi = len(todo)
		}
		outs := make([]Out, hi-lo)
		var wg sync.WaitGroup
		for k := 0; k < workers; k++ {
			wg.Add(1)
			go func(k int) {
				defer wg.Done()
				for i := lo + k; i < hi; i += workers {
					outs[i-lo] = run(todo[i])
				}
			}(k)
		}
		wg.Wait()
		for _, o := range outs {
			w.Emit(o)
		}
	}
}
