package main

import (
	"fmt"
	"sort"
	"strings"

	"github.com/ethereum/go-ethereum/common"
	"github.com/ethereum/go-ethereum/crypto"

	"verifharness/hlib"
)

const zero32 = "0000000000000000000000000000000000000000000000000000000000000000"
const ff32 = "ffffffffffffffffffffffffffffffffffffffffffffffffffffffffffffffff"

func rnd32(r *hlib.Rng) string { return hlib.Hex(r.Bytes(32)) }

// the generator's own L1 info tree (only to produce announcements that a consistent L1 would emit; the verdict
// about consistency is the Coq reference's, not this one's)
type refTree struct {
	n      uint32
	branch [32]common.Hash
}

func (t *refTree) add(leaf common.Hash) {
	t.n++
	size := t.n
	node := leaf
	for h := 0; h < 32; h++ {
		if (size>>h)&1 == 1 {
			t.branch[h] = node
			return
		}
		node = crypto.Keccak256Hash(t.branch[h][:], node[:])
	}
}
func (t *refTree) root() common.Hash {
	var node, zh common.Hash
	for h := 0; h < 32; h++ {
		if (t.n>>h)&1 == 1 {
			node = crypto.Keccak256Hash(t.branch[h][:], node[:])
		} else {
			node = crypto.Keccak256Hash(node[:], zh[:])
		}
		zh = crypto.Keccak256Hash(zh[:], zh[:])
	}
	return node
}
func leafHashOf(mer, rer, parent string, ts uint64) common.Hash {
	ger := common.HexToHash(gerOf(mer, rer))
	var t [8]byte
	for i := 0; i < 8; i++ {
		t[7-i] = byte(ts >> (8 * i))
	}
	return crypto.Keccak256Hash(ger[:], h32(parent).Bytes(), t[:])
}

// state of the chain described by the surviving blocks: tree, announced GERs, rollup map and the rollup-tree states recorded
type chainState struct {
	tree     refTree
	gers     map[string]bool
	rollup   map[uint32]string
	recorded map[string]bool // canonical rollup maps that have a root row
	hasInit  bool
}

func newChainState() *chainState {
	return &chainState{gers: map[string]bool{}, rollup: map[uint32]string{}, recorded: map[string]bool{}}
}
func canon(m map[uint32]string) string {
	ks := make([]int, 0, len(m))
	for k := range m {
		ks = append(ks, int(k))
	}
	sort.Ints(ks)
	var sb strings.Builder
	for _, k := range ks {
		fmt.Fprintf(&sb, "%d=%s;", k, m[uint32(k)])
	}
	return sb.String()
}
func isZero(h string) bool { return strings.Trim(h, "0") == "" }

// apply a (fault-free) block the way a correct node would
func (c *chainState) apply(op Op) {
	for _, l := range op.Logs {
		switch l.T {
		case "upd":
			c.gers[gerOf(l.Mer, l.Rer)] = true
			c.tree.add(leafHashOf(l.Mer, l.Rer, op.Parent, op.Ts))
		case "vb", "vbt":
			if !isZero(l.Exit) && c.rollup[l.RID-1] != l.Exit {
				c.rollup[l.RID-1] = l.Exit
				c.recorded[canon(c.rollup)] = true
			}
		case "init":
			c.hasInit = true
		}
	}
}
func stateOf(blocks []Op) *chainState {
	c := newChainState()
	for _, b := range blocks {
		c.apply(b)
	}
	return c
}

type hist struct {
	r       *hlib.Rng
	num     uint64
	st      *chainState
	exits   []string // small pool so that unchanged / repeated exit roots occur
	rids    []uint32
	allowF4 bool // allow rollup-tree states to recur (finding F4)
	badV2   int  // 0 none; malformed stream: 1 wrong root, 2 wrong count, 3 v2 before any leaf, 4 duplicate GER, 5 timestamp >= 2^63
	pV2     int
	prevUpd [][2]string
	badDone bool // a mismatching announcement has been generated
}

func newHist(r *hlib.Rng) *hist {
	h := &hist{r: r, st: newChainState(), pV2: 70}
	h.exits = []string{zero32, rnd32(r), rnd32(r), rnd32(r), ff32}
	h.rids = []uint32{1, 1, 2, 3, hlib.Pick(r, uint32(0), 0xffffffff, 5, r.U32())}
	if r.Intn(4) == 0 {
		h.rids = append(h.rids, 0, 0xffffffff)
	}
	return h
}

func (h *hist) header() Op {
	r := h.r
	h.num += uint64(1 + r.Intn(3))
	// timestamps up to 2^63-1: database/sql cannot bind a uint64 with the high bit set (malformed stream 5 goes beyond)
	ts := hlib.Pick(r, uint64(0), 1, 0x7fffffffffffffff, r.U64()>>1, 1700000000+uint64(r.Intn(100000)))
	if h.badV2 == 5 && r.Intn(3) == 0 {
		ts = hlib.Pick(r, uint64(0x8000000000000000), 0xffffffffffffffff)
	}
	parent := hlib.Pick(r, zero32, ff32, rnd32(r), rnd32(r))
	return Op{K: "block", Num: h.num, Hash: rnd32(r), Parent: parent, Ts: ts}
}

// one block with up to maxEv L1 events, applied to the generator's chain state
func (h *hist) block(maxEv int) Op {
	r := h.r
	op := h.header()
	n := r.Intn(maxEv + 1)
	idx := uint64(0)
	tree := h.st.tree
	rollup := map[uint32]string{}
	for k, v := range h.st.rollup {
		rollup[k] = v
	}
	for i := 0; i < n; i++ {
		idx += uint64(1 + r.Intn(3))
		switch k := r.Intn(100); {
		case k < 45: // info update, usually followed by the V2 announcement the contract emits in the same call
			mer := hlib.Pick(r, rnd32(r), rnd32(r), zero32, ff32)
			rer := hlib.Pick(r, rnd32(r), zero32, h.exits[1])
			for tries := 0; h.st.gers[gerOf(mer, rer)] || inBlock(op, mer, rer); tries++ {
				mer = rnd32(r)
			}
			if h.badV2 == 4 && len(h.prevUpd) > 0 && r.Intn(3) == 0 {
				// malformed: a GER announced twice (the contract never does that)
				p := hlib.Pick(r, h.prevUpd...)
				mer, rer = p[0], p[1]
			}
			h.prevUpd = append(h.prevUpd, [2]string{mer, rer})
			op.Logs = append(op.Logs, Log{T: "upd", Idx: idx, Mer: mer, Rer: rer})
			tree.add(leafHashOf(mer, rer, op.Parent, op.Ts))
			if r.Intn(100) < h.pV2 {
				idx++
				v2 := Log{T: "v2", Idx: idx, Root: hlib.Hex(tree.root().Bytes()), Count: tree.n, BH: op.Parent, MinTs: op.Ts}
				switch {
				case h.badV2 == 1 && r.Intn(3) == 0:
					v2.Root = rnd32(r) // wrong root, right count
					h.badDone = true
				case h.badV2 == 2 && r.Intn(3) == 0:
					v2.Count += uint32(1 + r.Intn(2)) // right root, wrong count
					h.badDone = true
				}
				op.Logs = append(op.Logs, v2)
			}
		case k < 50 && h.badV2 == 3 && tree.n == 0: // announcement before any leaf
			op.Logs = append(op.Logs, Log{T: "v2", Idx: idx, Root: hlib.Hex(tree.root().Bytes()), Count: 0, BH: op.Parent})
		case k < 95: // batch verification
			rid := hlib.Pick(r, h.rids...)
			exit := hlib.Pick(r, h.exits...)
			if r.Intn(4) == 0 {
				exit = rnd32(r)
			}
			if !isZero(exit) && rollup[rid-1] != exit {
				next := map[uint32]string{}
				for k, v := range rollup {
					next[k] = v
				}
				next[rid-1] = exit
				if h.st.recorded[canon(next)] && !h.allowF4 {
					exit = rnd32(r) // keep the main stream clear of the known root-recurrence defect
					next[rid-1] = exit
				}
				rollup = next
				h.st.recorded[canon(next)] = true
			}
			op.Logs = append(op.Logs, Log{T: hlib.Pick(r, "vb", "vbt"), Idx: idx, RID: rid, Batch: uint64(r.Intn(1000)),
				SRoot: rnd32(r), Exit: exit, Agg: hlib.Hex(r.Bytes(20))})
		default:
			if !h.st.hasInit && !hasInit(op) {
				op.Logs = append(op.Logs, Log{T: "init", Idx: idx, Count: tree.n, Root: hlib.Hex(tree.root().Bytes())})
			}
		}
	}
	h.st.apply(op)
	return op
}

func inBlock(op Op, mer, rer string) bool {
	for _, l := range op.Logs {
		if l.T == "upd" && gerOf(l.Mer, l.Rer) == gerOf(mer, rer) {
			return true
		}
	}
	return false
}
func hasInit(op Op) bool {
	for _, l := range op.Logs {
		if l.T == "init" {
			return true
		}
	}
	return false
}

func snapOp() Op { return Op{K: "snap"} }

// C11: L1 histories (no reorgs, no faults), restarts at random points, snapshot at the end (and sometimes in the middle)
func genC11(r *hlib.Rng, n int, malformed int) In {
	h := newHist(r)
	h.badV2 = malformed
	in := In{Prop: "c11"}
	for len(in.Ops) < n {
		in.Ops = append(in.Ops, h.block(5))
		if r.Intn(7) == 0 {
			in.Ops = append(in.Ops, Op{K: "restart"})
		}
		if r.Intn(9) == 0 {
			in.Ops = append(in.Ops, snapOp())
		}
	}
	if (malformed == 1 || malformed == 2) && !h.badDone {
		// make sure the stream contains its mismatching announcement: one more block with an update and a bad V2
		op := h.header()
		mer, rer := rnd32(r), rnd32(r)
		tree := h.st.tree
		tree.add(leafHashOf(mer, rer, op.Parent, op.Ts))
		v2 := Log{T: "v2", Idx: 1, Root: hlib.Hex(tree.root().Bytes()), Count: tree.n, BH: op.Parent, MinTs: op.Ts}
		if malformed == 1 {
			v2.Root = rnd32(r)
		} else {
			v2.Count++
		}
		op.Logs = []Log{{T: "upd", Idx: 0, Mer: mer, Rer: rer}, v2}
		in.Ops = append(in.Ops, op, snapOp(), h.block(2))
	}
	in.Ops = append(in.Ops, snapOp())
	return in
}

// two rollups verified with the SAME exit root in different blocks (their branches of the rollup exit tree share nodes), the block of
// the later verification reorganised away, then another rollup verified on the new fork: every rollup's exit root must still be the
// last non-zero one verified for it and every recorded root the rollup manager's
func genC11RepeatedExitReorg(r *hlib.Rng) In {
	h := newHist(r)
	in := In{Prop: "c11"}
	e := rnd32(r)
	vb := func(rid uint32, exit string) Op {
		op := h.header()
		op.Logs = []Log{{T: "vb", Idx: 1, RID: rid, Batch: uint64(1 + r.Intn(100)), SRoot: rnd32(r), Exit: exit, Agg: hlib.Hex(r.Bytes(20))}}
		h.st.apply(op)
		return op
	}
	in.Ops = append(in.Ops, vb(3, e), vb(1, e), snapOp())
	last := in.Ops[1]
	in.Ops = append(in.Ops, Op{K: "reorg", B: last.Num}, snapOp())
	h.st = stateOf(liveBlocks(in.Ops))
	h.num = last.Num - 1
	in.Ops = append(in.Ops, vb(2, rnd32(r)), snapOp(), vb(1, rnd32(r)), snapOp())
	return in
}

// the known root-recurrence history (F4): one rollup, exit roots A, B, A, in random surroundings
func genF4(r *hlib.Rng) In {
	h := newHist(r)
	h.allowF4 = true
	in := In{Prop: "c11"}
	a, b := rnd32(r), rnd32(r)
	for i, exit := range []string{a, b, a} {
		if r.Intn(2) == 0 {
			in.Ops = append(in.Ops, h.block(2))
		}
		op := h.header()
		op.Logs = []Log{{T: "vb", Idx: uint64(i), RID: 9, Batch: uint64(i), SRoot: rnd32(r), Exit: exit, Agg: hlib.Hex(r.Bytes(20))}}
		h.st.apply(op)
		in.Ops = append(in.Ops, op)
	}
	in.Ops = append(in.Ops, snapOp())
	return in
}

// chain case: the logs come from the real contracts
func genChain(r *hlib.Rng, n int) In {
	in := In{Prop: "c11"}
	last := map[uint32]string{}
	seen := map[string]bool{}
	for i := 0; i < n; i++ {
		switch r.Intn(3) {
		case 0:
			in.Chain = append(in.Chain, ChainTx{K: "ger", Root: rnd32(r)})
		default:
			rid := hlib.Pick(r, uint32(1), 2, 3, 5)
			exit := rnd32(r)
			if i > 2 && r.Intn(4) == 0 && last[rid] != "" {
				exit = last[rid] // unchanged exit root
			}
			next := map[uint32]string{}
			for k, v := range last {
				next[k] = v
			}
			next[rid] = exit
			if exit != last[rid] && seen[canon(next)] {
				exit = rnd32(r)
				next[rid] = exit
			}
			last = next
			seen[canon(next)] = true
			in.Chain = append(in.Chain, ChainTx{K: hlib.Pick(r, "verify", "verifyt"), RID: rid, Exit: exit, UpdateGER: r.Intn(3) != 0})
		}
	}
	return in
}

// ---------- as-if scenarios (C04 / C07 parts) ----------

// the blocks that a node which never saw the reorged blocks would have processed, in order
func liveBlocks(ops []Op) []Op {
	var live []Op
	for _, op := range ops {
		switch op.K {
		case "block":
			if op.Fault == nil {
				live = append(live, op)
			}
		case "reorg":
			var keep []Op
			for _, l := range live {
				if l.Num < op.B {
					keep = append(keep, l)
				}
			}
			live = keep
		}
	}
	return live
}

func isPrefix(a, b []Op) bool {
	if len(a) > len(b) {
		return false
	}
	for i := range a {
		if a[i].Num != b[i].Num || fmt.Sprint(a[i].Logs) != fmt.Sprint(b[i].Logs) || a[i].Hash != b[i].Hash {
			return false
		}
	}
	return true
}

// twinOf: same snapshots, but only the surviving blocks are ever processed; reorgs / restarts / faults dropped
func twinOf(ops []Op) []Op {
	var out, prev []Op
	for i, op := range ops {
		if op.K != "snap" {
			continue
		}
		live := liveBlocks(ops[:i])
		if isPrefix(prev, live) {
			out = append(out, live[len(prev):]...)
		} else {
			out = append(out, Op{K: "reset"})
			out = append(out, live...)
		}
		out = append(out, op)
		prev = live
	}
	return out
}

func genC04(r *hlib.Rng, n int) In {
	h := newHist(r)
	in := In{Prop: "c04"}
	nre := 1 + r.Intn(3)
	for k := 0; k < nre; k++ {
		for i := 0; i < 1+r.Intn(n); i++ {
			in.Ops = append(in.Ops, h.block(4))
		}
		before := liveBlocks(in.Ops)
		var b uint64
		switch r.Intn(5) {
		case 0:
			b = before[0].Num
		case 1:
			b = h.num + 1 + uint64(r.Intn(3)) // above the tip: identity
		case 2:
			b = h.num
		default:
			b = before[r.Intn(len(before))].Num + uint64(r.Intn(2))
		}
		in.Ops = append(in.Ops, Op{K: "reorg", B: b})
		if r.Intn(3) == 0 { // nested / repeated reorg
			in.Ops = append(in.Ops, Op{K: "reorg", B: b + uint64(r.Intn(3))})
		}
		if r.Intn(4) == 0 {
			in.Ops = append(in.Ops, Op{K: "restart"})
		}
		in.Ops = append(in.Ops, snapOp())
		// continue on the new fork: the generator's chain state is that of the surviving blocks
		live := liveBlocks(in.Ops)
		h.st = stateOf(live)
		h.num = 0
		if len(live) > 0 {
			h.num = live[len(live)-1].Num
		}
		// usually the fork re-includes what the dropped blocks carried (the same transactions land in new blocks): the same GERs
		// and the SAME VerifyBatches (rollup id, exit root) events, in the original order or - one time in four - with the
		// batch verifications in reverse order (A,B on the old fork, B,A on the new one)
		if len(before) > len(live) && r.Intn(4) != 0 {
			dropped := before[len(live):]
			reverse := r.Intn(4) == 0
			for di, dblk := range dropped {
				if di > 0 && r.Intn(3) == 0 {
					break
				}
				op := h.header()
				tree := h.st.tree
				var vbs []Log
				for _, l := range dblk.Logs {
					if l.T == "vb" || l.T == "vbt" {
						vbs = append(vbs, l)
					}
				}
				vi := 0
				for _, l := range dblk.Logs {
					switch l.T {
					case "upd":
						if h.st.gers[gerOf(l.Mer, l.Rer)] || inBlock(op, l.Mer, l.Rer) {
							continue
						}
						tree.add(leafHashOf(l.Mer, l.Rer, op.Parent, op.Ts))
						op.Logs = append(op.Logs, l)
					case "v2":
						if tree.n == 0 {
							continue
						}
						l.Root, l.Count = hlib.Hex(tree.root().Bytes()), tree.n
						op.Logs = append(op.Logs, l)
					case "vb", "vbt":
						src := vbs[vi]
						if reverse {
							src = vbs[len(vbs)-1-vi]
						}
						vi++
						src.Idx = l.Idx
						op.Logs = append(op.Logs, src)
					}
				}
				h.st.apply(op)
				in.Ops = append(in.Ops, op)
			}
		}
		for i := 0; i < r.Intn(4); i++ {
			in.Ops = append(in.Ops, h.block(4))
		}
		in.Ops = append(in.Ops, snapOp())
	}
	in.TwinOps = twinOf(in.Ops)
	return in
}

// directed C04 history: the reorg starts exactly at the block of the newest L1 info leaf, and the new fork carries no leaf up to
// the blocks the queries ask about: "latest info until block b" must be the newest SURVIVING leaf for every b
func genC04AtNewestLeaf(r *hlib.Rng) In {
	h := newHist(r)
	in := In{Prop: "c04"}
	hasUpd := func(op Op) bool {
		for _, l := range op.Logs {
			if l.T == "upd" {
				return true
			}
		}
		return false
	}
	leaves := 0
	for i := 0; i < 14; i++ {
		op := h.block(4)
		in.Ops = append(in.Ops, op)
		if hasUpd(op) {
			leaves++
			if leaves >= 2 {
				break
			}
		}
	}
	last := in.Ops[len(in.Ops)-1]
	in.Ops = append(in.Ops, snapOp(), Op{K: "reorg", B: last.Num})
	live := liveBlocks(in.Ops)
	h.st = stateOf(live)
	h.num = last.Num - 1
	for i := 0; i < 2; i++ { // blocks of the new fork without any event
		op := h.header()
		h.st.apply(op)
		in.Ops = append(in.Ops, op)
	}
	in.Ops = append(in.Ops, snapOp())
	in.Ops = append(in.Ops, h.block(3), snapOp())
	in.TwinOps = twinOf(in.Ops)
	return in
}

var faultKinds = []string{"block", "leaf", "l1root", "l1rht", "rroot", "rrht", "verify", "init"}

func genC07(r *hlib.Rng, n int) In {
	h := newHist(r)
	in := In{Prop: "c07"}
	for i := 0; i < n; i++ {
		pre := map[uint32]string{}
		for k, v := range h.st.rollup {
			pre[k] = v
		}
		op := h.block(6)
		if r.Intn(2) == 0 && len(op.Logs) > 0 {
			// writes per table in this block, so that the fault actually fires
			cnt := map[string]int{"block": 1}
			var late []Fault // first write of every event that follows a writing event
			wrote := false
			for _, l := range op.Logs {
				switch l.T {
				case "upd":
					if wrote {
						late = append(late, Fault{Table: hlib.Pick(r, "leaf", "l1root"), K: cnt["leaf"]})
					}
					cnt["leaf"]++
					cnt["l1root"]++
					cnt["l1rht"] += 32
					wrote = true
				case "vb", "vbt":
					if !isZero(l.Exit) && pre[l.RID-1] != l.Exit {
						pre[l.RID-1] = l.Exit
						if wrote {
							late = append(late, Fault{Table: hlib.Pick(r, "rroot", "verify"), K: cnt["rroot"]})
						}
						cnt["rroot"]++
						cnt["rrht"] += 32
						cnt["verify"]++
						wrote = true
					}
				case "init":
					if wrote {
						late = append(late, Fault{Table: "init", K: 0})
					}
					cnt["init"]++
				}
			}
			nf := 1 + r.Intn(2) // sequences of faults on the same block
			for j := 0; j < nf; j++ {
				t := hlib.Pick(r, faultKinds...)
				if cnt[t] == 0 {
					continue
				}
				fo := op
				fo.Fault = &Fault{Table: t, K: r.Intn(cnt[t])}
				// two times in three: a fault at the first write of a LATER event, i.e. after at least one info update /
				// batch verification of this block has been handled completely (its in-memory effects must be undone too)
				if len(late) > 0 && r.Intn(3) != 0 {
					f := hlib.Pick(r, late...)
					fo.Fault = &f
				}
				if (len(in.Ops)+j)%2 == 1 {
					// the failing statement takes the whole transaction with it (SQLite rolls back on its own): the code's tx.Rollback()
					// then fails and the rollback callbacks are NOT run - the trees keep their advanced in-memory state - and the driver
					// retries on the same instance. No random draw is added.
					ff := *fo.Fault
					ff.RB = true
					fo.Fault = &ff
				}
				in.Ops = append(in.Ops, fo)
				if r.Intn(5) == 0 {
					in.Ops = append(in.Ops, Op{K: "restart"})
				}
			}
		}
		in.Ops = append(in.Ops, op)
		if r.Intn(8) == 0 {
			in.Ops = append(in.Ops, Op{K: "restart"})
		}
	}
	in.Ops = append(in.Ops, snapOp())
	in.TwinOps = twinOf(in.Ops)
	return in
}

func generate(prop string, f *hlib.Flags) []In {
	r := hlib.NewRng(f.Seed)
	var ins []In
	for i := 0; i < f.N; i++ {
		switch prop {
		case "c11":
			switch {
			case i == 0:
				ins = append(ins, genF4(r))
				ins = append(ins, genC11RepeatedExitReorg(hlib.NewRng(f.Seed^0xc11a)))
			case i == 1 || (f.Tier != "quick" && i%25 == 1):
				ins = append(ins, genChain(r, 6+r.Intn(8)))
			case i%6 == 5:
				ins = append(ins, genC11(r, 3+r.Intn(8), 1+(i/6)%5)) // malformed stream
			default:
				ins = append(ins, genC11(r, 3+r.Intn(10), 0))
			}
		case "c04":
			if i == 0 {
				ins = append(ins, genC04AtNewestLeaf(hlib.NewRng(f.Seed^0xc04c)))
			}
			ins = append(ins, genC04(r, 6))
		case "c07":
			ins = append(ins, genC07(r, 3+r.Intn(6)))
		default:
			panic("unknown -prop " + prop)
		}
	}
	return ins
}
