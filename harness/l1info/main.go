// L1-info-tree store scenario harness (C11, and the l1infotreesync parts of C04 and C07): drives the REAL
// l1infotreesync processor (SQLite store + append-only L1 info tree + updatable rollup exit tree) through generated
// operation sequences and prints canonical observations of every facade query. Blocks are given as headers + logs;
// the logs are ABI-encoded and converted by the REAL downloader appender (downloader.go). A sample of C11 cases takes
// its logs from the REAL GlobalExitRoot contract (+ the repo's rollup-manager mock) in go-ethereum's simulated backend.
package main

import (
	"context"
	"database/sql"
	"encoding/json"
	"errors"
	"flag"
	"fmt"
	"math/big"
	"os"
	"path/filepath"
	"sort"
	"strings"

	"github.com/0xPolygon/cdk-contracts-tooling/contracts/fep/etrog/polygonrollupmanager"
	"github.com/0xPolygon/cdk-contracts-tooling/contracts/pp/l2-sovereign-chain/polygonzkevmglobalexitrootv2"
	"github.com/agglayer/aggkit/db"
	"github.com/agglayer/aggkit/l1infotreesync"
	aggsync "github.com/agglayer/aggkit/sync"
	"github.com/agglayer/aggkit/tree"
	treetypes "github.com/agglayer/aggkit/tree/types"
	"github.com/ethereum/go-ethereum/accounts/abi"
	"github.com/ethereum/go-ethereum/common"
	"github.com/ethereum/go-ethereum/core/types"

	"verifharness/hlib"
)

// ---------- case format ----------

type Log struct {
	T     string `json:"t"`             // upd | v2 | vb | vbt | init
	Idx   uint64 `json:"idx,omitempty"` // log index in the block (BlockPosition)
	Mer   string `json:"mer,omitempty"`
	Rer   string `json:"rer,omitempty"`
	Root  string `json:"root,omitempty"`  // v2 / init: announced l1 info root
	Count uint32 `json:"count,omitempty"` // v2 / init: announced leaf count
	BH    string `json:"bh,omitempty"`
	MinTs uint64 `json:"mints,omitempty"`
	RID   uint32 `json:"rid,omitempty"`
	Batch uint64 `json:"batch,omitempty"`
	SRoot string `json:"sroot,omitempty"`
	Exit  string `json:"exit,omitempty"`
	Agg   string `json:"agg,omitempty"`
}

type Fault struct {
	Table string `json:"table"` // block leaf l1root l1rht rroot rrht verify init
	K     int    `json:"k"`     // the statement that would be the k-th successful write (0-based) to that table in this ProcessBlock fails
	// RB: the failing statement raises ROLLBACK instead of ABORT (SQLite rolls the transaction back itself; db.Tx.Rollback then
	// returns an error before the rollback callbacks): same database as after an ordinary fault, in-memory state NOT undone
	RB bool `json:"rb,omitempty"`
}

type Op struct {
	K      string `json:"k"` // block | reorg | restart | snap | reset
	Num    uint64 `json:"num,omitempty"`
	Hash   string `json:"hash,omitempty"`
	Parent string `json:"parent,omitempty"`
	Ts     uint64 `json:"ts,omitempty"`
	Logs   []Log  `json:"logs,omitempty"`
	Fault  *Fault `json:"fault,omitempty"`
	B      uint64 `json:"b,omitempty"`
}

// ChainTx: one transaction (one block) on the simulated L1
type ChainTx struct {
	K         string `json:"k"` // ger (bridge role: new mainnet exit root) | verify | verifyt
	Root      string `json:"root,omitempty"`
	RID       uint32 `json:"rid,omitempty"`
	Exit      string `json:"exit,omitempty"`
	UpdateGER bool   `json:"update_ger,omitempty"`
}

type In struct {
	Prop    string    `json:"prop"`
	Ops     []Op      `json:"ops"`
	TwinOps []Op      `json:"twin_ops,omitempty"`
	Chain   []ChainTx `json:"chain,omitempty"` // when set, Ops are derived from the simulated L1 (and echoed in the output)
}

type LeafObs struct {
	Block  uint64 `json:"block"`
	Pos    uint64 `json:"pos"`
	Idx    uint32 `json:"idx"`
	Parent string `json:"parent"`
	Ts     uint64 `json:"ts"`
	Mer    string `json:"mer"`
	Rer    string `json:"rer"`
	Ger    string `json:"ger"`
	Hash   string `json:"hash"`
}
type RootObs struct {
	Hash  string `json:"hash"`
	Idx   uint32 `json:"idx"`
	Block uint64 `json:"block"`
	BPos  uint64 `json:"bpos"`
}
type VbObs struct {
	Block uint64 `json:"block"`
	Pos   uint64 `json:"pos"`
	RID   uint32 `json:"rid"`
	Batch uint64 `json:"batch"`
	SRoot string `json:"sroot"`
	Exit  string `json:"exit"`
	Agg   string `json:"agg"`
	Rer   string `json:"rer"`
}
type InfoQ struct { // GetInfoByIndex, GetL1InfoTreeRootByIndex, GetL1InfoTreeMerkleProof for one index
	I         uint32   `json:"i"`
	Leaf      *LeafObs `json:"leaf,omitempty"`
	Root      *RootObs `json:"root,omitempty"`
	Proof     []string `json:"proof,omitempty"`
	ProofRoot *RootObs `json:"proof_root,omitempty"`
	Calc      string   `json:"calc,omitempty"` // tree.CalculateRoot(leaf.Hash, proof, i) by the real code
}
type KeyIdx struct {
	Key string `json:"key"`
	Idx int64  `json:"idx"` // index of the returned leaf, -1 = not found
}
type BlockIdx struct {
	B    uint64 `json:"b"`
	Code string `json:"code,omitempty"` // ok | notfound | notprocessed | noblock0
	Idx  int64  `json:"idx"`
}
type VbAfter struct {
	B   uint64 `json:"b"`
	Row *VbObs `json:"row,omitempty"`
}
type VbQ struct {
	RID   uint32    `json:"rid"`
	Last  *VbObs    `json:"last,omitempty"`
	First *VbObs    `json:"first,omitempty"`
	After []VbAfter `json:"after"`
}
type RollupQ struct { // GetLocalExitRoot / GetRollupExitTreeMerkleProof for (root, network id)
	Root  string   `json:"root"`
	ID    uint32   `json:"id"`
	Leaf  string   `json:"leaf,omitempty"` // "" = error
	Code  string   `json:"code"`           // ok | notfound | other
	Proof []string `json:"proof"`
}
type PUntil struct {
	B    uint64 `json:"b"`
	Code string `json:"code"`
	Num  uint64 `json:"num"`
	Hash string `json:"hash"`
}
type ToRoot struct {
	Idx   uint32   `json:"idx"`
	Root  string   `json:"root"`
	Proof []string `json:"proof"`
}
type InitObs struct {
	Block uint64 `json:"block"`
	Count uint32 `json:"count"`
	Root  string `json:"root"`
}
type Snap struct {
	Last       uint64     `json:"last"`
	LastErr    string     `json:"last_err,omitempty"`
	Halted     bool       `json:"halted"`
	MemLast    int64      `json:"mem_last"`
	Infos      []InfoQ    `json:"infos"`
	ByGer      []KeyIdx   `json:"by_ger"`
	ByRer      []KeyIdx   `json:"by_rer"`
	Until      []BlockIdx `json:"until"`
	After      []BlockIdx `json:"after"`
	FirstInfo  int64      `json:"first_info"`
	LastInfo   int64      `json:"last_info"`
	LastL1     *RootObs   `json:"last_l1,omitempty"`
	LastRollup *RootObs   `json:"last_rollup,omitempty"`
	Vb         []VbQ      `json:"vb"`
	Rollup     []RollupQ  `json:"rollup"`
	PUntil     []PUntil   `json:"puntil"`
	ToRoot     []ToRoot   `json:"toroot"`
	Init       *InitObs   `json:"init,omitempty"`
}
type ContractObs struct { // state of the real contracts after the block
	L1Root     string   `json:"l1root"`
	Count      uint32   `json:"count"`
	RollupRoot string   `json:"rollup_root"`
	LastGER    string   `json:"last_ger"`
	LeafValues []string `json:"leaf_values"` // GlobalExitRoot.getLeafValue(ger, parent hash, timestamp) for each upd log of the block
}
type Out struct {
	In        In            `json:"in"`
	Res       []string      `json:"res"`
	Snaps     []Snap        `json:"snaps"`
	TwinRes   []string      `json:"twin_res,omitempty"`
	TwinSnaps []Snap        `json:"twin_snaps,omitempty"`
	Contract  []ContractObs `json:"contract,omitempty"` // one per block op of Ops (chain cases only)
	Err       string        `json:"err,omitempty"`
}

// ---------- log encoding (what an L1 node returns) and the real appender ----------

var (
	gerAddr = common.HexToAddress("0x00000000000000000000000000000000000a11ce")
	rmAddr  = common.HexToAddress("0x0000000000000000000000000000000000000b0b")
	gerABI  *abi.ABI
	rmABI   *abi.ABI
)

func init() {
	var err error
	if gerABI, err = polygonzkevmglobalexitrootv2.Polygonzkevmglobalexitrootv2MetaData.GetAbi(); err != nil {
		panic(err)
	}
	if rmABI, err = polygonrollupmanager.PolygonrollupmanagerMetaData.GetAbi(); err != nil {
		panic(err)
	}
}

func h32(s string) common.Hash { return common.HexToHash(s) }

func h32arr(s string) [32]byte { return h32(s) }

func encodeLog(l Log) types.Log {
	pack := func(a *abi.ABI, name string, vals ...any) []byte {
		data, err := a.Events[name].Inputs.NonIndexed().Pack(vals...)
		if err != nil {
			panic(fmt.Sprintf("pack %s: %v", name, err))
		}
		return data
	}
	u32topic := func(v uint32) common.Hash { return common.BigToHash(new(big.Int).SetUint64(uint64(v))) }
	switch l.T {
	case "upd":
		return types.Log{Address: gerAddr, Index: uint(l.Idx),
			Topics: []common.Hash{gerABI.Events["UpdateL1InfoTree"].ID, h32(l.Mer), h32(l.Rer)}}
	case "v2":
		return types.Log{Address: gerAddr, Index: uint(l.Idx),
			Topics: []common.Hash{gerABI.Events["UpdateL1InfoTreeV2"].ID, u32topic(l.Count)},
			Data:   pack(gerABI, "UpdateL1InfoTreeV2", h32arr(l.Root), h32(l.BH).Big(), l.MinTs)}
	case "init":
		return types.Log{Address: gerAddr, Index: uint(l.Idx),
			Topics: []common.Hash{gerABI.Events["InitL1InfoRootMap"].ID},
			Data:   pack(gerABI, "InitL1InfoRootMap", l.Count, h32arr(l.Root))}
	case "vb", "vbt":
		name := "VerifyBatches"
		if l.T == "vbt" {
			name = "VerifyBatchesTrustedAggregator"
		}
		return types.Log{Address: rmAddr, Index: uint(l.Idx),
			Topics: []common.Hash{rmABI.Events[name].ID, u32topic(l.RID), common.BytesToHash(common.HexToAddress(l.Agg).Bytes())},
			Data:   pack(rmABI, name, l.Batch, h32arr(l.SRoot), h32arr(l.Exit))}
	}
	panic("bad log kind " + l.T)
}

var appender aggsync.LogAppenderMap

// toBlock: header + logs -> sync.Block exactly as EVMDownloader + EVMDriver do (appender per log topic; Block{Num, Events, Hash})
func toBlock(op Op) aggsync.Block {
	eb := &aggsync.EVMBlock{EVMBlockHeader: aggsync.EVMBlockHeader{Num: op.Num, Hash: h32(op.Hash), ParentHash: h32(op.Parent), Timestamp: op.Ts}}
	for _, l := range op.Logs {
		el := encodeLog(l)
		fn, ok := appender[el.Topics[0]]
		if !ok {
			panic("no appender for " + l.T)
		}
		if err := fn(eb, el); err != nil {
			panic(err)
		}
	}
	return aggsync.Block{Num: eb.Num, Events: eb.Events, Hash: eb.Hash}
}

func errClass(err error) string {
	switch {
	case err == nil:
		return "ok"
	case errors.Is(err, aggsync.ErrInconsistentState):
		return "inconsistent"
	case strings.Contains(err.Error(), "verif fault"):
		return "fault"
	case strings.Contains(err.Error(), "UNIQUE constraint") || strings.Contains(err.Error(), "constraint failed"):
		return "constraint"
	case errors.Is(err, tree.ErrInvalidIndex):
		return "invalid_index"
	case errors.Is(err, db.ErrNotFound) || errors.Is(err, l1infotreesync.ErrNotFound) || errors.Is(err, sql.ErrNoRows):
		return "notfound"
	case errors.Is(err, l1infotreesync.ErrBlockNotProcessed):
		return "notprocessed"
	case errors.Is(err, l1infotreesync.ErrNoBlock0):
		return "noblock0"
	default:
		if os.Getenv("VERIF_DEBUG") != "" {
			fmt.Fprintln(os.Stderr, "other error:", err)
		}
		return "other"
	}
}

var faultTables = map[string]string{"block": "block", "leaf": "l1info_leaf", "l1root": "l1_info_root", "l1rht": "l1_info_rht",
	"rroot": "rollup_exit_root", "rrht": "rollup_exit_rht", "verify": "verify_batches", "init": "l1info_initial"}

// the trigger's counter update is part of the INSERT statement: an insert that then fails (ignored duplicate rht row)
// does not count, so K counts successful writes
func installFault(d *sql.DB, f *Fault) {
	tbl, ok := faultTables[f.Table]
	if !ok {
		panic("bad fault table " + f.Table)
	}
	how := "ABORT"
	if f.RB {
		how = "ROLLBACK"
	}
	stmts := []string{
		`DROP TABLE IF EXISTS verif_cnt`,
		`CREATE TABLE verif_cnt (n INTEGER)`,
		`INSERT INTO verif_cnt VALUES (0)`,
		fmt.Sprintf(`CREATE TRIGGER verif_fault BEFORE INSERT ON %s BEGIN
			SELECT RAISE(%s, 'verif fault') WHERE (SELECT n FROM verif_cnt) = %d;
			UPDATE verif_cnt SET n = n + 1; END`, tbl, how, f.K),
	}
	for _, s := range stmts {
		if _, err := d.Exec(s); err != nil {
			panic(fmt.Sprintf("installFault %q: %v", s, err))
		}
	}
}
func removeFault(d *sql.DB) {
	for _, s := range []string{`DROP TRIGGER IF EXISTS verif_fault`, `DROP TABLE IF EXISTS verif_cnt`} {
		if _, err := d.Exec(s); err != nil {
			panic(err)
		}
	}
}

// ---------- query domain shared by every snapshot of both runs of a case ----------

type domain struct {
	maxIdx uint32
	gers   []string
	rers   []string
	blocks []uint64
	rids   []uint32
}

func gerOf(mer, rer string) string {
	l := &l1infotreesync.L1InfoTreeLeaf{MainnetExitRoot: h32(mer), RollupExitRoot: h32(rer)}
	return hlib.Hex(l.GetGlobalExitRoot().Bytes())
}

func domainOf(in In) domain {
	d := domain{}
	gers, rers, blocks, rids := map[string]bool{}, map[string]bool{}, map[uint64]bool{0: true}, map[uint32]bool{0: true, 1: true, 7: true}
	seenUpd := map[string]bool{}
	var maxB uint64
	for _, ops := range [][]Op{in.Ops, in.TwinOps} {
		for _, op := range ops {
			if op.K != "block" {
				if op.K == "reorg" {
					blocks[op.B] = true
				}
				continue
			}
			blocks[op.Num] = true
			if op.Num > maxB {
				maxB = op.Num
			}
			for _, l := range op.Logs {
				switch l.T {
				case "upd":
					gers[gerOf(l.Mer, l.Rer)] = true
					rers[hlib.Hex(h32(l.Rer).Bytes())] = true
					seenUpd[fmt.Sprintf("%d/%d", op.Num, l.Idx)] = true
				case "vb", "vbt":
					rids[l.RID] = true
				}
			}
		}
	}
	blocks[maxB+1] = true
	gers[strings.Repeat("ab", 32)] = true // a GER nobody announced
	rers[strings.Repeat("cd", 32)] = true
	d.maxIdx = uint32(len(seenUpd))
	for k := range gers {
		d.gers = append(d.gers, k)
	}
	for k := range rers {
		d.rers = append(d.rers, k)
	}
	for k := range blocks {
		d.blocks = append(d.blocks, k)
	}
	for k := range rids {
		d.rids = append(d.rids, k)
	}
	sort.Strings(d.gers)
	sort.Strings(d.rers)
	sort.Slice(d.blocks, func(i, j int) bool { return d.blocks[i] < d.blocks[j] })
	sort.Slice(d.rids, func(i, j int) bool { return d.rids[i] < d.rids[j] })
	return d
}

// ---------- running ----------

type runner struct {
	ctx  context.Context
	path string
	s    *l1infotreesync.L1InfoTreeSync
	dom  domain
}

func (r *runner) open() {
	s, err := l1infotreesync.NewVerifC11Sync(r.path)
	if err != nil {
		panic(err)
	}
	r.s = s
}

func leafObs(l *l1infotreesync.L1InfoTreeLeaf) *LeafObs {
	return &LeafObs{Block: l.BlockNumber, Pos: l.BlockPosition, Idx: l.L1InfoTreeIndex, Parent: hlib.Hex(l.PreviousBlockHash[:]),
		Ts: l.Timestamp, Mer: hlib.Hex(l.MainnetExitRoot[:]), Rer: hlib.Hex(l.RollupExitRoot[:]), Ger: hlib.Hex(l.GlobalExitRoot[:]),
		Hash: hlib.Hex(l.Hash[:])}
}
func rootObs(r treetypes.Root) *RootObs {
	return &RootObs{Hash: hlib.Hex(r.Hash[:]), Idx: r.Index, Block: r.BlockNum, BPos: r.BlockPosition}
}
func vbObs(v *l1infotreesync.VerifyBatches) *VbObs {
	return &VbObs{Block: v.BlockNumber, Pos: v.BlockPosition, RID: v.RollupID, Batch: v.NumBatch, SRoot: hlib.Hex(v.StateRoot[:]),
		Exit: hlib.Hex(v.ExitRoot[:]), Agg: hlib.Hex(v.Aggregator[:]), Rer: hlib.Hex(v.RollupExitRoot[:])}
}
func proofHex(p treetypes.Proof) []string {
	out := make([]string, 0, len(p))
	for _, h := range p {
		out = append(out, hlib.Hex(h[:]))
	}
	return out
}
func leafIdx(l *l1infotreesync.L1InfoTreeLeaf, err error) int64 {
	if err != nil || l == nil {
		return -1
	}
	return int64(l.L1InfoTreeIndex)
}

func (r *runner) snap() Snap {
	ctx, s, d := r.ctx, r.s, r.dom
	var sn Snap
	last, err := s.GetLastProcessedBlock(ctx)
	sn.Last = last
	if err != nil {
		sn.LastErr = errClass(err)
	}
	sn.Halted = l1infotreesync.VerifC11IsHalted(s)
	sn.MemLast = l1infotreesync.VerifC11L1InfoTree(s).VerifLastIndex()
	sn.FirstInfo, sn.LastInfo = -1, -1
	if sn.Halted {
		return sn
	}
	var l1roots []treetypes.Root
	for i := uint32(0); i <= d.maxIdx; i++ {
		q := InfoQ{I: i}
		leaf, err := s.GetInfoByIndex(ctx, i)
		if err == nil {
			q.Leaf = leafObs(leaf)
		}
		if root, err := s.GetL1InfoTreeRootByIndex(ctx, i); err == nil {
			q.Root = rootObs(root)
			l1roots = append(l1roots, root)
		}
		if proof, root, err := s.GetL1InfoTreeMerkleProof(ctx, i); err == nil {
			q.Proof = proofHex(proof)
			q.ProofRoot = rootObs(root)
			if q.Leaf != nil {
				q.Calc = hlib.Hex(tree.CalculateRoot(leaf.Hash, proof, i).Bytes())
			}
		}
		sn.Infos = append(sn.Infos, q)
	}
	for _, g := range d.gers {
		sn.ByGer = append(sn.ByGer, KeyIdx{g, leafIdx(s.GetInfoByGlobalExitRoot(h32(g)))})
	}
	for _, g := range d.rers {
		sn.ByRer = append(sn.ByRer, KeyIdx{g, leafIdx(s.GetFirstL1InfoWithRollupExitRoot(h32(g)))})
	}
	for _, b := range d.blocks {
		l, err := s.GetLatestInfoUntilBlock(ctx, b)
		sn.Until = append(sn.Until, BlockIdx{B: b, Code: errClass(err), Idx: leafIdx(l, err)})
		sn.After = append(sn.After, BlockIdx{B: b, Idx: leafIdx(s.GetFirstInfoAfterBlock(b))})
		num, hash, err := s.GetProcessedBlockUntil(ctx, b)
		sn.PUntil = append(sn.PUntil, PUntil{B: b, Code: errClass(err), Num: num, Hash: hlib.Hex(hash[:])})
	}
	sn.FirstInfo = leafIdx(s.GetFirstInfo())
	sn.LastInfo = leafIdx(s.GetLastInfo())
	if root, err := s.GetLastL1InfoTreeRoot(ctx); err == nil {
		sn.LastL1 = rootObs(root)
	}
	rroots := []string{}
	seenRoot := map[string]bool{}
	addRoot := func(h string) {
		if !seenRoot[h] {
			seenRoot[h] = true
			rroots = append(rroots, h)
		}
	}
	if root, err := s.GetLastRollupExitRoot(ctx); err == nil {
		sn.LastRollup = rootObs(root)
		addRoot(sn.LastRollup.Hash)
	}
	for _, rid := range d.rids {
		q := VbQ{RID: rid}
		if v, err := s.GetLastVerifiedBatches(rid); err == nil {
			q.Last = vbObs(v)
			addRoot(q.Last.Rer)
		}
		if v, err := s.GetFirstVerifiedBatches(rid); err == nil {
			q.First = vbObs(v)
			addRoot(q.First.Rer)
		}
		for _, b := range d.blocks {
			a := VbAfter{B: b}
			if v, err := s.GetFirstVerifiedBatchesAfterBlock(rid, b); err == nil {
				a.Row = vbObs(v)
				addRoot(a.Row.Rer)
			}
			q.After = append(q.After, a)
		}
		sn.Vb = append(sn.Vb, q)
	}
	// recorded rollup exit roots (the last one, the first one seen and one in between) x every network id of the domain
	for ri, rh := range rroots {
		if !(ri == 0 || ri == len(rroots)-1 || ri == len(rroots)/2) {
			continue
		}
		for _, id := range d.rids {
			q := RollupQ{Root: rh, ID: id}
			leaf, err := s.GetLocalExitRoot(ctx, id, h32(rh))
			q.Code = errClass(err)
			if err == nil {
				q.Leaf = hlib.Hex(leaf[:])
			}
			if proof, err := s.GetRollupExitTreeMerkleProof(ctx, id, h32(rh)); err == nil {
				q.Proof = proofHex(proof)
			}
			sn.Rollup = append(sn.Rollup, q)
		}
	}
	// proofs of an older index against a later root (GetL1InfoTreeMerkleProofFromIndexToRoot)
	for j, root := range l1roots {
		if !(j == len(l1roots)-1 || j%3 == 1) {
			continue
		}
		for _, idx := range []uint32{0, root.Index / 2, root.Index} {
			if proof, err := s.GetL1InfoTreeMerkleProofFromIndexToRoot(ctx, idx, root.Hash); err == nil {
				sn.ToRoot = append(sn.ToRoot, ToRoot{Idx: idx, Root: hlib.Hex(root.Hash[:]), Proof: proofHex(proof)})
			}
			if root.Index == 0 {
				break
			}
		}
	}
	if ini, err := s.GetInitL1InfoRootMap(ctx); err == nil && ini != nil {
		sn.Init = &InitObs{Block: ini.BlockNumber, Count: ini.LeafCount, Root: hlib.Hex(ini.L1InfoRoot[:])}
	}
	return sn
}

func runOps(dir, name string, ops []Op, dom domain) (res []string, snaps []Snap) {
	r := &runner{ctx: context.Background(), path: filepath.Join(dir, name+".sqlite"), dom: dom}
	r.open()
	defer func() { l1infotreesync.VerifC11Close(r.s) }()
	for _, op := range ops {
		switch op.K {
		case "block":
			blk := toBlock(op)
			if op.Fault != nil {
				installFault(l1infotreesync.VerifC11DB(r.s), op.Fault)
			}
			err := l1infotreesync.VerifC11ProcessBlock(r.ctx, r.s, blk)
			if op.Fault != nil {
				removeFault(l1infotreesync.VerifC11DB(r.s))
			}
			res = append(res, errClass(err))
		case "reorg":
			res = append(res, errClass(l1infotreesync.VerifC11Reorg(r.ctx, r.s, op.B)))
		case "restart":
			l1infotreesync.VerifC11Close(r.s)
			r.open()
			res = append(res, "ok")
		case "snap":
			snaps = append(snaps, r.snap())
			res = append(res, "ok")
		case "reset": // twin only: start again from an empty database
			l1infotreesync.VerifC11Close(r.s)
			for _, sfx := range []string{"", "-wal", "-shm"} {
				os.Remove(r.path + sfx)
			}
			r.open()
			res = append(res, "ok")
		default:
			panic("bad op " + op.K)
		}
	}
	return
}

func run(in In, dir string, n int) (out Out) {
	defer func() {
		if e := recover(); e != nil {
			out.Err = fmt.Sprint(e)
		}
	}()
	out.In = in
	if len(in.Chain) > 0 {
		ops, cobs := runChain(in.Chain)
		in.Ops = ops
		out.In = in
		out.Contract = cobs
	}
	sub := filepath.Join(dir, fmt.Sprintf("case%d", n))
	os.MkdirAll(sub, 0o755)
	defer os.RemoveAll(sub)
	dom := domainOf(in)
	out.Res, out.Snaps = runOps(sub, "main", in.Ops, dom)
	if len(in.TwinOps) > 0 {
		out.TwinRes, out.TwinSnaps = runOps(sub, "twin", in.TwinOps, dom)
	}
	return
}

func main() {
	propFlag := flag.String("prop", "c11", "generator: c11|c04|c07")
	f := hlib.ParseFlags()
	hlib.QuietLogs()
	var err error
	if appender, err = l1infotreesync.VerifC11Appender(gerAddr, rmAddr); err != nil {
		panic(err)
	}
	var ins []In
	if f.Replay != "" {
		for _, raw := range hlib.ReadJSONL(f.Replay) {
			var in In
			if err := json.Unmarshal(raw, &in); err != nil {
				panic(err)
			}
			ins = append(ins, in)
		}
	} else {
		ins = generate(*propFlag, f)
	}
	dir, err := os.MkdirTemp("", "verif_l1info_")
	if err != nil {
		panic(err)
	}
	defer os.RemoveAll(dir)
	w := hlib.NewWriter(f.Out)
	defer w.Close()
	for i, in := range ins {
		w.Emit(run(in, dir, i))
	}
}
