package main

// A small L1 in go-ethereum's simulated backend: the REAL PolygonZkEVMGlobalExitRootV2 contract (bytecode from the
// contracts tooling package the product binds to) and the repository's rollup-manager mock (test/contracts/verifybatchesmock,
// same getRollupExitRoot algorithm as the rollup manager). One transaction per block. The logs and headers of this chain
// become the block ops of the case; getRoot() / getLeafValue() / getRollupExitRoot() are recorded for the comparison with
// Model/Contracts.v.

import (
	"context"
	"fmt"
	"math/big"

	"github.com/0xPolygon/cdk-contracts-tooling/contracts/pp/l2-sovereign-chain/polygonzkevmglobalexitrootv2"
	"github.com/agglayer/aggkit/test/contracts/verifybatchesmock"
	"github.com/ethereum/go-ethereum/accounts/abi/bind"
	"github.com/ethereum/go-ethereum/common"
	"github.com/ethereum/go-ethereum/core/types"
	"github.com/ethereum/go-ethereum/crypto"
	"github.com/ethereum/go-ethereum/ethclient/simulated"

	"verifharness/hlib"
)

func must(err error) {
	if err != nil {
		panic(err)
	}
}

func runChain(txs []ChainTx) ([]Op, []ContractObs) {
	ctx := context.Background()
	key, err := crypto.HexToECDSA("4c0883a69102937d6231471b5dbb6204fe5129617082792ae468d01a3f362318")
	must(err)
	auth, err := bind.NewKeyedTransactorWithChainID(key, big.NewInt(1337))
	must(err)
	balance, _ := new(big.Int).SetString("100000000000000000000000000", 10)
	backend := simulated.NewBackend(map[common.Address]types.Account{auth.From: {Balance: balance}},
		simulated.WithBlockGasLimit(999999999999999999))
	defer backend.Close()
	client := backend.Client()
	backend.Commit()
	nonce, err := client.PendingNonceAt(ctx, auth.From)
	must(err)
	precalcGER := crypto.CreateAddress(auth.From, nonce+1)
	verifyAddr, _, verifySC, err := verifybatchesmock.DeployVerifybatchesmock(auth, client, precalcGER)
	must(err)
	backend.Commit()
	// rollup manager = the mock; bridge role = our account (it may then announce mainnet exit roots directly)
	gotGER, _, gerSC, err := polygonzkevmglobalexitrootv2.DeployPolygonzkevmglobalexitrootv2(auth, client, verifyAddr, auth.From)
	must(err)
	backend.Commit()
	if gotGER != precalcGER {
		panic("GER address mismatch")
	}
	var ops []Op
	var cobs []ContractObs
	for _, tx := range txs {
		var t *types.Transaction
		switch tx.K {
		case "ger":
			t, err = gerSC.UpdateExitRoot(auth, h32arr(tx.Root))
		case "verify":
			t, err = verifySC.VerifyBatches(auth, tx.RID, 7, h32arr(tx.Exit), h32arr("01"), tx.UpdateGER)
		case "verifyt":
			t, err = verifySC.VerifyBatchesTrustedAggregator(auth, tx.RID, 7, h32arr(tx.Exit), h32arr("02"), tx.UpdateGER)
		default:
			panic("bad chain tx " + tx.K)
		}
		must(err)
		backend.Commit()
		rc, err := client.TransactionReceipt(ctx, t.Hash())
		must(err)
		if rc.Status != types.ReceiptStatusSuccessful {
			panic(fmt.Sprintf("chain tx %+v reverted", tx))
		}
		hdr, err := client.HeaderByNumber(ctx, rc.BlockNumber)
		must(err)
		op := Op{K: "block", Num: hdr.Number.Uint64(), Hash: hlib.Hex(hdr.Hash().Bytes()), Parent: hlib.Hex(hdr.ParentHash.Bytes()), Ts: hdr.Time}
		co := ContractObs{}
		for _, lg := range rc.Logs {
			l := *lg
			if u, err := gerSC.ParseUpdateL1InfoTree(l); err == nil && l.Topics[0] == gerABI.Events["UpdateL1InfoTree"].ID {
				op.Logs = append(op.Logs, Log{T: "upd", Idx: uint64(l.Index), Mer: hlib.Hex(u.MainnetExitRoot[:]), Rer: hlib.Hex(u.RollupExitRoot[:])})
				ger := common.HexToHash(gerOf(hlib.Hex(u.MainnetExitRoot[:]), hlib.Hex(u.RollupExitRoot[:])))
				lv, err := gerSC.GetLeafValue(nil, ger, hdr.ParentHash.Big(), hdr.Time)
				must(err)
				co.LeafValues = append(co.LeafValues, hlib.Hex(lv[:]))
			} else if v, err := gerSC.ParseUpdateL1InfoTreeV2(l); err == nil && l.Topics[0] == gerABI.Events["UpdateL1InfoTreeV2"].ID {
				op.Logs = append(op.Logs, Log{T: "v2", Idx: uint64(l.Index), Root: hlib.Hex(v.CurrentL1InfoRoot[:]), Count: v.LeafCount,
					BH: hlib.Hex(common.BigToHash(v.Blockhash).Bytes()), MinTs: v.MinTimestamp})
			} else if b, err := verifySC.ParseVerifyBatches(l); err == nil && l.Topics[0] == rmABI.Events["VerifyBatches"].ID {
				op.Logs = append(op.Logs, Log{T: "vb", Idx: uint64(l.Index), RID: b.RollupID, Batch: b.NumBatch, SRoot: hlib.Hex(b.StateRoot[:]),
					Exit: hlib.Hex(b.ExitRoot[:]), Agg: hlib.Hex(b.Aggregator[:])})
			} else if b, err := verifySC.ParseVerifyBatchesTrustedAggregator(l); err == nil && l.Topics[0] == rmABI.Events["VerifyBatchesTrustedAggregator"].ID {
				op.Logs = append(op.Logs, Log{T: "vbt", Idx: uint64(l.Index), RID: b.RollupID, Batch: b.NumBatch, SRoot: hlib.Hex(b.StateRoot[:]),
					Exit: hlib.Hex(b.ExitRoot[:]), Agg: hlib.Hex(b.Aggregator[:])})
			}
		}
		root, err := gerSC.GetRoot(nil)
		must(err)
		cnt, err := gerSC.DepositCount(nil)
		must(err)
		rr, err := verifySC.GetRollupExitRoot(nil)
		must(err)
		lg, err := gerSC.GetLastGlobalExitRoot(nil)
		must(err)
		co.L1Root, co.Count, co.RollupRoot, co.LastGER = hlib.Hex(root[:]), uint32(cnt.Uint64()), hlib.Hex(rr[:]), hlib.Hex(lg[:])
		ops = append(ops, op)
		cobs = append(cobs, co)
	}
	ops = append(ops, Op{K: "snap"})
	return ops, cobs
}
