package main

import (
	"fmt"
	"math/big"

	"verifharness/hlib"
)

var maxU256 = new(big.Int).Sub(new(big.Int).Lsh(big.NewInt(1), 256), big.NewInt(1))

func genAddr(r *hlib.Rng) string {
	switch r.Intn(4) {
	case 0:
		return "0000000000000000000000000000000000000000"
	case 1:
		return "ffffffffffffffffffffffffffffffffffffffff"
	default:
		return hlib.Hex(r.Bytes(20))
	}
}

// earlier deposits of the current history, so that identical deposits (equal leaf values) occur
var prevBridges []Ev

// the deposit with each count of the current history: a deposit equal to the one two counts earlier puts two equal leaves on
// positions of the same parity, whose branches then share their lowest node(s) while differing above
var bridgeByDC = map[uint32]Ev{}

func genBridge(r *hlib.Rng, dc uint32, pos uint64, tag uint64) Ev {
	e := genBridge1(r, dc, pos, tag)
	bridgeByDC[dc] = e
	return e
}

func genBridge1(r *hlib.Rng, dc uint32, pos uint64, tag uint64) Ev {
	e := genBridge2(r, dc, pos, tag)
	// deposits 4, 9, 14, ..: equal to the one two counts earlier. No random draw: the rest of the history is what it was before
	// this rule existed (the directed histories and the stored seeded changes were tuned on those streams)
	if p, ok := bridgeByDC[dc-2]; ok && dc >= 2 && dc%5 == 4 {
		p.Pos, p.Tag, p.DC = pos, tag, dc
		return p
	}
	return e
}

func genBridge2(r *hlib.Rng, dc uint32, pos uint64, tag uint64) Ev {
	if len(prevBridges) > 0 && r.Intn(4) == 0 {
		e := prevBridges[r.Intn(len(prevBridges))]
		e.Pos, e.Tag, e.DC = pos, tag, dc
		return e
	}
	e := genBridge0(r, dc, pos, tag)
	prevBridges = append(prevBridges, e)
	if len(prevBridges) > 8 {
		prevBridges = prevBridges[1:]
	}
	return e
}

func genBridge0(r *hlib.Rng, dc uint32, pos uint64, tag uint64) Ev {
	e := Ev{T: "bridge", Pos: pos, Tag: tag, DC: dc, LT: uint8(r.Intn(2))}
	e.ONet = hlib.Pick(r, uint32(0), 1, 2, 0xffffffff, r.U32())
	e.DNet = hlib.Pick(r, uint32(0), 1, 2, 0xffffffff, r.U32())
	e.OAddr, e.DAddr = genAddr(r), genAddr(r)
	switch r.Intn(6) {
	case 0:
		e.Amount = "" // nil
	case 1:
		e.Amount = "0"
	case 2:
		e.Amount = "1"
	case 3:
		e.Amount = maxU256.String()
	default:
		e.Amount = r.Big(1 + r.Intn(256)).String()
	}
	ml := hlib.Pick(r, 0, 0, 1, 31, 32, 33, 64, 135, 136, 137, 300, 1000)
	if ml > 0 {
		e.Meta = hlib.Hex(r.Bytes(ml))
	}
	return e
}

// history generator: blocks with increasing numbers, events of mixed kinds, consecutive deposit counts
type hist struct {
	r      *hlib.Rng
	num    uint64
	dc     uint32
	tag    uint64
	legacy []string // addresses of legacy migrations inserted so far
	kinds  []string // allowed kinds besides bridge
	pBridg int      // percentage of bridge events
}

func (h *hist) block(maxEv int) Op {
	h.num += uint64(1 + h.r.Intn(3))
	n := h.r.Intn(maxEv + 1)
	op := Op{K: "block", Num: h.num}
	pos := uint64(0)
	for i := 0; i < n; i++ {
		pos += uint64(1 + h.r.Intn(3))
		h.tag++
		if h.r.Intn(100) < h.pBridg || len(h.kinds) == 0 {
			op.Events = append(op.Events, genBridge(h.r, h.dc, pos, h.tag))
			h.dc++
			continue
		}
		switch hlib.Pick(h.r, h.kinds...) {
		case "claim":
			op.Events = append(op.Events, Ev{T: "claim", Pos: pos, Tag: h.tag})
		case "tm":
			op.Events = append(op.Events, Ev{T: "tm", Pos: pos, Tag: h.tag})
		case "legacy":
			a := hlib.Hex(h.r.Bytes(20))
			if len(h.legacy) > 0 && h.r.Intn(3) == 0 {
				a = hlib.Pick(h.r, h.legacy...)
			}
			h.legacy = append(h.legacy, a)
			op.Events = append(op.Events, Ev{T: "legacy", Pos: pos, Tag: h.tag, Addr: a})
		case "rmlegacy":
			a := hlib.Hex(h.r.Bytes(20))
			if len(h.legacy) > 0 {
				a = hlib.Pick(h.r, h.legacy...)
			}
			op.Events = append(op.Events, Ev{T: "rmlegacy", Pos: pos, Addr: a})
		}
	}
	return op
}

func snapOp() Op { return Op{K: "snap"} }

func genC01(r *hlib.Rng, n int) In {
	h := &hist{r: r, kinds: []string{"claim", "tm"}, pBridg: 80}
	in := In{Prop: "c01"}
	for len(in.Ops) < n {
		in.Ops = append(in.Ops, h.block(4))
		if r.Intn(6) == 0 {
			in.Ops = append(in.Ops, Op{K: "restart"})
		}
	}
	in.Ops = append(in.Ops, snapOp())
	return in
}

// many deposits, small metadata: run several of these at the same time (-par) so that, as in the node (L1 bridge, L2 bridge and
// L1 info tree syncers are goroutines of one process), several trees hash and store concurrently
func genC01Long(r *hlib.Rng, blocks int) In {
	h := &hist{r: r, kinds: []string{"claim"}, pBridg: 95}
	in := In{Prop: "c01"}
	for i := 0; i < blocks; i++ {
		in.Ops = append(in.Ops, h.block(6))
	}
	in.Ops = append(in.Ops, snapOp())
	return in
}

// more than 500 deposits in blocks of 3, 6, 4, 6, 5, 3, ... deposits: for every batch size P in {10, 20, 25, 32, 50, 64, 100, 128, 200,
// 250, 256, 300, 400, 500, 512} the P-th deposit is neither the first nor the last deposit of its block (24 deposits per 5 blocks,
// block ends at 3, 9, 13, 19, 24 mod 24), so a range query that works in batches has to resume inside a block
func genC01Paged(r *hlib.Rng, blocks int) In {
	h := &hist{r: r}
	in := In{Prop: "c01"}
	sizes := []int{3, 6, 4, 6, 5}
	for i := 0; i < blocks; i++ {
		h.num += uint64(1 + r.Intn(2))
		op := Op{K: "block", Num: h.num}
		pos := uint64(0)
		for k := 0; k < sizes[i%len(sizes)]; k++ {
			pos += uint64(1 + r.Intn(3))
			h.tag++
			op.Events = append(op.Events, genBridge(r, h.dc, pos, h.tag))
			h.dc++
		}
		in.Ops = append(in.Ops, op)
	}
	in.Ops = append(in.Ops, snapOp())
	return in
}

// high leaf indices and 2^k carry boundaries: a synthetic tree of n equal leaves, then real deposits n, n+1, ... across the carry
func genC01High(r *hlib.Rng) In {
	ns := []uint32{1, 2, 3, 7, 8, 255, 256, 1<<16 - 1, 1 << 16, 1<<24 - 2, 1<<31 - 1, 1 << 31, 1<<32 - 6, 1<<32 - 3}
	n := hlib.Pick(r, ns...)
	if r.Intn(3) == 0 {
		n = uint32(1)<<uint(1+r.Intn(31)) - uint32(r.Intn(3))
	}
	in := In{Prop: "c01"}
	in.Ops = append(in.Ops, Op{K: "prestate", Num: 1, N: n, X: hlib.Hex(r.Bytes(32))})
	h := &hist{r: r, kinds: []string{"claim"}, pBridg: 90, num: 1, dc: n}
	cnt := 2 + r.Intn(3)
	for i := 0; i < cnt; i++ {
		if uint64(h.dc)+4 >= 1<<32 {
			break
		}
		in.Ops = append(in.Ops, h.block(2))
		if r.Intn(3) == 0 {
			in.Ops = append(in.Ops, Op{K: "restart"})
		}
	}
	in.Ops = append(in.Ops, snapOp())
	return in
}

// equal deposits on positions of the same parity (two alternating deposit contents, 10 deposits in blocks of 1..3): the branches of
// equal leaves share their lowest nodes and differ above; every recorded root must still serve verifying proofs
func genC08Equal(r *hlib.Rng) In {
	in := In{Prop: "c08", Proofs: "all"}
	a, b := genBridge0(r, 0, 0, 0), genBridge0(r, 0, 0, 0)
	num, dc, tag := uint64(0), uint32(0), uint64(0)
	for dc < 10 {
		num += uint64(1 + r.Intn(2))
		op := Op{K: "block", Num: num}
		pos := uint64(0)
		for k := 1 + r.Intn(3); k > 0 && dc < 10; k-- {
			pos += uint64(1 + r.Intn(2))
			tag++
			e := a
			if dc%2 == 1 || dc == 6 { // positions 0, 2, 4, 8 hold a; 1, 3, 5, 6, 7, 9 hold b
				e = b
			}
			e.Pos, e.Tag, e.DC = pos, tag, dc
			op.Events = append(op.Events, e)
			dc++
		}
		if len(in.Ops) == 1 || len(in.Ops) == 3 {
			// readers ask for the roots / proofs this block is about to record while its transaction is open; the same questions
			// must be answered correctly once it is committed (no reorg follows in this history)
			op.Fault = &Fault{Table: "bridge", K: 0, Read: true}
		}
		in.Ops = append(in.Ops, op)
	}
	in.Ops = append(in.Ops, snapOp())
	return in
}

// the deposit that is reorganised away repeats content that lies under surviving roots (the same bridge four times in a row, or the
// pair (a, b) twice): its branch shares nodes with theirs; after the reorg every surviving root must still serve verifying proofs
// for every index it covers, and so must the roots of the new fork
func genC08RepeatedReorg(r *hlib.Rng, pair bool) In {
	in := In{Prop: "c08", Proofs: "all"}
	a, b := genBridge0(r, 0, 0, 0), genBridge0(r, 0, 0, 0)
	if !pair {
		b = a
	}
	mk := func(num uint64, dc uint32, evs ...Ev) Op {
		op := Op{K: "block", Num: num}
		for i, e := range evs {
			e.Pos, e.Tag, e.DC = uint64(2*i+1), uint64(num*10)+uint64(i), dc+uint32(i)
			op.Events = append(op.Events, e)
		}
		return op
	}
	in.Ops = append(in.Ops, mk(2, 0, a, b), mk(3, 2, a), mk(5, 3, b), snapOp())
	in.Ops = append(in.Ops, Op{K: "reorg", B: 5}, snapOp())
	in.Ops = append(in.Ops, mk(5, 3, genBridge0(r, 0, 0, 0)), mk(7, 4, a, b), snapOp())
	return in
}

func genC08(r *hlib.Rng, n int) In {
	h := &hist{r: r, kinds: []string{"claim"}, pBridg: 90}
	in := In{Prop: "c08", Proofs: "all"}
	for len(in.Ops) < n {
		blk := h.block(3)
		nb := 0
		for _, e := range blk.Events {
			if e.T == "bridge" {
				nb++
			}
		}
		if nb > 0 && r.Intn(5) == 0 { // a storage fault while the node table is written, then the block again
			fo := blk
			fo.Fault = &Fault{Table: "rht", K: r.Intn(nb)}
			in.Ops = append(in.Ops, fo)
		}
		if nb > 0 && r.Intn(3) == 0 { // readers ask for the roots / proofs of this block while its transaction is open
			blk.Fault = &Fault{Table: "bridge", K: r.Intn(nb), Read: true}
		}
		in.Ops = append(in.Ops, blk)
		switch r.Intn(8) {
		case 0:
			in.Ops = append(in.Ops, Op{K: "restart"})
		case 1:
			// reorg of the last 1-2 blocks, then the fork continues with fresh deposits from the right count
			b := h.num - uint64(r.Intn(2))
			in.Ops = append(in.Ops, Op{K: "reorg", B: b})
			h.dc = countBelow(in.Ops, b)
		}
	}
	in.Ops = append(in.Ops, snapOp())
	return in
}

// number of bridge events in blocks below b that are still part of the history described by ops (after its reorgs)
func countBelow(ops []Op, b uint64) uint32 {
	live := liveBlocks(ops)
	var n uint32
	for _, op := range live {
		if op.Num < b {
			for _, e := range op.Events {
				if e.T == "bridge" {
					n++
				}
			}
		}
	}
	return n
}

// the blocks that a node which never saw the reorged blocks would have processed, in order
func liveBlocks(ops []Op) []Op {
	var live []Op
	for _, op := range ops {
		switch op.K {
		case "block":
			if (op.Fault == nil || op.Fault.Read) && !isGapBlock(live, op) {
				lo := op
				lo.Fault = nil // the twin processes the block plainly
				live = append(live, lo)
			}
		case "reorg":
			var keep []Op
			for _, l := range live {
				if l.Num < op.B {
					keep = append(keep, l)
				}
			}
			live = keep
		}
	}
	return live
}

// a block whose first bridge event does not carry the next deposit count is refused by the node (it halts)
func isGapBlock(live []Op, op Op) bool {
	var n uint32
	for _, l := range live {
		for _, e := range l.Events {
			if e.T == "bridge" {
				n++
			}
		}
	}
	for _, e := range op.Events {
		if e.T == "bridge" {
			return e.DC != n
		}
	}
	return false
}

func genC04(r *hlib.Rng, n int, destructive bool) In {
	kinds := []string{"claim", "tm", "legacy"}
	if destructive {
		kinds = append(kinds, "rmlegacy", "rmlegacy")
	}
	h := &hist{r: r, kinds: kinds, pBridg: 50}
	in := In{Prop: "c04", Proofs: "some"}
	if destructive {
		in.Prop = "c04d"
	}
	nre := 1 + r.Intn(3)
	for k := 0; k < nre; k++ {
		for i := 0; i < 1+r.Intn(n); i++ {
			in.Ops = append(in.Ops, h.block(4))
		}
		halting := r.Intn(4) == 0 && len(liveBlocks(in.Ops)) > 0
		if halting {
			// the node sees a block of the new fork before the reorg is noticed: its deposit count does not follow => halt.
			// (the reorg below then removes at least one recorded block, which is what clears the halt: C14)
			h.num++
			in.Ops = append(in.Ops, Op{K: "block", Num: h.num + 1000, Events: []Ev{genBridge0(r, h.dc+1+uint32(r.Intn(3)), 1, 0)}})
		}
		// reorg point: first block, somewhere, tip, above tip
		live := liveBlocks(in.Ops)
		if len(live) == 0 {
			continue
		}
		var b uint64
		choice := r.Intn(5)
		if halting && choice == 1 {
			choice = 2
		}
		tip := live[len(live)-1].Num
		switch choice {
		case 0:
			b = live[0].Num
		case 1:
			b = h.num + 1 + uint64(r.Intn(3)) // above the tip: identity
		case 2:
			b = tip
		default:
			b = live[r.Intn(len(live))].Num + uint64(r.Intn(2))
		}
		if halting && b > tip {
			b = tip // after a halt the reorg must remove at least one recorded block (see the halting stream above)
		}
		in.Ops = append(in.Ops, Op{K: "reorg", B: b, Busy: r.Intn(3) == 0})
		if r.Intn(3) == 0 { // nested / repeated reorg
			in.Ops = append(in.Ops, Op{K: "reorg", B: b + uint64(r.Intn(3))})
		}
		if r.Intn(4) == 0 {
			in.Ops = append(in.Ops, Op{K: "restart"})
		}
		in.Ops = append(in.Ops, snapOp())
		// continue on the new fork
		h.dc = countBelow(in.Ops, ^uint64(0))
		if lb := liveBlocks(in.Ops); len(lb) > 0 {
			h.num = lb[len(lb)-1].Num
		} else {
			h.num = 0
		}
		for i := 0; i < r.Intn(4); i++ {
			in.Ops = append(in.Ops, h.block(4))
		}
		in.Ops = append(in.Ops, snapOp())
	}
	// twin: a node that only ever saw the surviving blocks; snapshots at the same points
	in.TwinOps = twinOf(in.Ops)
	return in
}

// directed C04 history: the node halts on a block of a new fork (deposit-count gap) and the reorg that follows removes only
// recorded blocks WITHOUT deposits (claims / token mappings only): it removes processed blocks, so it clears the halt, and the
// node must then follow the new fork like a node that never saw the old one
func genC04HaltNoDeposit(r *hlib.Rng) In {
	h := &hist{r: r, kinds: []string{"claim", "tm"}, pBridg: 60}
	in := In{Prop: "c04", Proofs: "some"}
	for i := 0; i < 2+r.Intn(2); i++ {
		in.Ops = append(in.Ops, h.block(3))
	}
	h.num++
	quiet := Op{K: "block", Num: h.num, Events: []Ev{{T: "claim", Pos: 1, Tag: 900001}, {T: "tm", Pos: 3, Tag: 900002}}}
	in.Ops = append(in.Ops, quiet)
	h.num++
	in.Ops = append(in.Ops, Op{K: "block", Num: h.num, Events: []Ev{{T: "claim", Pos: 2, Tag: 900003}}})
	// a block of the new fork whose deposit count does not follow: halt
	in.Ops = append(in.Ops, Op{K: "block", Num: h.num + 1000, Events: []Ev{genBridge0(r, h.dc+2, 1, 0)}})
	in.Ops = append(in.Ops, Op{K: "reorg", B: quiet.Num})
	in.Ops = append(in.Ops, snapOp())
	h.num = quiet.Num - 1
	for i := 0; i < 3; i++ {
		in.Ops = append(in.Ops, h.block(3))
	}
	in.Ops = append(in.Ops, snapOp())
	in.TwinOps = twinOf(in.Ops)
	return in
}

// directed C04 history: the dropped fork REPEATS surviving deposits so that a whole subtree repeats (deposits 0,1 = (a, b) survive,
// deposits 2,3 = (a, b) and a further one are dropped): the tree nodes of the dropped roots are partly the nodes of surviving roots.
// Every proof of every surviving root must still verify after the reorg, and the new fork must be followed.
func genC04RepeatedSubtree(r *hlib.Rng) In {
	in := In{Prop: "c04", Proofs: "all"}
	a, b := genBridge0(r, 0, 0, 0), genBridge0(r, 0, 0, 0)
	mk := func(num uint64, dc uint32, evs ...Ev) Op {
		op := Op{K: "block", Num: num}
		for i, e := range evs {
			e.Pos, e.Tag, e.DC = uint64(2*i+1), uint64(num*10)+uint64(i), dc+uint32(i)
			op.Events = append(op.Events, e)
		}
		return op
	}
	in.Ops = append(in.Ops, mk(2, 0, a, b), mk(4, 2, a, b), mk(5, 4, genBridge0(r, 0, 0, 0)))
	in.Ops = append(in.Ops, Op{K: "reorg", B: 4}, snapOp())
	in.Ops = append(in.Ops, mk(4, 2, genBridge0(r, 0, 0, 0)), mk(6, 3, a, genBridge0(r, 0, 0, 0)), snapOp())
	in.TwinOps = twinOf(in.Ops)
	return in
}

// twinOf: same snapshots, but every block that is later reorged away is never processed, reorgs/restarts/faults dropped
func twinOf(ops []Op) []Op {
	// emit blocks incrementally while the surviving history only grows, else restart the twin from an empty DB ("reset")
	var out []Op
	var prev []Op
	for i, op := range ops {
		if op.K != "snap" {
			continue
		}
		live := liveBlocks(ops[:i])
		if isPrefix(prev, live) {
			out = append(out, live[len(prev):]...)
		} else {
			out = append(out, Op{K: "reset"})
			out = append(out, live...)
		}
		out = append(out, op)
		prev = live
	}
	return out
}

func isPrefix(a, b []Op) bool {
	if len(a) > len(b) {
		return false
	}
	for i := range a {
		if a[i].Num != b[i].Num || fmt.Sprint(a[i].Events) != fmt.Sprint(b[i].Events) {
			return false
		}
	}
	return true
}

var faultKinds = []string{"block", "root", "rht", "bridge", "claim", "tm", "legacy"}

func genC07(r *hlib.Rng, n int) In {
	h := &hist{r: r, kinds: []string{"claim", "tm", "legacy"}, pBridg: 65}
	in := In{Prop: "c07", Proofs: "some"}
	for i := 0; i < n; i++ {
		op := h.block(5)
		if r.Intn(2) == 0 && len(op.Events) > 0 {
			// count writes per table in this block, pick a fault that will actually fire
			cnt := map[string]int{"block": 1}
			for _, e := range op.Events {
				switch e.T {
				case "bridge":
					cnt["root"]++
					cnt["rht"]++
					cnt["bridge"]++
				case "claim":
					cnt["claim"]++
				case "tm":
					cnt["tm"]++
				case "legacy":
					cnt["legacy"]++
				}
			}
			nf := 1 + r.Intn(2) // sequences of faults on the same block
			for j := 0; j < nf; j++ {
				t := hlib.Pick(r, faultKinds...)
				if cnt[t] == 0 {
					continue
				}
				fo := op
				fo.Fault = &Fault{Table: t, K: r.Intn(cnt[t])}
				if r.Intn(4) == 0 { // context cancelled while that statement runs, then (as in production) a restart
					fo.Fault.Cancel = true
				}
				if !fo.Fault.Cancel && (len(in.Ops)+j)%2 == 1 {
					// the failing statement takes the whole transaction with it (SQLite rolls back on its own: a full disk, an I/O error,
					// a busy database at a bad moment do that): db.Tx.Rollback then fails and the rollback callbacks are NOT run, so the
					// tree's in-memory frontier stays advanced; the driver retries on the same instance. No random draw is added.
					fo.Fault.RB = true
				}
				in.Ops = append(in.Ops, fo)
				if r.Intn(5) == 0 {
					in.Ops = append(in.Ops, Op{K: "restart"})
				}
			}
		}
		nb := func() int {
			n := 0
			for _, e := range op.Events {
				if e.T == "bridge" {
					n++
				}
			}
			return n
		}()
		if nb > 0 && r.Intn(4) == 0 {
			// the node table cannot be read (nor written) during one attempt: right after a failed attempt (whose rollback
			// invalidated the frontier cache) or a restart, the append-only tree has to rebuild its cache from exactly that table
			if len(in.Ops) == 0 || in.Ops[len(in.Ops)-1].K == "block" && in.Ops[len(in.Ops)-1].Fault == nil && r.Bool() {
				in.Ops = append(in.Ops, Op{K: "restart"})
			}
			fo := op
			fo.Fault = &Fault{Table: "rht", Hide: true}
			in.Ops = append(in.Ops, fo)
		}
		if nb > 0 && r.Intn(6) == 0 {
			op.Fault = &Fault{Table: "bridge", K: r.Intn(nb), Read: true} // mid-transaction readers; the block itself succeeds
		}
		in.Ops = append(in.Ops, op)
		if r.Intn(8) == 0 {
			in.Ops = append(in.Ops, Op{K: "restart"})
		}
	}
	in.Ops = append(in.Ops, snapOp())
	in.TwinOps = twinOf(in.Ops)
	return in
}

// blocks handed, already buffered, to the real EVMDriver; one of them meets a transient storage fault
func genC07Drive(r *hlib.Rng, n int) In {
	h := &hist{r: r, kinds: []string{"claim", "tm"}, pBridg: 55}
	in := In{Prop: "c07", Proofs: "some"}
	var blocks, clean []Op
	for i := 0; i < n; i++ {
		b := h.block(3)
		blocks = append(blocks, b)
		clean = append(clean, b)
	}
	faultAt := -1
	// candidate blocks: those with at least one event of a faultable kind
	var cands []int
	for i, b := range blocks {
		if len(b.Events) > 0 {
			cands = append(cands, i)
		}
	}
	if len(cands) > 0 {
		faultAt = hlib.Pick(r, cands...)
		b := blocks[faultAt]
		tables := []string{"block"}
		for _, e := range b.Events {
			switch e.T {
			case "bridge":
				tables = append(tables, "root", "rht", "bridge")
			case "claim":
				tables = append(tables, "claim")
			case "tm":
				tables = append(tables, "tm")
			}
		}
		b.Fault = &Fault{Table: hlib.Pick(r, tables...), K: 0}
		blocks[faultAt] = b
	}
	in.Ops = []Op{{K: "drive", Blocks: blocks, FaultAt: faultAt}, snapOp()}
	in.TwinOps = []Op{{K: "drive", Blocks: clean, FaultAt: -1}, snapOp()}
	return in
}

func generate(prop string, f *hlib.Flags) []In {
	r := hlib.NewRng(f.Seed)
	var ins []In
	for i := 0; i < f.N; i++ {
		switch prop {
		case "c01":
			if i%4 == 3 {
				ins = append(ins, genC01High(r))
			} else {
				ins = append(ins, genC01(r, 3+r.Intn(12)))
			}
		case "c08":
			if i == 0 {
				ins = append(ins, genC08Equal(hlib.NewRng(f.Seed^0xe9a1)))
				ins = append(ins, genC08RepeatedReorg(hlib.NewRng(f.Seed^0xe9a2), false), genC08RepeatedReorg(hlib.NewRng(f.Seed^0xe9a3), true))
			}
			ins = append(ins, genC08(r, 4+r.Intn(8)))
		case "c04":
			if i == 0 {
				ins = append(ins, genC04HaltNoDeposit(hlib.NewRng(f.Seed^0xc04a)))
				ins = append(ins, genC04RepeatedSubtree(hlib.NewRng(f.Seed^0xc04b)))
			}
			ins = append(ins, genC04(r, 6, i%5 == 4))
		case "c07":
			if i%3 == 2 {
				ins = append(ins, genC07Drive(r, 3+r.Intn(5)))
			} else {
				ins = append(ins, genC07(r, 3+r.Intn(6)))
			}
		default:
			panic("unknown VERIF_PROP " + prop)
		}
	}
	if prop == "c01" && f.N > 4 {
		nl := 4
		if f.Tier == "thorough" {
			nl = 12
		}
		for i := 0; i < nl; i++ {
			ins = append(ins, genC01Long(r, 40))
		}
		// one history of more than 500 deposits in blocks of 0..6 (GetBridges over the whole range returns several hundred rows;
		// any batching of that query by block number or row count has to cope with blocks that hold several deposits)
		ins = append(ins, genC01Paged(r, 115))
	}
	return ins
}
