// Bridge-store scenario harness (C01, C04, C07, C08): drives the REAL bridgesync processor (SQLite store +
// append-only exit tree) through generated operation sequences and prints canonical observations.
package main

import (
	"context"
	"database/sql"
	"encoding/json"
	"errors"
	"flag"
	"fmt"
	"math/big"
	"os"
	"path/filepath"
	"sort"
	"strings"
	"sync"
	"time"

	"github.com/agglayer/aggkit/bridgesync"
	aggdb "github.com/agglayer/aggkit/db"
	"github.com/agglayer/aggkit/reorgdetector"
	aggsync "github.com/agglayer/aggkit/sync"
	"github.com/agglayer/aggkit/tree"
	treemigrations "github.com/agglayer/aggkit/tree/migrations"
	treetypes "github.com/agglayer/aggkit/tree/types"
	aggkittypes "github.com/agglayer/aggkit/types"
	"github.com/ethereum/go-ethereum/common"
	"github.com/ethereum/go-ethereum/crypto"

	"verifharness/hlib"
)

// ---------- case format ----------

type Ev struct {
	T      string `json:"t"` // bridge | claim | tm | legacy | rmlegacy
	Pos    uint64 `json:"pos"`
	Tag    uint64 `json:"tag"`
	DC     uint32 `json:"dc,omitempty"`
	LT     uint8  `json:"lt,omitempty"`
	ONet   uint32 `json:"onet,omitempty"`
	OAddr  string `json:"oaddr,omitempty"`
	DNet   uint32 `json:"dnet,omitempty"`
	DAddr  string `json:"daddr,omitempty"`
	Amount string `json:"amount,omitempty"` // decimal; "" = nil
	Meta   string `json:"meta,omitempty"`   // hex
	Addr   string `json:"addr,omitempty"`   // legacy token address (hex20)
}

type Fault struct {
	Table string `json:"table"` // block root rht bridge claim tm legacy
	K     int    `json:"k"`     // the k-th write (0-based) to that table in this ProcessBlock fails
	// Cancel: instead of failing, the k-th write is made SLOW (a trigger that counts a few million rows) and the context
	// ProcessBlock was called with is cancelled while it runs: database/sql then rolls the transaction back on its own,
	// every later statement (or the commit) fails, and db.Tx.Rollback returns an error, so the rollback callbacks are NOT
	// run. As in production (a cancelled context is a shutdown) the processor is then closed and reopened.
	Cancel bool `json:"cancel,omitempty"`
	// Read: no failure either; the k-th write is made slow and, WHILE the block's transaction is open, another goroutine asks the
	// facade (on another pooled connection) for the exit roots, the proofs and the root-by-LER entries of exactly the roots this
	// block is about to record (learnt from a shadow processor that processed the block first). The unchanged code answers
	// not-found; what matters is that the same questions are answered correctly once the block is committed.
	Read bool `json:"read,omitempty"`
	// RB: the failing statement raises ROLLBACK instead of ABORT: SQLite rolls the whole transaction back itself, the code's own
	// tx.Rollback() then reports an error and db.Tx.Rollback returns BEFORE the rollback callbacks (the tree keeps its advanced
	// in-memory frontier). Same database as after an ordinary fault; the retry on the same instance must still get it right.
	RB bool `json:"rb,omitempty"`
	// Hide: the node table of the exit tree is unavailable while this block is attempted (renamed away and back): every READ
	// of it fails as well (the cache rebuild of the append-only tree walks it), not only the inserts. Only used on blocks with
	// at least one deposit (a block without deposits does not touch the table and would succeed).
	Hide bool `json:"hide,omitempty"`
}

type Op struct {
	K      string `json:"k"` // block | reorg | restart | snap | drive
	Num    uint64 `json:"num,omitempty"`
	Events []Ev   `json:"events,omitempty"`
	Fault  *Fault `json:"fault,omitempty"`
	B      uint64 `json:"b,omitempty"`
	Busy   bool   `json:"busy,omitempty"` // reorg while another query holds a connection of the store's pool
	// drive: the blocks are handed, all already buffered, to the REAL sync.EVMDriver around the real processor;
	// FaultAt >= 0: a TRANSIENT storage fault (removed after a while) hits block Blocks[FaultAt] with Fault
	Blocks  []Op `json:"blocks,omitempty"`
	FaultAt int  `json:"fault_at,omitempty"`
	// prestate: synthetic exit tree of N (>= 1) equal leaves X (hex32), recorded at block Num: root row + the 32 path nodes
	N uint32 `json:"n,omitempty"`
	X string `json:"x,omitempty"`
}

type In struct {
	Prop    string `json:"prop"`
	Ops     []Op   `json:"ops"`
	TwinOps []Op   `json:"twin_ops,omitempty"` // reference history for as-if comparisons (C04, C07)
	Proofs  string `json:"proofs,omitempty"`   // "all" (every recorded root x covered index) | "some" | ""
}

type RootObs struct {
	Idx   uint32 `json:"idx"`
	Hash  string `json:"hash"` // "" = not found
	Block uint64 `json:"block"`
	BPos  uint64 `json:"bpos"`
}
type RowObs struct {
	Block uint64 `json:"block"`
	Pos   uint64 `json:"pos"`
	Tag   uint64 `json:"tag"`
	DC    uint32 `json:"dc"`
	Leaf  string `json:"leaf,omitempty"`
}
type ProofObs struct {
	Root  string   `json:"root"`
	Idx   uint32   `json:"idx"`
	Sibs  []string `json:"sibs"`
	Calc  string   `json:"calc"` // tree.CalculateRoot(leaf of idx, sibs, idx) computed by the real code
	Err   string   `json:"err,omitempty"`
	ByLER int64    `json:"byler"` // GetRootByLER(root).Index, -1 when not found
}
type ExtraObs struct {
	Q string `json:"q"` // which query
	D string `json:"d"` // digest of its canonical answer
}
type Snap struct {
	Last      uint64     `json:"last"`
	LastErr   string     `json:"last_err,omitempty"`
	Roots     []RootObs  `json:"roots"`
	Bridges   []RowObs   `json:"bridges"`
	BridgesE  string     `json:"bridges_err,omitempty"`
	Claims    []RowObs   `json:"claims"`
	Tm        []RowObs   `json:"tm"`
	Legacy    []RowObs   `json:"legacy"`
	BridgesPg []RowObs   `json:"bridges_paged"`
	ClaimsPg  []RowObs   `json:"claims_paged"`
	Proofs    []ProofObs `json:"proofs"`
	Extra     []ExtraObs `json:"extra"` // digests of further facade answers (paged listings with filters, block by LER): judged against the twin only
	MemLast   int64      `json:"mem_last"`
	Halted    bool       `json:"halted"`
}
type Out struct {
	In        In       `json:"in"`
	Res       []string `json:"res"`
	Snaps     []Snap   `json:"snaps"`
	TwinRes   []string `json:"twin_res,omitempty"`
	TwinSnaps []Snap   `json:"twin_snaps,omitempty"`
	Leaves    []string `json:"leaves"` // Bridge.Hash() of every bridge event of every block op of Ops, in op order
	Err       string   `json:"err,omitempty"`
}

// ---------- running ----------

func addr(h string) common.Address { return common.HexToAddress(h) }

func toBridge(num uint64, e Ev) *bridgesync.Bridge {
	var amt *big.Int
	if e.Amount != "" {
		amt = hlib.UnDec(e.Amount)
	}
	var meta []byte
	if e.Meta != "" {
		meta = hlib.UnHex(e.Meta)
	}
	return &bridgesync.Bridge{
		BlockNum: num, BlockPos: e.Pos, BlockTimestamp: e.Tag,
		LeafType: e.LT, OriginNetwork: e.ONet, OriginAddress: addr(e.OAddr),
		DestinationNetwork: e.DNet, DestinationAddress: addr(e.DAddr),
		Amount: amt, Metadata: meta, DepositCount: e.DC,
	}
}

func toEvent(num uint64, e Ev) bridgesync.Event {
	switch e.T {
	case "bridge":
		return bridgesync.Event{Bridge: toBridge(num, e)}
	case "claim":
		return bridgesync.Event{Claim: &bridgesync.Claim{BlockNum: num, BlockPos: e.Pos,
			GlobalIndex: new(big.Int).SetUint64(e.Tag), Amount: big.NewInt(int64(e.Tag % 1000)), BlockTimestamp: e.Tag}}
	case "tm":
		return bridgesync.Event{TokenMapping: &bridgesync.TokenMapping{BlockNum: num, BlockPos: e.Pos,
			BlockTimestamp: e.Tag, OriginNetwork: uint32(e.Tag)}}
	case "legacy":
		return bridgesync.Event{LegacyTokenMigration: &bridgesync.LegacyTokenMigration{BlockNum: num, BlockPos: e.Pos,
			BlockTimestamp: e.Tag, LegacyTokenAddress: addr(e.Addr), Amount: new(big.Int).SetUint64(e.Tag)}}
	case "rmlegacy":
		return bridgesync.Event{RemoveLegacyToken: &bridgesync.RemoveLegacyToken{BlockNum: num, BlockPos: e.Pos,
			LegacyTokenAddress: addr(e.Addr)}}
	}
	panic("bad event kind " + e.T)
}

func errClass(err error) string {
	switch {
	case err == nil:
		return "ok"
	case errors.Is(err, aggsync.ErrInconsistentState):
		return "inconsistent"
	case strings.Contains(err.Error(), "verif fault"):
		return "fault"
	case strings.Contains(err.Error(), "UNIQUE constraint") || strings.Contains(err.Error(), "constraint failed"):
		return "constraint"
	default:
		return "error:" + err.Error()
	}
}

var faultTables = map[string]string{"block": "block", "root": "root", "rht": "rht", "bridge": "bridge",
	"claim": "claim", "tm": "token_mapping", "legacy": "legacy_token_migration"}

func installFault(db *sql.DB, f *Fault) {
	tbl, ok := faultTables[f.Table]
	if !ok {
		panic("bad fault table " + f.Table)
	}
	k := f.K
	if f.Table == "rht" {
		k = 32*f.K + 5 // one AddLeaf attempts 32 rht inserts; fail in the middle of the k-th leaf's inserts
	}
	how := "ABORT"
	if f.RB {
		how = "ROLLBACK"
	}
	stmts := []string{
		`DROP TABLE IF EXISTS verif_cnt`,
		`CREATE TABLE verif_cnt (n INTEGER)`,
		`INSERT INTO verif_cnt VALUES (0)`,
		fmt.Sprintf(`CREATE TRIGGER verif_fault BEFORE INSERT ON %s BEGIN
			SELECT RAISE(%s, 'verif fault') WHERE (SELECT n FROM verif_cnt) = %d;
			UPDATE verif_cnt SET n = n + 1; END`, tbl, how, k),
	}
	for _, s := range stmts {
		if _, err := db.Exec(s); err != nil {
			panic(fmt.Sprintf("installFault %q: %v", s, err))
		}
	}
}

// installSlow makes the k-th write to the table take a few hundred milliseconds (no failure).
func installSlow(db *sql.DB, f *Fault) {
	tbl, ok := faultTables[f.Table]
	if !ok {
		panic("bad fault table " + f.Table)
	}
	k := f.K
	if f.Table == "rht" {
		k = 32*f.K + 5
	}
	stmts := []string{
		`DROP TABLE IF EXISTS verif_cnt`,
		`CREATE TABLE verif_cnt (n INTEGER)`,
		`INSERT INTO verif_cnt VALUES (0)`,
		fmt.Sprintf(`CREATE TRIGGER verif_fault BEFORE INSERT ON %s BEGIN
			SELECT (WITH RECURSIVE c(x) AS (SELECT 1 UNION ALL SELECT x+1 FROM c WHERE x < 3000000) SELECT count(*) FROM c)
			  WHERE (SELECT n FROM verif_cnt) = %d;
			UPDATE verif_cnt SET n = n + 1; END`, tbl, k),
	}
	for _, s := range stmts {
		if _, err := db.Exec(s); err != nil {
			panic(fmt.Sprintf("installSlow %q: %v", s, err))
		}
	}
}

func removeFaultQuiet(db *sql.DB) {
	for _, s := range []string{`DROP TRIGGER IF EXISTS verif_fault`, `DROP TABLE IF EXISTS verif_cnt`} {
		db.Exec(s) //nolint:errcheck
	}
}

func removeFault(db *sql.DB) {
	for _, s := range []string{`DROP TRIGGER IF EXISTS verif_fault`, `DROP TABLE IF EXISTS verif_cnt`} {
		if _, err := db.Exec(s); err != nil {
			panic(err)
		}
	}
}

type runner struct {
	shadow       *runner         // clean processor that is one block ahead when a mid-transaction read is scripted
	okBlocks     []aggsync.Block // blocks recorded and not reorged away (to bring a late-created shadow up to date)
	cancelWaitMs []int64         // how long each cancelled ProcessBlock took to return (evidence that the slow statement was running)
	ctx          context.Context
	path         string
	s            *bridgesync.BridgeSync
	allLeaves    []string
	rootLo       int64             // first deposit count queried in snapshots (n-1 after a synthetic pre-state of n leaves)
	leaves       map[uint32]string // dc -> leaf hash of the LAST processed bridge with that dc
	maxDC        int64
	proofs       string
}

func (r *runner) open() {
	s, err := bridgesync.NewVerifBridgeSync(r.path, 1)
	if err != nil {
		panic(err)
	}
	r.s = s
}

func (r *runner) snap() Snap {
	ctx := r.ctx
	s := r.s
	var sn Snap
	last, err := s.GetLastProcessedBlock(ctx)
	sn.Last = last
	if err != nil {
		sn.LastErr = errClass(err)
	}
	sn.Halted = bridgesync.VerifIsHalted(s)
	sn.MemLast = bridgesync.VerifExitTree(s).VerifLastIndex()
	if sn.Halted {
		return sn
	}
	seenRoots := []treetypes.Root{}
	for i := r.rootLo; i <= r.maxDC+1; i++ {
		root, err := s.GetExitRootByIndex(ctx, uint32(i))
		ro := RootObs{Idx: uint32(i)}
		if err == nil {
			ro.Hash, ro.Block, ro.BPos = hlib.Hex(root.Hash[:]), root.BlockNum, root.BlockPosition
			seenRoots = append(seenRoots, root)
		}
		sn.Roots = append(sn.Roots, ro)
	}
	bridges, err := s.GetBridges(ctx, 0, last)
	if err != nil {
		sn.BridgesE = errClass(err)
	}
	for _, b := range bridges {
		bb := b
		sn.Bridges = append(sn.Bridges, RowObs{b.BlockNum, b.BlockPos, b.BlockTimestamp, b.DepositCount, hlib.Hex(bb.Hash().Bytes())})
	}
	claims, _ := s.GetClaims(ctx, 0, last)
	for _, c := range claims {
		sn.Claims = append(sn.Claims, RowObs{Block: c.BlockNum, Pos: c.BlockPos, Tag: c.GlobalIndex.Uint64()})
	}
	tms, _, _ := s.GetTokenMappings(ctx, 1, 100000)
	for _, t := range tms {
		sn.Tm = append(sn.Tm, RowObs{Block: t.BlockNum, Pos: t.BlockPos, Tag: t.BlockTimestamp})
	}
	sortRows(sn.Tm) // ORDER BY block_num DESC only: order inside a block is unspecified, canonicalise
	lgs, _, _ := s.GetLegacyTokenMigrations(ctx, 1, 100000)
	for _, l := range lgs {
		sn.Legacy = append(sn.Legacy, RowObs{Block: l.BlockNum, Pos: l.BlockPos, Tag: l.BlockTimestamp})
	}
	sortRows(sn.Legacy)
	bp, _, _ := s.GetBridgesPaged(ctx, 1, 100000, nil, nil, "")
	for _, b := range bp {
		sn.BridgesPg = append(sn.BridgesPg, RowObs{Block: b.BlockNum, Pos: b.BlockPos, Tag: b.BlockTimestamp, DC: b.DepositCount})
	}
	cp, _, _ := s.GetClaimsPaged(ctx, 1, 100000, nil, "")
	for _, c := range cp {
		sn.ClaimsPg = append(sn.ClaimsPg, RowObs{Block: c.BlockNum, Pos: c.BlockPos, Tag: c.GlobalIndex.Uint64()})
	}
	sortRows(sn.ClaimsPg)
	sn.Extra = r.extraQueries(seenRoots)
	if r.proofs != "" {
		for ri, root := range seenRoots {
			for idx := uint32(0); idx <= root.Index; idx++ {
				if r.proofs == "some" && !(idx == 0 || idx == root.Index || (int(idx)+ri)%5 == 0) {
					continue
				}
				po := ProofObs{Root: hlib.Hex(root.Hash[:]), Idx: idx, ByLER: -1}
				proof, err := s.GetProof(ctx, idx, root.Hash)
				if err != nil {
					po.Err = errClass(err)
				}
				for _, h := range proof {
					po.Sibs = append(po.Sibs, hlib.Hex(h[:]))
				}
				if lf, ok := r.leaves[idx]; ok {
					po.Calc = hlib.Hex(tree.CalculateRoot(common.HexToHash(lf), proof, idx).Bytes())
				}
				if rr, err := s.GetRootByLER(ctx, root.Hash); err == nil && rr != nil {
					po.ByLER = int64(rr.Index)
				}
				sn.Proofs = append(sn.Proofs, po)
			}
		}
	}
	return sn
}

// further facade queries whose answers are compared between the run under test and its twin (C04/C07 "every query ... paged listings"):
// each answer is canonicalised to a string and digested
func (r *runner) extraQueries(roots []treetypes.Root) []ExtraObs {
	ctx, s := r.ctx, r.s
	var out []ExtraObs
	dig := func(name string, v any, err error) {
		b, _ := json.Marshal(v)
		e := ""
		if err != nil {
			e = errClass(err)
			if strings.HasPrefix(e, "error:") {
				e = "error"
			}
		}
		h := crypto.Keccak256([]byte(name), b, []byte(e))
		out = append(out, ExtraObs{Q: name, D: hlib.Hex(h[:8])})
	}
	type brow struct {
		B, P uint64
		DC   uint32
	}
	for _, size := range []uint32{1, 2, 3} {
		for page := uint32(1); page <= 3; page++ {
			bp, n, err := s.GetBridgesPaged(ctx, page, size, nil, nil, "")
			rows := []brow{}
			for _, b := range bp {
				rows = append(rows, brow{b.BlockNum, b.BlockPos, b.DepositCount})
			}
			dig(fmt.Sprintf("bridges/%d/%d/%d", page, size, n), rows, err)
			cp, n2, err2 := s.GetClaimsPaged(ctx, page, size, nil, "")
			crow := []brow{}
			for _, c := range cp {
				crow = append(crow, brow{c.BlockNum, c.BlockPos, 0})
			}
			if size > 1 { // ORDER BY block_num only: order inside a block is unspecified, canonicalise one page by sorting
				sort.Slice(crow, func(i, j int) bool {
					if crow[i].B != crow[j].B {
						return crow[i].B < crow[j].B
					}
					return crow[i].P < crow[j].P
				})
			}
			_ = n2
			dig(fmt.Sprintf("claimscount/%d/%d", page, size), n2, err2)
		}
	}
	for dc := uint64(0); dc <= uint64(r.maxDC+1) && dc < 6; dc++ {
		d := dc
		bp, n, err := s.GetBridgesPaged(ctx, 1, 10, &d, nil, "")
		rows := []brow{}
		for _, b := range bp {
			rows = append(rows, brow{b.BlockNum, b.BlockPos, b.DepositCount})
		}
		dig(fmt.Sprintf("bridges-dc/%d/%d", dc, n), rows, err)
	}
	for _, nets := range [][]uint32{{0}, {1, 2}, {0xffffffff}} {
		bp, n, err := s.GetBridgesPaged(ctx, 1, 100, nil, nets, "")
		rows := []brow{}
		for _, b := range bp {
			rows = append(rows, brow{b.BlockNum, b.BlockPos, b.DepositCount})
		}
		dig(fmt.Sprintf("bridges-net/%v/%d", nets, n), rows, err)
	}
	for page := uint32(1); page <= 2; page++ {
		_, n, err := s.GetTokenMappings(ctx, page, 2)
		dig(fmt.Sprintf("tm/%d", page), n, err)
		_, n2, err2 := s.GetLegacyTokenMigrations(ctx, page, 2)
		dig(fmt.Sprintf("legacy/%d", page), n2, err2)
	}
	for _, root := range roots {
		blk, err := s.GetBlockByLER(ctx, root.Hash)
		dig("blockbyler/"+hlib.Hex(root.Hash[:4]), blk, err)
		rr, err2 := s.GetBridgeRootByHash(ctx, root.Hash)
		var idx int64 = -1
		if rr != nil {
			idx = int64(rr.Index)
		}
		dig("rootbyhash/"+hlib.Hex(root.Hash[:4]), idx, err2)
	}
	return out
}

func sortRows(rs []RowObs) {
	sort.Slice(rs, func(i, j int) bool {
		if rs[i].Block != rs[j].Block {
			return rs[i].Block < rs[j].Block
		}
		return rs[i].Pos < rs[j].Pos
	})
}

// ---- synthetic pre-state for high leaf indices ----
func node2(l, r common.Hash) common.Hash { return crypto.Keccak256Hash(l[:], r[:]) }

func (r *runner) prestate(op Op) {
	x := common.HexToHash(op.X)
	last := op.N - 1
	full := x // root of a full height-h subtree of x's
	zero := common.Hash{}
	cur := x
	db := bridgesync.VerifDB(r.s)
	exec := func(q string, a ...any) {
		if _, err := db.Exec(q, a...); err != nil {
			panic(fmt.Sprintf("prestate %q: %v", q, err))
		}
	}
	exec(`INSERT INTO block (num, hash) VALUES ($1, $2)`, op.Num, common.BigToHash(new(big.Int).SetUint64(op.Num+1000)).String())
	for h := 0; h < 32; h++ {
		var l, rr common.Hash
		if last&(1<<uint(h)) != 0 {
			l, rr = full, cur
		} else {
			l, rr = cur, zero
		}
		p := node2(l, rr)
		exec(`INSERT OR IGNORE INTO rht (hash, left, right) VALUES ($1, $2, $3)`, p.String(), l.String(), rr.String())
		cur = p
		full = node2(full, full)
		zero = node2(zero, zero)
	}
	exec(`INSERT INTO root (hash, position, block_num, block_position) VALUES ($1, $2, $3, 0)`, cur.String(), last, op.Num)
	r.rootLo = int64(last)
}

// ---- real EVMDriver fed from a pre-filled buffer ----
type bufDownloader struct{ blocks []aggsync.EVMBlock }

func (d *bufDownloader) Download(ctx context.Context, fromBlock uint64, ch chan aggsync.EVMBlock) {
	for _, b := range d.blocks {
		if b.Num >= fromBlock {
			select {
			case ch <- b:
			case <-ctx.Done():
				close(ch)
				return
			}
		}
	}
	<-ctx.Done()
	close(ch)
}
func (d *bufDownloader) RuntimeData(ctx context.Context) (aggsync.RuntimeData, error) {
	return aggsync.RuntimeData{}, nil
}

type nopRD struct{ sub *reorgdetector.Subscription }

func (r *nopRD) Subscribe(id string) (*reorgdetector.Subscription, error) { return r.sub, nil }
func (r *nopRD) AddBlockToTrack(ctx context.Context, id string, n uint64, h common.Hash) error {
	return nil
}
func (r *nopRD) GetFinalizedBlockType() aggkittypes.BlockNumberFinality {
	return aggkittypes.FinalizedBlock
}
func (r *nopRD) String() string { return "nopRD" }

func (r *runner) drive(op Op) string {
	dl := &bufDownloader{}
	var lastNum uint64
	for i, b := range op.Blocks {
		eb := aggsync.EVMBlock{EVMBlockHeader: aggsync.EVMBlockHeader{Num: b.Num, Hash: common.BigToHash(new(big.Int).SetUint64(b.Num + 1000))}, IsFinalizedBlock: true}
		for _, e := range b.Events {
			ev := toEvent(b.Num, e)
			if ev.Bridge != nil {
				r.leaves[e.DC] = hlib.Hex(ev.Bridge.Hash().Bytes())
				r.allLeaves = append(r.allLeaves, r.leaves[e.DC])
			}
			eb.Events = append(eb.Events, ev)
		}
		dl.blocks = append(dl.blocks, eb)
		lastNum = b.Num
		_ = i
	}
	rd := &nopRD{sub: &reorgdetector.Subscription{ReorgedBlock: make(chan uint64), ReorgProcessed: make(chan bool)}}
	rh := &aggsync.RetryHandler{RetryAfterErrorPeriod: 60 * time.Millisecond, MaxRetryAttemptsAfterError: -1}
	drv, err := bridgesync.VerifNewDriver(r.s, rd, dl, len(dl.blocks)+1, rh)
	if err != nil {
		return "error:" + err.Error()
	}
	db := bridgesync.VerifDB(r.s)
	if op.FaultAt >= 0 && op.FaultAt < len(op.Blocks) && op.Blocks[op.FaultAt].Fault != nil {
		installFaultForBlock(db, op.Blocks[op.FaultAt].Fault, op.Blocks[op.FaultAt].Num)
		t := time.AfterFunc(25*time.Millisecond, func() { removeFaultQuiet(db) }) // transient fault
		defer t.Stop()
	}
	ctx, cancel := context.WithCancel(r.ctx)
	done := make(chan struct{})
	go func() { drv.Sync(ctx); close(done) }()
	// wait until the last block is recorded or nothing moves any more
	deadline := time.Now().Add(15 * time.Second)
	var last uint64
	stable := 0
	for time.Now().Before(deadline) {
		time.Sleep(20 * time.Millisecond)
		var n uint64
		db.QueryRow("SELECT COALESCE(MAX(num),0) FROM block").Scan(&n)
		if n == lastNum {
			break
		}
		if n == last {
			stable++
			if stable > 60 { // 1.2 s without progress: the driver has stopped
				break
			}
		} else {
			stable, last = 0, n
		}
	}
	cancel()
	<-done
	removeFaultQuiet(db)
	return "ok"
}

// fault restricted to rows of one block (all faultable tables carry block_num, `block` itself has num)
func installFaultForBlock(db *sql.DB, f *Fault, blockNum uint64) {
	tbl, ok := faultTables[f.Table]
	if !ok {
		panic("bad fault table " + f.Table)
	}
	col := "block_num"
	if f.Table == "block" {
		col = "num"
	}
	cond := fmt.Sprintf("NEW.%s = %d", col, blockNum)
	if f.Table == "rht" { // rht rows carry no block number: fail the (32*k+5)-th insert counted from now
		cond = fmt.Sprintf("(SELECT n FROM verif_cnt) = %d", 32*f.K+5)
	}
	stmts := []string{
		`DROP TRIGGER IF EXISTS verif_fault`, `DROP TABLE IF EXISTS verif_cnt`,
		`CREATE TABLE verif_cnt (n INTEGER)`, `INSERT INTO verif_cnt VALUES (0)`,
		fmt.Sprintf(`CREATE TRIGGER verif_fault BEFORE INSERT ON %s BEGIN
			SELECT RAISE(ABORT, 'verif fault') WHERE %s;
			UPDATE verif_cnt SET n = n + 1; END`, tbl, cond),
	}
	for _, s := range stmts {
		if _, err := db.Exec(s); err != nil {
			panic(fmt.Sprintf("installFaultForBlock %q: %v", s, err))
		}
	}
}

func runOps(dir string, name string, ops []Op, proofs string, maxDC int64) (res []string, snaps []Snap, leaves []string) {
	r := &runner{ctx: context.Background(), path: filepath.Join(dir, name+".sqlite"), leaves: map[uint32]string{}, maxDC: maxDC, proofs: proofs}
	r.open()
	defer func() {
		bridgesync.VerifClose(r.s)
		if r.shadow != nil {
			bridgesync.VerifClose(r.shadow.s)
		}
	}()
	for _, op := range ops {
		switch op.K {
		case "block":
			blk := aggsync.Block{Num: op.Num, Hash: common.BigToHash(new(big.Int).SetUint64(op.Num + 1000))}
			pending := map[uint32]string{}
			for _, e := range op.Events {
				ev := toEvent(op.Num, e)
				if ev.Bridge != nil {
					pending[e.DC] = hlib.Hex(ev.Bridge.Hash().Bytes())
					r.allLeaves = append(r.allLeaves, pending[e.DC])
				}
				blk.Events = append(blk.Events, ev)
			}
			if op.Fault != nil && op.Fault.Read {
				// the shadow learns the roots this block will record
				if r.shadow == nil {
					r.shadow = &runner{ctx: r.ctx, path: r.path + ".shadow", leaves: map[uint32]string{}}
					r.shadow.open()
					for _, done := range r.okBlocks {
						_ = bridgesync.VerifProcessBlock(r.ctx, r.shadow.s, done)
					}
				}
				var asks []treetypes.Root
				if err := bridgesync.VerifProcessBlock(r.ctx, r.shadow.s, blk); err == nil {
					for _, e := range op.Events {
						if e.T == "bridge" {
							if root, err := r.shadow.s.GetExitRootByIndex(r.ctx, e.DC); err == nil {
								asks = append(asks, root)
							}
						}
					}
				}
				installSlow(bridgesync.VerifDB(r.s), op.Fault)
				done := make(chan error, 1)
				go func() { done <- bridgesync.VerifProcessBlock(r.ctx, r.s, blk) }()
				time.Sleep(40 * time.Millisecond)
				for _, root := range asks {
					_, _ = r.s.GetExitRootByIndex(r.ctx, root.Index)
					_, _ = r.s.GetRootByLER(r.ctx, root.Hash)
					for idx := uint32(0); idx <= root.Index; idx++ {
						_, _ = r.s.GetProof(r.ctx, idx, root.Hash)
					}
				}
				err := <-done
				removeFault(bridgesync.VerifDB(r.s))
				if err == nil {
					for k, v := range pending {
						r.leaves[k] = v
					}
					r.okBlocks = append(r.okBlocks, blk)
				}
				res = append(res, errClass(err))
				break
			}
			if op.Fault != nil && op.Fault.Cancel {
				installSlow(bridgesync.VerifDB(r.s), op.Fault)
				cctx, cancel := context.WithCancel(r.ctx)
				done := make(chan error, 1)
				t0 := time.Now()
				go func() { done <- bridgesync.VerifProcessBlock(cctx, r.s, blk) }()
				time.AfterFunc(40*time.Millisecond, cancel)
				err := <-done
				cancel()
				r.cancelWaitMs = append(r.cancelWaitMs, time.Since(t0).Milliseconds())
				removeFault(bridgesync.VerifDB(r.s))
				if err == nil {
					for k, v := range pending {
						r.leaves[k] = v
					}
					r.okBlocks = append(r.okBlocks, blk)
					if r.shadow != nil {
						_ = bridgesync.VerifProcessBlock(r.ctx, r.shadow.s, blk)
					}
					res = append(res, "ok")
				} else {
					res = append(res, "fault")
				}
				// a cancelled context is a shutdown: new processor object on the same database
				bridgesync.VerifClose(r.s)
				r.open()
				break
			}
			hide := op.Fault != nil && op.Fault.Hide
			if hide {
				if _, e := bridgesync.VerifDB(r.s).Exec(`ALTER TABLE rht RENAME TO rht_verif_hidden`); e != nil {
					panic(e)
				}
			} else if op.Fault != nil {
				installFault(bridgesync.VerifDB(r.s), op.Fault)
			}
			err := bridgesync.VerifProcessBlock(r.ctx, r.s, blk)
			if hide {
				if _, e := bridgesync.VerifDB(r.s).Exec(`ALTER TABLE rht_verif_hidden RENAME TO rht`); e != nil {
					panic(e)
				}
			} else if op.Fault != nil {
				removeFault(bridgesync.VerifDB(r.s))
			}
			if err == nil {
				for k, v := range pending {
					r.leaves[k] = v
				}
				r.okBlocks = append(r.okBlocks, blk)
				if r.shadow != nil {
					_ = bridgesync.VerifProcessBlock(r.ctx, r.shadow.s, blk)
				}
			}
			res = append(res, errClass(err))
		case "reorg":
			keep := r.okBlocks[:0:0]
			for _, b := range r.okBlocks {
				if b.Num < op.B {
					keep = append(keep, b)
				}
			}
			r.okBlocks = keep
			if r.shadow != nil {
				_ = bridgesync.VerifReorg(r.ctx, r.shadow.s, op.B)
			}
			var rows *sql.Rows
			if op.Busy { // keep one pooled connection busy with an open cursor, so that the reorg runs on another one
				rows, _ = bridgesync.VerifDB(r.s).Query("SELECT num FROM block UNION ALL SELECT 0")
				if rows != nil {
					rows.Next()
				}
			}
			res = append(res, errClass(bridgesync.VerifReorg(r.ctx, r.s, op.B)))
			if rows != nil {
				rows.Close()
			}
		case "restart":
			bridgesync.VerifClose(r.s)
			r.open()
			res = append(res, "ok")
		case "snap":
			snaps = append(snaps, r.snap())
			res = append(res, "ok")
		case "drive":
			res = append(res, r.drive(op))
		case "prestate":
			r.prestate(op)
			res = append(res, "ok")
		case "reset": // twin only: start again from an empty database
			bridgesync.VerifClose(r.s)
			for _, sfx := range []string{"", "-wal", "-shm"} {
				os.Remove(r.path + sfx)
			}
			r.leaves = map[uint32]string{}
			r.open()
			res = append(res, "ok")
		default:
			panic("bad op " + op.K)
		}
	}
	leaves = r.allLeaves
	return
}

func run(in In, dir string, n int) (out Out) {
	out.In = in
	defer func() {
		if e := recover(); e != nil {
			out.Err = fmt.Sprint(e)
		}
	}()
	sub := filepath.Join(dir, fmt.Sprintf("case%d", n))
	os.MkdirAll(sub, 0o755)
	defer os.RemoveAll(sub)
	// the same deposit-count range is queried in every snapshot of both runs
	maxDC := int64(-1)
	for _, ops := range [][]Op{in.Ops, in.TwinOps} {
		for _, op := range ops {
			evs := append([]Ev{}, op.Events...)
			for _, b := range op.Blocks {
				evs = append(evs, b.Events...)
			}
			for _, e := range evs {
				if e.T == "bridge" && int64(e.DC) > maxDC {
					maxDC = int64(e.DC)
				}
			}
		}
	}
	out.Res, out.Snaps, out.Leaves = runOps(sub, "main", in.Ops, in.Proofs, maxDC)
	if len(in.TwinOps) > 0 {
		out.TwinRes, out.TwinSnaps, _ = runOps(sub, "twin", in.TwinOps, in.Proofs, maxDC)
	}
	return
}

// neighbourTree appends leaves to an append-only tree of its own until told to stop. Every batch is rolled back, so the database
// stays empty (the tree starts again from index 0); what it does meanwhile is what any syncer does: hash and store nodes.
func neighbourTree(dir string, k int, stop <-chan struct{}, wg *sync.WaitGroup) {
	defer wg.Done()
	dbPath := filepath.Join(dir, fmt.Sprintf("neighbour_%d.sqlite", k))
	if err := treemigrations.RunMigrations(dbPath); err != nil {
		return
	}
	d, err := aggdb.NewSQLiteDB(dbPath)
	if err != nil {
		return
	}
	defer d.Close()
	t := tree.NewAppendOnlyTree(d, "")
	ctx := context.Background()
	for n := uint64(0); ; n++ {
		select {
		case <-stop:
			if os.Getenv("VERIF_DEBUG_NEIGHBOUR") != "" {
				fmt.Fprintln(os.Stderr, "neighbour", k, "batches of 64 leaves:", n)
			}
			return
		default:
		}
		tx, err := aggdb.NewTx(ctx, d)
		if err != nil {
			return
		}
		for j := uint32(0); j < 64; j++ {
			if err := t.AddLeaf(tx, n, uint64(j), treetypes.Leaf{Index: j, Hash: common.BigToHash(new(big.Int).SetUint64(n<<8 | uint64(j)))}); err != nil {
				if os.Getenv("VERIF_DEBUG_NEIGHBOUR") != "" {
					fmt.Fprintln(os.Stderr, "neighbour:", n, j, err)
				}
				break
			}

		}
		_ = tx.Rollback()
	}
}

func main() {
	propFlag := flag.String("prop", "c01", "generator: c01|c04|c07|c08")
	parFlag := flag.Int("par", 1, "cases run concurrently in this process (own database each): as the node's syncers do, several trees hash and store at the same time")
	f := hlib.ParseFlags()
	hlib.QuietLogs()
	prop := *propFlag
	var ins []In
	if f.Replay != "" {
		for _, raw := range hlib.ReadJSONL(f.Replay) {
			var in In
			if err := json.Unmarshal(raw, &in); err != nil {
				panic(err)
			}
			ins = append(ins, in)
		}
		// a replayed case runs next to copies of itself: what a case that failed in a concurrent run needs in order to fail again
		// is other trees hashing and storing at the same time (every copy is a case of its own for the comparison)
		if *parFlag > 1 {
			one := ins
			for k := 1; k < *parFlag; k++ {
				ins = append(ins, one...)
			}
		}
	} else {
		ins = generate(prop, f)
	}
	dir, err := os.MkdirTemp("", "verif_bridge_")
	if err != nil {
		panic(err)
	}
	defer os.RemoveAll(dir)
	w := hlib.NewWriter(f.Out)
	defer w.Close()
	if *parFlag <= 1 {
		for i, in := range ins {
			w.Emit(run(in, dir, i))
		}
		return
	}
	// concurrent processors in one process; results are emitted in input order (every case is deterministic on its own).
	// Two neighbour trees of the same process (as the L1 info tree syncer's next to the bridge syncers') keep appending leaves
	// in databases of their own meanwhile; they share nothing with the cases but the process.
	stop := make(chan struct{})
	var nwg sync.WaitGroup
	for k := 0; k < 2; k++ {
		nwg.Add(1)
		go neighbourTree(dir, k, stop, &nwg)
	}
	defer func() { close(stop); nwg.Wait() }()
	outs := make([]any, len(ins))
	var wg sync.WaitGroup
	sem := make(chan struct{}, *parFlag)
	for i := range ins {
		wg.Add(1)
		sem <- struct{}{}
		go func(i int) {
			defer wg.Done()
			defer func() { <-sem }()
			outs[i] = run(ins[i], dir, i)
		}(i)
	}
	wg.Wait()
	for _, o := range outs {
		w.Emit(o)
	}
}
