// C14 harness: the REAL facades *bridgesync.BridgeSync and *l1infotreesync.L1InfoTreeSync over real processors on
// temporary SQLite stores (no driver, no network: hooks bridgesync/verif_export_c14.go, l1infotreesync/verif_export_c14.go).
// A case = (syncer, history of ProcessBlock / Reorg / query operations, one exported method). The exported methods are
// enumerated by reflection, so entry points added later are called too. At every query operation the method is called
// with zero / small arguments and its result class recorded: ok | inconsistent_error | other_error | panic.
// After every operation MAX(num) and COUNT(*) of table `block` are read straight from the SQLite file.
package main

import (
	"context"
	"database/sql"
	"encoding/binary"
	"encoding/json"
	"errors"
	"fmt"
	"os"
	"path/filepath"
	"reflect"
	"sort"
	"strings"
	"time"

	"github.com/agglayer/aggkit/bridgesync"
	aggkitdb "github.com/agglayer/aggkit/db"
	"github.com/agglayer/aggkit/l1infotreesync"
	"github.com/agglayer/aggkit/log"
	"github.com/agglayer/aggkit/reorgdetector"
	aggkitsync "github.com/agglayer/aggkit/sync"
	aggkittypes "github.com/agglayer/aggkit/types"
	"github.com/ethereum/go-ethereum/common"
	"github.com/ethereum/go-ethereum/crypto"

	"verifharness/hlib"
)

const (
	bridgeSyncer = "BridgeSync"
	l1Syncer     = "L1InfoTreeSync"
)

// ---------------------------------------------------------------------------------------------------------------
// case inputs / outputs
// ---------------------------------------------------------------------------------------------------------------

type Ev struct {
	K     string `json:"k"`               // bridge syncer: bridge | claim | token ; L1 info tree syncer: leaf | announce | verify
	DC    uint32 `json:"dc,omitempty"`    // bridge: DepositCount
	Seed  uint64 `json:"seed,omitempty"`  // every other field of the event derives from it
	Root  string `json:"root,omitempty"`  // leaf: root of the L1 info tree once the leaf is in (independent computation); announce: announced root
	Count uint32 `json:"count,omitempty"` // announce: announced leaf count
}

type Op struct {
	K     string `json:"k"` // block | reorg | query | reorg_fault
	Num   uint64 `json:"num,omitempty"`
	Evs   []Ev   `json:"evs,omitempty"`
	Fault string `json:"fault,omitempty"` // reorg_fault: tree (the purge of the tree's root table fails) | commit (the COMMIT fails)
}

type In struct {
	Kind   string `json:"kind"` // method | methods
	Syncer string `json:"syncer"`
	Route  string `json:"route,omitempty"` // label of the generator: how the history reaches the halted state
	Reorg  string `json:"reorg,omitempty"` // label: the reorg points of the history
	Scen   int    `json:"scen"`
	Method string `json:"method,omitempty"`
	Ops    []Op   `json:"ops,omitempty"`
}

type StepObs struct {
	Out    string `json:"out"`
	Last   uint64 `json:"last"`
	Rows   uint64 `json:"rows"`
	Detail string `json:"detail,omitempty"`
}

type Out struct {
	In      In        `json:"in"`
	Obs     []StepObs `json:"obs,omitempty"`
	Called  []string  `json:"called,omitempty"`
	Skipped []string  `json:"skipped,omitempty"`
	Err     string    `json:"err,omitempty"`
}

// ---------------------------------------------------------------------------------------------------------------
// building real events
// ---------------------------------------------------------------------------------------------------------------

func rhash(r *hlib.Rng) common.Hash { return common.BytesToHash(r.Bytes(32)) }
func raddr(r *hlib.Rng) common.Address {
	return common.BytesToAddress(r.Bytes(20))
}

func bridgeEvent(e Ev, num uint64, pos int) bridgesync.Event {
	r := hlib.NewRng(e.Seed ^ 0xb41d6e)
	switch e.K {
	case "bridge":
		return bridgesync.Event{Bridge: &bridgesync.Bridge{
			BlockNum: num, BlockPos: uint64(pos), FromAddress: raddr(r), TxHash: rhash(r), Calldata: r.Bytes(r.Intn(8)),
			BlockTimestamp: 1700000000 + num, LeafType: uint8(r.Intn(2)), OriginNetwork: uint32(r.Intn(3)),
			OriginAddress: raddr(r), DestinationNetwork: uint32(1 + r.Intn(3)), DestinationAddress: raddr(r),
			Amount: r.Big(1 + r.Intn(96)), Metadata: r.Bytes(r.Intn(12)), DepositCount: e.DC, IsNativeToken: r.Bool(),
		}}
	case "claim":
		return bridgesync.Event{Claim: &bridgesync.Claim{
			BlockNum: num, BlockPos: uint64(pos), FromAddress: raddr(r), TxHash: rhash(r),
			GlobalIndex: bridgesync.GenerateGlobalIndex(r.Bool(), uint32(r.Intn(4)), uint32(r.Intn(1000))),
			OriginNetwork: uint32(r.Intn(3)), OriginAddress: raddr(r), DestinationAddress: raddr(r),
			Amount: r.Big(1 + r.Intn(96)), MainnetExitRoot: rhash(r), RollupExitRoot: rhash(r), GlobalExitRoot: rhash(r),
			DestinationNetwork: uint32(r.Intn(3)), Metadata: r.Bytes(r.Intn(12)), IsMessage: r.Bool(),
			BlockTimestamp: 1700000000 + num,
		}}
	default: // token
		return bridgesync.Event{TokenMapping: &bridgesync.TokenMapping{
			BlockNum: num, BlockPos: uint64(pos), BlockTimestamp: 1700000000 + num, TxHash: rhash(r),
			OriginNetwork: uint32(r.Intn(3)), OriginTokenAddress: raddr(r), WrappedTokenAddress: raddr(r),
			Metadata: r.Bytes(r.Intn(12)), IsNotMintable: r.Bool(), Calldata: r.Bytes(r.Intn(8)),
		}}
	}
}

type leafData struct {
	mer, rer, parent common.Hash
	ts               uint64
}

func leafFromSeed(seed uint64) leafData {
	r := hlib.NewRng(seed ^ 0x11ea4)
	return leafData{mer: rhash(r), rer: rhash(r), parent: rhash(r), ts: 1700000000 + uint64(r.Intn(1<<20))}
}

// independent computation of the L1 info tree (GlobalExitRootV2 contract): leaf = keccak(keccak(mer, rer), parentHash, ts),
// root = depth-32 append-only Merkle root with zero-subtree padding.
func (l leafData) hash() common.Hash {
	ger := crypto.Keccak256(l.mer[:], l.rer[:])
	var ts [8]byte
	binary.BigEndian.PutUint64(ts[:], l.ts)
	return crypto.Keccak256Hash(ger, l.parent[:], ts[:])
}

var zeroHashes = func() [33]common.Hash {
	var z [33]common.Hash
	for h := 0; h < 32; h++ {
		z[h+1] = crypto.Keccak256Hash(z[h][:], z[h][:])
	}
	return z
}()

func merkleRoot(leaves []common.Hash) common.Hash {
	level := append([]common.Hash{}, leaves...)
	for h := 0; h < 32; h++ {
		if len(level)%2 == 1 {
			level = append(level, zeroHashes[h])
		}
		next := make([]common.Hash, 0, len(level)/2)
		for i := 0; i < len(level); i += 2 {
			next = append(next, crypto.Keccak256Hash(level[i][:], level[i+1][:]))
		}
		if len(next) == 0 {
			next = []common.Hash{zeroHashes[h+1]}
		}
		level = next
	}
	return level[0]
}

func l1Event(e Ev, pos int) l1infotreesync.Event {
	switch e.K {
	case "leaf":
		l := leafFromSeed(e.Seed)
		return l1infotreesync.Event{UpdateL1InfoTree: &l1infotreesync.UpdateL1InfoTree{
			BlockPosition: uint64(pos), MainnetExitRoot: l.mer, RollupExitRoot: l.rer, ParentHash: l.parent, Timestamp: l.ts,
		}}
	case "announce":
		r := hlib.NewRng(e.Seed ^ 0xa220)
		return l1infotreesync.Event{UpdateL1InfoTreeV2: &l1infotreesync.UpdateL1InfoTreeV2{
			CurrentL1InfoRoot: common.HexToHash(e.Root), LeafCount: e.Count, Blockhash: rhash(r), MinTimestamp: 1700000000,
		}}
	default: // verify
		r := hlib.NewRng(e.Seed ^ 0x7e21f)
		return l1infotreesync.Event{VerifyBatches: &l1infotreesync.VerifyBatches{
			BlockPosition: uint64(pos), RollupID: uint32(1 + r.Intn(3)), NumBatch: uint64(1 + r.Intn(1000)),
			StateRoot: rhash(r), ExitRoot: rhash(r), Aggregator: raddr(r),
		}}
	}
}

// ---------------------------------------------------------------------------------------------------------------
// the systems under test
// ---------------------------------------------------------------------------------------------------------------

type stubRD struct{}

func (stubRD) Subscribe(string) (*reorgdetector.Subscription, error) {
	return nil, errors.New("verif stub")
}
func (stubRD) AddBlockToTrack(context.Context, string, uint64, common.Hash) error { return nil }
func (stubRD) GetFinalizedBlockType() aggkittypes.BlockNumberFinality {
	return aggkittypes.FinalizedBlock
}
func (stubRD) String() string { return "verif stub reorg detector" }
func (stubRD) GetLastReorgEvent(context.Context) (reorgdetector.ReorgEvent, error) {
	return reorgdetector.ReorgEvent{}, nil
}

type sut struct {
	syncer  string
	facade  reflect.Value // *BridgeSync / *L1InfoTreeSync
	process func(num uint64, evs []Ev) error
	reorg   func(b uint64) error
	close   func()
	inspect *sql.DB
	rootTbl string // root table of the append-only tree (exit tree / L1 info tree)
}

func blockHash(num uint64) common.Hash {
	var b [8]byte
	binary.BigEndian.PutUint64(b[:], num)
	return crypto.Keccak256Hash([]byte("verif-c14-block"), b[:])
}

func newSut(syncer, dir string) (*sut, error) {
	ctx := context.Background()
	path := filepath.Join(dir, "store.sqlite")
	s := &sut{syncer: syncer}
	switch syncer {
	case bridgeSyncer:
		bs, err := bridgesync.NewVerifC14BridgeSync(path, 7, stubRD{})
		if err != nil {
			return nil, err
		}
		s.facade = reflect.ValueOf(bs)
		s.process = func(num uint64, evs []Ev) error {
			b := aggkitsync.Block{Num: num, Hash: blockHash(num)}
			for i, e := range evs {
				b.Events = append(b.Events, bridgeEvent(e, num, i))
			}
			return bridgesync.VerifC14ProcessBlock(ctx, bs, b)
		}
		s.reorg = func(b uint64) error { return bridgesync.VerifC14Reorg(ctx, bs, b) }
		s.close = func() { _ = bridgesync.VerifC14Close(bs) }
		s.rootTbl = "root"
	case l1Syncer:
		ls, err := l1infotreesync.NewVerifC14L1InfoTreeSync(path)
		if err != nil {
			return nil, err
		}
		s.facade = reflect.ValueOf(ls)
		s.process = func(num uint64, evs []Ev) error {
			b := aggkitsync.Block{Num: num, Hash: blockHash(num)}
			for i, e := range evs {
				b.Events = append(b.Events, l1Event(e, i))
			}
			return l1infotreesync.VerifC14ProcessBlock(ctx, ls, b)
		}
		s.reorg = func(b uint64) error { return l1infotreesync.VerifC14Reorg(ctx, ls, b) }
		s.close = func() { _ = l1infotreesync.VerifC14Close(ls) }
		s.rootTbl = "l1_info_root"
	default:
		return nil, fmt.Errorf("unknown syncer %q", syncer)
	}
	insp, err := aggkitdb.NewSQLiteDB(path)
	if err != nil {
		return nil, err
	}
	s.inspect = insp
	return s, nil
}

func (s *sut) blockTable() (last, rows uint64) {
	if err := s.inspect.QueryRow(`SELECT COALESCE(MAX(num),0), COUNT(*) FROM block`).Scan(&last, &rows); err != nil {
		panic(fmt.Sprintf("cannot inspect the block table: %v", err))
	}
	return
}

// armFault injects a storage fault that hits a Reorg transaction AFTER its `DELETE FROM block` statement, through a second
// connection to the same SQLite file; the returned function removes it again.
//   tree:   BEFORE DELETE trigger on the tree's root table raising ABORT (fires iff the purge has a root row to delete)
//   commit: a deferred foreign key pinning every block row >= first (the COMMIT fails iff one of them was deleted)
func (s *sut) armFault(kind string, first uint64) func() {
	exec := func(q string, args ...any) {
		if _, err := s.inspect.Exec(q, args...); err != nil {
			panic(fmt.Sprintf("fault injection %q: %v", q, err))
		}
	}
	switch kind {
	case "tree":
		exec(fmt.Sprintf(`CREATE TRIGGER zz_verif_c14_fault BEFORE DELETE ON %s
			BEGIN SELECT RAISE(ABORT, 'verif c14: injected storage fault'); END;`, s.rootTbl))
		return func() { exec(`DROP TRIGGER zz_verif_c14_fault;`) }
	case "commit":
		exec(`CREATE TABLE zz_verif_c14_pin (b INTEGER REFERENCES block(num) DEFERRABLE INITIALLY DEFERRED);`)
		exec(`INSERT INTO zz_verif_c14_pin (b) SELECT num FROM block WHERE num >= $1;`, first)
		return func() { exec(`DROP TABLE zz_verif_c14_pin;`) }
	}
	panic("unknown fault kind " + kind)
}

func classify(err error) (string, string) {
	switch {
	case err == nil:
		return "ok", ""
	case errors.Is(err, aggkitsync.ErrInconsistentState):
		return "inconsistent_error", ""
	default:
		msg := err.Error()
		if len(msg) > 100 {
			msg = msg[:100]
		}
		return "other_error", msg
	}
}

// ---------------------------------------------------------------------------------------------------------------
// reflection over the facade
// ---------------------------------------------------------------------------------------------------------------

var (
	ctxType = reflect.TypeOf((*context.Context)(nil)).Elem()
	errType = reflect.TypeOf((*error)(nil)).Elem()
)

// methodNames: every exported method of the facade's pointer type; hook methods (declared under the build tag verif,
// recognisable by the name prefix Verif) are listed but never called.
func methodNames(t reflect.Type) (called, skipped []string) {
	for i := 0; i < t.NumMethod(); i++ {
		n := t.Method(i).Name
		if strings.HasPrefix(n, "Verif") {
			skipped = append(skipped, n)
		} else {
			called = append(called, n)
		}
	}
	sort.Strings(called)
	sort.Strings(skipped)
	return
}

func argFor(t reflect.Type, method string) reflect.Value {
	if t == ctxType {
		ctx := context.Background()
		if method == "Start" { // never let a synchronizer loop run
			c, cancel := context.WithCancel(ctx)
			cancel()
			ctx = c
		}
		return reflect.ValueOf(ctx)
	}
	v := reflect.New(t).Elem()
	switch t.Kind() {
	case reflect.Uint8, reflect.Uint16, reflect.Uint32, reflect.Uint64, reflect.Uint:
		v.SetUint(1)
	case reflect.Int8, reflect.Int16, reflect.Int32, reflect.Int64, reflect.Int:
		v.SetInt(1)
	}
	return v // zero hash / address, "", nil pointer, nil slice, nil map, nil interface ...
}

var hashType = reflect.TypeOf(common.Hash{})

// known: hashes the facade itself returned in healthy states (exit roots, L1 info roots, global exit roots ...). A query that takes a
// hash is asked with the zero hash AND with each of them: a facade that remembers an earlier successful lookup must not answer it
// from that memory while it is halted.
type known struct{ hs []common.Hash }

func (k *known) add(h common.Hash) {
	if h == (common.Hash{}) || len(k.hs) >= 6 {
		return
	}
	for _, x := range k.hs {
		if x == h {
			return
		}
	}
	k.hs = append(k.hs, h)
}

func (k *known) harvest(v reflect.Value, depth int) {
	if depth > 3 || !v.IsValid() {
		return
	}
	if v.Type() == hashType {
		k.add(v.Interface().(common.Hash))
		return
	}
	switch v.Kind() {
	case reflect.Ptr, reflect.Interface:
		if !v.IsNil() {
			k.harvest(v.Elem(), depth+1)
		}
	case reflect.Struct:
		for i := 0; i < v.NumField(); i++ {
			if v.Type().Field(i).IsExported() {
				k.harvest(v.Field(i), depth+1)
			}
		}
	}
}

func takesHash(recv reflect.Value, name string) bool {
	m := recv.MethodByName(name)
	if !m.IsValid() {
		return false
	}
	for i := 0; i < m.Type().NumIn(); i++ {
		if m.Type().In(i) == hashType {
			return true
		}
	}
	return false
}

func callMethod(recv reflect.Value, name string) (string, string) {
	return callMethodWith(recv, name, nil, nil)
}

// callMethodWith: hash parameters take *h when h is not nil; results of a successful call are harvested into k when k is not nil
func callMethodWith(recv reflect.Value, name string, h *common.Hash, k *known) (string, string) {
	m := recv.MethodByName(name)
	if !m.IsValid() {
		return "other_error", "no such method"
	}
	mt := m.Type()
	args := make([]reflect.Value, mt.NumIn())
	for i := range args {
		args[i] = argFor(mt.In(i), name)
		if h != nil && mt.In(i) == hashType {
			args[i] = reflect.ValueOf(*h)
		}
	}
	type res struct{ class, detail string }
	done := make(chan res, 1)
	go func() {
		defer func() {
			if r := recover(); r != nil {
				msg := fmt.Sprint(r)
				if len(msg) > 100 {
					msg = msg[:100]
				}
				done <- res{"panic", msg}
			}
		}()
		var outs []reflect.Value
		if mt.IsVariadic() {
			outs = m.CallSlice(args)
		} else {
			outs = m.Call(args)
		}
		for i := len(outs) - 1; i >= 0; i-- {
			if mt.Out(i) == errType {
				if outs[i].IsNil() {
					if k != nil && name != "Start" {
						for j := range outs {
							k.harvest(outs[j], 0)
						}
					}
					done <- res{"ok", ""}
				} else {
					c, d := classify(outs[i].Interface().(error))
					done <- res{c, d}
				}
				return
			}
		}
		done <- res{"ok", "no error result"}
	}()
	select {
	case r := <-done:
		return r.class, r.detail
	case <-time.After(10 * time.Second):
		return "other_error", "timeout: the call did not return within 10s"
	}
}

// ---------------------------------------------------------------------------------------------------------------
// running one history
// ---------------------------------------------------------------------------------------------------------------

type stepRes struct {
	common StepObs
	query  map[string]StepObs // per method, for query operations
}

func runScenario(syncer string, ops []Op, methods []string) ([]stepRes, error) {
	dir, err := os.MkdirTemp("", "verif-c14-")
	if err != nil {
		return nil, err
	}
	defer os.RemoveAll(dir)
	s, err := newSut(syncer, dir)
	if err != nil {
		return nil, err
	}
	defer s.inspect.Close()
	defer s.close()
	var res []stepRes
	var kn known
	for _, op := range ops {
		var sr stepRes
		switch op.K {
		case "block":
			c, d := classify(s.process(op.Num, op.Evs))
			sr.common = StepObs{Out: c, Detail: d}
		case "reorg":
			c, d := classify(s.reorg(op.Num))
			sr.common = StepObs{Out: c, Detail: d}
		case "reorg_fault":
			disarm := s.armFault(op.Fault, op.Num)
			c, d := classify(s.reorg(op.Num))
			disarm()
			sr.common = StepObs{Out: c, Detail: d}
		case "query":
			sr.query = map[string]StepObs{}
			for _, m := range methods {
				c, d := callMethodWith(s.facade, m, nil, &kn)
				// the same question with every hash the facade has handed out so far: data from any of them is data
				if takesHash(s.facade, m) {
					for i := range kn.hs {
						if c2, d2 := callMethodWith(s.facade, m, &kn.hs[i], nil); c2 == "ok" && c != "ok" {
							c, d = c2, d2+" (asked with a hash the facade returned earlier)"
						} else if c2 == "panic" {
							c, d = c2, d2
						}
					}
				}
				sr.query[m] = StepObs{Out: c, Detail: d}
			}
		default:
			return nil, fmt.Errorf("unknown op %q", op.K)
		}
		last, rows := s.blockTable()
		sr.common.Last, sr.common.Rows = last, rows
		res = append(res, sr)
	}
	return res, nil
}

func facadeType(syncer string) reflect.Type {
	if syncer == bridgeSyncer {
		return reflect.TypeOf((*bridgesync.BridgeSync)(nil))
	}
	return reflect.TypeOf((*l1infotreesync.L1InfoTreeSync)(nil))
}

func obsFor(res []stepRes, method string) []StepObs {
	obs := make([]StepObs, len(res))
	for i, r := range res {
		obs[i] = r.common
		if r.query != nil {
			q := r.query[method]
			obs[i].Out, obs[i].Detail = q.Out, q.Detail
		}
	}
	return obs
}

// ---------------------------------------------------------------------------------------------------------------
// generation of histories (structured, mostly valid; the generator keeps its own view of what the store should hold
// only to pick valid deposit counts / roots — nothing below is used to judge the implementation)
// ---------------------------------------------------------------------------------------------------------------

type wblock struct {
	num     uint64
	leaves  []common.Hash // l1: leaf hashes
	lastIdx int64         // bridge: index of the last leaf the block added, -1 if none
}

type builder struct {
	syncer string
	rng    *hlib.Rng
	blocks []wblock
	halted bool
	next   uint64 // next block number
	cache  int64  // bridge: the exit tree's in-memory next index (AppendOnlyTree.lastIndex+1), -1 = not initialised
	stale  int64  // bridge: the next index after the last accepted leaf, NOT reset by reorgs (what the in-memory index was
	//               before the fix 246bc10): source of the regression inputs "gap_stale"
	ops    []Op
}

func newBuilder(syncer string, rng *hlib.Rng) *builder {
	return &builder{syncer: syncer, rng: rng, next: uint64(1 + rng.Intn(20)), cache: -1, stale: -1}
}

func (b *builder) allLeaves() []common.Hash {
	var l []common.Hash
	for _, w := range b.blocks {
		l = append(l, w.leaves...)
	}
	return l
}

// dbNext: bridge syncer, the index the database expects next (index of the last stored leaf + 1)
func (b *builder) dbNext() int64 {
	for i := len(b.blocks) - 1; i >= 0; i-- {
		if b.blocks[i].lastIdx >= 0 {
			return b.blocks[i].lastIdx + 1
		}
	}
	return 0
}

func (b *builder) tip() uint64 {
	if len(b.blocks) == 0 {
		return 0
	}
	return b.blocks[len(b.blocks)-1].num
}

func (b *builder) seed() uint64 { return b.rng.U64() | 1 }

// block appends a ProcessBlock operation. fault: "" | gap_high | gap_low | gap_stale | root | count_high | count_low | announce_ok | dup.
// gap_stale: a deposit count equal to the next index BEFORE the last reorg when that is ahead of the database (the
// gap that went unnoticed before the append-only tree dropped its in-memory index on Reorg).
// nLeaves valid leaves come first, then the faulty event.
func (b *builder) block(nLeaves int, fault string, filler bool) {
	num := b.next
	b.next += uint64(1 + b.rng.Intn(3))
	if fault == "dup" && len(b.blocks) > 0 {
		num = b.blocks[b.rng.Intn(len(b.blocks))].num
	}
	stored := b.allLeaves()
	var evs []Ev
	var added []common.Hash
	if filler {
		if b.syncer == bridgeSyncer {
			evs = append(evs, Ev{K: hlib.Pick(b.rng, "claim", "token"), Seed: b.seed()})
		} else {
			evs = append(evs, Ev{K: "verify", Seed: b.seed()})
		}
	}
	if b.syncer == bridgeSyncer {
		b.bridgeBlock(num, evs, nLeaves, fault)
		return
	}
	for i := 0; i < nLeaves; i++ {
		sd := b.seed()
		added = append(added, leafFromSeed(sd).hash())
		all := append(append([]common.Hash{}, stored...), added...)
		evs = append(evs, Ev{K: "leaf", Seed: sd, Root: merkleRoot(all).Hex()})
	}
	n := uint32(len(stored) + len(added))
	bad := false
	all := append(append([]common.Hash{}, stored...), added...)
	root := merkleRoot(all)
	switch fault {
	case "root":
		evs = append(evs, Ev{K: "announce", Seed: b.seed(), Root: rhash(b.rng).Hex(), Count: n})
		bad = n > 0
	case "count_high":
		evs = append(evs, Ev{K: "announce", Seed: b.seed(), Root: root.Hex(), Count: n + uint32(1+b.rng.Intn(3))})
		bad = n > 0
	case "count_low":
		if n > 0 {
			evs = append(evs, Ev{K: "announce", Seed: b.seed(), Root: root.Hex(), Count: uint32(b.rng.Intn(int(n)))})
			bad = true
		}
	case "announce_ok":
		evs = append(evs, Ev{K: "announce", Seed: b.seed(), Root: root.Hex(), Count: n})
	}
	if bad && b.rng.Intn(2) == 0 {
		evs = append(evs, Ev{K: "verify", Seed: b.seed()})
	}
	b.ops = append(b.ops, Op{K: "block", Num: num, Evs: evs})
	empty := n == 0 && (fault == "root" || fault == "count_high" || fault == "announce_ok")
	switch {
	case b.halted, fault == "dup" && len(b.blocks) > 0, empty:
	case bad:
		b.halted = true
	default:
		b.blocks = append(b.blocks, wblock{num: num, leaves: added, lastIdx: -1})
	}
}

// bridgeBlock: the bridge syncer's part of block(). The builder follows AppendOnlyTree.AddLeaf's index logic
// (in-memory index first, database on a mismatch) only to know whether the block it builds will be accepted.
func (b *builder) bridgeBlock(num uint64, evs []Ev, nLeaves int, fault string) {
	dup := fault == "dup" && len(b.blocks) > 0
	dbn, cache := b.dbNext(), b.cache
	start := dbn
	last := int64(-1)
	ok := true
	add := func(dc int64) {
		evs = append(evs, Ev{K: "bridge", DC: uint32(dc), Seed: b.seed()})
		if !ok {
			return
		}
		if dc != cache {
			cache = dbn // initCache
		}
		if dc != cache {
			ok = false
			return
		}
		cache, dbn, last = dc+1, dc+1, dc
	}
	for i := 0; i < nLeaves; i++ {
		add(dbn)
	}
	switch fault {
	case "gap_high":
		dc := dbn + int64(1+b.rng.Intn(3))
		if dc == cache {
			dc++
		}
		add(dc)
	case "gap_low":
		if dbn > 0 {
			dc := int64(b.rng.Intn(int(dbn)))
			if dc == cache {
				dc = dbn + 1
				if dc == cache {
					dc++
				}
			}
			add(dc)
		}
	case "gap_stale":
		if b.stale > dbn {
			add(b.stale) // contradicts the database, equals the index the tree had in memory before the reorg
		}
	}
	if !ok && fault != "gap_stale" && b.rng.Intn(2) == 0 { // events after the faulty one (never after a regression input)
		add(dbn + 1)
	}
	b.ops = append(b.ops, Op{K: "block", Num: num, Evs: evs})
	switch {
	case b.halted, dup:
	case !ok:
		b.halted = true
		if last >= 0 {
			b.cache = -1 // rollback callbacks of the leaves added before the faulty one invalidate the index
		} else {
			b.cache = start // initCache read the database, nothing to roll back
		}
	default:
		b.blocks = append(b.blocks, wblock{num: num, lastIdx: last})
		if last >= 0 {
			b.cache, b.stale = cache, cache
		}
	}
}

func (b *builder) reorg(first uint64) {
	b.ops = append(b.ops, Op{K: "reorg", Num: first})
	b.cache = -1 // AppendOnlyTree.Reorg drops the in-memory index
	k := len(b.blocks)
	for k > 0 && b.blocks[k-1].num >= first {
		k--
	}
	if k < len(b.blocks) {
		b.blocks = b.blocks[:k]
		b.halted = false
	}
}

// reorgFault appends a Reorg under an armed storage fault. The builder only needs to know whether the fault will hit
// (then nothing changes) or not (then it is an ordinary reorg).
func (b *builder) reorgFault(kind string, first uint64) {
	fires := false
	for _, w := range b.blocks {
		if w.num >= first && (kind == "commit" || w.lastIdx >= 0 || len(w.leaves) > 0) {
			fires = true
		}
	}
	if !fires {
		b.reorg(first)
		b.ops[len(b.ops)-1] = Op{K: "reorg_fault", Num: first, Fault: kind}
		return
	}
	b.ops = append(b.ops, Op{K: "reorg_fault", Num: first, Fault: kind})
	if kind == "commit" {
		b.cache = -1 // AppendOnlyTree.Reorg ran before the commit failed
	}
}

func (b *builder) query() { b.ops = append(b.ops, Op{K: "query"}) }

func faultsOf(syncer string) []string {
	if syncer == bridgeSyncer {
		return []string{"gap_high", "gap_low"}
	}
	return []string{"root", "count_high", "count_low"}
}

func routeOf(fault string) string {
	switch fault {
	case "gap_high", "gap_low", "gap_stale":
		return "deposit_count_gap"
	case "root":
		return "announced_root_mismatch"
	case "count_high", "count_low":
		return "announced_count_mismatch"
	}
	return "none"
}

type scenario struct {
	syncer, route, reorg string
	ops                  []Op
}

// template: healthy prefix, query, halting block, query, more blocks while halted, query, reorg above the tip, query,
// reorg at `point` (an index into the list of candidate reorg points: 0, every processed block number and the numbers
// in between, tip), query, valid continuation, query.
func templateScenarios(syncer string, rng *hlib.Rng) []scenario {
	var res []scenario
	for _, fault := range faultsOf(syncer) {
		for shape := 0; shape < 2; shape++ {
			// candidate reorg points are only known once the prefix is built: build the prefix with a fixed sub-seed
			sub := rng.U64()
			probe := newBuilder(syncer, hlib.NewRng(sub))
			prefix := func(b *builder) {
				k := 2 + shape
				for i := 0; i < k; i++ {
					b.block(1+b.rng.Intn(2), map[bool]string{true: "announce_ok", false: ""}[i > 0 && b.rng.Bool()], b.rng.Bool())
				}
			}
			prefix(probe)
			points := []uint64{0}
			for p := probe.blocks[0].num; p <= probe.tip(); p++ {
				points = append(points, p)
			}
			for _, point := range points {
				b := newBuilder(syncer, hlib.NewRng(sub))
				prefix(b)
				b.query()
				b.block(2*shape, fault, shape == 1) // the inconsistency: first event of the block, or after two valid leaves (rolled back)
				b.query()
				b.block(1, "", false) // a block that would be valid
				if shape == 1 {
					b.block(0, fault, false) // and another inconsistent one
				}
				b.query()
				above := b.next + uint64(b.rng.Intn(3))
				if shape == 1 {
					above = b.tip() + 1
				}
				b.reorg(above) // removes nothing
				b.query()
				b.block(0, "", false) // still halted
				// the same reorg, but its transaction fails after the block rows were deleted: error, nothing removed, still halted
				b.reorgFault([]string{"commit", "tree"}[shape], point)
				b.query()
				b.block(0, "", false)
				b.reorgFault([]string{"tree", "commit"}[shape], point)
				b.query()
				b.reorg(point) // removes processed blocks
				b.query()
				if b.next <= b.tip() {
					b.next = b.tip() + 1
				}
				b.block(1, "announce_ok", true)
				b.block(1, "", false)
				b.query()
				res = append(res, scenario{syncer, routeOf(fault), fmt.Sprintf("noop@%d,delete@%d", above, point), b.ops})
			}
		}
	}
	// regression histories of the fixed defect 246bc10: a deposit-count gap right after a reorg that removed leaves, of
	// exactly the number of removed leaves (the reorg removes the last block / everything); must halt
	if syncer == bridgeSyncer {
		for variant := 0; variant < 2; variant++ {
			b := newBuilder(syncer, hlib.NewRng(rng.U64()))
			b.block(2, "", false)
			b.block(1, "", true)
			b.query()
			point := b.tip()
			if variant == 1 {
				point = 0
			}
			b.reorg(point)
			b.query()
			b.block(0, "gap_stale", false)
			b.query()
			b.block(1, "", false)
			b.query()
			res = append(res, scenario{syncer, "deposit_count_gap_after_reorg", fmt.Sprintf("delete@%d", point), b.ops})
		}
	}
	// halted on an empty store (only reachable for the bridge syncer): no reorg can remove a row
	if syncer == bridgeSyncer {
		b := newBuilder(syncer, hlib.NewRng(rng.U64()))
		b.query()
		b.block(0, "gap_high", true)
		b.query()
		b.reorg(0)
		b.query()
		b.block(1, "", false)
		b.query()
		res = append(res, scenario{syncer, "deposit_count_gap", "empty-store,delete@0", b.ops})
	} else {
		// an announcement on an empty tree is a plain error, not an inconsistency
		b := newBuilder(syncer, hlib.NewRng(rng.U64()))
		b.block(0, "root", false)
		b.query()
		b.block(1, "announce_ok", false)
		b.query()
		res = append(res, scenario{syncer, "none", "none", b.ops})
	}
	// the history of the seeded change C14_1: blocks 1, 2 (one leaf each), an inconsistent block 3, then Reorg(2) failing in the
	// tree purge / at commit, then the same Reorg without fault
	for _, kind := range []string{"tree", "commit"} {
		b := newBuilder(syncer, hlib.NewRng(rng.U64()))
		b.next = 1
		b.block(1, "", false)
		b.next = 2
		b.block(1, "", false)
		b.next = 3
		b.block(0, faultsOf(syncer)[0], false)
		b.query()
		b.reorgFault(kind, 2)
		b.query()
		b.next = 3
		b.block(0, "", false)
		b.query()
		b.reorg(2)
		b.query()
		res = append(res, scenario{syncer, routeOf(faultsOf(syncer)[0]), "failed(" + kind + ")@2,delete@2", b.ops})
	}
	// never halted: reorgs on a healthy syncer, duplicate block numbers
	{
		b := newBuilder(syncer, hlib.NewRng(rng.U64()))
		b.query()
		b.block(2, "", true)
		b.block(1, "announce_ok", false)
		b.block(0, "dup", false)
		b.query()
		b.reorg(b.tip() + 1)
		b.query()
		b.reorgFault("commit", b.tip())
		b.query()
		b.reorgFault("tree", 0)
		b.query()
		b.reorg(b.tip())
		b.query()
		b.next = b.tip() + 1
		b.block(1, "announce_ok", false)
		b.query()
		res = append(res, scenario{syncer, "none", "healthy", b.ops})
	}
	return res
}

func randomScenario(syncer string, rng *hlib.Rng) scenario {
	b := newBuilder(syncer, hlib.NewRng(rng.U64()))
	n := 8 + b.rng.Intn(10)
	for i := 0; i < n; i++ {
		switch x := b.rng.Intn(20); {
		case x < 9:
			b.block(b.rng.Intn(3), hlib.Pick(b.rng, "", "", "announce_ok"), b.rng.Bool())
		case x < 12:
			fl := faultsOf(syncer)
			if syncer == bridgeSyncer {
				fl = append(fl, "gap_stale")
			}
			f := hlib.Pick(b.rng, fl...)
			b.block(b.rng.Intn(4), f, b.rng.Bool())
		case x < 13:
			b.block(b.rng.Intn(3), "dup", false)
		case x < 16:
			var p uint64
			switch b.rng.Intn(4) {
			case 0:
				p = b.tip() + uint64(1+b.rng.Intn(3))
			case 1:
				p = b.tip()
			case 2:
				p = uint64(b.rng.Intn(int(b.tip() + 2)))
			default:
				p = b.next
			}
			if b.rng.Intn(3) == 0 {
				b.reorgFault(hlib.Pick(b.rng, "tree", "commit"), p)
			} else {
				b.reorg(p)
			}
			if b.next <= b.tip() {
				b.next = b.tip() + 1
			}
		default:
			b.query()
		}
	}
	b.query()
	return scenario{syncer, "random", "random", b.ops}
}

func gen(f *hlib.Flags) []In {
	rng := hlib.NewRng(f.Seed)
	var ins []In
	id := 0
	for _, syncer := range []string{bridgeSyncer, l1Syncer} {
		ins = append(ins, In{Kind: "methods", Syncer: syncer})
		called, _ := methodNames(facadeType(syncer))
		scs := templateScenarios(syncer, rng)
		for i := 0; i < f.N; i++ {
			scs = append(scs, randomScenario(syncer, rng))
		}
		for _, sc := range scs {
			id++
			for _, m := range called {
				ins = append(ins, In{Kind: "method", Syncer: syncer, Route: sc.route, Reorg: sc.reorg, Scen: id, Method: m, Ops: sc.ops})
			}
		}
	}
	return ins
}

// ---------------------------------------------------------------------------------------------------------------

func main() {
	f := hlib.ParseFlags()
	log.Init(log.Config{Environment: log.EnvironmentProduction, Level: "fatal", Outputs: []string{"stderr"}})
	var ins []In
	if f.Replay != "" {
		for _, raw := range hlib.ReadJSONL(f.Replay) {
			var in In
			if err := json.Unmarshal(raw, &in); err != nil {
				panic(err)
			}
			ins = append(ins, in)
		}
	} else {
		ins = gen(f)
	}
	w := hlib.NewWriter(f.Out)
	defer w.Close()
	// cases of the same history share one execution
	cache := map[string][]stepRes{}
	for _, in := range ins {
		switch in.Kind {
		case "methods":
			called, skipped := methodNames(facadeType(in.Syncer))
			w.Emit(Out{In: in, Called: called, Skipped: skipped})
		case "method":
			kb, _ := json.Marshal(in.Ops)
			key := in.Syncer + "|" + string(kb)
			res, ok := cache[key]
			if !ok {
				methods, _ := methodNames(facadeType(in.Syncer))
				if f.Replay != "" { // a replayed case may name a method that reflection no longer finds: call it anyway (=> recorded as such)
					methods = append(methods, in.Method)
				}
				var err error
				res, err = runScenario(in.Syncer, in.Ops, methods)
				if err != nil {
					w.Emit(Out{In: in, Err: err.Error()})
					continue
				}
				cache[key] = res
			}
			w.Emit(Out{In: in, Obs: obsFor(res, in.Method)})
		default:
			w.Emit(Out{In: in, Err: "unknown case kind"})
		}
	}
}
