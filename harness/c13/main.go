// C13 harness: certificate bookkeeping across crashes and a lost database.
//
// Runs the REAL status checker (statuschecker.NewCertStatusChecker; one iteration of CheckInitialStatus through the
// hook VerifRecoverOnceC13), the REAL AggSenderSQLStorage on a temporary SQLite file, the REAL metadata
// encoder/decoder and the REAL flow functions computing the next certificate's (height, previous LER, first block)
// (hook VerifNextParamsC13), against a scripted fake Agglayer client.
//
// A crash is simulated by building the pre-crash local database through the real storage API, dropping the
// storage object (and, for a lost database, deleting the file), re-opening and running the recovery once.
// Storage faults: a trigger raising ABORT on the n-th statement class of SaveLastSentCertificate's transaction.
package main

import (
	"context"
	"database/sql"
	"encoding/json"
	"errors"
	"fmt"
	"os"
	"path/filepath"
	"strings"

	"github.com/agglayer/aggkit/agglayer"
	agglayertypes "github.com/agglayer/aggkit/agglayer/types"
	aggsenderdb "github.com/agglayer/aggkit/aggsender/db"
	"github.com/agglayer/aggkit/aggsender/flows"
	"github.com/agglayer/aggkit/aggsender/statuschecker"
	aggsendertypes "github.com/agglayer/aggkit/aggsender/types"
	"github.com/agglayer/aggkit/bridgesync"
	"github.com/agglayer/aggkit/log"
	"github.com/ethereum/go-ethereum/common"
	_ "github.com/mattn/go-sqlite3"

	"verifharness/hlib"
)

// ---------------------------------------------------------------------------------------------------------
// case format
// ---------------------------------------------------------------------------------------------------------

type Hdr struct {
	Height  uint64  `json:"height"`
	ID      string  `json:"id"`
	Status  int     `json:"status"`
	NewLER  string  `json:"new_ler"`
	PrevLER *string `json:"prev_ler"`
	Meta    string  `json:"meta"`
}

type Row struct {
	Height  uint64  `json:"height"`
	Retry   uint64  `json:"retry"`
	ID      string  `json:"id"`
	Status  int     `json:"status"`
	PrevLER *string `json:"prev_ler"`
	NewLER  string  `json:"new_ler"`
	From    uint64  `json:"from"`
	To      uint64  `json:"to"`
	Created uint32  `json:"created"`
	CType   uint8   `json:"ctype"`
	FromAgg bool    `json:"from_agg"`
}

type Op struct {
	Op     string `json:"op"` // "save" | "status"
	Row    *Row   `json:"row,omitempty"`
	ID     string `json:"id,omitempty"`
	Status int    `json:"status,omitempty"`
}

type Cfg struct {
	StartBlock uint64 `json:"start_block"`
	StartLER   string `json:"start_ler"`
	Keep       bool   `json:"keep"`
}

type Agg struct {
	Settled *Hdr  `json:"settled"`
	Pending *Hdr  `json:"pending"`
	Known   []Hdr `json:"known"`
}

type MetaIn struct {
	Version uint8  `json:"version"`
	ToV0    uint64 `json:"to_v0"`
	From    uint64 `json:"from"`
	To      uint64 `json:"to"` // kind=meta: offset = uint32(To-From) as BuildCertificate computes it
	Created uint32 `json:"created"`
	CType   uint8  `json:"ctype"`
	Raw     string `json:"raw,omitempty"` // when set: decode these 32 bytes instead
}

type In struct {
	Kind string `json:"kind"` // "recover" | "fault" | "meta"
	Cfg  Cfg    `json:"cfg"`
	Ops  []Op   `json:"ops"`
	Lost bool   `json:"lost"`
	Agg  Agg    `json:"agg"`
	// scenario labels (used by the property predicate and the coverage report, not by the harness)
	Scenario bool   `json:"scenario"`  // generated from a protocol state satisfying the invariant
	CP       string `json:"cp"`        // before_submit | after_submit_before_store | after_store | db_lost | none
	AggClass string `json:"agg_class"` // nothing | pending | proven | candidate | in_error | settled | random
	Step     string `json:"step"`      // idle | first | next | replacement
	Ideal    *Row   `json:"ideal"`     // top row of the database of a node that did not crash (status as stored locally)
	MetaV    int    `json:"meta_v"`    // metadata version of the latest Agglayer header
	// fault cases
	FaultClass string  `json:"fault_class,omitempty"` // hist | delete | insert | none
	FaultRow   *Row    `json:"fault_row,omitempty"`
	Meta       *MetaIn `json:"meta,omitempty"`
}

type Next struct {
	OK     bool   `json:"ok"`
	Height uint64 `json:"height"`
	LER    string `json:"ler"`
	From   uint64 `json:"from"`
	Retry  int    `json:"retry"`
	Err    string `json:"err"`
}

type HistKey struct {
	Height uint64 `json:"height"`
	Retry  uint64 `json:"retry"`
	ID     string `json:"id"`
}

type Out struct {
	In       In        `json:"in"`
	Before   []Row     `json:"before"`      // certificate_info after the crash, before the recovery
	HistB    []HistKey `json:"hist_before"` // certificate_info_history likewise
	Outcome  string    `json:"outcome"`     // none | update | insert | refused
	ErrKind  string    `json:"err_kind"`    // for refused
	After    []Row     `json:"after"`
	HistA    []HistKey `json:"hist_after"`
	Next     Next      `json:"next"`
	SaveErr  bool      `json:"save_err"`           // fault cases: SaveLastSentCertificate returned an error
	OpErrs   int       `json:"op_errs"`            // number of set-up operations the storage rejected
	MetaEnc  string    `json:"meta_enc,omitempty"` // meta cases: ToHash()
	MetaDec  *MetaIn   `json:"meta_dec,omitempty"` // meta cases: NewCertificateMetadataFromHash(...)
	MetaErr  bool      `json:"meta_err,omitempty"`
	HarnessE string    `json:"harness_err,omitempty"`
}

// ---------------------------------------------------------------------------------------------------------
// fake Agglayer
// ---------------------------------------------------------------------------------------------------------

type fakeAgg struct{ a Agg }

var _ agglayer.AgglayerClientInterface = (*fakeAgg)(nil)

func h32(s string) common.Hash { return common.BytesToHash(hlib.UnHex(s)) }

func toHeader(h *Hdr) *agglayertypes.CertificateHeader {
	if h == nil {
		return nil
	}
	res := &agglayertypes.CertificateHeader{
		NetworkID:        1,
		Height:           h.Height,
		CertificateID:    h32(h.ID),
		NewLocalExitRoot: h32(h.NewLER),
		Status:           agglayertypes.CertificateStatus(h.Status),
		Metadata:         h32(h.Meta),
	}
	if h.PrevLER != nil {
		p := h32(*h.PrevLER)
		res.PreviousLocalExitRoot = &p
	}
	return res
}

func (f *fakeAgg) SendCertificate(context.Context, *agglayertypes.Certificate) (common.Hash, error) {
	return common.Hash{}, errors.New("verif: SendCertificate not expected during recovery")
}
func (f *fakeAgg) GetCertificateHeader(_ context.Context, id common.Hash) (*agglayertypes.CertificateHeader, error) {
	for i := range f.a.Known {
		if h32(f.a.Known[i].ID) == id {
			return toHeader(&f.a.Known[i]), nil
		}
	}
	return nil, fmt.Errorf("verif: certificate %s not found", id.String())
}
func (f *fakeAgg) GetEpochConfiguration(context.Context) (*agglayertypes.ClockConfiguration, error) {
	return nil, errors.New("verif: not used")
}
func (f *fakeAgg) GetLatestSettledCertificateHeader(context.Context, uint32) (*agglayertypes.CertificateHeader, error) {
	return toHeader(f.a.Settled), nil
}
func (f *fakeAgg) GetLatestPendingCertificateHeader(context.Context, uint32) (*agglayertypes.CertificateHeader, error) {
	return toHeader(f.a.Pending), nil
}

type fakeLER struct{ ler common.Hash }

func (f fakeLER) GetLastLocalExitRoot() (common.Hash, error) { return f.ler, nil }

// ---------------------------------------------------------------------------------------------------------
// running one case against the real code
// ---------------------------------------------------------------------------------------------------------

var (
	logger  *log.Logger
	workDir string
	caseNo  int
)

func toCert(r *Row) aggsendertypes.Certificate {
	h := &aggsendertypes.CertificateHeader{
		Height:           r.Height,
		RetryCount:       int(r.Retry),
		CertificateID:    h32(r.ID),
		NewLocalExitRoot: h32(r.NewLER),
		FromBlock:        r.From,
		ToBlock:          r.To,
		Status:           agglayertypes.CertificateStatus(r.Status),
		CreatedAt:        r.Created,
		UpdatedAt:        r.Created,
		CertType:         aggsendertypes.CertificateType(r.CType),
		CertSource:       aggsendertypes.CertificateSourceLocal,
	}
	if r.FromAgg {
		h.CertSource = aggsendertypes.CertificateSourceAggLayer
	}
	if r.PrevLER != nil {
		p := h32(*r.PrevLER)
		h.PreviousLocalExitRoot = &p
	}
	signed := "{}"
	return aggsendertypes.Certificate{Header: h, SignedCertificate: &signed}
}

func hexHash(h common.Hash) string { return hlib.Hex(h.Bytes()) }

var allStatuses = []agglayertypes.CertificateStatus{
	agglayertypes.Pending, agglayertypes.Proven, agglayertypes.Candidate, agglayertypes.InError, agglayertypes.Settled,
}

// readRows lists certificate_info through the real storage API (all statuses, ORDER BY height ASC).
func readRows(st *aggsenderdb.AggSenderSQLStorage) ([]Row, error) {
	hs, err := st.GetCertificateHeadersByStatus(allStatuses)
	if err != nil {
		return nil, err
	}
	rows := make([]Row, 0, len(hs))
	for _, h := range hs {
		r := Row{Height: h.Height, Retry: uint64(h.RetryCount), ID: hexHash(h.CertificateID), Status: int(h.Status),
			NewLER: hexHash(h.NewLocalExitRoot), From: h.FromBlock, To: h.ToBlock, Created: h.CreatedAt,
			CType: h.CertType.ToInt(), FromAgg: h.CertSource == aggsendertypes.CertificateSourceAggLayer}
		if h.PreviousLocalExitRoot != nil {
			p := hexHash(*h.PreviousLocalExitRoot)
			r.PrevLER = &p
		}
		rows = append(rows, r)
	}
	return rows, nil
}

// readHist reads the history table with a separate read connection (there is no storage API for it).
func readHist(path string) ([]HistKey, error) {
	d, err := sql.Open("sqlite3", "file:"+path+"?_journal_mode=WAL")
	if err != nil {
		return nil, err
	}
	defer d.Close()
	rs, err := d.Query("SELECT height, retry_count, certificate_id FROM certificate_info_history ORDER BY height, retry_count")
	if err != nil {
		return nil, err
	}
	defer rs.Close()
	out := []HistKey{}
	for rs.Next() {
		var k HistKey
		var id string
		if err := rs.Scan(&k.Height, &k.Retry, &id); err != nil {
			return nil, err
		}
		k.ID = strings.TrimPrefix(strings.ToLower(id), "0x")
		out = append(out, k)
	}
	return out, rs.Err()
}

func execSQL(path, q string) error {
	d, err := sql.Open("sqlite3", "file:"+path+"?_journal_mode=WAL")
	if err != nil {
		return err
	}
	defer d.Close()
	_, err = d.Exec(q)
	return err
}

func openStorage(path string, keep bool) (*aggsenderdb.AggSenderSQLStorage, error) {
	return aggsenderdb.NewAggSenderSQLStorage(logger, aggsenderdb.AggSenderSQLStorageConfig{DBPath: path, KeepCertificatesHistory: keep})
}

func removeDB(path string) {
	for _, sfx := range []string{"", "-wal", "-shm", "-journal"} {
		os.Remove(path + sfx)
	}
}

func classifyRecoveryErr(err error) string {
	s := err.Error()
	switch {
	case errors.Is(err, statuschecker.ErrAgglayerInconsistence):
		return "agg_inconsistent"
	case strings.Contains(s, "suspicious height"):
		return "suspicious_height"
	case strings.Contains(s, "exists in storage but not in agglayer"):
		return "local_only"
	case strings.Contains(s, "has less height"):
		return "agg_lower"
	case strings.Contains(s, "is different from agglayer certificate"):
		return "different_id"
	case strings.Contains(s, "unsupported certificate metadata version"), strings.Contains(s, "Unsupported certificate metadata version"):
		return "bad_metadata"
	case strings.Contains(s, "error new local storage with agglayer certificate"),
		strings.Contains(s, "error updating local storage with agglayer certificate"):
		return "storage"
	}
	return "other"
}

func classifyNextErr(err error) string {
	s := err.Error()
	switch {
	case strings.Contains(s, "retry certificate fromBlock"):
		return "retry_from_mismatch"
	case strings.Contains(s, "is not closed"):
		return "not_closed"
	case strings.Contains(s, "error getting last settled certificate"), strings.Contains(s, "none settled certificate"):
		return "no_prev_settled"
	case strings.Contains(s, "is not settled"):
		return "prev_not_settled"
	case strings.Contains(s, "unknown status"):
		return "unknown_status"
	}
	return "other"
}

func applyOps(st *aggsenderdb.AggSenderSQLStorage, ops []Op) int {
	ctx := context.Background()
	errs := 0
	for _, op := range ops {
		var err error
		switch op.Op {
		case "save":
			err = st.SaveLastSentCertificate(ctx, toCert(op.Row))
		case "status":
			err = st.UpdateCertificateStatus(ctx, h32(op.ID), agglayertypes.CertificateStatus(op.Status), 1)
		}
		if err != nil {
			errs++
		}
	}
	return errs
}

func runMeta(in In) Out {
	o := Out{In: in}
	m := in.Meta
	var hash common.Hash
	if m.Raw != "" {
		hash = h32(m.Raw)
	} else {
		var cm *aggsendertypes.CertificateMetadata
		if m.Version == aggsendertypes.CertificateMetadataV2 {
			// exactly what BuildCertificate does
			cm = aggsendertypes.NewCertificateMetadata(m.From, uint32(m.To-m.From), m.Created, m.CType)
		} else {
			cm = &aggsendertypes.CertificateMetadata{Version: m.Version, ToBlock: m.ToV0, FromBlock: m.From,
				Offset: uint32(m.To - m.From), CreatedAt: m.Created, CertType: m.CType}
		}
		hash = cm.ToHash()
	}
	o.MetaEnc = hexHash(hash)
	d, err := aggsendertypes.NewCertificateMetadataFromHash(hash)
	if err != nil {
		o.MetaErr = true
		return o
	}
	// To carries the decoded offset here
	o.MetaDec = &MetaIn{Version: d.Version, ToV0: d.ToBlock, From: d.FromBlock, To: uint64(d.Offset), Created: d.CreatedAt, CType: d.CertType}
	return o
}

func run(in In) (o Out) {
	if in.Kind == "meta" {
		return runMeta(in)
	}
	o = Out{In: in, Before: []Row{}, After: []Row{}, HistB: []HistKey{}, HistA: []HistKey{}}
	caseNo++
	path := filepath.Join(workDir, fmt.Sprintf("c13_%d.sqlite", caseNo))
	removeDB(path)
	defer removeDB(path)
	fail := func(err error) Out { o.HarnessE = err.Error(); return o }

	// 1. the node before the crash: local database built through the real storage API
	st, err := openStorage(path, in.Cfg.Keep)
	if err != nil {
		return fail(err)
	}
	o.OpErrs = applyOps(st, in.Ops)

	if in.Kind == "fault" {
		defer st.VerifCloseC13()
		if o.Before, err = readRows(st); err != nil {
			return fail(err)
		}
		if o.HistB, err = readHist(path); err != nil {
			return fail(err)
		}
		trig := map[string]string{
			"hist":   "CREATE TRIGGER verif_fault BEFORE INSERT ON certificate_info_history BEGIN SELECT RAISE(ABORT, 'verif injected fault'); END;",
			"delete": "CREATE TRIGGER verif_fault BEFORE DELETE ON certificate_info BEGIN SELECT RAISE(ABORT, 'verif injected fault'); END;",
			"insert": "CREATE TRIGGER verif_fault BEFORE INSERT ON certificate_info BEGIN SELECT RAISE(ABORT, 'verif injected fault'); END;",
		}[in.FaultClass]
		if trig != "" {
			if err := execSQL(path, trig); err != nil {
				return fail(err)
			}
		}
		o.SaveErr = st.SaveLastSentCertificate(context.Background(), toCert(in.FaultRow)) != nil
		if trig != "" {
			if err := execSQL(path, "DROP TRIGGER verif_fault;"); err != nil {
				return fail(err)
			}
		}
		if o.After, err = readRows(st); err != nil {
			return fail(err)
		}
		if o.HistA, err = readHist(path); err != nil {
			return fail(err)
		}
		return o
	}

	// 2. crash: every in-memory object is dropped; a lost database = the file is gone
	if err := st.VerifCloseC13(); err != nil {
		return fail(err)
	}
	st = nil
	if in.Lost {
		removeDB(path)
	}

	// 3. restart: new storage on the same path, new status checker, the Agglayer answers as scripted
	st2, err := openStorage(path, in.Cfg.Keep)
	if err != nil {
		return fail(err)
	}
	defer st2.VerifCloseC13()
	if o.Before, err = readRows(st2); err != nil {
		return fail(err)
	}
	if o.HistB, err = readHist(path); err != nil {
		return fail(err)
	}
	checker := statuschecker.NewCertStatusChecker(logger, st2, &fakeAgg{a: in.Agg}, 1)
	action, rerr := statuschecker.VerifRecoverOnceC13(context.Background(), checker)
	if rerr != nil {
		o.Outcome, o.ErrKind = "refused", classifyRecoveryErr(rerr)
	} else {
		o.Outcome = map[string]string{"None": "none", "Update": "update", "InsertNew": "insert"}[action]
		if o.Outcome == "" {
			return fail(fmt.Errorf("unexpected action %q without error", action))
		}
	}
	if o.After, err = readRows(st2); err != nil {
		return fail(err)
	}
	if o.HistA, err = readHist(path); err != nil {
		return fail(err)
	}

	// 4. what the node would put into its next certificate: the real flow code on the real storage
	h, ler, from, retry, nerr := flows.VerifNextParamsC13(logger, st2, fakeLER{h32(in.Cfg.StartLER)}, in.Cfg.StartBlock)
	if nerr != nil {
		o.Next = Next{Err: classifyNextErr(nerr), LER: hexHash(common.Hash{})}
	} else {
		o.Next = Next{OK: true, Height: h, LER: hexHash(ler), From: from, Retry: retry}
	}
	// 4b. the same question asked through the flows' own entry points, as the aggsender loop does: the real
	// GetCertificateBuildParamsInternal (first block, retry count, last sent certificate), VerifyBuildParams and BuildCertificate
	// (height, previous LER) of a real base flow over the same storage, with an L2 syncer that is far ahead and has no events.
	// Both routes must agree; when they do not, the case reports that instead of either answer.
	ph, pler, pfrom, pretry, perr := nextViaFlow(st2, fakeLER{h32(in.Cfg.StartLER)}, in.Cfg.StartBlock)
	if !errors.Is(perr, errNothingToSend) {
		same := (perr != nil) == (nerr != nil)
		if same && perr != nil {
			same = classifyNextErr(perr) == classifyNextErr(nerr)
		}
		if same && perr == nil {
			same = ph == h && pler == ler && pfrom == from && pretry == retry
		}
		if !same {
			o.Next = Next{Err: "entry_points_disagree", LER: hexHash(common.Hash{})}
		}
	}
	return o
}

var errNothingToSend = errors.New("harness: the flow has no new block to send")

type farAheadBridge struct{ aggsendertypes.BridgeQuerier }

func (farAheadBridge) GetLastProcessedBlock(context.Context) (uint64, error) { return ^uint64(0), nil }
func (farAheadBridge) GetBridgesAndClaims(context.Context, uint64, uint64) ([]bridgesync.Bridge, []bridgesync.Claim, error) {
	return nil, nil, nil
}
func (farAheadBridge) OriginNetwork() uint32 { return 1 }

func nextViaFlow(st aggsenderdb.AggSenderStorage, lq aggsendertypes.LERQuerier, startBlock uint64) (uint64, common.Hash, uint64, int, error) {
	ctx := context.Background()
	f := flows.NewBaseFlow(logger, farAheadBridge{}, st, nil, lq, flows.NewBaseFlowConfig(0, startBlock, false))
	params, err := f.GetCertificateBuildParamsInternal(ctx, aggsendertypes.CertificateTypePP)
	if err != nil {
		if strings.Contains(err.Error(), "no new blocks") {
			return 0, common.Hash{}, 0, 0, errNothingToSend
		}
		return 0, common.Hash{}, 0, 0, err
	}
	if err := f.VerifyBuildParams(ctx, params); err != nil {
		return 0, common.Hash{}, params.FromBlock, params.RetryCount, err
	}
	cert, err := f.BuildCertificate(ctx, params, params.LastSentCertificate, true)
	if err != nil {
		return 0, common.Hash{}, params.FromBlock, params.RetryCount, err
	}
	return cert.Height, cert.PrevLocalExitRoot, params.FromBlock, params.RetryCount, nil
}

// ---------------------------------------------------------------------------------------------------------
// generator
// ---------------------------------------------------------------------------------------------------------

const (
	stPending = 0
	stProven  = 1
	stCand    = 2
	stInError = 3
	stSettled = 4
)

// rhash: a 32-byte hash whose leading 25 bytes are zero (7 random low bytes). The code under test treats ids and
// exit roots as opaque 32-byte values; short numbers keep the generated Coq case files fast to parse.
func rhash(rng *hlib.Rng) string {
	b := make([]byte, 32)
	copy(b[25:], rng.Bytes(7))
	b[31] |= 1 // never the zero hash
	return hlib.Hex(b)
}

type cert struct {
	height   uint64
	id       string
	prev     string
	newLER   string
	from, to uint64
	created  uint32
	ctype    uint8
	retry    uint64
}

func (c cert) row(status int) *Row {
	p := c.prev
	return &Row{Height: c.height, Retry: c.retry, ID: c.id, Status: status, PrevLER: &p, NewLER: c.newLER,
		From: c.from, To: c.to, Created: c.created, CType: c.ctype}
}

func metaHash(ver int, c cert) string {
	var cm *aggsendertypes.CertificateMetadata
	switch ver {
	case 0:
		cm = &aggsendertypes.CertificateMetadata{Version: 0, ToBlock: c.to}
	case 1:
		cm = &aggsendertypes.CertificateMetadata{Version: 1, FromBlock: c.from, Offset: uint32(c.to - c.from), CreatedAt: c.created}
	default:
		cm = aggsendertypes.NewCertificateMetadata(c.from, uint32(c.to-c.from), c.created, c.ctype)
	}
	return hexHash(cm.ToHash())
}

func (c cert) hdr(status, metaV int, withPrev bool) Hdr {
	h := Hdr{Height: c.height, ID: c.id, Status: status, NewLER: c.newLER, Meta: metaHash(metaV, c)}
	if withPrev {
		p := c.prev
		h.PrevLER = &p
	}
	return h
}

var classStatus = map[string]int{"pending": stPending, "proven": stProven, "candidate": stCand, "in_error": stInError, "settled": stSettled}

// lagging returns a local status that the Agglayer status x may have evolved from.
func lagging(rng *hlib.Rng, x int) int {
	switch x {
	case stPending:
		return stPending
	case stProven:
		return hlib.Pick(rng, stPending, stProven)
	case stCand:
		return hlib.Pick(rng, stPending, stProven, stCand)
	case stInError:
		return hlib.Pick(rng, stPending, stProven, stCand, stInError, stInError)
	default:
		return hlib.Pick(rng, stPending, stProven, stCand, stSettled, stSettled)
	}
}

type scenParams struct {
	H         int
	class     string // nothing | pending | proven | candidate | in_error | settled
	step      string // idle | first | next | replacement
	cp        string
	metaV     int
	localHist bool
	keep      bool
	hdrPrev   bool
	start     uint64
	viaStatus bool // set local statuses through UpdateCertificateStatus instead of saving them directly
	reopened  bool // idle: the local record says InError while the Agglayer has taken the same certificate up again (or settled it)
}

// scenario builds one case from a protocol state satisfying the invariant of the model (Inv in Model/Reconcile.v).
func scenario(rng *hlib.Rng, p scenParams) In {
	in := In{Kind: "recover", Scenario: true, CP: p.cp, AggClass: p.class, Step: p.step, MetaV: p.metaV,
		Cfg: Cfg{StartBlock: p.start, StartLER: rhash(rng), Keep: p.keep}, Ops: []Op{}, Agg: Agg{Known: []Hdr{}}}
	if rng.Intn(4) == 0 {
		in.Cfg.StartLER = "27ae5ba08d7291c96c8cbddcc148bf48a6d68c7974b94356f53754ef6171d757" // emptyLER
	}
	in.Lost = p.cp == "db_lost"
	if p.class == "nothing" {
		return in
	}
	// the chain of certificates 0..H
	chain := make([]cert, p.H+1)
	prev, from := in.Cfg.StartLER, p.start+1
	for k := 0; k <= p.H; k++ {
		n := uint64(rng.Intn(6))
		if rng.Intn(8) == 0 {
			n = uint64(rng.Intn(100000))
		}
		chain[k] = cert{height: uint64(k), id: rhash(rng), prev: prev, newLER: rhash(rng), from: from, to: from + n,
			created: 1700000000 + rng.U32()%100000, ctype: uint8(hlib.Pick(rng, 1, 1, 2, 3, 0))}
		prev, from = chain[k].newLER, chain[k].to+1
	}
	cur := chain[p.H]
	x := classStatus[p.class]
	// an earlier certificate at the same height that ended InError and is being replaced by cur
	var old cert
	if p.step == "replacement" {
		old = cur
		old.id, old.newLER = rhash(rng), rhash(rng)
		old.to = cur.from + uint64(rng.Intn(6))
		old.retry = uint64(rng.Intn(3))
		cur.retry = old.retry + 1
	}
	// Agglayer
	for k := 0; k < p.H; k++ {
		in.Agg.Known = append(in.Agg.Known, chain[k].hdr(stSettled, 2, true))
	}
	if p.step == "replacement" {
		in.Agg.Known = append(in.Agg.Known, old.hdr(stInError, 2, true))
	}
	curH := cur.hdr(x, p.metaV, p.hdrPrev)
	in.Agg.Known = append(in.Agg.Known, curH)
	if x == stSettled {
		in.Agg.Settled = &curH
	} else {
		in.Agg.Pending = &curH
		if p.H > 0 {
			s := chain[p.H-1].hdr(stSettled, 2, true)
			in.Agg.Settled = &s
		}
	}
	// local database before the crash
	save := func(c cert, status int) {
		if p.viaStatus && status != stPending {
			in.Ops = append(in.Ops, Op{Op: "save", Row: c.row(stPending)}, Op{Op: "status", ID: c.id, Status: status})
		} else {
			in.Ops = append(in.Ops, Op{Op: "save", Row: c.row(status)})
		}
	}
	below := p.H // number of settled rows below the top
	if p.step == "next" {
		below = p.H - 1
	}
	if p.localHist {
		for k := 0; k < below; k++ {
			save(chain[k], stSettled)
		}
	}
	switch p.step {
	case "idle":
		local := lagging(rng, x)
		if p.reopened {
			local = stInError
		}
		save(cur, local)
		in.Ideal = cur.row(local)
	case "first": // H = 0, nothing stored before
		in.Ideal = cur.row(stPending)
	case "next":
		save(chain[p.H-1], stSettled)
		in.Ideal = cur.row(stPending)
	case "replacement":
		save(old, stInError)
		in.Ideal = cur.row(stPending)
	}
	if p.step != "idle" && p.cp == "after_store" {
		in.Ops = append(in.Ops, Op{Op: "save", Row: cur.row(stPending)})
	}
	return in
}

var classes = []string{"pending", "proven", "candidate", "in_error", "settled"}

func genScenarios(rng *hlib.Rng, n int, thorough bool) []In {
	var ins []In
	// systematic part: every (class x height x step x crash point), metadata versions and history variants drawn
	for H := 0; H <= 3; H++ {
		for _, class := range classes {
			for _, step := range []string{"idle", "first", "next", "replacement"} {
				if (step == "first" && H != 0) || (step == "next" && H == 0) {
					continue
				}
				cps := []string{"before_submit", "db_lost"}
				if step != "idle" {
					cps = []string{"after_submit_before_store", "after_store", "db_lost"}
				}
				for _, cp := range cps {
					for _, metaV := range []int{2, 1, 0} {
						hists := []bool{true, false}
						if !thorough { // quick tier: the local-history variant is drawn, not enumerated
							hists = []bool{rng.Bool()}
						}
						for _, hist := range hists {
							ins = append(ins, scenario(rng, scenParams{H: H, class: class, step: step, cp: cp, metaV: metaV,
								localHist: hist, keep: rng.Bool(), hdrPrev: rng.Intn(8) != 0,
								start: hlib.Pick(rng, uint64(0), 0, 5, 1000), viaStatus: rng.Bool()}))
						}
					}
				}
			}
		}
	}
	// headers that do not report prev_local_exit_root, systematically (the flow then looks for the settled row below):
	// every (height x class x step x crash point); for InError both with and without local settled history
	for H := 0; H <= 3; H++ {
		for _, class := range classes {
			for _, step := range []string{"idle", "first", "next", "replacement"} {
				if (step == "first" && H != 0) || (step == "next" && H == 0) {
					continue
				}
				cps := []string{"before_submit", "db_lost"}
				if step != "idle" {
					cps = []string{"after_submit_before_store", "after_store", "db_lost"}
				}
				for _, cp := range cps {
					hists := []bool{true, false}
					if !thorough && class != "in_error" {
						hists = []bool{rng.Bool()}
					}
					for _, hist := range hists {
						ins = append(ins, scenario(rng, scenParams{H: H, class: class, step: step, cp: cp, metaV: 2,
							localHist: hist, keep: rng.Bool(), hdrPrev: false, start: hlib.Pick(rng, uint64(0), 5), viaStatus: rng.Bool()}))
					}
				}
			}
		}
	}
	// a certificate recorded InError locally that the Agglayer has taken up again: the record must follow the Agglayer, and no
	// replacement may be built while the certificate is undecided
	for H := 0; H <= 2; H++ {
		for _, class := range []string{"pending", "proven", "candidate", "settled"} {
			ins = append(ins, scenario(rng, scenParams{H: H, class: class, step: "idle", cp: "before_submit", metaV: 2, localHist: H%2 == 0,
				keep: rng.Bool(), hdrPrev: true, start: hlib.Pick(rng, uint64(0), 5), viaStatus: rng.Bool(), reopened: true}))
		}
	}
	for _, cp := range []string{"before_submit", "db_lost"} {
		for _, keep := range []bool{false, true} {
			ins = append(ins, scenario(rng, scenParams{class: "nothing", step: "idle", cp: cp, keep: keep, metaV: 2,
				start: hlib.Pick(rng, uint64(0), 7)}))
		}
	}
	// random part
	for i := 0; i < n; i++ {
		H := rng.Intn(4)
		step := hlib.Pick(rng, "idle", "idle", "next", "replacement", "first")
		if step == "first" {
			H = 0
		}
		if step == "next" && H == 0 {
			H = 1
		}
		cp := hlib.Pick(rng, "before_submit", "db_lost")
		if step != "idle" {
			cp = hlib.Pick(rng, "after_submit_before_store", "after_store", "db_lost")
		}
		ins = append(ins, scenario(rng, scenParams{H: H, class: hlib.Pick(rng, classes...), step: step, cp: cp,
			metaV: hlib.Pick(rng, 2, 2, 2, 1, 0), localHist: rng.Bool(), keep: rng.Bool(), hdrPrev: rng.Intn(8) != 0,
			start: hlib.Pick(rng, uint64(0), 0, 5, 1000, 1<<40), viaStatus: rng.Bool()}))
	}
	return ins
}

// contradictions: consistent idle states whose Agglayer side is then made to disagree with the local record
func genContradictions(rng *hlib.Rng) []In {
	var ins []In
	for H := 0; H <= 3; H++ {
		for _, class := range classes {
			for _, hist := range []bool{true, false} {
				base := func() In {
					in := scenario(rng, scenParams{H: H, class: class, step: "idle", cp: "before_submit", metaV: 2,
						localHist: hist, keep: rng.Bool(), hdrPrev: true, start: 0})
					in.Scenario, in.Ideal, in.CP = false, nil, "none"
					return in
				}
				// (a) the Agglayer has nothing
				a := base()
				a.Agg = Agg{Known: []Hdr{}}
				a.AggClass = "contra_local_only"
				ins = append(ins, a)
				// (b) the Agglayer's latest certificate is lower than the local one
				if H > 0 {
					b := base()
					b.Agg.Pending = nil
					s := b.Agg.Known[H-1]
					b.Agg.Settled = &s
					b.AggClass = "contra_agg_lower"
					ins = append(ins, b)
				}
				// (c) same height, different id
				c := base()
				if c.Agg.Pending != nil {
					h := *c.Agg.Pending
					h.ID = rhash(rng)
					c.Agg.Pending = &h
				} else {
					h := *c.Agg.Settled
					h.ID = rhash(rng)
					c.Agg.Settled = &h
				}
				c.AggClass = "contra_different_id"
				ins = append(ins, c)
			}
		}
	}
	return ins
}

// random (mostly unstructured) Agglayer views and local databases: correspondence of every branch of process()
func genRandom(rng *hlib.Rng, n int) []In {
	var ins []In
	ids := make([]string, 5)
	for i := range ids {
		ids[i] = rhash(rng)
	}
	lers := make([]string, 4)
	for i := range lers {
		lers[i] = rhash(rng)
	}
	rmeta := func() string {
		c := cert{from: uint64(rng.Intn(50)), created: rng.U32() % 1000, ctype: uint8(rng.Intn(6))}
		c.to = c.from + uint64(rng.Intn(10))
		switch rng.Intn(12) {
		case 0: // unsupported version
			b := rng.Bytes(32)
			b[0] = byte(3 + rng.Intn(250))
			return hlib.Hex(b)
		case 1: // random bytes under a supported version, block numbers below 2^63
			b := rng.Bytes(32)
			b[0] = byte(rng.Intn(3))
			b[1] &= 0x3f
			b[24] &= 0x3f
			return hlib.Hex(b)
		case 2: // random bytes, possibly block numbers with the high bit set (database/sql refuses them)
			b := rng.Bytes(32)
			b[0] = byte(rng.Intn(3))
			return hlib.Hex(b)
		case 3: // offset wraps uint32
			c.to = c.from + (1 << 32) + uint64(rng.Intn(3))
		}
		return metaHash(rng.Intn(3), c)
	}
	rhdr := func() *Hdr {
		h := &Hdr{Height: uint64(rng.Intn(4)), ID: hlib.Pick(rng, ids...), Status: rng.Intn(5), NewLER: hlib.Pick(rng, lers...), Meta: rmeta()}
		if rng.Intn(3) != 0 {
			p := hlib.Pick(rng, lers...)
			h.PrevLER = &p
		}
		return h
	}
	rrow := func() *Row {
		r := &Row{Height: uint64(rng.Intn(4)), Retry: uint64(rng.Intn(3)), ID: hlib.Pick(rng, ids...), Status: rng.Intn(5),
			NewLER: hlib.Pick(rng, lers...), From: uint64(rng.Intn(20)), Created: rng.U32() % 1000, CType: uint8(rng.Intn(6)), FromAgg: rng.Bool()}
		r.To = r.From + uint64(rng.Intn(10))
		if rng.Intn(3) != 0 {
			p := hlib.Pick(rng, lers...)
			r.PrevLER = &p
		}
		return r
	}
	for i := 0; i < n; i++ {
		in := In{Kind: "recover", CP: "none", AggClass: "random", Step: "random",
			Cfg: Cfg{StartBlock: uint64(rng.Intn(10)), StartLER: hlib.Pick(rng, lers...), Keep: rng.Bool()}, Ops: []Op{}, Agg: Agg{Known: []Hdr{}}}
		for k := rng.Intn(5); k > 0; k-- {
			if rng.Intn(4) == 0 {
				in.Ops = append(in.Ops, Op{Op: "status", ID: hlib.Pick(rng, ids...), Status: rng.Intn(5)})
			} else {
				in.Ops = append(in.Ops, Op{Op: "save", Row: rrow()})
			}
		}
		in.Lost = rng.Intn(6) == 0
		if rng.Intn(5) != 0 {
			in.Agg.Settled = rhdr()
			if rng.Intn(3) != 0 {
				in.Agg.Settled.Status = stSettled
			}
		}
		if rng.Intn(3) != 0 {
			in.Agg.Pending = rhdr()
		}
		if in.Agg.Settled != nil && rng.Intn(4) != 0 {
			in.Agg.Known = append(in.Agg.Known, *in.Agg.Settled)
		}
		if in.Agg.Pending != nil && rng.Intn(4) != 0 {
			in.Agg.Known = append(in.Agg.Known, *in.Agg.Pending)
		}
		for k := rng.Intn(3); k > 0; k-- {
			in.Agg.Known = append(in.Agg.Known, *rhdr())
		}
		ins = append(ins, in)
	}
	return ins
}

// storage faults on each statement class of SaveLastSentCertificate's transaction
func genFaults(rng *hlib.Rng, n int) []In {
	var ins []In
	mk := func(keep bool, nrows int, target int, sameID bool, class string, clashHist bool) In {
		in := In{Kind: "fault", CP: "none", AggClass: "fault", Step: "fault", Cfg: Cfg{StartLER: rhash(rng), Keep: keep},
			Ops: []Op{}, Agg: Agg{Known: []Hdr{}}, FaultClass: class}
		prev, from := in.Cfg.StartLER, uint64(1)
		var rows []cert
		for k := 0; k < nrows; k++ {
			c := cert{height: uint64(k), id: rhash(rng), prev: prev, newLER: rhash(rng), from: from, to: from + uint64(rng.Intn(5)),
				created: 1000 + uint32(k), ctype: uint8(rng.Intn(4)), retry: uint64(rng.Intn(2))}
			prev, from = c.newLER, c.to+1
			rows = append(rows, c)
			st := stSettled
			if k == nrows-1 {
				st = hlib.Pick(rng, stInError, stInError, stPending, stSettled)
			}
			in.Ops = append(in.Ops, Op{Op: "save", Row: c.row(st)})
		}
		nr := cert{height: uint64(target), id: rhash(rng), prev: rhash(rng), newLER: rhash(rng), from: 1 + uint64(rng.Intn(20)),
			created: 5000, ctype: uint8(rng.Intn(4)), retry: uint64(rng.Intn(3))}
		nr.to = nr.from + uint64(rng.Intn(5))
		if target < nrows && sameID {
			nr.id = rows[target].id
		}
		if clashHist && target < nrows && keep {
			// replace the same height twice with equal retry counts: the second move to history hits its primary key
			mid := rows[target]
			mid.id = rhash(rng)
			in.Ops = append(in.Ops, Op{Op: "save", Row: mid.row(stInError)})
		}
		in.FaultRow = nr.row(hlib.Pick(rng, stPending, stPending, stSettled, stInError))
		return in
	}
	for _, keep := range []bool{false, true} {
		for nrows := 0; nrows <= 3; nrows++ {
			for target := 0; target <= nrows; target++ {
				for _, class := range []string{"hist", "delete", "insert", "none"} {
					ins = append(ins, mk(keep, nrows, target, false, class, false))
				}
			}
		}
		ins = append(ins, mk(keep, 2, 1, true, "insert", false), mk(keep, 2, 1, false, "none", true), mk(keep, 3, 0, false, "delete", true))
	}
	for i := 0; i < n; i++ {
		nrows := rng.Intn(4)
		ins = append(ins, mk(rng.Bool(), nrows, rng.Intn(nrows+2), rng.Intn(5) == 0,
			hlib.Pick(rng, "hist", "delete", "insert", "none"), rng.Intn(6) == 0))
	}
	return ins
}

func genMeta(rng *hlib.Rng, n int) []In {
	var ins []In
	add := func(m MetaIn) {
		ins = append(ins, In{Kind: "meta", CP: "none", AggClass: "meta", Step: "meta", Ops: []Op{}, Agg: Agg{Known: []Hdr{}}, Meta: &m})
	}
	bnd := []uint64{0, 1, 255, 256, 1<<32 - 1, 1 << 32, 1<<32 + 1, 1<<56 - 1, 1 << 56, 1<<63 - 1, 1 << 63, 1<<64 - 1}
	for _, f := range bnd {
		for _, d := range []uint64{0, 1, 1<<32 - 1, 1 << 32, 1<<32 + 5} {
			for v := uint8(0); v <= 2; v++ {
				add(MetaIn{Version: v, ToV0: f + d, From: f, To: f + d, Created: uint32(f), CType: uint8(d)})
			}
		}
	}
	add(MetaIn{Version: 2, From: 10, To: 5, Created: 1, CType: 1}) // to < from: uint64 subtraction wraps
	for i := 0; i < n; i++ {
		m := MetaIn{Version: uint8(rng.Intn(3)), From: rng.U64() >> uint(rng.Intn(64)), Created: rng.U32(), CType: uint8(rng.Intn(256))}
		m.To = m.From + (rng.U64() >> uint(20+rng.Intn(44)))
		m.ToV0 = m.To
		if rng.Intn(4) == 0 {
			b := rng.Bytes(32)
			if rng.Intn(2) == 0 {
				b[0] = byte(rng.Intn(4))
			}
			m = MetaIn{Raw: hlib.Hex(b)}
		}
		add(m)
	}
	return ins
}

func gen(f *hlib.Flags) []In {
	rng := hlib.NewRng(f.Seed)
	n := f.N
	thorough := f.Tier == "thorough"
	var ins []In
	ins = append(ins, genScenarios(rng, n, thorough)...)
	ins = append(ins, genContradictions(rng)...)
	ins = append(ins, genRandom(rng, n)...)
	ins = append(ins, genFaults(rng, n/4)...)
	ins = append(ins, genMeta(rng, n/4)...)
	return ins
}

func main() {
	f := hlib.ParseFlags()
	log.Init(log.Config{Environment: log.EnvironmentProduction, Level: "fatal", Outputs: []string{"/dev/null"}})
	logger = log.WithFields("module", "verif-c13")
	var err error
	base := "/dev/shm"
	if _, e := os.Stat(base); e != nil {
		base = ""
	}
	workDir, err = os.MkdirTemp(base, "verif_c13_")
	if err != nil {
		panic(err)
	}
	defer os.RemoveAll(workDir)

	var ins []In
	if f.Replay != "" {
		for _, raw := range hlib.ReadJSONL(f.Replay) {
			var in In
			if err := json.Unmarshal(raw, &in); err != nil {
				panic(err)
			}
			ins = append(ins, in)
		}
	} else {
		ins = gen(f)
	}
	w := hlib.NewWriter(f.Out)
	defer w.Close()
	for _, in := range ins {
		w.Emit(runGuarded(in))
	}
}

// a panic of the code under test (a nil pointer dereferenced by the start-up decision ...) is observed as a refusal to start:
// the process would die every time it is started on this state
func runGuarded(in In) (o Out) {
	defer func() {
		if r := recover(); r != nil {
			o = Out{In: in, Before: []Row{}, After: []Row{}, HistB: []HistKey{}, HistA: []HistKey{}, Outcome: "refused",
				ErrKind: fmt.Sprintf("panic: %v", r)}
			o.Next.Err = "other"
		}
	}()
	return run(in)
}
