// C05 harness: drives the REAL sync.EVMDownloader.Download loop and the REAL sync.EVMDriver.Sync loop against a scripted
// in-memory Ethereum node, and prints what the downloader put on the channel, what the driver handed to the store
// (ProcessBlock), what it asked the reorg detector to track, and the eth_getLogs ranges it asked for.
//
// Determinism: nothing depends on wall time. The node answers every block-tag header query (HeaderByNumber(latest|
// finalized|safe)) with the next entry of the case's tick list, so tip and finalized pointer move per *call*; real
// tickers (1 ms) only pace the run. When the list is exhausted the node blocks that call, the harness waits until the
// driver has processed everything the downloader sent, then cancels the context.
package main

import (
	"context"
	"encoding/json"
	"errors"
	"fmt"
	"math/big"
	"sort"
	gosync "sync"
	"time"

	dbtypes "github.com/agglayer/aggkit/db/types"
	aggkitlog "github.com/agglayer/aggkit/log"
	"github.com/agglayer/aggkit/reorgdetector"
	aggsync "github.com/agglayer/aggkit/sync"
	aggkittypes "github.com/agglayer/aggkit/types"
	"github.com/ethereum/go-ethereum"
	"github.com/ethereum/go-ethereum/common"
	"github.com/ethereum/go-ethereum/core/types"

	"verifharness/hlib"
)

// ---------------------------------------------------------------------------------------------
// case format

type LogIn struct {
	A int  `json:"a"` // address id
	T int  `json:"t"` // topic id
	R bool `json:"r"` // Removed flag
}

type TickIn struct {
	Tip uint64 `json:"tip"`
	Fin uint64 `json:"fin"`
	Err bool   `json:"err"`
	EK  int    `json:"ek"` // flavour of the error when Err: 0 generic, 1 wraps DeadlineExceeded, 2 wraps Canceled (caller's ctx alive)
}

type In struct {
	Kind     string    `json:"kind"`  // exh | exhrpc | rand | err | mismatch | regress | jitter | cancel | giveup
	LP0      uint64    `json:"lp0"`   // processor's last processed block at start
	Chunk    uint64    `json:"chunk"` // syncBlockChunkSize
	Mode     string    `json:"mode"`  // LF | FF | LL | LS | SF  (blockFinality / finalizedBlockType)
	Addrs    []int     `json:"addrs"`
	Topics   []int     `json:"topics"`
	Chain    [][]LogIn `json:"chain"` // chain[k] = all logs of block k in log order
	Ticks    []TickIn  `json:"ticks"`
	Buf      int       `json:"buf"`       // downloadBufferSize
	Calls    []string  `json:"calls"`     // outcome of the i-th numbered RPC call (eth_getLogs, header by number), then "ok":
	//                                       ok | err | deadline | notfound | canceled (caller's ctx alive) | mismatch (header with another hash)
	ProcErr  int       `json:"proc_err"`  // every n-th ProcessBlock call fails once
	TrackErr int       `json:"track_err"` // every n-th AddBlockToTrack call fails once
	AppErr   int       `json:"app_err"`   // every n-th appender call fails once (before appending)
}

type BlockOut struct {
	Num    uint64      `json:"num"`
	Events [][2]uint64 `json:"events"`
	Fin    bool        `json:"fin"`
}

type Out struct {
	In        In          `json:"in"`
	Chan      []BlockOut  `json:"chan"`
	Proc      []BlockOut  `json:"proc"`
	Tracked   []uint64    `json:"tracked"`
	LP        uint64      `json:"lp"`
	Queries   [][2]uint64 `json:"queries"`
	Done      bool        `json:"done"`
	TicksUsed int         `json:"ticks_used"`
	Note      string      `json:"note,omitempty"`
}

func addrOf(i int) common.Address { return common.BigToAddress(big.NewInt(int64(0xA000 + i))) }
func topicOf(i int) common.Hash   { return common.BigToHash(big.NewInt(int64(0x7000 + i))) }

type modeCfg struct {
	blockFinality, finalizedType aggkittypes.BlockNumberFinality
	sameTag                      bool // both queries use the same block tag
	useFin                       bool // when sameTag: the number the code sees is the tick's fin (else its tip)
}

func modeOf(m string) modeCfg {
	switch m {
	case "FF":
		return modeCfg{aggkittypes.FinalizedBlock, aggkittypes.FinalizedBlock, true, true}
	case "LL":
		return modeCfg{aggkittypes.LatestBlock, aggkittypes.LatestBlock, true, false}
	case "LS":
		return modeCfg{aggkittypes.LatestBlock, aggkittypes.SafeBlock, false, false}
	case "SF": // finalized type above the block finality: NewEVMDownloader lowers it to Safe
		return modeCfg{aggkittypes.SafeBlock, aggkittypes.FinalizedBlock, true, false}
	default: // LF
		return modeCfg{aggkittypes.LatestBlock, aggkittypes.FinalizedBlock, false, false}
	}
}

// normalise makes the echoed input say exactly what the node will answer: with a single block tag there is a single number
func normalise(in *In) {
	mc := modeOf(in.Mode)
	if mc.sameTag {
		for i := range in.Ticks {
			if mc.useFin {
				in.Ticks[i].Tip = in.Ticks[i].Fin
			} else {
				in.Ticks[i].Fin = in.Ticks[i].Tip
			}
		}
	}
	if in.Chunk == 0 {
		in.Chunk = 1
	}
	if in.Addrs == nil {
		in.Addrs = []int{}
	}
	if in.Topics == nil {
		in.Topics = []int{}
	}
	if in.Calls == nil {
		in.Calls = []string{}
	}
	for i := range in.Chain {
		if in.Chain[i] == nil {
			in.Chain[i] = []LogIn{}
		}
	}
}

// ---------------------------------------------------------------------------------------------
// scripted node

var errScripted = errors.New("scripted transient rpc error")

// errors as an RPC client with its own per-request timeout / internal context produces them: the caller's context is alive
func errDeadline() error { return fmt.Errorf("scripted rpc timeout: %w", context.DeadlineExceeded) }
func errCanceled() error { return fmt.Errorf("scripted rpc client cancellation: %w", context.Canceled) }

type fakeClient struct {
	aggkittypes.BaseEthereumClienter // nil: any method the code is not expected to call panics

	mu        gosync.Mutex
	in        *In
	tipTag    int64
	next      int
	maxTip    uint64
	headers   []*types.Header
	exhausted chan struct{}
	once      gosync.Once
	calls     int
	queries   [][2]uint64
}

func newFakeClient(in *In, mc modeCfg) *fakeClient {
	tip, _ := mc.blockFinality.ToBlockNum()
	return &fakeClient{in: in, tipTag: tip.Int64(), exhausted: make(chan struct{})}
}

// header builds the static chain's headers lazily (parent-hash linked)
func (c *fakeClient) header(n uint64) *types.Header {
	for uint64(len(c.headers)) <= n {
		k := uint64(len(c.headers))
		h := &types.Header{Number: new(big.Int).SetUint64(k), Time: 1000 + k, Difficulty: big.NewInt(0)}
		if k > 0 {
			h.ParentHash = c.headers[k-1].Hash()
		}
		c.headers = append(c.headers, h)
	}
	return types.CopyHeader(c.headers[n])
}

// outcome of the next numbered RPC call
func (c *fakeClient) nextOutcome() string {
	o := "ok"
	if c.calls < len(c.in.Calls) {
		o = c.in.Calls[c.calls]
	}
	c.calls++
	return o
}

func outcomeErr(o string) error {
	switch o {
	case "err":
		return errScripted
	case "deadline":
		return errDeadline()
	case "notfound":
		return ethereum.NotFound
	case "canceled":
		return errCanceled()
	}
	return nil
}

func (c *fakeClient) HeaderByNumber(ctx context.Context, number *big.Int) (*types.Header, error) {
	if ctx.Err() != nil {
		return nil, ctx.Err()
	}
	if number != nil && number.Sign() < 0 {
		// block-tag query: one tick
		c.mu.Lock()
		if c.next >= len(c.in.Ticks) {
			c.mu.Unlock()
			c.once.Do(func() { close(c.exhausted) })
			<-ctx.Done()
			return nil, ctx.Err()
		}
		t := c.in.Ticks[c.next]
		c.next++
		if t.Tip > c.maxTip {
			c.maxTip = t.Tip
		}
		if t.Fin > c.maxTip {
			c.maxTip = t.Fin
		}
		defer c.mu.Unlock()
		if t.Err {
			switch t.EK {
			case 1:
				return nil, errDeadline()
			case 2:
				return nil, errCanceled()
			}
			return nil, errScripted
		}
		n := t.Fin
		if number.Int64() == c.tipTag {
			n = t.Tip
		}
		return c.header(n), nil
	}
	c.mu.Lock()
	defer c.mu.Unlock()
	outcome := c.nextOutcome()
	if err := outcomeErr(outcome); err != nil {
		return nil, err
	}
	var n uint64
	if number != nil {
		if !number.IsUint64() {
			return nil, ethereum.NotFound
		}
		n = number.Uint64()
	}
	if n > c.maxTip { // the node does not have this block (yet)
		return nil, ethereum.NotFound
	}
	h := c.header(n)
	if outcome == "mismatch" { // answered from another head: same number, different hash
		h.Extra = []byte("other head")
	}
	return h, nil
}

func (c *fakeClient) FilterLogs(ctx context.Context, q ethereum.FilterQuery) ([]types.Log, error) {
	if ctx.Err() != nil {
		return nil, ctx.Err()
	}
	c.mu.Lock()
	defer c.mu.Unlock()
	if err := outcomeErr(c.nextOutcome()); err != nil {
		return nil, err
	}
	from, to := q.FromBlock.Uint64(), q.ToBlock.Uint64()
	c.queries = append(c.queries, [2]uint64{from, to})
	hi := to
	if hi > c.maxTip { // blocks above the node's head do not exist yet
		hi = c.maxTip
	}
	if n := uint64(len(c.in.Chain)); n == 0 {
		return []types.Log{}, nil
	} else if hi > n-1 {
		hi = n - 1
	}
	logs := []types.Log{}
	for k := from; k <= hi; k++ {
		for idx, l := range c.in.Chain[k] {
			a := addrOf(l.A)
			if len(q.Addresses) > 0 {
				ok := false
				for _, qa := range q.Addresses {
					if qa == a {
						ok = true
					}
				}
				if !ok {
					continue
				}
			}
			bh := c.header(k).Hash()
			if l.R && idx%2 == 0 {
				// a removed log belongs to a block that has been reorganised away: it carries that block's hash, not the canonical one
				// (every other removed log keeps the canonical hash: a node may also report the log of a re-included transaction)
				bh[0] ^= 0xa5
			}
			logs = append(logs, types.Log{
				Address: a, Topics: []common.Hash{topicOf(l.T)}, Data: []byte{byte(idx)},
				BlockNumber: k, BlockHash: bh, Index: uint(idx), TxIndex: uint(idx / 2), Removed: l.R, // two logs per transaction: several watched contracts log in one transaction
			})
		}
		if k == ^uint64(0) {
			break
		}
	}
	return logs, nil
}

func (c *fakeClient) ChainID(ctx context.Context) (*big.Int, error) { return big.NewInt(1), nil }

// ---------------------------------------------------------------------------------------------
// recording store, reorg detector, channel tap

type evt struct{ blk, idx uint64 }

func eventsOf(evs []interface{}) [][2]uint64 {
	out := make([][2]uint64, 0, len(evs))
	for _, e := range evs {
		if v, ok := e.(evt); ok {
			out = append(out, [2]uint64{v.blk, v.idx})
		} else {
			out = append(out, [2]uint64{^uint64(0), ^uint64(0)})
		}
	}
	return out
}

type recProc struct {
	mu       gosync.Mutex
	lp       uint64
	blocks   []BlockOut
	calls    int
	errEvery int
}

func (p *recProc) GetLastProcessedBlock(ctx context.Context) (uint64, error) {
	p.mu.Lock()
	defer p.mu.Unlock()
	return p.lp, nil
}
func (p *recProc) ProcessBlock(ctx context.Context, b aggsync.Block) error {
	p.mu.Lock()
	defer p.mu.Unlock()
	p.calls++
	if p.errEvery > 0 && p.calls%p.errEvery == 0 {
		return errScripted
	}
	p.blocks = append(p.blocks, BlockOut{Num: b.Num, Events: eventsOf(b.Events)})
	p.lp = b.Num
	return nil
}
func (p *recProc) Reorg(ctx context.Context, firstReorgedBlock uint64) error { return nil }
func (p *recProc) GetCompatibilityData(ctx context.Context, tx dbtypes.Querier) (bool, aggsync.RuntimeData, error) {
	return false, aggsync.RuntimeData{}, nil
}
func (p *recProc) SetCompatibilityData(ctx context.Context, tx dbtypes.Querier, data aggsync.RuntimeData) error {
	return nil
}
func (p *recProc) count() int {
	p.mu.Lock()
	defer p.mu.Unlock()
	return len(p.blocks)
}

// reorgs are not part of C05 (static chain): the detector only records what it is asked to track
type fakeRD struct {
	mu       gosync.Mutex
	tracked  []uint64
	calls    int
	errEvery int
}

func (r *fakeRD) Subscribe(id string) (*reorgdetector.Subscription, error) {
	return &reorgdetector.Subscription{ReorgedBlock: make(chan uint64), ReorgProcessed: make(chan bool)}, nil
}
func (r *fakeRD) AddBlockToTrack(ctx context.Context, id string, blockNum uint64, blockHash common.Hash) error {
	r.mu.Lock()
	defer r.mu.Unlock()
	r.calls++
	if r.errEvery > 0 && r.calls%r.errEvery == 0 {
		return errScripted
	}
	r.tracked = append(r.tracked, blockNum)
	return nil
}
func (r *fakeRD) GetFinalizedBlockType() aggkittypes.BlockNumberFinality { return aggkittypes.FinalizedBlock }
func (r *fakeRD) String() string                                          { return "fakeRD" }

// tap sits between the real Download and the real driver: it records every EVMBlock the downloader sends.
// The inner channel is unbuffered, so when the downloader goroutine is inside the node's exhausted call every send has
// been received here; a flush request is answered only after the last received block was recorded and forwarded.
type tap struct {
	d     *aggsync.EVMDownloader
	mu    gosync.Mutex
	sent  []BlockOut
	flush chan chan int
	done  chan struct{}
}

func (t *tap) RuntimeData(ctx context.Context) (aggsync.RuntimeData, error) { return t.d.RuntimeData(ctx) }
func (t *tap) Download(ctx context.Context, fromBlock uint64, downloadedCh chan aggsync.EVMBlock) {
	inner := make(chan aggsync.EVMBlock)
	go t.d.Download(ctx, fromBlock, inner)
	for {
		select {
		case b, ok := <-inner:
			if !ok {
				close(downloadedCh)
				close(t.done)
				return
			}
			t.mu.Lock()
			t.sent = append(t.sent, BlockOut{Num: b.Num, Events: eventsOf(b.Events), Fin: b.IsFinalizedBlock})
			t.mu.Unlock()
			select {
			case downloadedCh <- b:
			case <-ctx.Done():
			}
		case ack := <-t.flush:
			t.mu.Lock()
			n := len(t.sent)
			t.mu.Unlock()
			ack <- n
		}
	}
}

// ---------------------------------------------------------------------------------------------
// one case

const caseTimeout = 4 * time.Second

func run(in In) Out {
	normalise(&in)
	o := Out{In: in, Chan: []BlockOut{}, Proc: []BlockOut{}, Tracked: []uint64{}, Queries: [][2]uint64{}}
	mc := modeOf(in.Mode)
	ctx, cancel := context.WithCancel(context.Background())
	defer cancel()
	client := newFakeClient(&in, mc)
	rh := &aggsync.RetryHandler{RetryAfterErrorPeriod: 50 * time.Microsecond, MaxRetryAttemptsAfterError: -1}

	appCalls := 0
	appender := aggsync.LogAppenderMap{}
	for _, t := range in.Topics {
		appender[topicOf(t)] = func(b *aggsync.EVMBlock, l types.Log) error {
			appCalls++
			if in.AppErr > 0 && appCalls%in.AppErr == 0 {
				return errScripted
			}
			b.Events = append(b.Events, evt{l.BlockNumber, uint64(l.Index)})
			return nil
		}
	}
	addrs := make([]common.Address, 0, len(in.Addrs))
	for _, a := range in.Addrs {
		addrs = append(addrs, addrOf(a))
	}
	d, err := aggsync.NewEVMDownloader("c05", client, in.Chunk, mc.blockFinality, time.Millisecond, appender, addrs, rh, mc.finalizedType)
	if err != nil {
		o.Note = "NewEVMDownloader: " + err.Error()
		return o
	}
	tp := &tap{d: d, flush: make(chan chan int), done: make(chan struct{})}
	proc := &recProc{lp: in.LP0, errEvery: in.ProcErr}
	rd := &fakeRD{errEvery: in.TrackErr}
	drv, err := aggsync.NewEVMDriver(rd, proc, tp, "c05", in.Buf, rh, false)
	if err != nil {
		o.Note = "NewEVMDriver: " + err.Error()
		return o
	}
	syncDone := make(chan struct{})
	go func() { drv.Sync(ctx); close(syncDone) }()

	deadline := time.After(caseTimeout)
	ok := true
	select {
	case <-client.exhausted:
	case <-deadline:
		ok = false
		o.Note = "timeout: the script was not consumed"
	}
	if ok {
		// everything the downloader sent has reached the tap; wait until the driver has stored all of it
		ack := make(chan int)
		select {
		case tp.flush <- ack:
			n := <-ack
			for proc.count() < n && ok {
				select {
				case <-deadline:
					ok = false
					o.Note = "timeout: the driver did not process what was sent"
				default:
					time.Sleep(50 * time.Microsecond)
				}
			}
		case <-deadline:
			ok = false
			o.Note = "timeout: tap not reachable"
		}
	}
	cancel()
	for _, ch := range []chan struct{}{syncDone, tp.done} {
		select {
		case <-ch:
		case <-time.After(2 * time.Second):
			ok = false
			if o.Note == "" {
				o.Note = "timeout: goroutine did not stop after cancel"
			}
		}
	}
	tp.mu.Lock()
	o.Chan = append(o.Chan, tp.sent...)
	tp.mu.Unlock()
	proc.mu.Lock()
	o.Proc = append(o.Proc, proc.blocks...)
	o.LP = proc.lp
	proc.mu.Unlock()
	rd.mu.Lock()
	o.Tracked = append(o.Tracked, rd.tracked...)
	rd.mu.Unlock()
	client.mu.Lock()
	o.Queries = append(o.Queries, client.queries...)
	o.TicksUsed = client.next
	client.mu.Unlock()
	o.Done = ok && o.TicksUsed == len(in.Ticks)
	return o
}

// ---------------------------------------------------------------------------------------------
// generators

func minU(a, b uint64) uint64 {
	if a < b {
		return a
	}
	return b
}
func sub0(a, b uint64) uint64 {
	if a < b {
		return 0
	}
	return a - b
}

// fixed poll schedules for the exhaustive stream; L = last block of the chain
func schedules(L uint64) [][]TickIn {
	n := int(3*L + 8)
	mk := func(f func(i int) TickIn) []TickIn {
		ts := make([]TickIn, n)
		for i := range ts {
			ts[i] = f(i)
			ts[i].Tip = minU(ts[i].Tip, L)
			ts[i].Fin = minU(ts[i].Fin, ts[i].Tip)
			if ts[i].Err {
				ts[i].EK = (i / 3) % 3
			}
		}
		return ts
	}
	u := func(i int) uint64 { return uint64(i) }
	return [][]TickIn{
		mk(func(i int) TickIn { return TickIn{Tip: L, Fin: L} }),                       // everything final at once
		mk(func(i int) TickIn { return TickIn{Tip: L, Fin: 0} }),                       // never finalized
		mk(func(i int) TickIn { return TickIn{Tip: u(i) + 1, Fin: u(i) + 1} }),         // +1 per call, lag 0
		mk(func(i int) TickIn { return TickIn{Tip: u(i) + 1, Fin: u(i)} }),             // +1 per call, lag 1
		mk(func(i int) TickIn { return TickIn{Tip: u(i)/2 + 1, Fin: sub0(u(i)/2, 1)} }), // +1 per two calls, lag 2
		mk(func(i int) TickIn { return TickIn{Tip: 2*u(i) + 1, Fin: 2 * u(i)} }),       // +2 per call, lag 1
		mk(func(i int) TickIn { return TickIn{Tip: L, Fin: u(i)} }),                    // tip at once, finality creeps
		mk(func(i int) TickIn { // not final until the whole chain is seen, then all final
			if u(i)+1 < L+2 {
				return TickIn{Tip: u(i) + 1, Fin: 0}
			}
			return TickIn{Tip: L, Fin: L}
		}),
		mk(func(i int) TickIn { return TickIn{Tip: 3*u(i)/2 + 1, Fin: (3*u(i)/2 + 1) / 2} }), // finality at half the tip
		mk(func(i int) TickIn { return TickIn{Tip: u(i)*2/3 + 1, Fin: sub0(u(i)*2/3+1, 1), Err: i%3 == 1} }), // every third call fails
		mk(func(i int) TickIn { // finalized pointer jumps back and forth (load-balanced nodes)
			if i%2 == 0 {
				return TickIn{Tip: L, Fin: sub0(L, 1)}
			}
			return TickIn{Tip: L, Fin: 0}
		}),
		mk(func(i int) TickIn { // tip stalls at 1 for a while, then everything at once
			if i < 4 {
				return TickIn{Tip: 1, Fin: 0}
			}
			return TickIn{Tip: L, Fin: L}
		}),
	}
}

// block content patterns: watched addresses {1,2}, watched topics {1,2}; address 3 / topic 3 are foreign
func eventBlock(k uint64) []LogIn {
	switch k % 3 {
	case 0:
		return []LogIn{{A: 1, T: 1}}
	case 1:
		return []LogIn{{A: 1, T: 1}, {A: 1, T: 3}, {A: 2, T: 2}}
	default:
		return []LogIn{{A: 1, T: 2, R: true}, {A: 2, T: 1}, {A: 3, T: 1}}
	}
}
func quietBlock(k uint64) []LogIn {
	switch k % 4 {
	case 1:
		return []LogIn{{A: 1, T: 3}}
	case 2:
		return []LogIn{{A: 2, T: 1, R: true}, {A: 3, T: 2}}
	default:
		return []LogIn{}
	}
}

func genExhaustive(maxL uint64) []In {
	var ins []In
	for L := uint64(1); L <= maxL; L++ {
		for mask := uint64(0); mask < 1<<L; mask++ {
			chain := make([][]LogIn, L+1)
			chain[0] = []LogIn{}
			for k := uint64(1); k <= L; k++ {
				if mask>>(k-1)&1 == 1 {
					chain[k] = eventBlock(k)
				} else {
					chain[k] = quietBlock(k)
				}
			}
			for _, chunk := range []uint64{1, 2, 3} {
				for si, ts := range schedules(L) {
					ins = append(ins, In{Kind: "exh", LP0: 0, Chunk: chunk, Mode: "LF", Addrs: []int{1, 2}, Topics: []int{1, 2},
						Chain: chain, Ticks: ts, Buf: []int{0, 1, 3, 100}[(int(mask)+si)%4]})
					if si != 0 && si != 3 {
						continue
					}
					// the same run with failing / inconsistent numbered RPC calls: a timeout of the first eth_getLogs; retried
					// failures of every kind; a hash mismatch on the 2nd header query (= 2nd event block of the first range when it
					// has two); mismatches on the 1st and, after the retry, on the 2nd event block
					for _, calls := range [][]string{
						{"deadline"},
						{"ok", "deadline", "err", "ok", "notfound"},
						{"ok", "ok", "mismatch"},
						{"ok", "mismatch", "deadline", "ok", "ok", "mismatch", "ok", "ok", "ok", "mismatch"},
					} {
						ins = append(ins, In{Kind: "exhrpc", LP0: 0, Chunk: chunk, Mode: "LF", Addrs: []int{1, 2}, Topics: []int{1, 2},
							Chain: chain, Ticks: ts, Buf: []int{0, 1, 3, 100}[(int(mask)+si)%4], Calls: calls})
					}
				}
			}
		}
	}
	return ins
}

func genRandom(rng *hlib.Rng) In {
	in := In{Kind: "rand"}
	L := uint64(1 + rng.Intn(40))
	if rng.Intn(3) == 0 {
		L = uint64(1 + rng.Intn(8))
	}
	density := hlib.Pick(rng, 5, 15, 30, 60, 90)
	chain := make([][]LogIn, L+1)
	chain[0] = []LogIn{}
	for k := uint64(1); k <= L; k++ {
		logs := []LogIn{}
		if rng.Intn(100) < density {
			n := 1 + rng.Intn(3)
			for i := 0; i < n; i++ {
				l := LogIn{A: hlib.Pick(rng, 1, 1, 2, 3), T: hlib.Pick(rng, 1, 1, 2, 3), R: rng.Intn(10) == 0}
				logs = append(logs, l)
			}
		}
		chain[k] = logs
	}
	in.Chain = chain
	in.Chunk = hlib.Pick(rng, uint64(1), 2, 3, 7, 100)
	in.Mode = hlib.Pick(rng, "LF", "LF", "LF", "LF", "LF", "LF", "FF", "FF", "LL", "LS", "SF")
	in.Addrs = hlib.Pick(rng, []int{1, 2}, []int{1, 2}, []int{1, 2}, []int{1}, []int{})
	in.Topics = hlib.Pick(rng, []int{1, 2}, []int{1, 2}, []int{1}, []int{2, 1})
	in.Buf = hlib.Pick(rng, 0, 1, 3, 100)
	lag := hlib.Pick(rng, 0, 1, 5, -1) // -1: never finalized
	stream := rng.Intn(100)
	switch {
	case stream < 18:
		in.Kind = "err"
		in.ProcErr = hlib.Pick(rng, 0, 2, 3)
		in.TrackErr = hlib.Pick(rng, 0, 2, 3)
		in.AppErr = hlib.Pick(rng, 0, 2, 5)
		mism := 0
		for i := 0; i < int(4*L); i++ {
			o := hlib.Pick(rng, "ok", "ok", "ok", "ok", "ok", "ok", "ok", "ok", "ok", "ok", "ok", "ok", "ok", "ok",
				"err", "err", "deadline", "deadline", "notfound", "mismatch")
			if o == "mismatch" {
				if mism++; mism > 5 {
					o = "ok"
				}
			}
			in.Calls = append(in.Calls, o)
		}
	case stream < 24:
		in.Kind = "regress"
	case stream < 32:
		in.Kind = "jitter"
	case stream < 40, stream < 43, stream < 47:
		// ranges with several event blocks and a node answering headers from another head:
		// mismatch (<= 5 in the run), giveup (6 in a row: outside H3), cancel (context.Canceled with a live context: outside H3)
		in.Kind = "mismatch"
		if stream >= 40 {
			in.Kind = "giveup"
		}
		if stream >= 43 {
			in.Kind = "cancel"
		}
		in.Chunk = hlib.Pick(rng, uint64(3), 7, 100)
		for k := uint64(1); k <= L; k++ {
			if rng.Intn(100) < 70 {
				in.Chain[k] = []LogIn{{A: 1, T: 1}, {A: hlib.Pick(rng, 1, 2, 3), T: hlib.Pick(rng, 1, 2, 3)}}
			}
		}
		if rng.Intn(4) != 0 {
			lag = 0
		}
		attempt := func(j int) []string { // eth_getLogs, j-1 good headers, then a header from another head
			a := []string{"ok"}
			for i := 1; i < j; i++ {
				a = append(a, "ok")
				if rng.Intn(6) == 0 {
					a = append(a, hlib.Pick(rng, "err", "deadline", "notfound"))
				}
			}
			return append(a, "mismatch")
		}
		switch in.Kind {
		case "mismatch":
			for i := rng.Intn(4); i > 0; i-- {
				in.Calls = append(in.Calls, "ok")
			}
			for k := 1 + rng.Intn(5); k > 0; k-- {
				in.Calls = append(in.Calls, attempt(hlib.Pick(rng, 1, 2, 2, 3, 3))...)
			}
		case "giveup":
			for k := 0; k < 6+rng.Intn(2); k++ {
				in.Calls = append(in.Calls, attempt(1)...)
			}
		case "cancel":
			for i := rng.Intn(5); i > 0; i-- {
				in.Calls = append(in.Calls, hlib.Pick(rng, "ok", "ok", "err"))
			}
			in.Calls = append(in.Calls, "canceled")
		}
	}
	// world: tip T and finalized F move per call
	T := uint64(1 + rng.Intn(int(L)))
	if rng.Intn(3) == 0 {
		T = uint64(rng.Intn(2)) // starts at 0 or 1 (a tip of 0 is not a new block for WaitForNewBlocks(0))
	}
	if rng.Intn(4) == 0 && in.Kind != "regress" { // restart in the middle of the chain
		in.LP0 = uint64(rng.Intn(int(T) + 1))
	}
	if in.Kind == "mismatch" || in.Kind == "giveup" || in.Kind == "cancel" {
		T = L - uint64(rng.Intn(2))
		in.LP0 = 0
	}
	if in.Kind == "regress" { // the node is behind the store
		T = uint64(1 + rng.Intn(int(L)))
		in.LP0 = T + 1 + uint64(rng.Intn(5))
	}
	F := uint64(0)
	step := hlib.Pick(rng, 1, 1, 2, 3, 10)
	stall := hlib.Pick(rng, 0, 30, 60)
	tail := int(2*L/minU(in.Chunk, L)) + 8
	var ticks []TickIn
	left := -1
	for len(ticks) < 400 {
		if rng.Intn(100) >= stall && !(in.Kind == "regress" && len(ticks) < 2) {
			T = minU(L, T+uint64(rng.Intn(step+1)))
		}
		shown := T
		if in.Kind == "jitter" && rng.Intn(4) == 0 { // another node, slightly behind (never behind the store)
			shown = sub0(T, uint64(1+rng.Intn(2)))
			if shown < in.LP0 {
				shown = T
			}
		}
		if lag >= 0 {
			target := sub0(T, uint64(lag))
			if target > F {
				if rng.Intn(3) == 0 {
					F += uint64(1 + rng.Intn(int(target-F)))
				} else if rng.Intn(2) == 0 {
					F = target
				}
			}
		}
		fin := F
		if in.Kind == "jitter" && rng.Intn(5) == 0 {
			fin = sub0(F, uint64(rng.Intn(3)))
		}
		e := (in.Kind == "err" && rng.Intn(8) == 0)
		ek := 0
		if e {
			ek = rng.Intn(3)
		}
		ticks = append(ticks, TickIn{Tip: shown, Fin: minU(fin, T), Err: e, EK: ek})
		if T == L && (lag < 0 || F >= sub0(L, uint64(lag))) {
			if left < 0 {
				left = tail
			}
			left--
			if left <= 0 {
				break
			}
		}
	}
	in.Ticks = ticks
	return in
}

// wide ranges: chains of a few thousand blocks fetched with chunk sizes 500, 1000, 2000 (ranges of 501, 1001, 2001 blocks) and, with
// chunk 100, with the finalized pointer jumping ahead of a long unsafe stretch; watched events every 50 blocks and on the blocks
// around every multiple of 1000 (a range fetched in pages has its page boundaries there)
func genWide() []In {
	var ins []In
	mk := func(L uint64) [][]LogIn {
		chain := make([][]LogIn, L+1)
		chain[0] = []LogIn{}
		for k := uint64(1); k <= L; k++ {
			chain[k] = []LogIn{}
			m := k % 1000
			if k%50 == 0 || m <= 3 || m >= 997 {
				chain[k] = []LogIn{{A: 1, T: 1}}
				if k%7 == 0 {
					chain[k] = append(chain[k], LogIn{A: 2, T: 2})
				}
			}
		}
		return chain
	}
	for _, chunk := range []uint64{500, 1000, 2000} {
		L := uint64(3100)
		if chunk == 2000 {
			L = 4100
		}
		var ticks []TickIn
		for i := 0; i < 30; i++ {
			ticks = append(ticks, TickIn{Tip: L, Fin: L})
		}
		ins = append(ins, In{Kind: "wide", Chunk: chunk, Mode: "LF", Addrs: []int{1, 2}, Topics: []int{1, 2}, Chain: mk(L), Ticks: ticks, Buf: 100})
	}
	// chunk 100: the finalized pointer stays at 5 while the tip is far ahead, then jumps to the tip
	L := uint64(2100)
	var ticks []TickIn
	for i := 0; i < 12; i++ {
		ticks = append(ticks, TickIn{Tip: L, Fin: 5})
	}
	for i := 0; i < 60; i++ {
		ticks = append(ticks, TickIn{Tip: L, Fin: L})
	}
	ins = append(ins, In{Kind: "wide", Chunk: 100, Mode: "LF", Addrs: []int{1, 2}, Topics: []int{1, 2}, Chain: mk(L), Ticks: ticks, Buf: 100})
	return ins
}

func gen(f *hlib.Flags) []In {
	var ins []In
	ins = append(ins, genWide()...)
	if f.Tier == "thorough" {
		ins = append(ins, genExhaustive(6)...)
	} else {
		ins = append(ins, genExhaustive(4)...)
	}
	rng := hlib.NewRng(f.Seed)
	for i := 0; i < f.N; i++ {
		ins = append(ins, genRandom(rng))
	}
	return ins
}

func main() {
	f := hlib.ParseFlags()
	aggkitlog.Init(aggkitlog.Config{Environment: aggkitlog.EnvironmentProduction, Level: "fatal", Outputs: []string{"stderr"}})
	var ins []In
	if f.Replay != "" {
		for _, raw := range hlib.ReadJSONL(f.Replay) {
			var in In
			if err := json.Unmarshal(raw, &in); err != nil {
				panic(err)
			}
			ins = append(ins, in)
		}
	} else {
		ins = gen(f)
	}
	// cases are independent: run them on a few workers, emit in input order
	outs := make([]Out, len(ins))
	type job struct{ i int }
	jobs := make(chan job)
	var wg gosync.WaitGroup
	var tmu gosync.Mutex
	timeouts := 0
	for w := 0; w < 8; w++ {
		wg.Add(1)
		go func() {
			defer wg.Done()
			for j := range jobs {
				tmu.Lock()
				skip := timeouts >= 6
				tmu.Unlock()
				if skip { // the code under test hangs: do not spend minutes on it, the reported cases suffice
					in := ins[j.i]
					normalise(&in)
					outs[j.i] = Out{In: in, Note: "skipped"}
					continue
				}
				outs[j.i] = run(ins[j.i])
				if !outs[j.i].Done {
					tmu.Lock()
					timeouts++
					tmu.Unlock()
				}
			}
		}()
	}
	for i := range ins {
		jobs <- job{i}
	}
	close(jobs)
	wg.Wait()
	w := hlib.NewWriter(f.Out)
	defer w.Close()
	idx := make([]int, 0, len(outs))
	for i := range outs {
		if outs[i].Note != "skipped" {
			idx = append(idx, i)
		}
	}
	sort.Ints(idx)
	for _, i := range idx {
		w.Emit(outs[i])
	}
}
