// C10 harness: drives the REAL commitment functions (Certificate.Hash / PPHashToSign / FEPHashToSign and every
// sub-hash) and the REAL AggSender.sendCertificate: the REAL signing step of PPFlow / AggchainProverFlow
// (BuildCertificate around a fake base flow and a recording signer holding a real local ECDSA key), the REAL gRPC
// client SendCertificate (fake submission service capturing the protobuf request), json.Marshal and the REAL SQLite
// AggSenderSQLStorage; then reads the stored copy back (json.Unmarshal), re-hashes, and hashes every single-field
// perturbation. (Heights >= 2^62 do not fit the database: the same steps are then driven one by one, no storage.)
package main

import (
	"context"
	"crypto/ecdsa"
	"encoding/json"
	"fmt"
	"math/big"
	"os"
	"path/filepath"
	"sort"
	"time"

	node "buf.build/gen/go/agglayer/agglayer/grpc/go/agglayer/node/v1/nodev1grpc"
	v1nodetypes "buf.build/gen/go/agglayer/agglayer/protocolbuffers/go/agglayer/node/types/v1"
	v1 "buf.build/gen/go/agglayer/agglayer/protocolbuffers/go/agglayer/node/v1"
	v1types "buf.build/gen/go/agglayer/interop/protocolbuffers/go/agglayer/interop/types/v1"
	agglayergrpc "github.com/agglayer/aggkit/agglayer/grpc"
	agglayertypes "github.com/agglayer/aggkit/agglayer/types"
	"github.com/agglayer/aggkit/aggsender"
	aggsenderdb "github.com/agglayer/aggkit/aggsender/db"
	"github.com/agglayer/aggkit/aggsender/flows"
	aggsendertypes "github.com/agglayer/aggkit/aggsender/types"
	"github.com/agglayer/aggkit/bridgesync"
	cfgtypes "github.com/agglayer/aggkit/config/types"
	aggkitgrpc "github.com/agglayer/aggkit/grpc"
	"github.com/agglayer/aggkit/log"
	treetypes "github.com/agglayer/aggkit/tree/types"
	"github.com/ethereum/go-ethereum/common"
	ethtypes "github.com/ethereum/go-ethereum/core/types"
	"github.com/ethereum/go-ethereum/crypto"
	"google.golang.org/grpc"

	"verifharness/hlib"
)

// ---------------------------------------------------------------------------------------------
// case input: a certificate as a plain value (numbers decimal, byte strings hex)
// ---------------------------------------------------------------------------------------------

type XExit struct {
	LT  uint8   `json:"lt"`
	ON  uint32  `json:"on"`
	OA  string  `json:"oa"` // 20 bytes hex
	DN  uint32  `json:"dn"`
	DA  string  `json:"da"`
	Amt *string `json:"amt"` // decimal; null = nil *big.Int
	MD  *string `json:"md"`  // hex; null = nil slice, "" = empty non-nil slice
}
type XProof struct {
	Root string   `json:"root"`
	Sib  []string `json:"sib"` // 32 hashes
}
type XLeaf struct {
	Idx uint32 `json:"idx"`
	RER string `json:"rer"`
	MER string `json:"mer"`
	GER string `json:"ger"`
	BH  string `json:"bh"`
	TS  uint64 `json:"ts"`
}
type XClaim struct {
	Kind string   `json:"kind"` // mainnet (2 proofs: leaf_mer, ger_l1root) | rollup (3: leaf_ler, ler_rer, ger_l1root)
	P    []XProof `json:"p"`
	Leaf XLeaf    `json:"leaf"`
}
type XGI struct {
	M bool   `json:"m"`
	R uint32 `json:"r"`
	L uint32 `json:"l"`
}
type XImp struct {
	Exit  XExit  `json:"exit"`
	Claim XClaim `json:"claim"`
	GI    XGI    `json:"gi"`
}
type XAgg struct {
	Kind    string      `json:"kind"` // none | sig | proof
	Proof   string      `json:"proof,omitempty"`
	Version string      `json:"version,omitempty"` // hex of the string's bytes
	Vkey    string      `json:"vkey,omitempty"`
	Params  string      `json:"params,omitempty"` // 32 bytes hex
	Ctx     [][2]string `json:"ctx,omitempty"`    // sorted by key; key = hex of the string's bytes
	Sig     string      `json:"sig,omitempty"`
}
type XCert struct {
	Net    uint32  `json:"net"`
	H      uint64  `json:"h"`
	Prev   string  `json:"prev"`
	New    string  `json:"new"`
	Exits  []XExit `json:"exits"`
	Imp    []XImp  `json:"imp"`
	Meta   string  `json:"meta"`
	Custom string  `json:"custom"`
	Agg    XAgg    `json:"agg"`
	LC     uint32  `json:"lc"`
}

// Pert is one single-field perturbation of the FINAL certificate.
type Pert struct {
	K   string `json:"k"`
	Imp bool   `json:"imp,omitempty"` // exit_*: false = BridgeExits[i], true = ImportedBridgeExits[i].BridgeExit; swap/drop_last: which list
	I   int    `json:"i,omitempty"`
	J   int    `json:"j,omitempty"` // proof number inside the claim
	N   int    `json:"n,omitempty"` // sibling number
	F   string `json:"f,omitempty"`
	V   string `json:"v,omitempty"` // decimal for numeric fields, hex for byte strings
	Nil bool   `json:"nil,omitempty"`
}

type In struct {
	Scheme string `json:"scheme"` // pp | fep
	Cert   XCert  `json:"cert"`   // what baseFlow.BuildCertificate returns (agg.kind = none)
	Prover XAgg   `json:"prover"` // fep: the aggchain proof of the build params (kind = proof, sig unused)
	PCust  string `json:"pcust"`  // fep: AggchainProof.CustomChainData
	Key    string `json:"key"`    // ECDSA private key of the configured signer
	Perts  []Pert `json:"perts"`
	Tag    string `json:"tag"`
}

// ---------------------------------------------------------------------------------------------
// conversions plain value <-> Go structs
// ---------------------------------------------------------------------------------------------

func h32(s string) common.Hash    { return common.BytesToHash(hlib.UnHex(s)) }
func a20(s string) common.Address { return common.BytesToAddress(hlib.UnHex(s)) }
func sp(s string) *string         { return &s }
func hexOrNil(b []byte) *string {
	if b == nil {
		return nil
	}
	return sp(hlib.Hex(b))
}
func decN(s string) *big.Int         { return hlib.UnDec(s) }
func fixed(v *big.Int, n int) []byte { return v.FillBytes(make([]byte, n)) }

func toExit(x XExit) *agglayertypes.BridgeExit {
	b := &agglayertypes.BridgeExit{
		LeafType:           agglayertypes.LeafType(x.LT),
		TokenInfo:          &agglayertypes.TokenInfo{OriginNetwork: x.ON, OriginTokenAddress: a20(x.OA)},
		DestinationNetwork: x.DN,
		DestinationAddress: a20(x.DA),
	}
	if x.Amt != nil {
		b.Amount = decN(*x.Amt)
	}
	if x.MD != nil {
		b.Metadata = hlib.UnHex(*x.MD)
		if b.Metadata == nil {
			b.Metadata = []byte{}
		}
	}
	return b
}
func fromExit(b *agglayertypes.BridgeExit) XExit {
	x := XExit{LT: uint8(b.LeafType), DN: b.DestinationNetwork, DA: hlib.Hex(b.DestinationAddress.Bytes())}
	if b.TokenInfo != nil {
		x.ON, x.OA = b.TokenInfo.OriginNetwork, hlib.Hex(b.TokenInfo.OriginTokenAddress.Bytes())
	} else {
		x.OA = "nil"
	}
	if b.Amount != nil {
		x.Amt = sp(b.Amount.String())
	}
	x.MD = hexOrNil(b.Metadata)
	return x
}
func toProof(x XProof) *agglayertypes.MerkleProof {
	m := &agglayertypes.MerkleProof{Root: h32(x.Root)}
	for i := 0; i < int(treetypes.DefaultHeight) && i < len(x.Sib); i++ {
		m.Proof[i] = h32(x.Sib[i])
	}
	return m
}
func fromProof(m *agglayertypes.MerkleProof) XProof {
	if m == nil {
		return XProof{Root: "nil"}
	}
	x := XProof{Root: hlib.Hex(m.Root.Bytes())}
	for _, s := range m.Proof {
		x.Sib = append(x.Sib, hlib.Hex(s.Bytes()))
	}
	return x
}
func toLeaf(x XLeaf) *agglayertypes.L1InfoTreeLeaf {
	return &agglayertypes.L1InfoTreeLeaf{L1InfoTreeIndex: x.Idx, RollupExitRoot: h32(x.RER), MainnetExitRoot: h32(x.MER),
		Inner: &agglayertypes.L1InfoTreeLeafInner{GlobalExitRoot: h32(x.GER), BlockHash: h32(x.BH), Timestamp: x.TS}}
}
func fromLeaf(l *agglayertypes.L1InfoTreeLeaf) XLeaf {
	if l == nil || l.Inner == nil {
		return XLeaf{RER: "nil"}
	}
	return XLeaf{Idx: l.L1InfoTreeIndex, RER: hlib.Hex(l.RollupExitRoot.Bytes()), MER: hlib.Hex(l.MainnetExitRoot.Bytes()),
		GER: hlib.Hex(l.Inner.GlobalExitRoot.Bytes()), BH: hlib.Hex(l.Inner.BlockHash.Bytes()), TS: l.Inner.Timestamp}
}
func toClaim(x XClaim) agglayertypes.Claim {
	if x.Kind == "mainnet" {
		return &agglayertypes.ClaimFromMainnnet{ProofLeafMER: toProof(x.P[0]), ProofGERToL1Root: toProof(x.P[1]), L1Leaf: toLeaf(x.Leaf)}
	}
	return &agglayertypes.ClaimFromRollup{ProofLeafLER: toProof(x.P[0]), ProofLERToRER: toProof(x.P[1]),
		ProofGERToL1Root: toProof(x.P[2]), L1Leaf: toLeaf(x.Leaf)}
}
func fromClaim(c agglayertypes.Claim) XClaim {
	switch cl := c.(type) {
	case *agglayertypes.ClaimFromMainnnet:
		return XClaim{Kind: "mainnet", P: []XProof{fromProof(cl.ProofLeafMER), fromProof(cl.ProofGERToL1Root)}, Leaf: fromLeaf(cl.L1Leaf)}
	case *agglayertypes.ClaimFromRollup:
		return XClaim{Kind: "rollup", P: []XProof{fromProof(cl.ProofLeafLER), fromProof(cl.ProofLERToRER), fromProof(cl.ProofGERToL1Root)},
			Leaf: fromLeaf(cl.L1Leaf)}
	}
	return XClaim{Kind: "nil"}
}
func toImp(x XImp) *agglayertypes.ImportedBridgeExit {
	return &agglayertypes.ImportedBridgeExit{BridgeExit: toExit(x.Exit), ClaimData: toClaim(x.Claim),
		GlobalIndex: &agglayertypes.GlobalIndex{MainnetFlag: x.GI.M, RollupIndex: x.GI.R, LeafIndex: x.GI.L}}
}
func fromImp(i *agglayertypes.ImportedBridgeExit) XImp {
	x := XImp{Claim: fromClaim(i.ClaimData)}
	if i.BridgeExit != nil {
		x.Exit = fromExit(i.BridgeExit)
	}
	if i.GlobalIndex != nil {
		x.GI = XGI{M: i.GlobalIndex.MainnetFlag, R: i.GlobalIndex.RollupIndex, L: i.GlobalIndex.LeafIndex}
	}
	return x
}
func ctxToMap(c [][2]string) map[string][]byte {
	if c == nil {
		return nil
	}
	m := map[string][]byte{}
	for _, kv := range c {
		m[string(hlib.UnHex(kv[0]))] = hlib.UnHex(kv[1])
	}
	return m
}
func ctxFromMap(m map[string][]byte) [][2]string {
	var out [][2]string
	for k, v := range m {
		out = append(out, [2]string{hlib.Hex([]byte(k)), hlib.Hex(v)})
	}
	sort.Slice(out, func(i, j int) bool { return out[i][0] < out[j][0] })
	return out
}
func toAgg(x XAgg) agglayertypes.AggchainData {
	switch x.Kind {
	case "sig":
		return &agglayertypes.AggchainDataSignature{Signature: hlib.UnHex(x.Sig)}
	case "proof":
		return &agglayertypes.AggchainDataProof{Proof: hlib.UnHex(x.Proof), Version: string(hlib.UnHex(x.Version)), Vkey: hlib.UnHex(x.Vkey),
			AggchainParams: h32(x.Params), Context: ctxToMap(x.Ctx), Signature: hlib.UnHex(x.Sig)}
	}
	return nil
}
func fromAgg(a agglayertypes.AggchainData) XAgg {
	switch ad := a.(type) {
	case *agglayertypes.AggchainDataSignature:
		return XAgg{Kind: "sig", Sig: hlib.Hex(ad.Signature)}
	case *agglayertypes.AggchainDataProof:
		return XAgg{Kind: "proof", Proof: hlib.Hex(ad.Proof), Version: hlib.Hex([]byte(ad.Version)), Vkey: hlib.Hex(ad.Vkey),
			Params: hlib.Hex(ad.AggchainParams.Bytes()), Ctx: ctxFromMap(ad.Context), Sig: hlib.Hex(ad.Signature)}
	}
	return XAgg{Kind: "none"}
}
func toCert(x XCert) *agglayertypes.Certificate {
	c := &agglayertypes.Certificate{NetworkID: x.Net, Height: x.H, PrevLocalExitRoot: h32(x.Prev), NewLocalExitRoot: h32(x.New),
		Metadata: h32(x.Meta), CustomChainData: hlib.UnHex(x.Custom), AggchainData: toAgg(x.Agg), L1InfoTreeLeafCount: x.LC,
		BridgeExits: []*agglayertypes.BridgeExit{}, ImportedBridgeExits: []*agglayertypes.ImportedBridgeExit{}}
	for _, e := range x.Exits {
		c.BridgeExits = append(c.BridgeExits, toExit(e))
	}
	for _, i := range x.Imp {
		c.ImportedBridgeExits = append(c.ImportedBridgeExits, toImp(i))
	}
	return c
}
func fromCert(c *agglayertypes.Certificate) XCert {
	x := XCert{Net: c.NetworkID, H: c.Height, Prev: hlib.Hex(c.PrevLocalExitRoot.Bytes()), New: hlib.Hex(c.NewLocalExitRoot.Bytes()),
		Meta: hlib.Hex(c.Metadata.Bytes()), Custom: hlib.Hex(c.CustomChainData), Agg: fromAgg(c.AggchainData), LC: c.L1InfoTreeLeafCount,
		Exits: []XExit{}, Imp: []XImp{}}
	for _, e := range c.BridgeExits {
		x.Exits = append(x.Exits, fromExit(e))
	}
	for _, i := range c.ImportedBridgeExits {
		x.Imp = append(x.Imp, fromImp(i))
	}
	return x
}

// ---------------------------------------------------------------------------------------------
// perturbations (the Coq side applies the same description to the model certificate)
// ---------------------------------------------------------------------------------------------

func exitAt(c *XCert, p Pert) *XExit {
	if p.Imp {
		return &c.Imp[p.I].Exit
	}
	return &c.Exits[p.I]
}
func h32dec(v string) string { return hlib.Hex(fixed(decN(v), 32)) }
func a20dec(v string) string { return hlib.Hex(fixed(decN(v), 20)) }

func applyPert(c XCert, p Pert) XCert {
	// deep copy through JSON (plain values only)
	raw, _ := json.Marshal(c)
	var x XCert
	if err := json.Unmarshal(raw, &x); err != nil {
		panic(err)
	}
	u64 := func() uint64 { return decN(p.V).Uint64() }
	switch p.K {
	case "cert_n":
		switch p.F {
		case "network":
			x.Net = uint32(u64())
		case "height":
			x.H = u64()
		case "prev_ler":
			x.Prev = h32dec(p.V)
		case "new_ler":
			x.New = h32dec(p.V)
		case "metadata":
			x.Meta = h32dec(p.V)
		case "leaf_count":
			x.LC = uint32(u64())
		}
	case "custom":
		x.Custom = p.V
	case "agg_params":
		x.Agg.Params = h32dec(p.V)
	case "agg_sig":
		x.Agg.Sig = p.V
	case "exit_n":
		e := exitAt(&x, p)
		switch p.F {
		case "leaf_type":
			e.LT = uint8(u64())
		case "orig_net":
			e.ON = uint32(u64())
		case "orig_addr":
			e.OA = a20dec(p.V)
		case "dest_net":
			e.DN = uint32(u64())
		case "dest_addr":
			e.DA = a20dec(p.V)
		}
	case "exit_amount":
		e := exitAt(&x, p)
		if p.Nil {
			e.Amt = nil
		} else {
			e.Amt = sp(p.V)
		}
	case "exit_meta":
		e := exitAt(&x, p)
		if p.Nil {
			e.MD = nil
		} else {
			e.MD = sp(p.V)
		}
	case "gi":
		g := &x.Imp[p.I].GI
		switch p.F {
		case "flag":
			g.M = p.V == "1"
		case "rollup":
			g.R = uint32(u64())
		case "leaf":
			g.L = uint32(u64())
		}
	case "proof_root":
		x.Imp[p.I].Claim.P[p.J].Root = h32dec(p.V)
	case "proof_sib":
		x.Imp[p.I].Claim.P[p.J].Sib[p.N] = h32dec(p.V)
	case "l1":
		l := &x.Imp[p.I].Claim.Leaf
		switch p.F {
		case "index":
			l.Idx = uint32(u64())
		case "rer":
			l.RER = h32dec(p.V)
		case "mer":
			l.MER = h32dec(p.V)
		case "ger":
			l.GER = h32dec(p.V)
		case "block_hash":
			l.BH = h32dec(p.V)
		case "timestamp":
			l.TS = u64()
		}
	case "claim_kind": // mainnet(a, b) -> rollup(a, a, b); rollup(a, b, c) -> mainnet(a, c)
		cl := &x.Imp[p.I].Claim
		if cl.Kind == "mainnet" {
			cl.Kind, cl.P = "rollup", []XProof{cl.P[0], cl.P[0], cl.P[1]}
		} else {
			cl.Kind, cl.P = "mainnet", []XProof{cl.P[0], cl.P[2]}
		}
	case "swap":
		if p.Imp {
			x.Imp[p.I], x.Imp[p.I+1] = x.Imp[p.I+1], x.Imp[p.I]
		} else {
			x.Exits[p.I], x.Exits[p.I+1] = x.Exits[p.I+1], x.Exits[p.I]
		}
	case "drop_last":
		if p.Imp {
			x.Imp = x.Imp[:len(x.Imp)-1]
		} else {
			x.Exits = x.Exits[:len(x.Exits)-1]
		}
	default:
		panic("unknown perturbation " + p.K)
	}
	return x
}

// ---------------------------------------------------------------------------------------------
// observations
// ---------------------------------------------------------------------------------------------

type Hashes3 struct {
	ID  string `json:"id"`
	PP  string `json:"pp"`
	FEP string `json:"fep"`
	Err string `json:"err,omitempty"`
}
type ImpHashes struct {
	H      string   `json:"h"`
	Exit   string   `json:"exit"`
	Claim  string   `json:"claim"`
	GI     string   `json:"gi"`
	Proofs []string `json:"proofs"`
	Leaf   string   `json:"leaf"`
}
type SubHashes struct {
	Exits []string    `json:"exits"`
	Imp   []ImpHashes `json:"imp"`
}

type WExit struct {
	LT  int32   `json:"lt"`
	DN  uint32  `json:"dn"`
	DA  string  `json:"da"`
	ON  uint32  `json:"on"`
	OA  string  `json:"oa"`
	Amt *string `json:"amt"`
	MD  *string `json:"md"`
}
type WLeaf struct {
	Idx uint32 `json:"idx"`
	RER string `json:"rer"`
	MER string `json:"mer"`
	GER string `json:"ger"`
	BH  string `json:"bh"`
	TS  uint64 `json:"ts"`
}
type WClaim struct {
	Kind string   `json:"kind"`
	P    []XProof `json:"p"`
	Leaf WLeaf    `json:"leaf"`
}
type WImp struct {
	Exit  WExit  `json:"exit"`
	GI    string `json:"gi"`
	Claim WClaim `json:"claim"`
}
type WCert struct {
	Net    uint32  `json:"net"`
	H      uint64  `json:"h"`
	LC     *uint32 `json:"lc"`
	Prev   string  `json:"prev"`
	New    string  `json:"new"`
	Meta   string  `json:"meta"`
	Custom string  `json:"custom"`
	Agg    XAgg    `json:"agg"` // kind sig | proof (generic)
	Exits  []WExit `json:"exits"`
	Imp    []WImp  `json:"imp"`
}

func fb32(f *v1types.FixedBytes32) string {
	if f == nil {
		return ""
	}
	return hlib.Hex(f.Value)
}
func fb32opt(f *v1types.FixedBytes32) *string {
	if f == nil {
		return nil
	}
	return sp(hlib.Hex(f.Value))
}
func fb20(f *v1types.FixedBytes20) string {
	if f == nil {
		return ""
	}
	return hlib.Hex(f.Value)
}
func wExit(b *v1types.BridgeExit) WExit {
	if b == nil {
		return WExit{LT: -1}
	}
	w := WExit{LT: int32(b.LeafType), DN: b.DestNetwork, DA: fb20(b.DestAddress), Amt: fb32opt(b.Amount), MD: fb32opt(b.Metadata)}
	if b.TokenInfo != nil {
		w.ON, w.OA = b.TokenInfo.OriginNetwork, fb20(b.TokenInfo.OriginTokenAddress)
	}
	return w
}
func wProof(m *v1types.MerkleProof) XProof {
	if m == nil {
		return XProof{}
	}
	x := XProof{Root: fb32(m.Root)}
	for _, s := range m.Siblings {
		x.Sib = append(x.Sib, fb32(s))
	}
	return x
}
func wLeaf(l *v1types.L1InfoTreeLeafWithContext) WLeaf {
	if l == nil || l.Inner == nil {
		return WLeaf{}
	}
	return WLeaf{Idx: l.L1InfoTreeIndex, RER: fb32(l.Rer), MER: fb32(l.Mer), GER: fb32(l.Inner.GlobalExitRoot),
		BH: fb32(l.Inner.BlockHash), TS: l.Inner.Timestamp}
}
func wCert(p *v1nodetypes.Certificate) *WCert {
	w := &WCert{Net: p.NetworkId, H: p.Height, LC: p.L1InfoTreeLeafCount, Prev: fb32(p.PrevLocalExitRoot), New: fb32(p.NewLocalExitRoot),
		Meta: fb32(p.Metadata), Custom: hlib.Hex(p.CustomChainData), Exits: []WExit{}, Imp: []WImp{}, Agg: XAgg{Kind: "none"}}
	if p.AggchainData != nil {
		switch d := p.AggchainData.Data.(type) {
		case *v1types.AggchainData_Signature:
			w.Agg = XAgg{Kind: "sig"}
			if d.Signature != nil {
				w.Agg.Sig = hlib.Hex(d.Signature.Value)
			}
		case *v1types.AggchainData_Generic:
			g := d.Generic
			w.Agg = XAgg{Kind: "proof", Ctx: ctxFromMap(g.Context), Params: fb32(g.AggchainParams)}
			if g.Signature != nil {
				w.Agg.Sig = hlib.Hex(g.Signature.Value)
			}
			if sp1, ok := g.Proof.(*v1types.AggchainProof_Sp1Stark); ok && sp1.Sp1Stark != nil {
				w.Agg.Version, w.Agg.Proof, w.Agg.Vkey = hlib.Hex([]byte(sp1.Sp1Stark.Version)), hlib.Hex(sp1.Sp1Stark.Proof), hlib.Hex(sp1.Sp1Stark.Vkey)
			}
		}
	}
	for _, e := range p.BridgeExits {
		w.Exits = append(w.Exits, wExit(e))
	}
	for _, i := range p.ImportedBridgeExits {
		wi := WImp{Exit: wExit(i.BridgeExit), GI: fb32(i.GlobalIndex)}
		switch cl := i.Claim.(type) {
		case *v1types.ImportedBridgeExit_Mainnet:
			wi.Claim = WClaim{Kind: "mainnet", P: []XProof{wProof(cl.Mainnet.ProofLeafMer), wProof(cl.Mainnet.ProofGerL1Root)}, Leaf: wLeaf(cl.Mainnet.L1Leaf)}
		case *v1types.ImportedBridgeExit_Rollup:
			wi.Claim = WClaim{Kind: "rollup", P: []XProof{wProof(cl.Rollup.ProofLeafLer), wProof(cl.Rollup.ProofLerRer), wProof(cl.Rollup.ProofGerL1Root)},
				Leaf: wLeaf(cl.Rollup.L1Leaf)}
		}
		w.Imp = append(w.Imp, wi)
	}
	return w
}

// pieces of the stored JSON text produced by the custom MarshalJSON code
type JExit struct {
	LT  string  `json:"lt"`  // hex of the JSON string's bytes
	Amt string  `json:"amt"` // hex of the JSON string's bytes
	MD  *string `json:"md"`  // null, or hex of the JSON string's bytes
}
type JImp struct {
	Exit JExit    `json:"exit"`
	Tag  string   `json:"tag"`
	Keys []string `json:"keys"` // member names of the claim's child object, sorted
}
type JProj struct {
	Exits []JExit     `json:"exits"`
	Imp   []JImp      `json:"imp"`
	Agg   [][2]string `json:"agg"` // string-valued members of aggchain_data, sorted by name; null when absent
}

func asx(s string) string { return hlib.Hex([]byte(s)) }
func jExit(m map[string]any) JExit {
	j := JExit{}
	if s, ok := m["leaf_type"].(string); ok {
		j.LT = asx(s)
	}
	if s, ok := m["amount"].(string); ok {
		j.Amt = asx(s)
	}
	if s, ok := m["metadata"].(string); ok {
		j.MD = sp(asx(s))
	}
	return j
}
func jProj(raw string) (p JProj) {
	var top map[string]any
	if err := json.Unmarshal([]byte(raw), &top); err != nil {
		return
	}
	p.Exits, p.Imp = []JExit{}, []JImp{}
	if l, ok := top["bridge_exits"].([]any); ok {
		for _, e := range l {
			p.Exits = append(p.Exits, jExit(e.(map[string]any)))
		}
	}
	if l, ok := top["imported_bridge_exits"].([]any); ok {
		for _, e := range l {
			m := e.(map[string]any)
			ji := JImp{Keys: []string{}}
			if be, ok := m["bridge_exit"].(map[string]any); ok {
				ji.Exit = jExit(be)
			}
			if cd, ok := m["claim_data"].(map[string]any); ok {
				for tag, child := range cd {
					ji.Tag = asx(tag)
					if cm, ok := child.(map[string]any); ok {
						for k := range cm {
							ji.Keys = append(ji.Keys, asx(k))
						}
					}
				}
				sort.Slice(ji.Keys, func(a, b int) bool { return string(hlib.UnHex(ji.Keys[a])) < string(hlib.UnHex(ji.Keys[b])) })
			}
			p.Imp = append(p.Imp, ji)
		}
	}
	if ad, ok := top["aggchain_data"].(map[string]any); ok {
		p.Agg = [][2]string{}
		var ks []string
		for k, v := range ad {
			if _, ok := v.(string); ok {
				ks = append(ks, k)
			}
		}
		sort.Strings(ks)
		for _, k := range ks {
			p.Agg = append(p.Agg, [2]string{asx(k), asx(ad[k].(string))})
		}
	}
	return
}

type Out struct {
	In          In        `json:"in"`
	Err         string    `json:"err,omitempty"` // BuildCertificate error / panic
	SignerCalls int       `json:"signer_calls"`
	SignerIn    string    `json:"signer_in"`    // hash handed to the signer
	SigOut      string    `json:"sig_out"`      // what the signer returned
	SigAttached string    `json:"sig_attached"` // signature inside the certificate that is sent
	RecoverOK   bool      `json:"recover_ok"`   // ecrecover(signer_in, sig_attached) == address of the configured key
	Final       XCert     `json:"final"`        // the certificate handed to SendCertificate
	Wire        *WCert    `json:"wire"`         // captured protobuf request
	SendErr     string    `json:"send_err,omitempty"`
	ReturnedID  string    `json:"returned_id"` // what SendCertificate returned (fake service echoes a constant)
	H           Hashes3   `json:"h"`           // Certificate.Hash / PPHashToSign / FEPHashToSign of the final certificate
	Sub         SubHashes `json:"sub"`
	StoredVia   string    `json:"stored_via"` // sqlite | direct
	JSON        JProj     `json:"json"`
	RTErr       string    `json:"rt_err,omitempty"` // "" | marshal_panic | marshal | unmarshal | storage
	RT          XCert     `json:"rt"`               // certificate read back from the stored copy
	HRT         Hashes3   `json:"hrt"`
	Perts       []Hashes3 `json:"perts"`
}

func hashes3(c *agglayertypes.Certificate) (h Hashes3) {
	defer func() {
		if r := recover(); r != nil {
			h.Err = "panic"
		}
	}()
	h.PP = hlib.Hex(c.PPHashToSign().Bytes())
	h.FEP = hlib.Hex(c.FEPHashToSign().Bytes())
	h.ID = hlib.Hex(c.Hash().Bytes())
	return
}

func subHashes(c *agglayertypes.Certificate) (s SubHashes) {
	s.Exits, s.Imp = []string{}, []ImpHashes{}
	for _, e := range c.BridgeExits {
		s.Exits = append(s.Exits, hlib.Hex(e.Hash().Bytes()))
	}
	for _, i := range c.ImportedBridgeExits {
		ih := ImpHashes{H: hlib.Hex(i.Hash().Bytes()), Exit: hlib.Hex(i.BridgeExit.Hash().Bytes()), Claim: hlib.Hex(i.ClaimData.Hash().Bytes()),
			GI: hlib.Hex(i.GlobalIndex.Hash().Bytes())}
		switch cl := i.ClaimData.(type) {
		case *agglayertypes.ClaimFromMainnnet:
			ih.Proofs = []string{hlib.Hex(cl.ProofLeafMER.Hash().Bytes()), hlib.Hex(cl.ProofGERToL1Root.Hash().Bytes())}
			ih.Leaf = hlib.Hex(cl.L1Leaf.Hash().Bytes())
		case *agglayertypes.ClaimFromRollup:
			ih.Proofs = []string{hlib.Hex(cl.ProofLeafLER.Hash().Bytes()), hlib.Hex(cl.ProofLERToRER.Hash().Bytes()), hlib.Hex(cl.ProofGERToL1Root.Hash().Bytes())}
			ih.Leaf = hlib.Hex(cl.L1Leaf.Hash().Bytes())
		}
		s.Imp = append(s.Imp, ih)
	}
	return
}

// ---------------------------------------------------------------------------------------------
// fakes around the real code
// ---------------------------------------------------------------------------------------------

type nopLog struct{}

func (nopLog) Panicf(string, ...interface{}) {}
func (nopLog) Fatalf(string, ...interface{}) {}
func (nopLog) Info(...interface{})           {}
func (nopLog) Infof(string, ...interface{})  {}
func (nopLog) Error(...interface{})          {}
func (nopLog) Errorf(string, ...interface{}) {}
func (nopLog) Warn(...interface{})           {}
func (nopLog) Warnf(string, ...interface{})  {}
func (nopLog) Debug(...interface{})          {}
func (nopLog) Debugf(string, ...interface{}) {}

// recSigner: the "configured signer": a real local ECDSA key; records what it is asked to sign.
type recSigner struct {
	key   *ecdsa.PrivateKey
	calls []common.Hash
	outs  [][]byte
}

func (s *recSigner) Initialize(context.Context) error { return nil }
func (s *recSigner) PublicAddress() common.Address    { return crypto.PubkeyToAddress(s.key.PublicKey) }
func (s *recSigner) String() string                   { return "verif recording signer" }
func (s *recSigner) SignHash(_ context.Context, h common.Hash) ([]byte, error) {
	sig, err := crypto.Sign(h.Bytes(), s.key)
	if err != nil {
		return nil, err
	}
	s.calls = append(s.calls, h)
	s.outs = append(s.outs, append([]byte(nil), sig...))
	return sig, nil
}
func (s *recSigner) SignTx(_ context.Context, tx *ethtypes.Transaction) (*ethtypes.Transaction, error) {
	return tx, nil
}

// fakeBase: baseFlow.BuildCertificate returns the case's certificate; nothing else is used by the sign step.
type fakeBase struct{ cert *agglayertypes.Certificate }

func (f *fakeBase) GetCertificateBuildParamsInternal(context.Context, aggsendertypes.CertificateType) (*aggsendertypes.CertificateBuildParams, error) {
	return nil, fmt.Errorf("not used")
}
func (f *fakeBase) BuildCertificate(context.Context, *aggsendertypes.CertificateBuildParams, *aggsendertypes.CertificateHeader, bool) (*agglayertypes.Certificate, error) {
	return f.cert, nil
}
func (f *fakeBase) GetNewLocalExitRoot(context.Context, *aggsendertypes.CertificateBuildParams) (common.Hash, error) {
	return common.Hash{}, nil
}
func (f *fakeBase) VerifyBuildParams(context.Context, *aggsendertypes.CertificateBuildParams) error {
	return nil
}
func (f *fakeBase) VerifyBlockRangeGaps(context.Context, *aggsendertypes.CertificateHeader, uint64, uint64) error {
	return nil
}
func (f *fakeBase) ConvertClaimToImportedBridgeExit(bridgesync.Claim) (*agglayertypes.ImportedBridgeExit, error) {
	return nil, fmt.Errorf("not used")
}
func (f *fakeBase) StartL2Block() uint64 { return 0 }

// fakeSubmission captures the request the real client builds.
type fakeSubmission struct{ last *v1.SubmitCertificateRequest }

var fixedCertID = common.HexToHash("0xc10c10c10c10c10c10c10c10c10c10c10c10c10c10c10c10c10c10c10c10c10c1")

func (f *fakeSubmission) SubmitCertificate(_ context.Context, in *v1.SubmitCertificateRequest, _ ...grpc.CallOption) (*v1.SubmitCertificateResponse, error) {
	f.last = in
	return &v1.SubmitCertificateResponse{CertificateId: &v1nodetypes.CertificateId{Value: &v1types.FixedBytes32{Value: fixedCertID.Bytes()}}}, nil
}

var _ node.CertificateSubmissionServiceClient = (*fakeSubmission)(nil)

type env struct {
	storage *aggsenderdb.AggSenderSQLStorage
	sub     *fakeSubmission
	client  *agglayergrpc.AgglayerGRPCClient
}

func newEnv() *env {
	dir, err := os.MkdirTemp("", "verif_c10_")
	if err != nil {
		panic(err)
	}
	st, err := aggsenderdb.NewAggSenderSQLStorage(log.GetDefaultLogger(), aggsenderdb.AggSenderSQLStorageConfig{DBPath: filepath.Join(dir, "aggsender.sqlite")})
	if err != nil {
		panic(err)
	}
	sub := &fakeSubmission{}
	cfg := aggkitgrpc.DefaultConfig()
	cfg.RequestTimeout = cfgtypes.NewDuration(5 * time.Second)
	return &env{storage: st, sub: sub, client: agglayergrpc.NewVerifClient(cfg, nil, nil, sub)}
}

// ---------------------------------------------------------------------------------------------
// one case
// ---------------------------------------------------------------------------------------------

type certBuilder interface {
	BuildCertificate(ctx context.Context, p *aggsendertypes.CertificateBuildParams) (*agglayertypes.Certificate, error)
}

// caseFlow is the AggsenderFlow handed to the real AggSender: fixed build params, BuildCertificate = the REAL flow's.
// It dumps the certificate the moment the real flow returns it (before anything else can touch it).
type caseFlow struct {
	real   certBuilder
	base   *fakeBase
	params *aggsendertypes.CertificateBuildParams
	built  *agglayertypes.Certificate
	final  *XCert
	err    error
}

func (f *caseFlow) CheckInitialStatus(context.Context) error { return nil }
func (f *caseFlow) GetCertificateBuildParams(context.Context) (*aggsendertypes.CertificateBuildParams, error) {
	return f.params, nil
}
func (f *caseFlow) BuildCertificate(ctx context.Context, p *aggsendertypes.CertificateBuildParams) (*agglayertypes.Certificate, error) {
	c, err := f.real.BuildCertificate(ctx, p)
	f.built, f.err = c, err
	if c != nil {
		x := fromCert(c) // before any further hash call (BridgeExit.Hash mutates nil amounts)
		f.final = &x
	}
	return c, err
}

type fakeEpoch struct{}

func (fakeEpoch) Subscribe(string) <-chan aggsendertypes.EpochEvent { return nil }
func (fakeEpoch) Start(context.Context)                             {}
func (fakeEpoch) GetEpochStatus() aggsendertypes.EpochStatus        { return aggsendertypes.EpochStatus{} }
func (fakeEpoch) String() string                                    { return "verif" }

func newFlow(in In, sg *recSigner) *caseFlow {
	base := &fakeBase{cert: toCert(in.Cert)}
	if in.Scheme == "pp" {
		return &caseFlow{real: flows.NewPPFlow(nopLog{}, base, nil, nil, nil, sg, false, 0), base: base,
			params: &aggsendertypes.CertificateBuildParams{CertificateType: aggsendertypes.CertificateTypePP, FromBlock: 1, ToBlock: 2, CreatedAt: 1}}
	}
	return &caseFlow{
		base: base,
		real: flows.NewAggchainProverFlow(nopLog{}, flows.NewAggchainProverFlowConfigDefault(), base, nil, nil, nil, nil, nil, nil, sg, nil, nil),
		params: &aggsendertypes.CertificateBuildParams{
			CertificateType: aggsendertypes.CertificateTypeFEP, FromBlock: 1, ToBlock: 2, CreatedAt: 1,
			AggchainProof: &aggsendertypes.AggchainProof{
				CustomChainData: hlib.UnHex(in.PCust),
				AggchainParams:  h32(in.Prover.Params),
				Context:         ctxToMap(in.Prover.Ctx),
				SP1StarkProof: &aggsendertypes.SP1StarkProof{Version: string(hlib.UnHex(in.Prover.Version)), Proof: hlib.UnHex(in.Prover.Proof),
					Vkey: hlib.UnHex(in.Prover.Vkey)},
			},
		}}
}

func marshalLikeAggsender(c *agglayertypes.Certificate) (raw []byte, errs string) {
	defer func() {
		if r := recover(); r != nil {
			errs = "marshal_panic"
		}
	}()
	raw, err := json.Marshal(c) // aggsender.go sendCertificate: raw, err := json.Marshal(certificate)
	if err != nil {
		return nil, "marshal"
	}
	return raw, ""
}

func run(e *env, in In) Out {
	ctx := context.Background()
	o := Out{In: in, Perts: []Hashes3{}}
	key, err := crypto.ToECDSA(hlib.UnHex(in.Key))
	if err != nil {
		panic(err)
	}
	sg := &recSigner{key: key}
	flow := newFlow(in, sg)
	e.sub.last = nil
	stored := ""
	{
		// an EARLIER attempt of the same flow object with the same build parameters object (in the aggchain-prover flow: the aggchain
		// proof that is stored with a certificate and handed over again when its replacement is built) over DIFFERENT content: the
		// certificate that ended in error. Whatever it leaves behind must not show in the attempt that is observed.
		prev := toCert(in.Cert)
		prev.NewLocalExitRoot[0] ^= 0x5a
		prev.PrevLocalExitRoot[31] ^= 0xa5
		flow.base.cert = prev
		func() {
			defer func() { _ = recover() }()
			_, _ = flow.real.BuildCertificate(ctx, flow.params)
		}()
		flow.base.cert = toCert(in.Cert)
		sg.calls, sg.outs = nil, nil
	}

	if in.Cert.H < 1<<62 {
		// the REAL AggSender.sendCertificate: real flow sign step, real gRPC client (request captured), json.Marshal, real SQLite storage
		o.StoredVia = "sqlite"
		sender := aggsender.NewVerifSenderC10(nopLog{}, e.storage, e.client, flow, fakeEpoch{})
		func() {
			defer func() {
				if r := recover(); r != nil {
					if e.sub.last != nil {
						o.RTErr = "marshal_panic" // json.Marshal of a non-canonical leaf type panics after the certificate was sent
					} else if flow.built == nil {
						o.Err = "panic"
					} else {
						o.SendErr = "panic"
					}
				}
			}()
			_, err := sender.VerifSendCertificateC10(ctx)
			if err != nil {
				switch {
				case flow.built == nil:
					o.Err = "error"
				case e.sub.last == nil:
					o.SendErr = "error"
				default:
					o.RTErr = "storage"
				}
			}
		}()
		if flow.built != nil && o.RTErr == "" && o.SendErr == "" {
			if got, err := e.storage.GetCertificateByHeight(flow.built.Height); err != nil || got == nil || got.SignedCertificate == nil {
				o.RTErr = "storage"
			} else {
				stored = *got.SignedCertificate
			}
		}
	} else {
		// height does not fit SQLite's signed 64-bit integer: the same three steps of sendCertificate by hand, no database
		o.StoredVia = "direct"
		func() {
			defer func() {
				if r := recover(); r != nil && flow.built == nil {
					o.Err = "panic"
				}
			}()
			if _, err := flow.BuildCertificate(ctx, flow.params); err != nil {
				o.Err = "error"
			}
		}()
		if flow.built != nil {
			func() {
				defer func() {
					if r := recover(); r != nil {
						o.SendErr = "panic"
					}
				}()
				if _, err := e.client.SendCertificate(ctx, flow.built); err != nil {
					o.SendErr = "error"
				}
			}()
			raw, merr := marshalLikeAggsender(flow.built)
			o.RTErr = merr
			stored = string(raw)
		}
	}

	o.SignerCalls = len(sg.calls)
	if len(sg.calls) > 0 {
		o.SignerIn = hlib.Hex(sg.calls[len(sg.calls)-1].Bytes())
		o.SigOut = hlib.Hex(sg.outs[len(sg.outs)-1])
	}
	cert := flow.built
	if cert == nil || flow.final == nil {
		return o
	}
	o.Final = *flow.final
	o.SigAttached = o.Final.Agg.Sig
	if len(sg.calls) > 0 {
		if pub, err := crypto.SigToPub(sg.calls[len(sg.calls)-1].Bytes(), hlib.UnHex(o.SigAttached)); err == nil {
			o.RecoverOK = crypto.PubkeyToAddress(*pub) == sg.PublicAddress()
		}
	}
	if e.sub.last != nil && e.sub.last.Certificate != nil {
		o.Wire = wCert(e.sub.last.Certificate)
	}
	if o.RTErr == "" && stored != "" {
		o.JSON = jProj(stored)
		var back agglayertypes.Certificate
		if err := json.Unmarshal([]byte(stored), &back); err != nil {
			o.RTErr = "unmarshal"
		} else {
			o.RT = fromCert(&back)
			o.HRT = hashes3(&back)
		}
	}

	// commitments of the certificate that was sent (the object itself, after it has been sent and stored)
	o.H = hashes3(cert)
	if o.H.Err == "" {
		o.Sub = subHashes(cert)
	}

	// single-field perturbations of the final certificate
	for _, p := range in.Perts {
		o.Perts = append(o.Perts, hashes3(toCert(applyPert(o.Final, p))))
	}
	return o
}

func main() {
	f := hlib.ParseFlags()
	log.Init(log.Config{Environment: log.EnvironmentProduction, Level: "fatal", Outputs: []string{"stderr"}})
	var ins []In
	if f.Replay != "" {
		for _, raw := range hlib.ReadJSONL(f.Replay) {
			var in In
			if err := json.Unmarshal(raw, &in); err != nil {
				panic(err)
			}
			ins = append(ins, in)
		}
	} else {
		ins = gen(f)
	}
	e := newEnv()
	w := hlib.NewWriter(f.Out)
	defer w.Close()
	for _, in := range ins {
		w.Emit(run(e, in))
	}
}
