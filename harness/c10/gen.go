package main

import (
	"fmt"
	"math/big"

	"github.com/ethereum/go-ethereum/crypto"

	"verifharness/hlib"
)

var (
	one     = big.NewInt(1)
	max256  = new(big.Int).Sub(new(big.Int).Lsh(one, 256), one)
	max160  = new(big.Int).Sub(new(big.Int).Lsh(one, 160), one)
	zero32  = hlib.Hex(make([]byte, 32))
	ff32    = hlib.Hex(max256.Bytes())
	emptyKc = hlib.Hex(crypto.Keccak256(nil))
)

func pickU32(r *hlib.Rng) uint32 {
	switch r.Intn(6) {
	case 0:
		return hlib.Pick(r, uint32(0), 1, 255, 256, 65535, 1<<31, 1<<32-2, 1<<32-1)
	case 1:
		return r.U32() >> uint(r.Intn(32))
	}
	return r.U32()
}
func pickU64(r *hlib.Rng) uint64 {
	switch r.Intn(6) {
	case 0:
		return hlib.Pick(r, uint64(0), 1, 255, 256, 1<<32-1, 1<<32, 1<<62-1)
	case 1:
		return r.U64() >> uint(r.Intn(64))
	}
	return r.U64() >> 2 // below 2^62: goes through the real SQLite storage
}
func pickHash(r *hlib.Rng) string {
	switch r.Intn(10) {
	case 0:
		return zero32
	case 1:
		return ff32
	case 2:
		return hlib.Hex(new(big.Int).SetUint64(r.U64()).FillBytes(make([]byte, 32))) // leading zeros
	}
	return hlib.Hex(r.Bytes(32))
}
func pickAddr(r *hlib.Rng) string {
	switch r.Intn(8) {
	case 0:
		return hlib.Hex(make([]byte, 20))
	case 1:
		return hlib.Hex(max160.Bytes())
	}
	return hlib.Hex(r.Bytes(20))
}
func pickAmount(r *hlib.Rng) *string {
	switch r.Intn(8) {
	case 0:
		return nil
	case 1:
		return sp("0")
	case 2:
		return sp(max256.String())
	case 3:
		return sp(r.Big(1 + r.Intn(64)).String())
	case 4:
		return sp(new(big.Int).Lsh(one, uint(r.Intn(256))).String())
	}
	return sp(r.Big(1 + r.Intn(256)).String())
}

// metadata as the node builds it (convertBridgeMetadata): nil or a 32-byte keccak; plus the empty non-nil slice and
// the literal keccak("") (both hash like nil); noncanon adds other lengths (a separate, malformed stream)
func pickMeta(r *hlib.Rng, noncanon bool) *string {
	if noncanon && r.Intn(2) == 0 {
		return sp(hlib.Hex(r.Bytes(hlib.Pick(r, 1, 2, 31, 33, 64, 100))))
	}
	switch r.Intn(6) {
	case 0:
		return nil
	case 1:
		return sp("")
	case 2:
		return sp(emptyKc)
	}
	return sp(hlib.Hex(crypto.Keccak256(r.Bytes(1 + r.Intn(40)))))
}
func genExit(r *hlib.Rng, noncanon bool) XExit {
	x := XExit{LT: uint8(r.Intn(2)), ON: pickU32(r), OA: pickAddr(r), DN: pickU32(r), DA: pickAddr(r), Amt: pickAmount(r), MD: pickMeta(r, noncanon)}
	if noncanon && r.Intn(4) == 0 {
		x.LT = uint8(2 + r.Intn(254))
	}
	return x
}
func genProof(r *hlib.Rng) XProof {
	p := XProof{Root: pickHash(r)}
	mode := r.Intn(3)
	for i := 0; i < 32; i++ {
		switch mode {
		case 0:
			p.Sib = append(p.Sib, hlib.Hex(r.Bytes(32)))
		case 1:
			p.Sib = append(p.Sib, pickHash(r))
		default: // mostly zero siblings (a sparse tree), a few set
			if r.Intn(6) == 0 {
				p.Sib = append(p.Sib, hlib.Hex(r.Bytes(32)))
			} else {
				p.Sib = append(p.Sib, zero32)
			}
		}
	}
	return p
}
func genImp(r *hlib.Rng, noncanon bool) XImp {
	gi := XGI{M: r.Bool(), L: pickU32(r)}
	if !gi.M || r.Intn(5) == 0 { // a set mainnet flag with a non-zero rollup index: same number on the wire and in the hash
		gi.R = pickU32(r)
	}
	mainnet := gi.M
	if r.Intn(10) == 0 {
		mainnet = !mainnet
	}
	cl := XClaim{Kind: "rollup", Leaf: XLeaf{Idx: pickU32(r), RER: pickHash(r), MER: pickHash(r), GER: pickHash(r), BH: pickHash(r), TS: pickU64(r)}}
	n := 3
	if mainnet {
		cl.Kind, n = "mainnet", 2
	}
	if r.Intn(8) == 0 {
		cl.Leaf.TS = ^uint64(0)
	}
	for i := 0; i < n; i++ {
		cl.P = append(cl.P, genProof(r))
	}
	return XImp{Exit: genExit(r, noncanon), Claim: cl, GI: gi}
}
func genKey(r *hlib.Rng) string {
	for {
		b := r.Bytes(32)
		if _, err := crypto.ToECDSA(b); err == nil {
			return hlib.Hex(b)
		}
	}
}
func genProver(r *hlib.Rng) (XAgg, string) {
	p := XAgg{Kind: "proof", Proof: hlib.Hex(r.Bytes(r.Intn(48))), Version: hlib.Hex([]byte(hlib.Pick(r, "v4.0.0-rc.3", "", "v5"))),
		Vkey: hlib.Hex(r.Bytes(hlib.Pick(r, 0, 4, 32))), Params: pickHash(r)}
	if r.Intn(6) == 0 {
		p.Params = emptyKc // the value FEPHashToSign uses when AggchainData is not a proof
	}
	for i, n := 0, r.Intn(3); i < n; i++ {
		p.Ctx = append(p.Ctx, [2]string{hlib.Hex([]byte(fmt.Sprintf("k%d", i))), hlib.Hex(r.Bytes(r.Intn(6)))})
	}
	return p, hlib.Hex(r.Bytes(hlib.Pick(r, 0, 0, 8, 33)))
}

func genCase(r *hlib.Rng, scheme string, nExits, nImp int, noncanon bool, tag string) In {
	c := XCert{Net: pickU32(r), H: pickU64(r), Prev: pickHash(r), New: pickHash(r), Meta: pickHash(r), LC: pickU32(r),
		Agg: XAgg{Kind: "none"}, Exits: []XExit{}, Imp: []XImp{}}
	if r.Intn(4) == 0 {
		c.LC = 0 // omitempty in the JSON copy
	}
	if scheme == "pp" && r.Intn(4) == 0 {
		c.Custom = hlib.Hex(r.Bytes(1 + r.Intn(12)))
	}
	for i := 0; i < nExits; i++ {
		c.Exits = append(c.Exits, genExit(r, noncanon))
	}
	for i := 0; i < nImp; i++ {
		c.Imp = append(c.Imp, genImp(r, noncanon))
	}
	in := In{Scheme: scheme, Cert: c, Key: genKey(r), Tag: tag}
	if scheme == "fep" {
		in.Prover, in.PCust = genProver(r)
	}
	in.Perts = genPerts(r, in)
	return in
}

// ---- perturbations: every covered and every not-covered field once, with a value different from the present one ----

func otherDec(r *hlib.Rng, cur *big.Int, bits int) string {
	for {
		var v *big.Int
		switch r.Intn(3) {
		case 0: // flip one bit
			v = new(big.Int).Xor(cur, new(big.Int).Lsh(one, uint(r.Intn(bits))))
		case 1:
			v = new(big.Int).Add(cur, one)
			v.Mod(v, new(big.Int).Lsh(one, uint(bits)))
		default:
			v = r.Big(bits)
		}
		if v.Cmp(cur) != 0 {
			return v.String()
		}
	}
}
func hexBig(s string) *big.Int { return new(big.Int).SetBytes(hlib.UnHex(s)) }
func u(v uint64) *big.Int      { return new(big.Int).SetUint64(v) }

func exitPerts(r *hlib.Rng, e XExit, imp bool, i int) []Pert {
	ps := []Pert{
		{K: "exit_n", Imp: imp, I: i, F: "leaf_type", V: u(uint64(1 - e.LT%2)).String()},
		{K: "exit_n", Imp: imp, I: i, F: "orig_net", V: otherDec(r, u(uint64(e.ON)), 32)},
		{K: "exit_n", Imp: imp, I: i, F: "orig_addr", V: otherDec(r, hexBig(e.OA), 160)},
		{K: "exit_n", Imp: imp, I: i, F: "dest_net", V: otherDec(r, u(uint64(e.DN)), 32)},
		{K: "exit_n", Imp: imp, I: i, F: "dest_addr", V: otherDec(r, hexBig(e.DA), 160)},
	}
	cur := big.NewInt(0)
	if e.Amt != nil {
		cur = hlib.UnDec(*e.Amt)
	}
	ps = append(ps, Pert{K: "exit_amount", Imp: imp, I: i, V: otherDec(r, cur, 256)})
	// nil <-> 0: a change of the struct that no commitment sees
	if e.Amt == nil {
		ps = append(ps, Pert{K: "exit_amount", Imp: imp, I: i, V: "0"})
	} else if cur.Sign() == 0 {
		ps = append(ps, Pert{K: "exit_amount", Imp: imp, I: i, Nil: true})
	}
	// metadata: another 32-byte value; and the nil / empty / keccak("") family (all the same commitment)
	ps = append(ps, Pert{K: "exit_meta", Imp: imp, I: i, V: hlib.Hex(crypto.Keccak256(r.Bytes(8)))})
	switch {
	case e.MD == nil:
		ps = append(ps, Pert{K: "exit_meta", Imp: imp, I: i, V: hlib.Pick(r, "", emptyKc)})
	case *e.MD == "":
		ps = append(ps, Pert{K: "exit_meta", Imp: imp, I: i, Nil: true})
	case *e.MD == emptyKc:
		ps = append(ps, Pert{K: "exit_meta", Imp: imp, I: i, Nil: true})
	default:
		ps = append(ps, Pert{K: "exit_meta", Imp: imp, I: i, Nil: true})
	}
	return ps
}

func genPerts(r *hlib.Rng, in In) []Pert {
	c := in.Cert
	ps := []Pert{
		{K: "cert_n", F: "network", V: otherDec(r, u(uint64(c.Net)), 32)},
		{K: "cert_n", F: "height", V: otherDec(r, u(c.H), 62)},
		{K: "cert_n", F: "prev_ler", V: otherDec(r, hexBig(c.Prev), 256)},
		{K: "cert_n", F: "new_ler", V: otherDec(r, hexBig(c.New), 256)},
		{K: "cert_n", F: "metadata", V: otherDec(r, hexBig(c.Meta), 256)},
		{K: "cert_n", F: "leaf_count", V: otherDec(r, u(uint64(c.LC)), 32)},
		{K: "custom", V: hlib.Hex(append(hlib.UnHex(c.Custom), byte(r.Intn(256))))},
		{K: "agg_sig", V: hlib.Hex(r.Bytes(65))},
	}
	if in.Scheme == "fep" {
		ps = append(ps, Pert{K: "agg_params", V: otherDec(r, hexBig(in.Prover.Params), 256)})
		ps = append(ps, Pert{K: "custom", V: hlib.Hex(append(hlib.UnHex(in.PCust), 7))})
	}
	if n := len(c.Exits); n > 0 {
		i := r.Intn(n)
		ps = append(ps, exitPerts(r, c.Exits[i], false, i)...)
		ps = append(ps, Pert{K: "drop_last", Imp: false})
		if n > 1 {
			ps = append(ps, Pert{K: "swap", Imp: false, I: r.Intn(n - 1)})
		}
	}
	if n := len(c.Imp); n > 0 {
		i := r.Intn(n)
		im := c.Imp[i]
		ps = append(ps, exitPerts(r, im.Exit, true, i)...)
		flag := "1"
		if im.GI.M {
			flag = "0"
		}
		ps = append(ps,
			Pert{K: "gi", I: i, F: "flag", V: flag},
			Pert{K: "gi", I: i, F: "rollup", V: otherDec(r, u(uint64(im.GI.R)), 32)}, // invisible when the mainnet flag is set
			Pert{K: "gi", I: i, F: "leaf", V: otherDec(r, u(uint64(im.GI.L)), 32)},
			Pert{K: "claim_kind", I: i},
		)
		for j, p := range im.Claim.P {
			n := r.Intn(32)
			if r.Intn(4) == 0 {
				n = hlib.Pick(r, 0, 31)
			}
			ps = append(ps,
				Pert{K: "proof_root", I: i, J: j, V: otherDec(r, hexBig(p.Root), 256)},
				Pert{K: "proof_sib", I: i, J: j, N: n, V: otherDec(r, hexBig(p.Sib[n]), 256)})
		}
		l := im.Claim.Leaf
		ps = append(ps,
			Pert{K: "l1", I: i, F: "index", V: otherDec(r, u(uint64(l.Idx)), 32)},
			Pert{K: "l1", I: i, F: "rer", V: otherDec(r, hexBig(l.RER), 256)},
			Pert{K: "l1", I: i, F: "mer", V: otherDec(r, hexBig(l.MER), 256)},
			Pert{K: "l1", I: i, F: "ger", V: otherDec(r, hexBig(l.GER), 256)},
			Pert{K: "l1", I: i, F: "block_hash", V: otherDec(r, hexBig(l.BH), 256)},
			Pert{K: "l1", I: i, F: "timestamp", V: otherDec(r, u(l.TS), 64)},
			Pert{K: "drop_last", Imp: true},
		)
		if n > 1 {
			ps = append(ps, Pert{K: "swap", Imp: true, I: r.Intn(n - 1)})
		}
	}
	return ps
}

// ---- boundary certificates, then random ones ----

func boundary(r *hlib.Rng) []In {
	var ins []In
	for _, scheme := range []string{"pp", "fep"} {
		// empty certificate
		ins = append(ins, genCase(r, scheme, 0, 0, false, "empty"))
		// every numeric field at its maximum, nil / 0 / 2^256-1 amounts, nil / empty / 32-byte metadata, both claim kinds
		in := genCase(r, scheme, 3, 2, false, "extremes")
		c := &in.Cert
		c.Net, c.H, c.LC, c.Prev, c.New, c.Meta = 1<<32-1, ^uint64(0), 1<<32-1, ff32, ff32, ff32
		c.Exits[0].Amt, c.Exits[0].MD = nil, nil
		c.Exits[1].Amt, c.Exits[1].MD = sp("0"), sp("")
		c.Exits[2].Amt, c.Exits[2].MD = sp(max256.String()), sp(ff32)
		c.Exits[2].ON, c.Exits[2].DN, c.Exits[2].OA, c.Exits[2].DA, c.Exits[2].LT = 1<<32-1, 1<<32-1, hlib.Hex(max160.Bytes()), hlib.Hex(max160.Bytes()), 1
		c.Imp[0].GI = XGI{M: true, R: 0, L: 1<<32 - 1}
		c.Imp[0].Exit.Amt = nil
		c.Imp[1].GI = XGI{M: false, R: 1<<32 - 1, L: 1<<32 - 1}
		c.Imp[1].Exit.Amt = sp(max256.String())
		in.Perts = genPerts(r, in)
		ins = append(ins, in)
		// all-zero certificate
		z := genCase(r, scheme, 1, 1, false, "zeros")
		zc := &z.Cert
		zc.Net, zc.H, zc.LC, zc.Prev, zc.New, zc.Meta = 0, 0, 0, zero32, zero32, zero32
		zc.Exits[0] = XExit{OA: hlib.Hex(make([]byte, 20)), DA: hlib.Hex(make([]byte, 20)), Amt: sp("0")}
		zc.Imp[0].Exit = zc.Exits[0]
		zc.Imp[0].GI = XGI{}
		z.Perts = genPerts(r, z)
		ins = append(ins, z)
		// only exits / only imported exits, five of each
		ins = append(ins, genCase(r, scheme, 5, 0, false, "exits_only"), genCase(r, scheme, 0, 5, false, "imported_only"))
	}
	return ins
}

func gen(f *hlib.Flags) []In {
	r := hlib.NewRng(f.Seed)
	ins := boundary(r)
	for i := 0; i < f.N; i++ {
		scheme := "pp"
		if i%2 == 1 {
			scheme = "fep"
		}
		noncanon := i%5 == 4 // separate malformed stream: metadata of other lengths, leaf types >= 2
		tag := "random"
		if noncanon {
			tag = "noncanonical"
		}
		ins = append(ins, genCase(r, scheme, r.Intn(6), r.Intn(6), noncanon, tag))
	}
	// the prover's answer with EMPTY proof bytes (a mock / optimistic prover): the stored copy still has to read back as an aggchain
	// proof with its parameters. A separate random stream: the cases above are what they were.
	r2 := hlib.NewRng(f.Seed ^ 0xc10e)
	for k := 0; k < 2; k++ {
		in := genCase(r2, "fep", 1+k, k, false, "empty-proof-bytes")
		in.Prover.Proof = ""
		in.Perts = genPerts(r2, in)
		ins = append(ins, in)
	}
	return ins
}
