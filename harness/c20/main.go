// C20 harness: runs the REAL (*Claim).setClaimCalldata (findCall, tryDecodeClaimCalldata, decode*Calldata) on
// generated debug_traceTransaction call trees served by a fake RPC client. Inputs of claim frames are real
// ABI-packed claimAsset/claimMessage calldata of both contract generations (the repo's own bindings).
package main

import (
	"context"
	"encoding/json"
	"errors"
	"fmt"
	"math/big"
	"strings"

	"github.com/0xPolygon/cdk-contracts-tooling/contracts/fep/etrog/polygonzkevmbridge"
	"github.com/0xPolygon/cdk-contracts-tooling/contracts/pp/l2-sovereign-chain/polygonzkevmbridgev2"
	"github.com/agglayer/aggkit/bridgesync"
	"github.com/agglayer/aggkit/db"
	aggkitlog "github.com/agglayer/aggkit/log"
	aggsync "github.com/agglayer/aggkit/sync"
	aggkittypes "github.com/agglayer/aggkit/types"
	"github.com/ethereum/go-ethereum"
	"github.com/ethereum/go-ethereum/accounts/abi"
	"github.com/ethereum/go-ethereum/common"
	"github.com/ethereum/go-ethereum/core/types"
	"github.com/ethereum/go-ethereum/crypto"

	"verifharness/hlib"
)

// ---------------------------------------------------------------------------------------------------------
// case format
// ---------------------------------------------------------------------------------------------------------

// ProofSpec: 32 siblings; either base+i*step (mod 2^256) or an explicit list of 32 hashes (hex, big-endian value).
type ProofSpec struct {
	B string   `json:"b,omitempty"`
	S string   `json:"s,omitempty"`
	L []string `json:"l,omitempty"`
}

type InputSpec struct {
	T      string     `json:"t"`             // "claim" (ABI-packed by the harness) | "raw" (bytes as given)
	Gen    string     `json:"gen,omitempty"` // "etrog" | "pre": which bindings pack it
	Msg    bool       `json:"msg,omitempty"` // claimMessage instead of claimAsset
	GI     string     `json:"gi,omitempty"`  // decimal; pre-Etrog: < 2^32
	PLER   *ProofSpec `json:"pler,omitempty"`
	PRER   *ProofSpec `json:"prer,omitempty"`
	MER    string     `json:"mer,omitempty"`
	RER    string     `json:"rer,omitempty"`
	ONet   uint32     `json:"onet,omitempty"`
	OAddr  string     `json:"oaddr,omitempty"`
	DNet   uint32     `json:"dnet,omitempty"`
	DAddr  string     `json:"daddr,omitempty"`
	Amount string     `json:"amount,omitempty"`
	Meta   string     `json:"meta,omitempty"`
	XSel   string     `json:"xsel,omitempty"` // malformed stream: overwrite the 4 selector bytes after packing
	Hex    string     `json:"hex,omitempty"`  // raw bytes
	// "mut": Base (a claim) is ABI-packed, then the byte-level mutations are applied in order (ABI boundary stream)
	Base *InputSpec `json:"base,omitempty"`
	Muts []Mut      `json:"muts,omitempty"`
	// annotations written by the harness (ignored on input)
	Sel string  `json:"sel,omitempty"` // first 4 bytes actually put on the wire ("" when shorter)
	Dec *bool   `json:"dec,omitempty"` // go-ethereum unpacks these bytes under the ABI the selector belongs to
	Raw *string `json:"raw,omitempty"` // the bytes on the wire (hex), given for frames addressed to the bridge
	// Eff: for a "mut" input that go-ethereum still unpacks: what go-ethereum itself (UnpackIntoMap, fields taken BY ARGUMENT
	// NAME, independent of the code under test) reads from the mutated bytes, as a claim description
	Eff *InputSpec `json:"eff,omitempty"`
}

// Mut is one byte-level mutation of packed calldata. Positions count from the first byte AFTER the selector.
type Mut struct {
	K   string `json:"k"`             // "trunc" (keep N bytes after the selector) | "word" (overwrite 32 bytes at Pos) | "append" | "byte" (xor one byte)
	N   int    `json:"n,omitempty"`   // trunc: bytes kept
	Pos int    `json:"pos,omitempty"` // word / byte: offset
	Val string `json:"val,omitempty"` // word: 32 bytes hex; append: bytes hex; byte: xor mask (1 byte hex)
}

type Node struct {
	From  string    `json:"from"`
	To    string    `json:"to"`
	Err   *string   `json:"err"` // nil = no "error" member in the trace frame
	In    InputSpec `json:"in"`
	Calls []*Node   `json:"calls,omitempty"`
}

type ClaimSpec struct {
	BlockNum uint64    `json:"block_num"`
	BlockPos uint64    `json:"block_pos"`
	ONet     uint32    `json:"onet"`
	OAddr    string    `json:"oaddr"`
	DAddr    string    `json:"daddr"`
	Amount   string    `json:"amount"`
	BlockTs  uint64    `json:"block_ts"`
	From     string    `json:"from"`
	PLER     ProofSpec `json:"pler"`
	PRER     ProofSpec `json:"prer"`
	MER      string    `json:"mer"`
	RER      string    `json:"rer"`
	GER      string    `json:"ger"`
	DNet     uint32    `json:"dnet"`
	Meta     string    `json:"meta"`
	Msg      bool      `json:"msg"`
	NilMeta  bool      `json:"nil_meta,omitempty"`
}

type In struct {
	Kind   string    `json:"kind"` // "tree" (inside the property's quantifier) | "malformed" | "rpcfail"
	Class  string    `json:"class,omitempty"`
	Bridge string    `json:"bridge"`
	GI     string    `json:"gi"` // the claim event's global index (decimal)
	TxHash string    `json:"tx_hash"`
	Claim0 ClaimSpec `json:"claim0"`
	Root   *Node     `json:"root,omitempty"`
}

type ObsClaim struct {
	GI   string   `json:"gi"`
	Rest []string `json:"rest"` // BlockNum, BlockPos, TxHash, OriginNetwork, OriginAddress, DestinationAddress, Amount, BlockTimestamp
	From string   `json:"from"`
	PLER []string `json:"pler"`
	PRER []string `json:"prer"`
	MER  string   `json:"mer"`
	RER  string   `json:"rer"`
	GER  string   `json:"ger"`
	DNet uint32   `json:"dnet"`
	Meta string   `json:"meta"`
	Msg  bool     `json:"msg"`
}

// ViaLog: the same claim obtained through the REAL log appender of the bridge syncer (bridgesync.buildAppender, syncFullClaims = true):
// a ClaimEvent log carrying claim0's event fields goes in, the appender parses it, calls setClaimCalldata with the same trace and
// appends the Claim. Only for claim0 shapes that a handler can produce (From = log address: Etrog handler; From = 0: pre-Etrog).
type ViaLog struct {
	Pre   bool     `json:"pre"`   // pre-Etrog event (uint32 index) and handler
	Data  string   `json:"data"`  // the log's data (hex): what the Gallina event decoder reads
	Err   string   `json:"err"`   // error class of the appender call
	Claim ObsClaim `json:"claim"` // the Claim the appender appended (zero value when it returned an error)
	Agree bool     `json:"agree"` // same error class and, on success, the same Claim as the direct call (fields a handler does not set: zero)
}

type Out struct {
	ViaLog *ViaLog  `json:"via_log,omitempty"`
	In     In       `json:"in"`
	Err    string   `json:"err"` // "" | notfound | root_reverted | short | selector | unpack | rpc | other | panic
	ErrMsg string   `json:"err_msg,omitempty"`
	Claim0 ObsClaim `json:"claim0"`
	Claim  ObsClaim `json:"claim"`
	// shape, for the evidence only (computed by a plain walk of the input tree)
	Frames     int `json:"frames"`
	Depth      int `json:"depth"`
	Reverted   int `json:"reverted"`
	LiveBridge int `json:"live_bridge"` // bridge-addressed frames with a live path
	LiveMatch  int `json:"live_match"`  // ... of which packed claims carrying the event's global index
	DeadMatch  int `json:"dead_match"`  // matching claims to the bridge that are reverted / under a reverted frame
}

// ---------------------------------------------------------------------------------------------------------
// helpers
// ---------------------------------------------------------------------------------------------------------

var two256 = new(big.Int).Lsh(big.NewInt(1), 256)

func hexBig(s string) *big.Int {
	if s == "" {
		return new(big.Int)
	}
	v, ok := new(big.Int).SetString(s, 16)
	if !ok {
		panic("bad hex number " + s)
	}
	return v
}
func h32(s string) (r [32]byte) { hexBig(s).Mod(hexBig(s), two256).FillBytes(r[:]); return }
func addrOf(s string) common.Address {
	return common.BigToAddress(hexBig(s))
}
func bigHex(v *big.Int) string    { return v.Text(16) }
func bytesHexNum(b []byte) string { return new(big.Int).SetBytes(b).Text(16) }

func (p *ProofSpec) expand() (r [32][32]byte) {
	if p == nil {
		return
	}
	if len(p.L) > 0 {
		if len(p.L) != 32 {
			panic("explicit proof needs 32 hashes")
		}
		for i := range r {
			r[i] = h32(p.L[i])
		}
		return
	}
	b, s := hexBig(p.B), hexBig(p.S)
	for i := range r {
		v := new(big.Int).Mul(s, big.NewInt(int64(i)))
		v.Add(v, b).Mod(v, two256)
		v.FillBytes(r[i][:])
	}
	return
}

var (
	abiEtrog *abi.ABI
	abiPre   *abi.ABI
	selAE    = common.Hex2Bytes("ccaa2d11")
	selME    = common.Hex2Bytes("f5efcd79")
	selAP    = common.Hex2Bytes("2cffd02e")
	selMP    = common.Hex2Bytes("2d2c9d94")
)

func init() {
	var err error
	if abiEtrog, err = polygonzkevmbridgev2.Polygonzkevmbridgev2MetaData.GetAbi(); err != nil {
		panic(err)
	}
	if abiPre, err = polygonzkevmbridge.PolygonzkevmbridgeMetaData.GetAbi(); err != nil {
		panic(err)
	}
}

// pack builds the bytes of a frame's input.
func (s *InputSpec) pack() []byte {
	if s.T == "mut" {
		b := s.Base.pack()
		for _, m := range s.Muts {
			switch m.K {
			case "trunc":
				if 4+m.N < len(b) {
					b = b[:4+m.N]
				}
			case "word":
				v := hlib.UnHex(m.Val)
				if len(v) != 32 {
					panic("word mutation needs 32 bytes")
				}
				if 4+m.Pos+32 <= len(b) {
					copy(b[4+m.Pos:], v)
				}
			case "byte":
				if 4+m.Pos < len(b) {
					b[4+m.Pos] ^= hlib.UnHex(m.Val)[0]
				}
			case "append":
				b = append(b, hlib.UnHex(m.Val)...)
			default:
				panic("unknown mutation " + m.K)
			}
		}
		return b
	}
	if s.T != "claim" {
		return hlib.UnHex(s.Hex)
	}
	name := "claimAsset"
	if s.Msg {
		name = "claimMessage"
	}
	amount := hlib.UnDec(orZero(s.Amount))
	var out []byte
	var err error
	switch s.Gen {
	case "etrog":
		out, err = abiEtrog.Pack(name, s.PLER.expand(), s.PRER.expand(), hlib.UnDec(s.GI), h32(s.MER), h32(s.RER),
			s.ONet, addrOf(s.OAddr), s.DNet, addrOf(s.DAddr), amount, hlib.UnHex(s.Meta))
	case "pre":
		gi := hlib.UnDec(s.GI)
		if gi.BitLen() > 32 {
			panic("pre-Etrog index does not fit uint32: " + s.GI)
		}
		out, err = abiPre.Pack(name, s.PLER.expand(), uint32(gi.Uint64()), h32(s.MER), h32(s.RER),
			s.ONet, addrOf(s.OAddr), s.DNet, addrOf(s.DAddr), amount, hlib.UnHex(s.Meta))
	default:
		panic("unknown generation " + s.Gen)
	}
	if err != nil {
		panic(fmt.Sprintf("abi pack: %v", err))
	}
	if s.XSel != "" {
		x := hlib.UnHex(s.XSel)
		if len(x) != 4 {
			panic("xsel must be 4 bytes")
		}
		copy(out[:4], x)
	}
	return out
}

func orZero(s string) string {
	if s == "" {
		return "0"
	}
	return s
}

// family tells which ABI a selector belongs to ("" = none of the four claim selectors).
func family(sel []byte) string {
	switch {
	case string(sel) == string(selAE), string(sel) == string(selME):
		return "etrog"
	case string(sel) == string(selAP), string(sel) == string(selMP):
		return "pre"
	}
	return ""
}

// unpacks: independent of the code under test, straight go-ethereum: do these bytes unpack under the ABI of their selector?
func unpacks(b []byte) bool {
	if len(b) < 4 {
		return false
	}
	var a *abi.ABI
	switch family(b[:4]) {
	case "etrog":
		a = abiEtrog
	case "pre":
		a = abiPre
	default:
		return false
	}
	m, err := a.MethodById(b[:4])
	if err != nil {
		return false
	}
	_, err = m.Inputs.Unpack(b[4:])
	return err == nil
}

// annotate packs every frame's input, records selector / decodability and checks that the description of the
// input (which the Coq side relies on) agrees with what go-ethereum does with the bytes.
func annotate(n *Node, wire map[*Node][]byte, bridge common.Address) {
	b := n.In.pack()
	wire[n] = b
	n.In.Sel = ""
	if len(b) >= 4 {
		n.In.Sel = hlib.Hex(b[:4])
	}
	d := unpacks(b)
	n.In.Dec = &d
	n.In.Raw, n.In.Eff = nil, nil
	if addrOf(n.To) == bridge {
		h := hlib.Hex(b)
		n.In.Raw = &h
	}
	if n.In.T == "mut" {
		if d {
			n.In.Eff = effective(b)
		}
	} else {
		want := false
		if n.In.T == "claim" {
			want = n.In.XSel == "" || family(hlib.UnHex(n.In.XSel)) == n.In.Gen
		}
		if d != want {
			panic(fmt.Sprintf("ambiguous input description: t=%s gen=%s xsel=%s sel=%s unpacks=%v", n.In.T, n.In.Gen, n.In.XSel, n.In.Sel, d))
		}
	}
	for _, c := range n.Calls {
		annotate(c, wire, bridge)
	}
}

// effective reads a decodable claim input with go-ethereum alone, BY ARGUMENT NAME (UnpackIntoMap): the independent
// description of mutated calldata that the property predicate is evaluated against.
func effective(b []byte) *InputSpec {
	fam := family(b[:4])
	a := abiEtrog
	if fam == "pre" {
		a = abiPre
	}
	m, err := a.MethodById(b[:4])
	if err != nil {
		panic(err)
	}
	vals := map[string]any{}
	if err := m.Inputs.UnpackIntoMap(vals, b[4:]); err != nil {
		panic(err)
	}
	proofOf := func(v any) *ProofSpec {
		arr := v.([32][32]byte)
		p := &ProofSpec{}
		for i := range arr {
			p.L = append(p.L, bytesHexNum(arr[i][:]))
		}
		return p
	}
	h := func(v any) string { x := v.([32]byte); return bytesHexNum(x[:]) }
	e := &InputSpec{T: "claim", Gen: fam, Msg: m.Name == "claimMessage", MER: h(vals["mainnetExitRoot"]), RER: h(vals["rollupExitRoot"]),
		DNet: vals["destinationNetwork"].(uint32), Meta: hlib.Hex(vals["metadata"].([]byte))}
	if fam == "etrog" {
		e.GI = vals["globalIndex"].(*big.Int).String()
		e.PLER, e.PRER = proofOf(vals["smtProofLocalExitRoot"]), proofOf(vals["smtProofRollupExitRoot"])
	} else {
		e.GI = fmt.Sprint(vals["index"].(uint32))
		e.PLER = proofOf(vals["smtProof"])
	}
	return e
}

// the frame as geth's callTracer prints it
type frameJSON struct {
	Type    string       `json:"type"`
	From    string       `json:"from"`
	To      string       `json:"to"`
	Value   string       `json:"value"`
	Gas     string       `json:"gas"`
	GasUsed string       `json:"gasUsed"`
	Input   string       `json:"input"`
	Output  string       `json:"output,omitempty"`
	Error   *string      `json:"error,omitempty"`
	Calls   []*frameJSON `json:"calls,omitempty"`
}

func toFrame(n *Node, wire map[*Node][]byte) *frameJSON {
	f := &frameJSON{Type: "CALL", From: addrOf(n.From).Hex(), To: addrOf(n.To).Hex(), Value: "0x0", Gas: "0x7a120",
		GasUsed: "0x5208", Input: "0x" + hlib.Hex(wire[n]), Error: n.Err}
	for _, c := range n.Calls {
		f.Calls = append(f.Calls, toFrame(c, wire))
	}
	return f
}

var errFakeRPC = errors.New("fake rpc: connection refused")

type fakeRPC struct {
	raw    []byte
	fail   bool
	txHash common.Hash
	calls  int
}

func (f *fakeRPC) Call(result any, method string, args ...any) error {
	f.calls++
	if f.fail {
		return errFakeRPC
	}
	if method != "debug_traceTransaction" || len(args) != 2 {
		return fmt.Errorf("fake rpc: unexpected request %s/%d", method, len(args))
	}
	if h, ok := args[0].(common.Hash); !ok || h != f.txHash {
		return fmt.Errorf("fake rpc: unexpected tx hash")
	}
	if cfg, _ := json.Marshal(args[1]); string(cfg) != `{"tracer":"callTracer"}` {
		return fmt.Errorf("fake rpc: unexpected tracer config %s", cfg)
	}
	return json.Unmarshal(f.raw, result)
}

func buildClaim(in In) *bridgesync.Claim {
	s := in.Claim0
	c := &bridgesync.Claim{
		BlockNum: s.BlockNum, BlockPos: s.BlockPos, TxHash: common.BigToHash(hexBig(in.TxHash)),
		GlobalIndex: hlib.UnDec(in.GI), OriginNetwork: s.ONet, OriginAddress: addrOf(s.OAddr),
		DestinationAddress: addrOf(s.DAddr), Amount: hlib.UnDec(orZero(s.Amount)), BlockTimestamp: s.BlockTs,
		FromAddress: addrOf(s.From), MainnetExitRoot: h32(s.MER), RollupExitRoot: h32(s.RER), GlobalExitRoot: h32(s.GER),
		DestinationNetwork: s.DNet, IsMessage: s.Msg,
	}
	pl, pr := s.PLER.expand(), s.PRER.expand()
	for i := 0; i < 32; i++ {
		c.ProofLocalExitRoot[i] = pl[i]
		c.ProofRollupExitRoot[i] = pr[i]
	}
	if !s.NilMeta {
		c.Metadata = hlib.UnHex(s.Meta)
	}
	return c
}

func dump(c *bridgesync.Claim) ObsClaim {
	o := ObsClaim{GI: hlib.Dec(c.GlobalIndex), From: bytesHexNum(c.FromAddress[:]), MER: bytesHexNum(c.MainnetExitRoot[:]),
		RER: bytesHexNum(c.RollupExitRoot[:]), GER: bytesHexNum(c.GlobalExitRoot[:]), DNet: c.DestinationNetwork,
		Meta: hlib.Hex(c.Metadata), Msg: c.IsMessage}
	amount := "0"
	if c.Amount != nil {
		amount = c.Amount.Text(16)
	}
	o.Rest = []string{fmt.Sprintf("%x", c.BlockNum), fmt.Sprintf("%x", c.BlockPos), bytesHexNum(c.TxHash[:]),
		fmt.Sprintf("%x", c.OriginNetwork), bytesHexNum(c.OriginAddress[:]), bytesHexNum(c.DestinationAddress[:]),
		amount, fmt.Sprintf("%x", c.BlockTimestamp)}
	for i := 0; i < 32; i++ {
		o.PLER = append(o.PLER, bytesHexNum(c.ProofLocalExitRoot[i][:]))
		o.PRER = append(o.PRER, bytesHexNum(c.ProofRollupExitRoot[i][:]))
	}
	return o
}

func classifyErr(err error) (string, string) {
	if err == nil {
		return "", ""
	}
	msg := err.Error()
	switch {
	case errors.Is(err, db.ErrNotFound):
		return "notfound", ""
	case errors.Is(err, errFakeRPC):
		return "rpc", ""
	case strings.HasPrefix(msg, "root call reverted"):
		return "root_reverted", ""
	case strings.HasPrefix(msg, "input too short"):
		return "short", ""
	case strings.HasPrefix(msg, "unrecognized method ID"):
		return "selector", ""
	case strings.HasPrefix(msg, "abi:"), strings.Contains(msg, "length insufficient"):
		return "unpack", msg
	}
	return "other", msg
}

type shape struct{ frames, depth, reverted, liveBridge, liveMatch, deadMatch int }

func walk(n *Node, in *In, depth int, live bool, sh *shape) {
	sh.frames++
	if depth > sh.depth {
		sh.depth = depth
	}
	if n.Err != nil {
		sh.reverted++
		live = false
	}
	toBridge := addrOf(n.To) == addrOf(in.Bridge)
	desc := &n.In
	if n.In.T == "mut" && n.In.Eff != nil {
		desc = n.In.Eff
	}
	match := toBridge && desc.T == "claim" && n.In.Dec != nil && *n.In.Dec && hlib.UnDec(desc.GI).Cmp(hlib.UnDec(in.GI)) == 0
	if toBridge && live {
		sh.liveBridge++
	}
	if match && live {
		sh.liveMatch++
	}
	if match && !live {
		sh.deadMatch++
	}
	for _, c := range n.Calls {
		walk(c, in, depth+1, live, sh)
	}
}

var quietLog *aggkitlog.Logger

func run(in In) (o Out) {
	wire := map[*Node][]byte{}
	var raw []byte
	if in.Root != nil {
		annotate(in.Root, wire, addrOf(in.Bridge))
		var err error
		if raw, err = json.Marshal(toFrame(in.Root, wire)); err != nil {
			panic(err)
		}
		sh := &shape{}
		walk(in.Root, &in, 1, true, sh)
		o.Frames, o.Depth, o.Reverted, o.LiveBridge, o.LiveMatch, o.DeadMatch = sh.frames, sh.depth, sh.reverted, sh.liveBridge, sh.liveMatch, sh.deadMatch
	}
	o.In = in
	claim := buildClaim(in)
	o.Claim0 = dump(claim)
	client := &fakeRPC{raw: raw, fail: in.Kind == "rpcfail" || in.Root == nil, txHash: common.BigToHash(hexBig(in.TxHash))}
	func() {
		defer func() {
			if r := recover(); r != nil {
				o.Err, o.ErrMsg = "panic", fmt.Sprint(r)
			}
		}()
		err := bridgesync.VerifC20SetClaimCalldata(client, addrOf(in.Bridge), client.txHash, claim, quietLog)
		o.Err, o.ErrMsg = classifyErr(err)
	}()
	o.Claim = dump(claim)
	o.ViaLog = viaLog(in, raw, &o)
	return o
}

var (
	claimSigEtrog = crypto.Keccak256Hash([]byte("ClaimEvent(uint256,uint32,address,address,uint256)"))
	claimSigPre   = crypto.Keccak256Hash([]byte("ClaimEvent(uint32,uint32,address,address,uint256)"))
)

// zeroBackend: what the contract bindings need to be constructed and what buildAppender asks once (gasTokenAddress() = 0)
type zeroBackend struct {
	aggkittypes.BaseEthereumClienter
}

func (zeroBackend) CallContract(context.Context, ethereum.CallMsg, *big.Int) ([]byte, error) {
	return make([]byte, 32), nil
}
func (zeroBackend) CodeAt(context.Context, common.Address, *big.Int) ([]byte, error) {
	return []byte{0x60}, nil
}

func viaLog(in In, raw []byte, direct *Out) *ViaLog {
	s := in.Claim0
	pre := false
	switch {
	case addrOf(s.From) == addrOf(in.Bridge):
	case hexBig(s.From).Sign() == 0:
		pre = true
	default:
		return nil
	}
	gi := hlib.UnDec(in.GI)
	if pre && gi.BitLen() > 32 {
		return nil
	}
	if s.PLER.B != "0" && s.PLER.B != "" || len(s.PLER.L) > 0 || !s.NilMeta { // claim0 already carries details: not a handler's output
		return nil
	}
	bridge := addrOf(in.Bridge)
	client := &fakeRPC{raw: raw, fail: in.Kind == "rpcfail" || in.Root == nil, txHash: common.BigToHash(hexBig(in.TxHash))}
	v2, err := polygonzkevmbridgev2.NewPolygonzkevmbridgev2(bridge, zeroBackend{})
	if err != nil {
		panic(err)
	}
	app, err := bridgesync.VerifBuildAppender(aggkittypes.NewDefaultEthClient(zeroBackend{}, client), bridge, true, v2, quietLog)
	if err != nil {
		panic(err)
	}
	var data []byte
	sig := claimSigEtrog
	if pre {
		sig = claimSigPre
		data, err = abiPre.Events["ClaimEvent"].Inputs.NonIndexed().Pack(uint32(gi.Uint64()), s.ONet, addrOf(s.OAddr), addrOf(s.DAddr), hlib.UnDec(orZero(s.Amount)))
	} else {
		data, err = abiEtrog.Events["ClaimEvent"].Inputs.NonIndexed().Pack(gi, s.ONet, addrOf(s.OAddr), addrOf(s.DAddr), hlib.UnDec(orZero(s.Amount)))
	}
	if err != nil {
		panic(err)
	}
	lg := types.Log{Address: bridge, Topics: []common.Hash{sig}, Data: data, BlockNumber: s.BlockNum, TxHash: client.txHash, Index: uint(s.BlockPos)}
	blk := &aggsync.EVMBlock{EVMBlockHeader: aggsync.EVMBlockHeader{Num: s.BlockNum, Timestamp: s.BlockTs}}
	v := &ViaLog{Pre: pre, Data: hlib.Hex(data)}
	func() {
		defer func() {
			if r := recover(); r != nil {
				v.Err = "panic"
			}
		}()
		v.Err, _ = classifyErr(app[sig](blk, lg))
	}()
	want := direct.Claim
	if v.Err == "" && len(blk.Events) == 1 {
		if ev, ok := blk.Events[0].(bridgesync.Event); ok && ev.Claim != nil {
			v.Claim = dump(ev.Claim)
		}
		if pre { // the pre-Etrog handler sets neither TxHash nor BlockTimestamp
			want.Rest = append([]string{}, want.Rest...)
			want.Rest[2], want.Rest[7] = "0", "0"
		}
		v.Agree = direct.Err == "" && fmt.Sprint(v.Claim) == fmt.Sprint(want)
	} else {
		v.Agree = v.Err == direct.Err && len(blk.Events) == 0
	}
	return v
}

// ---------------------------------------------------------------------------------------------------------
// generator
// ---------------------------------------------------------------------------------------------------------

type gctx struct {
	rng        *hlib.Rng
	bridge     string
	others     []string
	gis        []*big.Int // gis[0] = the event's global index
	budget     int
	maxDepth   int
	deep       bool
	pBridge    int // percent
	pErr       int
	pMatch     int
	richProofs bool
}

func smallOrFull(r *hlib.Rng, n int) string {
	switch r.Intn(4) {
	case 0:
		return fmt.Sprintf("%x", r.Intn(256))
	case 1:
		return fmt.Sprintf("%x", 1+r.Intn(1<<16))
	default:
		return bytesHexNum(r.Bytes(n))
	}
}

func (g *gctx) proof() *ProofSpec {
	r := g.rng
	if g.richProofs && r.Intn(6) == 0 {
		p := &ProofSpec{}
		for i := 0; i < 32; i++ {
			p.L = append(p.L, smallOrFull(r, 32))
		}
		return p
	}
	p := &ProofSpec{B: smallOrFull(r, 32)}
	switch r.Intn(4) {
	case 0:
		p.S = "0"
	case 1:
		p.S = "1"
	case 2:
		p.S = fmt.Sprintf("%x", 1+r.Intn(1000))
	default:
		p.S = smallOrFull(r, 32)
	}
	return p
}

func (g *gctx) meta() string {
	r := g.rng
	switch r.Intn(5) {
	case 0:
		return ""
	case 1:
		return hlib.Hex(r.Bytes(1 + r.Intn(4)))
	case 2:
		return hlib.Hex(r.Bytes(32))
	default:
		return hlib.Hex(r.Bytes(1 + r.Intn(96)))
	}
}

func (g *gctx) claimInput(match bool) InputSpec {
	r := g.rng
	s := InputSpec{T: "claim", Msg: r.Bool(), MER: smallOrFull(r, 32), RER: smallOrFull(r, 32), ONet: uint32(r.Intn(5)),
		OAddr: smallOrFull(r, 20), DNet: uint32(r.Intn(1 << 16)), DAddr: smallOrFull(r, 20), Amount: r.Big(1 + r.Intn(128)).String(), Meta: g.meta()}
	if r.Intn(8) == 0 {
		s.DNet = r.U32()
	}
	gi := g.gis[0]
	if !match {
		gi = g.gis[1+r.Intn(len(g.gis)-1)]
	}
	s.Gen = "etrog"
	if r.Intn(5) < 2 {
		s.Gen = "pre"
	}
	if s.Gen == "pre" && gi.BitLen() > 32 {
		if match {
			s.Gen = "etrog" // a pre-Etrog call cannot carry this index
		} else {
			gi = new(big.Int).And(gi, big.NewInt(0xffffffff)) // near miss: same low 32 bits
		}
	}
	if !match && gi.Cmp(g.gis[0]) == 0 {
		gi = new(big.Int).Xor(gi, big.NewInt(1))
	}
	s.PLER = g.proof()
	if s.Gen == "etrog" {
		s.PRER = g.proof()
	}
	s.GI = gi.String()
	return s
}

func (g *gctx) rawInput() InputSpec {
	r := g.rng
	switch r.Intn(6) {
	case 0:
		return InputSpec{T: "raw", Hex: ""}
	case 1:
		return InputSpec{T: "raw", Hex: hlib.Hex(r.Bytes(1 + r.Intn(3)))}
	case 2: // ERC20 transfer-like
		return InputSpec{T: "raw", Hex: "a9059cbb" + hlib.Hex(r.Bytes(64))}
	case 3: // bridgeAsset selector + bytes
		return InputSpec{T: "raw", Hex: "cd586579" + hlib.Hex(r.Bytes(32*r.Intn(8)))}
	default:
		b := r.Bytes(4 + r.Intn(100))
		if family(b[:4]) != "" {
			b[0] ^= 0x55
		}
		return InputSpec{T: "raw", Hex: hlib.Hex(b)}
	}
}

// malformedInput: bytes a bridge frame cannot be decoded from (outside the property's quantifier).
func (g *gctx) malformedInput() InputSpec {
	r := g.rng
	switch r.Intn(5) {
	case 0: // shorter than a selector
		return InputSpec{T: "raw", Hex: hlib.Hex(r.Bytes(r.Intn(4)))}
	case 1: // unknown selector
		return g.rawInput()
	case 2: // claim selector + too few bytes
		sel := hlib.Pick(r, selAE, selME, selAP, selMP)
		return InputSpec{T: "raw", Hex: hlib.Hex(sel) + hlib.Hex(r.Bytes(r.Intn(1200)))}
	case 3: // well-formed claim, selector of the other generation
		for {
			s := g.claimInput(r.Bool())
			if s.Gen == "etrog" {
				s.XSel = hlib.Hex(hlib.Pick(r, selAP, selMP))
			} else {
				s.XSel = hlib.Hex(hlib.Pick(r, selAE, selME))
			}
			if !unpacks(s.pack()) {
				return s
			}
		}
	default: // well-formed claim, selector of another bridge method
		s := g.claimInput(r.Bool())
		s.XSel = hlib.Pick(r, "cd586579", "240ff378", "00000000", "ccaa2d12")
		return s
	}
}

func (g *gctx) pickOther() string { return g.others[g.rng.Intn(len(g.others))] }

func (g *gctx) node(depth int, parentTo string) *Node {
	r := g.rng
	n := &Node{From: parentTo}
	if r.Intn(100) < 12 {
		n.From = g.pickOther()
	}
	if r.Intn(100) < g.pBridge {
		n.To = g.bridge
	} else {
		n.To = g.pickOther()
	}
	if r.Intn(100) < g.pErr {
		e := hlib.Pick(r, "execution reverted", "out of gas", "", "invalid opcode: INVALID")
		n.Err = &e
	}
	if addrOf(n.To) == addrOf(g.bridge) {
		n.In = g.claimInput(r.Intn(100) < g.pMatch)
	} else if r.Intn(100) < 30 {
		n.In = g.claimInput(r.Intn(100) < 50) // claim-like input sent somewhere else
	} else {
		n.In = g.rawInput()
	}
	if depth < g.maxDepth {
		k := r.Intn(5) // 0..4
		if depth == 1 {
			k = 1 + r.Intn(4)
		} else if depth >= 3 && r.Intn(2) == 0 {
			k = r.Intn(2)
		}
		if g.deep && k == 0 {
			k = 1
		}
		for i := 0; i < k && g.budget > 0; i++ {
			g.budget--
			n.Calls = append(n.Calls, g.node(depth+1, n.To))
		}
	}
	return n
}

type located struct {
	n     *Node
	path  []*Node // ancestors, root first
	depth int
}

func flatten(n *Node, path []*Node, acc *[]located) {
	*acc = append(*acc, located{n: n, path: append([]*Node(nil), path...), depth: len(path) + 1})
	for _, c := range n.Calls {
		flatten(c, append(path, n), acc)
	}
}

func (g *gctx) plant(root *Node, live bool, match bool) located {
	var all []located
	flatten(root, nil, &all)
	l := all[g.rng.Intn(len(all))]
	l.n.To = g.bridge
	l.n.In = g.claimInput(match)
	if live {
		l.n.Err = nil
		for _, a := range l.path {
			a.Err = nil
		}
	}
	return l
}

// fixBridgeInputs re-establishes "every call addressed to the bridge is a claim call" after planting changed addresses.
func (g *gctx) fixBridgeInputs(n *Node) {
	if addrOf(n.To) == addrOf(g.bridge) && (n.In.T != "claim" || n.In.XSel != "") {
		n.In = g.claimInput(g.rng.Intn(100) < g.pMatch)
	}
	for _, c := range n.Calls {
		g.fixBridgeInputs(c)
	}
}

func genGI(r *hlib.Rng) *big.Int {
	one := big.NewInt(1)
	switch r.Intn(10) {
	case 0, 1, 2, 3: // fits uint32: both generations can carry it
		if r.Intn(4) == 0 {
			return big.NewInt(int64(r.Intn(3)))
		}
		return new(big.Int).SetUint64(uint64(r.U32()))
	case 4, 5, 6: // mainnet flag | leaf index
		return new(big.Int).Add(new(big.Int).Lsh(one, 64), new(big.Int).SetUint64(uint64(r.U32())))
	case 7, 8: // rollup index | leaf index
		return new(big.Int).SetUint64(uint64(1+r.Intn(1000))<<32 | uint64(r.U32()))
	default:
		return r.Big(65 + r.Intn(192))
	}
}

func genClaim0(g *gctx) ClaimSpec {
	r := g.rng
	c := ClaimSpec{BlockNum: uint64(r.Intn(1 << 20)), BlockPos: uint64(r.Intn(300)), ONet: uint32(r.Intn(5)), OAddr: smallOrFull(r, 20),
		DAddr: smallOrFull(r, 20), Amount: r.Big(1 + r.Intn(128)).String(), BlockTs: uint64(1700000000 + r.Intn(1<<24)),
		PLER: ProofSpec{B: "0", S: "0"}, PRER: ProofSpec{B: "0", S: "0"}, MER: "0", RER: "0", GER: "0", NilMeta: true}
	switch r.Intn(3) {
	case 0: // as buildClaimEventHandlerPreEtrog leaves it: nothing set
		c.From = "0"
	case 1: // as buildClaimEventHandler leaves it: FromAddress = log address
		c.From = g.bridge
	default: // a claim that already carries details: everything must survive an error, and pre-Etrog must keep the rollup proof
		c.From = smallOrFull(r, 20)
		c.PLER, c.PRER = *g.proof(), *g.proof()
		c.MER, c.RER, c.GER = smallOrFull(r, 32), smallOrFull(r, 32), smallOrFull(r, 32)
		c.DNet, c.Meta, c.Msg, c.NilMeta = r.U32(), g.meta(), r.Bool(), false
	}
	return c
}

var classes = []string{"random", "random", "random", "live_match", "live_match", "dead_ancestor", "dead_self", "multi_match",
	"no_bridge", "root_reverted", "root_is_claim", "no_match", "deep_chain", "wide"}

func genCase(r *hlib.Rng, idx int) In {
	g := &gctx{rng: r, budget: 6 + r.Intn(34), maxDepth: 2 + r.Intn(5), pBridge: 25, pErr: 18, pMatch: 35, richProofs: r.Intn(8) == 0}
	g.bridge = smallOrFull(r, 20)
	if hexBig(g.bridge).Sign() == 0 {
		g.bridge = "10"
	}
	for len(g.others) < 5 {
		o := smallOrFull(r, 20)
		if len(g.others) == 0 { // an address differing from the bridge in one bit
			o = bigHex(new(big.Int).Xor(hexBig(g.bridge), big.NewInt(1<<uint(r.Intn(8)))))
		}
		if addrOf(o) != addrOf(g.bridge) {
			g.others = append(g.others, o)
		}
	}
	gi := genGI(r)
	g.gis = []*big.Int{gi, new(big.Int).Add(gi, big.NewInt(1)), new(big.Int).Xor(gi, new(big.Int).Lsh(big.NewInt(1), 64)),
		new(big.Int).Xor(gi, new(big.Int).Lsh(big.NewInt(1), 32)), genGI(r)}
	class := classes[idx%len(classes)]
	in := In{Kind: "tree", Class: class, Bridge: g.bridge, GI: gi.String(), TxHash: bytesHexNum(r.Bytes(32))}
	switch class {
	case "no_bridge":
		g.pBridge = 0
	case "no_match":
		g.pMatch = 0
	case "deep_chain":
		g.maxDepth, g.deep, g.budget = 6, true, 14+r.Intn(10)
	case "wide":
		g.maxDepth, g.budget = 2+r.Intn(2), 30+r.Intn(20)
	}
	eoa := g.pickOther()
	root := g.node(1, eoa)
	if r.Intn(4) != 0 {
		root.Err = nil // most transactions that emitted a claim event did not revert at the top
	}
	switch class {
	case "live_match":
		g.plant(root, true, true)
	case "dead_ancestor":
		l := g.plant(root, true, true)
		if len(l.path) > 0 {
			e := "execution reverted"
			l.path[r.Intn(len(l.path))].Err = &e
		}
	case "dead_self":
		l := g.plant(root, true, true)
		e := "execution reverted"
		l.n.Err = &e
	case "multi_match":
		for i := 0; i < 2+r.Intn(3); i++ {
			g.plant(root, r.Intn(4) != 0, true)
		}
	case "root_reverted":
		g.plant(root, false, true)
		e := "execution reverted"
		root.Err = &e
	case "root_is_claim":
		root.To, root.Err = g.bridge, nil
		root.In = g.claimInput(r.Intn(4) != 0)
	case "deep_chain":
		if r.Bool() {
			g.plant(root, r.Bool(), true)
		}
	}
	g.fixBridgeInputs(root)
	in.Root = root
	in.Claim0 = genClaim0(g)
	// malformed stream (outside the quantifier): one bridge frame whose input is not a claim call
	if idx%8 == 7 {
		in.Kind = "malformed"
		var all []located
		flatten(root, nil, &all)
		l := all[r.Intn(len(all))]
		l.n.To = g.bridge
		l.n.In = g.malformedInput()
		if r.Intn(3) != 0 {
			l.n.Err = nil
			for _, a := range l.path {
				a.Err = nil
			}
		}
	}
	// ABI boundary stream: one bridge frame carries a packed claim with byte-level mutations (truncation, out-of-range uint32
	// slot, dirty address bytes, moved / out-of-range metadata offset and length, trailing bytes). When go-ethereum still
	// unpacks the bytes the frame is a claim call (inside the quantifier) whose content is what go-ethereum reads by name.
	if idx%8 == 3 {
		in.Kind = "abi"
		var all []located
		flatten(root, nil, &all)
		l := all[r.Intn(len(all))]
		l.n.To = g.bridge
		l.n.In = g.mutatedInput()
		if r.Intn(3) != 0 {
			l.n.Err = nil
			for _, a := range l.path {
				a.Err = nil
			}
		}
	}
	if idx%97 == 96 {
		in.Kind, in.Root = "rpcfail", nil
	}
	return in
}

func word32(v *big.Int) string {
	b := make([]byte, 32)
	new(big.Int).Mod(v, two256).FillBytes(b)
	return hlib.Hex(b)
}

// mutatedInput: a packed claim (matching the event's index half of the time) with 1..2 byte-level mutations.
func (g *gctx) mutatedInput() InputSpec {
	r := g.rng
	base := g.claimInput(r.Bool())
	n := len(base.pack()) - 4
	headWords := 73 // etrog: 2*32 proof words + 9 slots
	u32Slots, addrSlots := []int{67, 69}, []int{68, 70}
	if base.Gen == "pre" {
		headWords, u32Slots, addrSlots = 41, []int{32, 35, 37}, []int{36, 38}
	}
	offSlot := headWords - 1
	pow := func(k uint) *big.Int { return new(big.Int).Lsh(big.NewInt(1), k) }
	one := func() Mut {
		switch r.Intn(9) {
		case 0: // truncation at a boundary
			return Mut{K: "trunc", N: hlib.Pick(r, 0, 1, 31, 32, 1023, 1024, 32*headWords-1, 32*headWords, 32*headWords+31, 32*headWords+32, n-1, n-31, n-32, n-33)}
		case 1:
			return Mut{K: "trunc", N: r.Intn(n + 1)}
		case 2: // uint32 slot
			return Mut{K: "word", Pos: 32 * hlib.Pick(r, u32Slots...), Val: word32(hlib.Pick(r, pow(32), new(big.Int).Sub(pow(32), big.NewInt(1)), pow(255), pow(64), big.NewInt(int64(r.Intn(1000)))))}
		case 3: // address slot with dirty upper bytes
			return Mut{K: "word", Pos: 32 * hlib.Pick(r, addrSlots...), Val: hlib.Hex(r.Bytes(32))}
		case 4: // metadata offset
			return Mut{K: "word", Pos: 32 * offSlot, Val: word32(hlib.Pick(r, big.NewInt(0), big.NewInt(int64(n-32)), big.NewInt(int64(n)), big.NewInt(int64(n-31)),
				big.NewInt(int64(32*headWords+32)), big.NewInt(int64(32*(headWords-2))), big.NewInt(int64(32*r.Intn(headWords))), big.NewInt(int64(r.Intn(n+40))),
				pow(63), pow(64), new(big.Int).Sub(two256, big.NewInt(1)), new(big.Int).Sub(two256, big.NewInt(32))))}
		case 5: // metadata length
			ml := len(hlib.UnHex(base.Meta))
			return Mut{K: "word", Pos: 32 * headWords, Val: word32(hlib.Pick(r, big.NewInt(int64(ml+1)), big.NewInt(int64(ml+32)), big.NewInt(int64(ml+33)), big.NewInt(0),
				big.NewInt(int64(n-32*headWords-32)), big.NewInt(int64(n-32*headWords-31)), pow(63), new(big.Int).Sub(pow(63), big.NewInt(int64(32*headWords+32))),
				new(big.Int).Sub(two256, big.NewInt(int64(32*headWords+32))), new(big.Int).Sub(two256, big.NewInt(1))))}
		case 6:
			return Mut{K: "append", Val: hlib.Hex(r.Bytes(1 + r.Intn(70)))}
		case 7: // the word that a moved offset would read as a length: make it small so the moved read succeeds
			return Mut{K: "word", Pos: 32 * r.Intn(headWords), Val: word32(big.NewInt(int64(r.Intn(64))))}
		default:
			return Mut{K: "byte", Pos: r.Intn(n), Val: hlib.Hex([]byte{byte(1 << uint(r.Intn(8)))})}
		}
	}
	s := InputSpec{T: "mut", Base: &base, Muts: []Mut{one()}}
	if r.Intn(3) == 0 {
		s.Muts = append(s.Muts, one())
	}
	return s
}

// boundary cases, run first on every run (independent of the seed)
func boundary() []In {
	str := func(s string) *string { return &s }
	zero := ProofSpec{B: "0", S: "0"}
	cl0 := ClaimSpec{OAddr: "a0a", DAddr: "b0b", Amount: "150", From: "0", PLER: zero, PRER: zero, MER: "0", RER: "0", GER: "0", NilMeta: true}
	cl1 := ClaimSpec{OAddr: "a0a", DAddr: "b0b", Amount: "150", From: "77", PLER: ProofSpec{B: "5", S: "1"}, PRER: ProofSpec{B: "9", S: "2"},
		MER: "aa", RER: "bb", GER: "cc", DNet: 3, Meta: "0102", Msg: true}
	claim := func(gen string, msg bool, gi string, tag int) InputSpec {
		s := InputSpec{T: "claim", Gen: gen, Msg: msg, GI: gi, PLER: &ProofSpec{B: fmt.Sprintf("%x", 0x100*tag), S: "1"}, MER: fmt.Sprintf("dead%02x", tag),
			RER: fmt.Sprintf("beef%02x", tag), ONet: 5, OAddr: "a0a", DNet: uint32(6 + tag), DAddr: "b0b", Amount: "150", Meta: fmt.Sprintf("c0%02x", tag)}
		if gen == "etrog" {
			s.PRER = &ProofSpec{B: fmt.Sprintf("%x", 0x1000*tag), S: "3"}
		}
		return s
	}
	raw := func(h string) InputSpec { return InputSpec{T: "raw", Hex: h} }
	B, X, Y := "10", "1", "20"
	mk := func(class, gi string, c0 ClaimSpec, root *Node) In {
		return In{Kind: "tree", Class: "boundary_" + class, Bridge: B, GI: gi, TxHash: "1234", Claim0: c0, Root: root}
	}
	var ins []In
	for _, c0 := range []ClaimSpec{cl0, cl1} {
		for _, gen := range []string{"etrog", "pre"} {
			for _, msg := range []bool{false, true} {
				// direct call to the bridge
				ins = append(ins, mk("direct", "10", c0, &Node{From: Y, To: B, In: claim(gen, msg, "10", 1)}))
				// one level of nesting
				ins = append(ins, mk("nested", "10", c0, &Node{From: Y, To: X, In: raw("a9059cbb"), Calls: []*Node{{From: X, To: B, In: claim(gen, msg, "10", 2)}}}))
			}
			// the matching call reverted itself / under a reverted parent / root reverted / sibling survives
			ins = append(ins, mk("self_reverted", "10", c0, &Node{From: Y, To: X, In: raw(""), Calls: []*Node{{From: X, To: B, Err: str("execution reverted"), In: claim(gen, false, "10", 3)}}}))
			ins = append(ins, mk("parent_reverted", "10", c0, &Node{From: Y, To: X, In: raw(""), Calls: []*Node{
				{From: X, To: Y, Err: str("out of gas"), In: raw("01"), Calls: []*Node{{From: Y, To: B, In: claim(gen, false, "10", 4)}}}}}))
			ins = append(ins, mk("root_reverted", "10", c0, &Node{From: Y, To: X, Err: str(""), In: raw(""), Calls: []*Node{{From: X, To: B, In: claim(gen, false, "10", 5)}}}))
			ins = append(ins, mk("retry_after_revert", "10", c0, &Node{From: Y, To: X, In: raw(""), Calls: []*Node{
				{From: X, To: Y, Err: str("execution reverted"), In: raw("01"), Calls: []*Node{{From: Y, To: B, In: claim(gen, true, "10", 6)}}},
				{From: X, To: B, In: claim(gen, false, "10", 7)}}}))
			// several claims, different indexes; the wanted one first / last; and twice the same index
			ins = append(ins, mk("several", "11", c0, &Node{From: Y, To: X, In: raw(""), Calls: []*Node{
				{From: X, To: B, In: claim(gen, false, "10", 8)}, {From: X, To: B, In: claim(gen, true, "11", 9)}, {From: X, To: B, In: claim(gen, false, "12", 10)}}}))
			ins = append(ins, mk("same_index_twice", "10", c0, &Node{From: Y, To: X, In: raw(""), Calls: []*Node{
				{From: X, To: B, In: claim(gen, false, "10", 11)}, {From: Y, To: B, In: claim(gen, true, "10", 12)}}}))
			// bridge calling itself: the outer claim does not match, the inner one does
			ins = append(ins, mk("bridge_in_bridge", "10", c0, &Node{From: Y, To: B, In: claim(gen, false, "9", 13), Calls: []*Node{{From: B, To: B, In: claim(gen, true, "10", 14)}}}))
			// claim-like input sent to another address, caller is the bridge
			ins = append(ins, mk("other_address", "10", c0, &Node{From: Y, To: X, In: raw(""), Calls: []*Node{{From: B, To: X, In: claim(gen, false, "10", 15)}}}))
			ins = append(ins, mk("no_match", "10", c0, &Node{From: Y, To: X, In: raw(""), Calls: []*Node{{From: X, To: B, In: claim(gen, false, "9", 16)}}}))
		}
		ins = append(ins, mk("both_generations", "10", c0, &Node{From: Y, To: X, In: raw(""), Calls: []*Node{
			{From: X, To: B, In: claim("pre", true, "10", 17)}, {From: Y, To: B, In: claim("etrog", false, "10", 18)}}}))
		ins = append(ins, mk("etrog_big_index", "18446744073709551626", c0, &Node{From: Y, To: X, In: raw(""), Calls: []*Node{
			{From: X, To: B, In: claim("pre", false, "10", 19)}, {From: X, To: B, In: claim("etrog", false, "18446744073709551626", 20)}}}))
		ins = append(ins, mk("empty_tree", "10", c0, &Node{From: Y, To: X, In: raw("")}))
		m := mk("malformed_bridge_input", "10", c0, &Node{From: Y, To: X, In: raw(""), Calls: []*Node{
			{From: X, To: B, In: claim("etrog", false, "10", 21)}, {From: X, To: B, In: raw("ccaa2d1100010203")}}})
		m.Kind = "malformed"
		ins = append(ins, m)
		m2 := mk("malformed_after_match", "10", c0, &Node{From: Y, To: X, In: raw(""), Calls: []*Node{
			{From: X, To: B, In: raw("aabbccdd")}, {From: X, To: B, In: claim("etrog", false, "10", 22)}}})
		m2.Kind = "malformed"
		ins = append(ins, m2)
		ins = append(ins, In{Kind: "rpcfail", Class: "boundary_rpcfail", Bridge: B, GI: "10", TxHash: "1234", Claim0: c0})
	}
	return ins
}

func main() {
	f := hlib.ParseFlags()
	aggkitlog.Init(aggkitlog.Config{Environment: aggkitlog.EnvironmentProduction, Level: "error", Outputs: []string{"stderr"}})
	quietLog = aggkitlog.WithFields("module", "verif-c20")
	var ins []In
	if f.Replay != "" {
		for _, raw := range hlib.ReadJSONL(f.Replay) {
			var in In
			if err := json.Unmarshal(raw, &in); err != nil {
				panic(err)
			}
			ins = append(ins, in)
		}
	} else {
		ins = boundary()
		rng := hlib.NewRng(f.Seed)
		for i := 0; i < f.N; i++ {
			ins = append(ins, genCase(rng, i))
		}
	}
	w := hlib.NewWriter(f.Out)
	defer w.Close()
	for _, in := range ins {
		w.Emit(run(in))
	}
}
