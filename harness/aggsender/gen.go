package main

import (
	"flag"
	"math/big"

	"verifharness/hlib"
)

var maxU256 = new(big.Int).Sub(new(big.Int).Lsh(big.NewInt(1), 256), big.NewInt(1))

func genAddr(r *hlib.Rng) string {
	switch r.Intn(4) {
	case 0:
		return "00"
	case 1:
		return "ffffffffffffffffffffffffffffffffffffffff"
	default:
		return hlib.Hex(r.Bytes(20))
	}
}

func genAmount(r *hlib.Rng) string {
	switch r.Intn(6) {
	case 0:
		return "0"
	case 1:
		return "1"
	case 2:
		return maxU256.String()
	default:
		return r.Big(1 + r.Intn(256)).String()
	}
}

func genMeta(r *hlib.Rng) string {
	ml := hlib.Pick(r, 0, 0, 0, 1, 31, 32, 33, 100, 300)
	if ml == 0 {
		return ""
	}
	return hlib.Hex(r.Bytes(ml))
}

func genNet(r *hlib.Rng) uint32 { return hlib.Pick(r, uint32(0), 1, 2, 0xffffffff, r.U32()) }

// hist hands out consecutive deposit counts
type hist struct {
	r          *hlib.Rng
	dc         uint32
	claimRoots [][2]string // (mainnet exit root, rollup exit root) of the claims generated so far
}

func (h *hist) bridge() Ev {
	r := h.r
	e := Ev{T: "b", DC: h.dc, LT: uint8(r.Intn(2)), ONet: genNet(r), OAddr: genAddr(r), DNet: genNet(r), DAddr: genAddr(r),
		Amount: genAmount(r), Meta: genMeta(r)}
	h.dc++
	return e
}

func (h *hist) claim() Ev {
	r := h.r
	var gi *big.Int
	switch r.Intn(8) {
	case 0: // mainnet flag
		gi = new(big.Int).Add(new(big.Int).Lsh(big.NewInt(1), 64), new(big.Int).SetUint64(uint64(r.U32())))
	case 1: // non-canonical: mainnet flag with a rollup index
		gi = new(big.Int).Add(new(big.Int).Lsh(big.NewInt(1), 64), new(big.Int).SetUint64(r.U64()))
	case 2:
		gi = big.NewInt(0)
	case 3: // more than 9 bytes
		gi = r.Big(72 + r.Intn(100))
	default: // rollup
		gi = new(big.Int).SetUint64(uint64(hlib.Pick(r, uint32(0), 1, 2, r.U32()))<<32 | uint64(r.U32()))
	}
	e := Ev{T: "c", GI: gi.String(), IsMsg: r.Bool(), ONet: genNet(r), OAddr: genAddr(r), DNet: genNet(r), DAddr: genAddr(r),
		Amount: genAmount(r), Meta: genMeta(r), MER: hlib.Hex(r.Bytes(32)), RER: hlib.Hex(r.Bytes(32))}
	// every third claim is made against the global exit root of the claim two claims back (A, B, A: several claims against one
	// root, interleaved with another root, as users do); no random draw is added, so the histories are otherwise the earlier ones
	h.claimRoots = append(h.claimRoots, [2]string{e.MER, e.RER})
	if n := len(h.claimRoots); n%3 == 0 {
		e.MER, e.RER = h.claimRoots[n-3][0], h.claimRoots[n-3][1]
		h.claimRoots[n-1] = h.claimRoots[n-3]
	}
	return e
}

// block with nb bridges and nc claims in a random on-chain order
func (h *hist) block(skip uint64, nb, nc int) Step {
	s := Step{K: "block", Skip: skip}
	for nb+nc > 0 {
		if nb > 0 && (nc == 0 || h.r.Intn(nb+nc) < nb) {
			s.Evs = append(s.Evs, h.bridge())
			nb--
		} else {
			s.Evs = append(s.Evs, h.claim())
			nc--
		}
	}
	return s
}

func epoch(max uint) Step         { return Step{K: "epoch", Max: max} }
func status(max uint) Step        { return Step{K: "status", Max: max} }
func move(id uint64, st int) Step { return Step{K: "move", ID: id, St: st} }
func moveLast(st int) Step        { return Step{K: "movelast", St: st} }
func fail() Step                  { return Step{K: "fail"} }
func settleLast() []Step          { return []Step{moveLast(1), moveLast(2), moveLast(4)} }
func crashEpoch(max uint) Step    { return Step{K: "epoch", Max: max, Crash: true} }
func restartStep(lost bool) Step  { return Step{K: "restart", Lost: lost} }
func l2reorg(b uint64) Step       { return Step{K: "l2reorg", B: b} }

const (
	stPending = iota
	stProven
	stCandidate
	stInError
	stSettled
)

// boundary scenarios, run first in every tier
func scenarios(r *hlib.Rng) []In {
	var out []In
	add := func(tag string, retry bool, start uint64, pre []Step, steps ...[]Step) {
		in := In{Retry: retry, StartBlock: start, Pre: pre, Tag: tag}
		for _, ss := range steps {
			in.Steps = append(in.Steps, ss...)
		}
		out = append(out, in)
	}
	one := func(s Step) []Step { return []Step{s} }
	for _, retry := range []bool{true, false} {
		h := &hist{r: r}
		// happy path: three certificates in a row, statuses polled at every stage
		add("happy", retry, 0, nil,
			one(h.block(0, 2, 1)), one(epoch(0)), one(status(0)), one(moveLast(stProven)), one(status(0)), one(moveLast(stCandidate)),
			one(epoch(0)), one(moveLast(stSettled)), one(status(0)),
			one(h.block(1, 1, 0)), one(h.block(0, 0, 2)), one(epoch(0)), settleLast(), one(epoch(0)),
			one(h.block(0, 3, 0)), one(epoch(0)), settleLast(), one(status(0)))
		// in error at every stage, replacement by status tick (retry) or by the next epoch, block arriving in between
		for _, stage := range []int{0, 1, 2} {
			h = &hist{r: r}
			pre := []Step{}
			for i := 0; i < stage; i++ {
				pre = append(pre, moveLast(stProven+i))
			}
			add("inerror", retry, 0, nil,
				one(h.block(0, 1, 1)), one(epoch(0)), pre, one(moveLast(stInError)), one(h.block(0, 1, 0)), one(status(0)), one(status(0)),
				one(epoch(0)), one(moveLast(stInError)), one(epoch(0)), one(status(0)), settleLast(), one(status(0)),
				one(h.block(2, 2, 0)), one(epoch(0)), settleLast(), one(epoch(0)))
		}
		// Agglayer failures: on the send, on the status poll
		h = &hist{r: r}
		add("failures", retry, 0, nil,
			one(h.block(0, 2, 0)), one(fail()), one(epoch(0)), one(epoch(0)), one(fail()), one(status(0)), one(fail()), one(epoch(0)),
			settleLast(), one(fail()), one(status(0)), one(h.block(0, 0, 1)), one(fail()), one(epoch(0)), one(epoch(0)),
			one(moveLast(stInError)), one(fail()), one(status(0)), one(status(0)), one(epoch(0)))
		// empty ranges, then events
		h = &hist{r: r}
		add("empty", retry, 0, nil,
			one(epoch(0)), one(h.block(0, 0, 0)), one(epoch(0)), one(h.block(3, 0, 0)), one(status(0)), one(epoch(0)),
			one(h.block(0, 0, 1)), one(epoch(0)), settleLast(), one(h.block(0, 0, 0)), one(epoch(0)), one(h.block(0, 1, 0)), one(epoch(0)),
			settleLast(), one(epoch(0)))
		// size limit: ranges are cut to a prefix, the next certificate continues after it
		h = &hist{r: r}
		add("cut", retry, 0, nil,
			one(h.block(0, 1, 0)), one(h.block(0, 2, 0)), one(h.block(1, 0, 1)), one(h.block(0, 1, 1)), one(epoch(1)), settleLast(),
			one(epoch(300)), one(moveLast(stInError)), one(status(4000)), one(epoch(4000)), settleLast(), one(epoch(0)), settleLast(),
			one(epoch(0)))
	}
	// pre-history and a start block > 0
	for _, retry := range []bool{true, false} {
		h := &hist{r: r}
		pre := []Step{h.block(0, 2, 1), h.block(1, 1, 0), h.block(0, 0, 0)}
		add("start", retry, 4, pre,
			one(epoch(0)), one(h.block(0, 1, 1)), one(epoch(0)), settleLast(), one(h.block(0, 2, 0)), one(epoch(0)),
			one(moveLast(stInError)), one(status(0)), one(epoch(0)), settleLast(), one(epoch(0)))
		h = &hist{r: r}
		pre = []Step{h.block(2, 0, 1), h.block(0, 0, 0), h.block(0, 2, 0)} // blocks 3,4,5; start at 4: block 5 is already certificate material
		add("start-mid", retry, 4, pre,
			one(epoch(0)), settleLast(), one(h.block(0, 1, 0)), one(epoch(0)), settleLast(), one(status(0)))
	}
	// process restarts: on the same database, on a lost one, and between "accepted by the Agglayer" and "row stored";
	// Agglayer headers with and without prev_local_exit_root
	for _, retry := range []bool{true, false} {
		for _, aggPrev := range []bool{true, false} {
			radd := func(tag string, steps ...[]Step) {
				in := In{Retry: retry, AggPrev: aggPrev, Tag: tag}
				for _, ss := range steps {
					in.Steps = append(in.Steps, ss...)
				}
				out = append(out, in)
			}
			// crash while sending the certificate of a NEW height whose last block holds a bridge; it settles; the next one
			// must start right after it
			h := &hist{r: r}
			radd("crash-next", one(h.block(0, 1, 0)), one(h.block(0, 0, 0)), one(epoch(0)), settleLast(),
				one(h.block(0, 0, 1)), one(h.block(0, 1, 1)), one(crashEpoch(0)), one(status(0)), settleLast(), one(h.block(0, 1, 0)),
				one(epoch(0)), settleLast(), one(epoch(0)))
			// crash while sending, then the recovered certificate goes InError and is replaced (previous LER of the replacement)
			h = &hist{r: r}
			radd("crash-inerror", one(h.block(0, 1, 0)), one(epoch(0)), settleLast(), one(h.block(0, 1, 1)), one(crashEpoch(0)),
				one(moveLast(stInError)), one(h.block(0, 1, 0)), one(status(0)), one(epoch(0)), settleLast(), one(h.block(0, 1, 0)),
				one(epoch(0)), settleLast(), one(status(0)))
			// crash while sending the very first certificate; crash while sending a REPLACEMENT (the start-up check then refuses:
			// local = old id in error, Agglayer = new id at the same height; the node never leaves CheckInitialStatus)
			h = &hist{r: r}
			radd("crash-first-and-replacement", one(h.block(0, 2, 0)), one(crashEpoch(0)), one(moveLast(stInError)), one(epoch(0)),
				one(moveLast(stInError)), one(h.block(0, 1, 0)), one(crashEpoch(0)), one(epoch(0)), one(status(0)), settleLast(),
				one(epoch(0)), one(restartStep(false)), one(epoch(0)))
			// database lost at every stage of the latest certificate
			for _, stage := range [][]Step{nil, {moveLast(stProven)}, {moveLast(stInError)}, settleLast()} {
				h = &hist{r: r}
				radd("lostdb", one(h.block(0, 1, 0)), one(epoch(0)), settleLast(), one(h.block(1, 1, 1)), one(epoch(0)), stage,
					one(restartStep(true)), one(h.block(0, 1, 0)), one(status(0)), one(epoch(0)), settleLast(), one(epoch(0)), settleLast(),
					one(h.block(0, 0, 1)), one(epoch(0)))
			}
			// plain restarts change nothing
			h = &hist{r: r}
			radd("restart-keep", one(restartStep(false)), one(h.block(0, 1, 0)), one(restartStep(false)), one(epoch(0)), one(restartStep(false)),
				one(moveLast(stInError)), one(restartStep(false)), one(status(0)), one(epoch(0)), settleLast(), one(restartStep(false)),
				one(epoch(0)), one(restartStep(true)), one(epoch(0)))
		}
	}
	// certificates that exist before the sender starts (restart on an existing database / table rebuilt from the Agglayer)
	for _, retry := range []bool{true, false} {
		seeded := func(tag string, seeds []Seed, steps ...[]Step) {
			h := &hist{r: r}
			pre := []Step{h.block(0, 1, 1), h.block(0, 1, 0), h.block(0, 2, 0)} // blocks 1,2,3
			in := In{Retry: retry, Pre: pre, Seeds: seeds, Tag: tag}
			for _, ss := range steps {
				for _, st := range ss {
					if st.K == "block" && st.Evs == nil && st.Skip == 99 { // placeholder: a fresh block with one bridge
						st = h.block(0, 1, 0)
					}
					in.Steps = append(in.Steps, st)
				}
			}
			out = append(out, in)
		}
		fresh := []Step{{K: "block", Skip: 99}}
		// a certificate in error whose row was rebuilt from version-0 metadata (FromBlock = 0): the replacement would not
		// start at the same block, the node must refuse to build it (verifyRetryCertStartingBlock)
		seeded("seed-v0-inerror", []Seed{{Height: 0, Status: stSettled, From: 1, To: 2}, {Height: 1, Status: stInError, From: 0, To: 3}},
			one(epoch(0)), one(status(0)), fresh, one(epoch(0)), one(status(0)), one(epoch(0)))
		seeded("seed-settled", []Seed{{Height: 0, Status: stSettled, From: 1, To: 2}},
			one(epoch(0)), settleLast(), fresh, one(epoch(0)), one(moveLast(stInError)), one(status(0)), one(epoch(0)), settleLast(), one(epoch(0)))
		seeded("seed-inerror", []Seed{{Height: 0, Status: stSettled, From: 1, To: 1}, {Height: 1, Status: stInError, From: 2, To: 3, Retry: 1}},
			one(status(0)), one(epoch(0)), settleLast(), fresh, one(epoch(0)), settleLast(), one(status(0)))
		seeded("seed-pending", []Seed{{Height: 0, Status: stPending, From: 1, To: 2}},
			one(epoch(0)), one(moveLast(stProven)), one(status(0)), one(moveLast(stCandidate)), one(epoch(0)), one(moveLast(stInError)),
			one(status(0)), one(epoch(0)), settleLast(), one(epoch(0)))
	}
	// size limit + certificate history: a certificate that goes InError, is replaced by a CUT replacement built after new
	// blocks arrived, which goes InError as well; the second replacement is sent, and an epoch ticks while it is pending
	for _, retry := range []bool{true, false} {
		for _, keep := range []bool{true, false} {
			hh := &hist{r: r}
			in := In{Retry: retry, Hist: keep, Tag: "cut-double-inerror"}
			for _, ss := range [][]Step{
				one(hh.block(0, 1, 0)), one(epoch(0)), settleLast(),
				one(hh.block(0, 2, 0)), one(hh.block(0, 2, 0)), one(hh.block(0, 1, 0)), one(epoch(300)), one(moveLast(stInError)),
				one(hh.block(0, 2, 0)), one(hh.block(0, 1, 1)), one(status(300)), one(epoch(300)), one(moveLast(stInError)),
				one(hh.block(0, 1, 0)), one(status(300)), one(epoch(300)), one(epoch(300)), one(status(300)), one(epoch(300)),
				settleLast(), one(epoch(0)), settleLast(), one(epoch(0))} {
				in.Steps = append(in.Steps, ss...)
			}
			out = append(out, in)
		}
	}
	// L2 reorg of the blocks of a certificate that went InError: the replacement is built from the new fork (another bridge
	// takes the same deposit count); also a reorg of not yet certified blocks while a certificate is pending, a reorg the
	// harness must refuse (it would drop settled blocks), and a reorg above the tip
	for _, retry := range []bool{true, false} {
		hh := &hist{r: r}
		in := In{Retry: retry, Tag: "l2reorg-inerror"}
		for _, ss := range [][]Step{
			one(hh.block(0, 1, 0)), one(epoch(0)), settleLast(),
			one(hh.block(0, 1, 0)), one(epoch(0)), one(moveLast(stInError)), one(l2reorg(2)),
			one(hh.block(0, 1, 1)), one(status(0)), one(epoch(0)), settleLast(),
			one(hh.block(0, 2, 0)), one(hh.block(0, 1, 0)), one(epoch(0)), one(l2reorg(5)), one(l2reorg(4)), one(hh.block(0, 1, 0)),
			one(l2reorg(1)), one(l2reorg(9)), settleLast(), one(epoch(0)), settleLast(), one(status(0))} {
			in.Steps = append(in.Steps, ss...)
		}
		out = append(out, in)
	}
	// wide block ranges: certificates that span more than 10000 blocks, with bridges and claims in the blocks at distance 100, 256, 500,
	// 1000, 1024, 2000, 2048, 4096, 5000, 8192, 10000, 10001 from the certificate's first block (any reading of the range in
	// windows has its window boundaries there); two such certificates in a row (no size limit: the model's executable cut
	// loop is capped at 4096 iterations)
	for _, flow := range []string{"", "fep"} {
		hh := &hist{r: r}
		in := In{Retry: true, Flow: flow, Tag: "wide-range"}
		dist := []uint64{100, 256, 500, 1000, 1024, 2000, 2048, 4096, 5000, 8192, 10000, 10001}
		for round := 0; round < 2; round++ {
			in.Steps = append(in.Steps, hh.block(0, 1, 1))
			prev := uint64(0)
			for i, d := range dist {
				in.Steps = append(in.Steps, hh.block(d-prev-1, 1, i%2))
				prev = d
			}
			in.Steps = append(in.Steps, epoch(0))
			in.Steps = append(in.Steps, settleLast()...)
		}
		in.Steps = append(in.Steps, epoch(0))
		in.Steps = append(in.Steps, settleLast()...)
		out = append(out, in)
	}
	return out
}

// random walk biased towards InError -> replacement -> settle
func walk(r *hlib.Rng, n int) In {
	in := In{Retry: r.Bool(), AggPrev: r.Bool(), Tag: "walk"}
	h := &hist{r: r}
	if r.Intn(3) == 0 {
		np := 1 + r.Intn(3)
		num := uint64(0)
		for i := 0; i < np; i++ {
			s := h.block(uint64(r.Intn(2)), r.Intn(3), r.Intn(2))
			num += s.Skip + 1
			in.Pre = append(in.Pre, s)
		}
		in.StartBlock = num
		if r.Intn(3) == 0 && num > 1 {
			in.StartBlock = num - 1 - uint64(r.Intn(int(num-1)))
		}
	}
	// half of the walks that have a pre-history start from an existing certificate table
	if len(in.Pre) > 0 && r.Intn(2) == 0 {
		num := uint64(0)
		var nums []uint64
		for _, s := range in.Pre {
			num += s.Skip + 1
			if num > in.StartBlock {
				nums = append(nums, num)
			}
		}
		from := in.StartBlock + 1
		for i, n := range nums {
			if r.Intn(3) == 0 {
				continue // this block joins the next certificate's range
			}
			st := stSettled
			if i == len(nums)-1 || r.Intn(4) == 0 {
				st = r.Intn(5)
			}
			in.Seeds = append(in.Seeds, Seed{Height: uint64(len(in.Seeds)), Status: st, From: from, To: n, Retry: 0})
			from = n + 1
			if st != stSettled {
				break
			}
		}
	}
	guess := -1 // guessed status of the latest certificate (-1: none / closed)
	if n := len(in.Seeds); n > 0 && in.Seeds[n-1].Status != stSettled {
		guess = in.Seeds[n-1].Status
	}
	maxes := []uint{0, 0, 0, 0, 1, 200, 400, 3100, 6000}
	in.Hist = r.Bool()
	for len(in.Steps) < n {
		x := r.Intn(100)
		switch {
		case x < 22:
			nb, nc := 0, 0
			if r.Intn(10) >= 3 {
				nb, nc = r.Intn(3), r.Intn(2)
			}
			in.Steps = append(in.Steps, h.block(uint64(r.Intn(3)/2), nb, nc))
		case x < 42:
			st := epoch(hlib.Pick(r, maxes...))
			st.Crash = r.Intn(12) == 0
			in.Steps = append(in.Steps, st)
			if guess < 0 || guess == stInError {
				guess = stPending
			}
		case x < 53:
			st := status(hlib.Pick(r, maxes...))
			st.Crash = r.Intn(12) == 0
			in.Steps = append(in.Steps, st)
			if guess == stInError && in.Retry {
				guess = stPending
			}
		case x < 92:
			if guess == stPending && r.Intn(4) == 0 {
				in.Steps = append(in.Steps, settleLast()...)
				guess = -1
				continue
			}
			next := r.Intn(5)
			switch guess {
			case stPending:
				next = hlib.Pick(r, stProven, stProven, stProven, stInError)
			case stProven:
				next = hlib.Pick(r, stCandidate, stCandidate, stCandidate, stInError)
			case stCandidate:
				next = hlib.Pick(r, stSettled, stSettled, stInError)
			}
			in.Steps = append(in.Steps, moveLast(next))
			switch next {
			case stSettled:
				guess = -1
			case stInError:
				guess = stInError
			default:
				if guess >= 0 {
					guess = next
				}
			}
		case x < 93:
			in.Steps = append(in.Steps, move(uint64(r.Intn(4)), r.Intn(5)))
		case x < 94: // L2 reorg near the tip (applied by the harness only if it drops no block of a live certificate)
			nblk := 0
			for _, st := range in.Steps {
				if st.K == "block" {
					nblk++
				}
			}
			in.Steps = append(in.Steps, l2reorg(uint64(1+r.Intn(nblk+2))))
		case x < 97:
			in.Steps = append(in.Steps, restartStep(r.Intn(3) == 0))
		default:
			in.Steps = append(in.Steps, fail())
		}
	}
	return in
}

// every sequence of `depth` symbols over a small alphabet; the L2 history is fixed per position so that all
// sequences share their blocks
func exhaustive(r *hlib.Rng, depth int, withFail bool, retry bool) []In {
	blocks := make([]Step, depth)
	h := &hist{r: r}
	for i := range blocks {
		if i%3 == 2 {
			blocks[i] = h.block(0, 0, 1)
		} else {
			blocks[i] = h.block(0, 1, 0)
		}
	}
	nsym := 5
	if withFail {
		nsym = 6
	}
	var out []In
	idx := make([]int, depth)
	for {
		in := In{Retry: retry, Tag: "exhaustive"}
		nb := 0
		// deposit counts must stay consecutive: blocks are taken in order of use
		for _, s := range idx {
			switch s {
			case 0:
				b := blocks[nb]
				b.Evs = append([]Ev(nil), b.Evs...)
				in.Steps = append(in.Steps, b)
				nb++
			case 1:
				in.Steps = append(in.Steps, epoch(0))
			case 2:
				in.Steps = append(in.Steps, status(0))
			case 3:
				in.Steps = append(in.Steps, settleLast()...)
			case 4:
				in.Steps = append(in.Steps, moveLast(stInError))
			case 5:
				in.Steps = append(in.Steps, fail())
			}
		}
		out = append(out, in)
		i := depth - 1
		for i >= 0 {
			idx[i]++
			if idx[i] < nsym {
				break
			}
			idx[i] = 0
			i--
		}
		if i < 0 {
			break
		}
	}
	return out
}

// the blocks of an exhaustive history are dealt in order of use, so the k-th block symbol of any sequence is block k:
// claim blocks (every third) carry no deposit count and bridge blocks carry consecutive ones only if the claim blocks
// are skipped over consistently. fixDCs renumbers the deposit counts of a case in order of appearance.
func fixDCs(in *In) {
	dc := uint32(0)
	fix := func(ss []Step) {
		for i := range ss {
			for j := range ss[i].Evs {
				if ss[i].Evs[j].T == "b" {
					ss[i].Evs[j].DC = dc
					dc++
				}
			}
		}
	}
	fix(in.Pre)
	fix(in.Steps)
}

// aggchain-prover flow stream: boundary schedules and walks (no restarts / seeded tables: the stored proof is then always there)
func fepCases(r *hlib.Rng, nWalks int) []In {
	var out []In
	one := func(s Step) []Step { return []Step{s} }
	tk := func(epochTick bool, max uint, rule int) Step {
		s := status(max)
		if epochTick {
			s = epoch(max)
		}
		s.Rule = rule
		return s
	}
	for _, retry := range []bool{true, false} {
		add := func(tag string, steps ...[]Step) {
			in := In{Flow: "fep", Retry: retry, AggPrev: true, Tag: tag}
			for _, ss := range steps {
				in.Steps = append(in.Steps, ss...)
			}
			out = append(out, in)
		}
		h := &hist{r: r}
		// empty certificates are allowed; the prover shortens, refuses, answers outside the range
		add("fep-prover", one(h.block(0, 0, 0)), one(tk(true, 0, 0)), settleLast(), one(h.block(0, 1, 0)), one(h.block(0, 0, 1)),
			one(h.block(0, 2, 0)), one(tk(true, 0, 5)), one(tk(true, 0, 3)), one(tk(true, 0, 4)), one(tk(true, 0, 2)), settleLast(),
			one(tk(true, 0, 1)), settleLast(), one(tk(true, 0, 0)), settleLast(), one(tk(true, 0, 0)))
		// a certificate in error is resent with the SAME range (stored proof), whatever arrived meanwhile and whatever the prover would say
		h = &hist{r: r}
		add("fep-resend", one(h.block(0, 1, 1)), one(h.block(0, 1, 0)), one(tk(true, 0, 2)), one(moveLast(stInError)), one(h.block(0, 1, 0)),
			one(tk(false, 0, 5)), one(tk(true, 0, 3)), one(moveLast(stInError)), one(tk(true, 1, 0)), settleLast(), one(tk(true, 200, 0)),
			settleLast(), one(tk(true, 0, 0)), settleLast(), one(tk(false, 0, 0)))
	}
	for i := 0; i < nWalks; i++ {
		in := walk(r, 20+r.Intn(41))
		in.Flow, in.Tag, in.Seeds, in.AggPrev = "fep", "fep-walk", nil, true
		var steps []Step
		for _, s := range in.Steps {
			if s.K == "restart" {
				continue
			}
			s.Crash = false
			if s.K == "epoch" || s.K == "status" {
				s.Rule = hlib.Pick(r, 0, 0, 0, 0, 1, 1, 2, 3, 4, 5)
			}
			steps = append(steps, s)
		}
		in.Steps = steps
		out = append(out, in)
	}
	return out
}

var flowFlag = flag.String("flow", "mixed", "pp | fep | mixed: which flow streams to generate")

func generate(f *hlib.Flags) []In {
	r := hlib.NewRng(f.Seed)
	if *flowFlag == "fep" {
		ins := fepCases(r, f.N)
		for i := range ins {
			fixDCs(&ins[i])
		}
		return ins
	}
	ins := scenarios(r)
	if *flowFlag == "mixed" {
		ins = append(ins, fepCases(hlib.NewRng(f.Seed+7777), f.N/4)...)
	}
	if f.Tier != "quick" {
		ins = append(ins, exhaustive(r, 6, false, true)...)
		ins = append(ins, exhaustive(r, 6, false, false)...)
		ins = append(ins, exhaustive(r, 5, true, true)...)
	}
	for i := 0; i < f.N; i++ {
		ins = append(ins, walk(r, 20+r.Intn(41)))
	}
	for i := range ins {
		fixDCs(&ins[i])
	}
	return ins
}
