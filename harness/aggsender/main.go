// C02 / C03 harness: drives the REAL AggSender send loop, one iteration per model event.
//
// Real code under test: aggsender.AggSender.sendCertificates (exactly one iteration per epoch / status event, through the
// hook VerifStepC02), sendCertificate, saveCertificateToStorage; the REAL certificate status checker; the REAL PPFlow and
// baseFlow (GetCertificateBuildParams, limitCertSize, verifyRetryCertStartingBlock, BuildCertificate, exit conversion,
// getNextHeightAndPreviousLER, getNewLocalExitRoot); the REAL AggSenderSQLStorage on a temporary SQLite file; the REAL
// bridge data querier over the REAL bridgesync processor (SQLite store + append-only exit tree), so GetBridges /
// GetClaims / GetExitRootByIndex / GetLastProcessedBlock are real.
// Environment (scripted, part of the model): the Agglayer (accepts every certificate as Pending unless the next call
// is scripted to fail; moves certificates only Pending->Proven->Candidate->Settled or open->InError), the L1 info tree
// querier (claims carry arbitrary proofs here; C09 is a different check), the LER querier (start LER), the signer
// (a real local ECDSA key), the epoch notifier.
package main

import (
	"context"
	"database/sql"
	"encoding/json"
	"errors"
	"fmt"
	"math/big"
	"os"
	"os/exec"
	"path/filepath"
	"strings"
	"sync"
	"time"

	"github.com/agglayer/aggkit/agglayer"
	agglayertypes "github.com/agglayer/aggkit/agglayer/types"
	"github.com/agglayer/aggkit/aggsender"
	aggsenderdb "github.com/agglayer/aggkit/aggsender/db"
	aggsendertypes "github.com/agglayer/aggkit/aggsender/types"
	"github.com/agglayer/aggkit/bridgesync"
	"github.com/agglayer/aggkit/l1infotreesync"
	"github.com/agglayer/aggkit/log"
	aggsync "github.com/agglayer/aggkit/sync"
	treetypes "github.com/agglayer/aggkit/tree/types"
	"github.com/ethereum/go-ethereum/common"
	ethtypes "github.com/ethereum/go-ethereum/core/types"
	"github.com/ethereum/go-ethereum/crypto"
	_ "github.com/mattn/go-sqlite3"

	"verifharness/hlib"
)

// ---------------------------------------------------------------------------------------------
// case format
// ---------------------------------------------------------------------------------------------

// Ev is one L2 event of a block, in on-chain order. T = "b" (bridge) | "c" (claim).
type Ev struct {
	T      string `json:"t"`
	LT     uint8  `json:"lt,omitempty"`
	ONet   uint32 `json:"onet,omitempty"`
	OAddr  string `json:"oaddr,omitempty"` // hex, up to 20 bytes
	DNet   uint32 `json:"dnet,omitempty"`
	DAddr  string `json:"daddr,omitempty"`
	Amount string `json:"amount"`         // decimal
	Meta   string `json:"meta,omitempty"` // hex
	DC     uint32 `json:"dc,omitempty"`   // bridge: deposit count
	GI     string `json:"gi,omitempty"`   // claim: global index, decimal
	IsMsg  bool   `json:"is_msg,omitempty"`
	MER    string `json:"mer,omitempty"` // claim: mainnet / rollup exit roots (the GER is their hash)
	RER    string `json:"rer,omitempty"`
}

// Step is one event of the schedule.
type Step struct {
	K    string `json:"k"`              // block | epoch | status | move | movelast | fail | restart
	Skip uint64 `json:"skip,omitempty"` // block: number = last processed + skip + 1
	Evs  []Ev   `json:"evs,omitempty"`
	Max  uint   `json:"max,omitempty"` // epoch / status: MaxCertSize during this iteration (0 = no limit)
	// epoch / status with Crash: the process dies between "SendCertificate accepted" and the local save (the save is
	// made to fail), then restarts on the same database. restart with Lost: the certificate database is gone.
	Crash bool `json:"crash,omitempty"`
	Lost  bool `json:"lost,omitempty"`
	// aggchain-prover flow: what the scripted prover answers during this tick for a request (lastProven, requestedEnd),
	// with f = lastProven+1, t = requestedEnd: 0 EndBlock = t | 1 f + (t-f)/2 | 2 f | 3 t+1 (outside) | 4 f-1 (outside) | 5 error
	Rule int    `json:"rule,omitempty"`
	B    uint64 `json:"b,omitempty"`  // l2reorg: first reorged L2 block (the bridge syncer's Reorg(b))
	ID   uint64 `json:"id,omitempty"` // move: certificate (order of acceptance by the Agglayer, from 0)
	St   int    `json:"st,omitempty"` // move: target status 0 Pending 1 Proven 2 Candidate 3 InError 4 Settled
}

// Seed is a certificate that exists before the sender starts (a node restarted on its database, or a table rebuilt
// from the Agglayer): a row of certificate_info plus the Agglayer's record of it. Exit roots are those of the real
// tree at the range's ends. Seeds are listed by ascending height; their ids are 0,1,2,...
type Seed struct {
	Height uint64 `json:"height"`
	Status int    `json:"status"`
	From   uint64 `json:"from"`
	To     uint64 `json:"to"`
	Retry  int    `json:"retry,omitempty"`
}

type In struct {
	Flow       string `json:"flow,omitempty"` // "" / "pp": PPFlow; "fep": AggchainProverFlow with a scripted prover
	Retry      bool   `json:"retry"`          // RetryCertAfterInError
	AggPrev    bool   `json:"agg_prev"`       // the Agglayer's certificate headers carry prev_local_exit_root
	StartBlock uint64 `json:"start_block"`    // StartL2Block
	Pre        []Step `json:"pre"`            // blocks synced before the sender starts (the last one is >= StartBlock)
	Seeds      []Seed `json:"seeds,omitempty"`
	Steps      []Step `json:"steps"`
	Tag        string `json:"tag,omitempty"`
	Hist       bool   `json:"hist,omitempty"` // KeepCertificatesHistory: replaced certificates are moved to certificate_info_history
}

type ExitObs struct {
	LT     uint8   `json:"lt"`
	ONet   uint32  `json:"onet"`
	OAddr  string  `json:"oaddr"`
	DNet   uint32  `json:"dnet"`
	DAddr  string  `json:"daddr"`
	Amount string  `json:"amount"` // decimal, "nil"
	Meta   *string `json:"meta"`   // hex; null = nil slice
	Hash   string  `json:"hash"`   // BridgeExit.Hash() computed by the real code
}
type ImpObs struct {
	Exit ExitObs `json:"exit"`
	M    bool    `json:"m"`
	R    uint32  `json:"r"`
	L    uint32  `json:"l"`
}
type SubObs struct {
	ID       uint64    `json:"id"`
	Height   uint64    `json:"height"`
	Prev     string    `json:"prev"`
	New      string    `json:"new"`
	Meta     string    `json:"meta"` // the 32 metadata bytes
	MVersion uint8     `json:"m_version"`
	MFrom    uint64    `json:"m_from"`
	MOffset  uint32    `json:"m_offset"`
	MType    uint8     `json:"m_type"`
	MErr     bool      `json:"m_err,omitempty"`
	Net      uint32    `json:"net"`
	Exits    []ExitObs `json:"exits"`
	Imp      []ImpObs  `json:"imp"`
}
type RowObs struct {
	Height uint64  `json:"height"`
	ID     int64   `json:"id"` // order of acceptance by the Agglayer; -1 = not an id the Agglayer gave out
	Status int     `json:"status"`
	From   uint64  `json:"from"`
	To     uint64  `json:"to"`
	Prev   *string `json:"prev"`
	New    string  `json:"new"`
	Retry  int     `json:"retry"`
}
type StepObs struct {
	Subs   []SubObs `json:"subs"`
	Rows   []RowObs `json:"rows"`
	Synced uint64   `json:"synced"`
	Err    string   `json:"err,omitempty"`   // class of the error the loop recorded (information only)
	Recov  string   `json:"recov,omitempty"` // restart / recovery attempt: "ok" | "refused"
	BlkErr string   `json:"blk_err,omitempty"`
	// l2reorg: the reorg was applied. It is NOT applied (a no-op step) when it would drop a block that a certificate which is
	// not InError covers, or a block at or below StartL2Block, or when no block at or above StartL2Block would remain (the
	// blocks that follow are numbered from the last remaining one): the properties say nothing about such histories
	Applied bool `json:"applied,omitempty"`
}
type Out struct {
	In       In        `json:"in"`
	StartLER string    `json:"start_ler"` // what getStartLER() returns for this configuration
	Seeds    []RowObs  `json:"seeds"`     // the seeded certificates with the exit roots they were given
	Steps    []StepObs `json:"steps"`
	HarnessE string    `json:"harness_err,omitempty"`
}

// ---------------------------------------------------------------------------------------------
// environment: the Agglayer
// ---------------------------------------------------------------------------------------------

type aggCert struct {
	height  uint64
	status  agglayertypes.CertificateStatus
	newLER  common.Hash
	prevLER common.Hash
	meta    common.Hash
}

type fakeAgg struct {
	certs    []*aggCert
	failNext bool
	withPrev bool // headers carry prev_local_exit_root
	received []SubObs
}

var _ agglayer.AgglayerClientInterface = (*fakeAgg)(nil)

func idHash(id uint64) common.Hash { return common.BigToHash(new(big.Int).SetUint64(id + 1)) }
func idOf(h common.Hash) int64 {
	v := h.Big()
	if !v.IsUint64() || v.Uint64() == 0 {
		return -1
	}
	return int64(v.Uint64() - 1)
}

func (f *fakeAgg) fail() bool {
	if f.failNext {
		f.failNext = false
		return true
	}
	return false
}

func obsExit(b *agglayertypes.BridgeExit) ExitObs {
	x := ExitObs{LT: uint8(b.LeafType), DNet: b.DestinationNetwork, DAddr: hlib.Hex(b.DestinationAddress.Bytes()), Amount: "nil"}
	if b.TokenInfo != nil {
		x.ONet, x.OAddr = b.TokenInfo.OriginNetwork, hlib.Hex(b.TokenInfo.OriginTokenAddress.Bytes())
	}
	if b.Amount != nil {
		x.Amount = b.Amount.String()
	}
	if b.Metadata != nil {
		s := hlib.Hex(b.Metadata)
		x.Meta = &s
	}
	cp := *b // Hash() replaces a nil Amount: hash a copy
	if b.TokenInfo != nil {
		x.Hash = hlib.Hex(cp.Hash().Bytes())
	}
	return x
}

func (f *fakeAgg) SendCertificate(_ context.Context, c *agglayertypes.Certificate) (common.Hash, error) {
	if f.fail() {
		return common.Hash{}, errors.New("verif: scripted Agglayer failure")
	}
	id := uint64(len(f.certs))
	f.certs = append(f.certs, &aggCert{height: c.Height, status: agglayertypes.Pending, newLER: c.NewLocalExitRoot,
		prevLER: c.PrevLocalExitRoot, meta: c.Metadata})
	s := SubObs{ID: id, Height: c.Height, Prev: hlib.Hex(c.PrevLocalExitRoot[:]), New: hlib.Hex(c.NewLocalExitRoot[:]),
		Meta: hlib.Hex(c.Metadata[:]), Net: c.NetworkID, Exits: []ExitObs{}, Imp: []ImpObs{}}
	if m, err := aggsendertypes.NewCertificateMetadataFromHash(c.Metadata); err == nil {
		s.MVersion, s.MFrom, s.MOffset, s.MType = m.Version, m.FromBlock, m.Offset, m.CertType
	} else {
		s.MErr = true
	}
	for _, e := range c.BridgeExits {
		s.Exits = append(s.Exits, obsExit(e))
	}
	for _, i := range c.ImportedBridgeExits {
		io := ImpObs{}
		if i.BridgeExit != nil {
			io.Exit = obsExit(i.BridgeExit)
		}
		if i.GlobalIndex != nil {
			io.M, io.R, io.L = i.GlobalIndex.MainnetFlag, i.GlobalIndex.RollupIndex, i.GlobalIndex.LeafIndex
		}
		s.Imp = append(s.Imp, io)
	}
	f.received = append(f.received, s)
	return idHash(id), nil
}

func (f *fakeAgg) header(id uint64) *agglayertypes.CertificateHeader {
	c := f.certs[id]
	h := &agglayertypes.CertificateHeader{NetworkID: 1, Height: c.height, CertificateID: idHash(id),
		NewLocalExitRoot: c.newLER, Status: c.status, Metadata: c.meta}
	if f.withPrev {
		prev := c.prevLER
		h.PreviousLocalExitRoot = &prev
	}
	return h
}
func (f *fakeAgg) GetCertificateHeader(_ context.Context, h common.Hash) (*agglayertypes.CertificateHeader, error) {
	if f.fail() {
		return nil, errors.New("verif: scripted Agglayer failure")
	}
	id := idOf(h)
	if id < 0 || id >= int64(len(f.certs)) {
		return nil, fmt.Errorf("verif: certificate %s not found", h.String())
	}
	return f.header(uint64(id)), nil
}
func (f *fakeAgg) GetEpochConfiguration(context.Context) (*agglayertypes.ClockConfiguration, error) {
	return nil, errors.New("verif: not used")
}
func (f *fakeAgg) GetLatestSettledCertificateHeader(context.Context, uint32) (*agglayertypes.CertificateHeader, error) {
	for i := len(f.certs) - 1; i >= 0; i-- {
		if f.certs[i].status == agglayertypes.Settled {
			return f.header(uint64(i)), nil
		}
	}
	return nil, nil
}
func (f *fakeAgg) GetLatestPendingCertificateHeader(context.Context, uint32) (*agglayertypes.CertificateHeader, error) {
	if n := len(f.certs); n > 0 && f.certs[n-1].status != agglayertypes.Settled {
		return f.header(uint64(n - 1)), nil
	}
	return nil, nil
}

// the Agglayer's own transitions
func validMove(a, b agglayertypes.CertificateStatus) bool {
	switch {
	case a == agglayertypes.Pending && b == agglayertypes.Proven,
		a == agglayertypes.Proven && b == agglayertypes.Candidate,
		a == agglayertypes.Candidate && b == agglayertypes.Settled:
		return true
	case b == agglayertypes.InError && (a == agglayertypes.Pending || a == agglayertypes.Proven || a == agglayertypes.Candidate):
		return true
	}
	return false
}
func (f *fakeAgg) move(id uint64, st int) {
	if id >= uint64(len(f.certs)) || st < 0 || st > 4 {
		return
	}
	if validMove(f.certs[id].status, agglayertypes.CertificateStatus(st)) {
		f.certs[id].status = agglayertypes.CertificateStatus(st)
	}
}

// ---------------------------------------------------------------------------------------------
// environment: L1 info tree querier, LER querier, signer
// ---------------------------------------------------------------------------------------------

type fakeL1 struct{}

var fixedRoot = common.HexToHash("0x1111111111111111111111111111111111111111111111111111111111111111")

func (fakeL1) GetLatestFinalizedL1InfoRoot(context.Context) (*treetypes.Root, *l1infotreesync.L1InfoTreeLeaf, error) {
	return &treetypes.Root{Hash: fixedRoot, Index: 7}, nil, nil
}
func (fakeL1) GetFinalizedL1InfoTreeData(context.Context) (treetypes.Proof, *l1infotreesync.L1InfoTreeLeaf, *treetypes.Root, error) {
	return treetypes.Proof{}, &l1infotreesync.L1InfoTreeLeaf{L1InfoTreeIndex: 7, Timestamp: 5}, &treetypes.Root{Hash: fixedRoot, Index: 7}, nil
}
func (fakeL1) GetProofForGER(_ context.Context, ger, _ common.Hash) (*l1infotreesync.L1InfoTreeLeaf, treetypes.Proof, error) {
	return &l1infotreesync.L1InfoTreeLeaf{L1InfoTreeIndex: 3, GlobalExitRoot: ger, Timestamp: 5}, treetypes.Proof{}, nil
}
func (fakeL1) CheckIfClaimsArePartOfFinalizedL1InfoTree(*treetypes.Root, []bridgesync.Claim) error {
	return nil
}

// scripted aggchain prover, GER querier, optimistic-mode querier (aggchain-prover flow)
type fakeProver struct{ rule int }

func (p *fakeProver) GenerateAggchainProof(_ context.Context, req *aggsendertypes.AggchainProofRequest) (*aggsendertypes.AggchainProof, error) {
	f, t := req.LastProvenBlock+1, req.RequestedEndBlock
	var e uint64
	switch p.rule {
	case 0:
		e = t
	case 1:
		e = f + (t-f)/2
	case 2:
		e = f
	case 3:
		e = t + 1
	case 4:
		e = req.LastProvenBlock
	default:
		return nil, errors.New("verif: scripted prover failure")
	}
	return &aggsendertypes.AggchainProof{LastProvenBlock: req.LastProvenBlock, EndBlock: e, CustomChainData: []byte{7},
		AggchainParams: common.HexToHash("0x22"), Context: map[string][]byte{"k": {1}},
		SP1StarkProof: &aggsendertypes.SP1StarkProof{Version: "v", Proof: []byte{1, 2}, Vkey: []byte{3}}}, nil
}
func (p *fakeProver) GenerateOptimisticAggchainProof(*aggsendertypes.AggchainProofRequest, []byte) (*aggsendertypes.AggchainProof, error) {
	return nil, errors.New("verif: optimistic mode is off")
}

type fakeGER struct{}

func (fakeGER) GetInjectedGERsProofs(context.Context, *treetypes.Root, uint64, uint64) (map[common.Hash]*agglayertypes.ProvenInsertedGERWithBlockNumber, error) {
	return map[common.Hash]*agglayertypes.ProvenInsertedGERWithBlockNumber{}, nil
}

type fakeOptimistic struct{}

func (fakeOptimistic) IsOptimisticModeOn() (bool, error) { return false, nil }

type fakeLER struct{ ler common.Hash }

func (f fakeLER) GetLastLocalExitRoot() (common.Hash, error) { return f.ler, nil }

// ---------------------------------------------------------------------------------------------
// running one case
// ---------------------------------------------------------------------------------------------

var (
	logger  *log.Logger
	workDir string
)

type signer struct{}

func (signer) Initialize(context.Context) error { return nil }
func (signer) PublicAddress() common.Address    { return crypto.PubkeyToAddress(theKey.PublicKey) }
func (signer) String() string                   { return "verif signer" }
func (signer) SignHash(_ context.Context, h common.Hash) ([]byte, error) {
	return crypto.Sign(h.Bytes(), theKey)
}
func (signer) SignTx(_ context.Context, tx *ethtypes.Transaction) (*ethtypes.Transaction, error) {
	return tx, nil
}

var theKey, _ = crypto.HexToECDSA("4c0883a69102937d6231471b5dbb6204fe5129617082792ae468d01a3f362318")

func addr(h string) common.Address { return common.BytesToAddress(hlib.UnHex(h)) }
func h32(h string) common.Hash     { return common.BytesToHash(hlib.UnHex(h)) }

func toEvent(num, pos uint64, e Ev) bridgesync.Event {
	var meta []byte
	if e.Meta != "" {
		meta = hlib.UnHex(e.Meta)
	}
	amt := hlib.UnDec(e.Amount)
	switch e.T {
	case "b":
		return bridgesync.Event{Bridge: &bridgesync.Bridge{BlockNum: num, BlockPos: pos, BlockTimestamp: num,
			LeafType: e.LT, OriginNetwork: e.ONet, OriginAddress: addr(e.OAddr), DestinationNetwork: e.DNet,
			DestinationAddress: addr(e.DAddr), Amount: amt, Metadata: meta, DepositCount: e.DC}}
	case "c":
		mer, rer := h32(e.MER), h32(e.RER)
		ger := crypto.Keccak256Hash(mer.Bytes(), rer.Bytes())
		return bridgesync.Event{Claim: &bridgesync.Claim{BlockNum: num, BlockPos: pos, BlockTimestamp: num,
			GlobalIndex: hlib.UnDec(e.GI), OriginNetwork: e.ONet, OriginAddress: addr(e.OAddr), DestinationNetwork: e.DNet,
			DestinationAddress: addr(e.DAddr), Amount: amt, Metadata: meta, IsMessage: e.IsMsg,
			MainnetExitRoot: mer, RollupExitRoot: rer, GlobalExitRoot: ger}}
	}
	panic("bad event kind " + e.T)
}

var allStatuses = []agglayertypes.CertificateStatus{agglayertypes.Pending, agglayertypes.Proven, agglayertypes.Candidate,
	agglayertypes.InError, agglayertypes.Settled}

func readRows(st *aggsenderdb.AggSenderSQLStorage) []RowObs {
	hs, err := st.GetCertificateHeadersByStatus(allStatuses)
	if err != nil {
		panic(err)
	}
	rows := []RowObs{}
	for _, h := range hs {
		r := RowObs{Height: h.Height, ID: idOf(h.CertificateID), Status: int(h.Status), From: h.FromBlock, To: h.ToBlock,
			New: hlib.Hex(h.NewLocalExitRoot[:]), Retry: h.RetryCount}
		if h.PreviousLocalExitRoot != nil {
			p := hlib.Hex(h.PreviousLocalExitRoot[:])
			r.Prev = &p
		}
		rows = append(rows, r)
	}
	return rows
}

func errClass(s string) string {
	switch {
	case s == "":
		return ""
	case strings.Contains(s, "scripted Agglayer failure"):
		return "agglayer"
	case strings.Contains(s, "retry certificate fromBlock"):
		return "retry_from"
	case strings.Contains(s, "is not closed"):
		return "not_closed"
	case strings.Contains(s, "error saving"):
		return "storage"
	case strings.Contains(s, "error adjusting the range of the certificate"):
		return "prover_range"
	case strings.Contains(s, "error generating aggchain proof"):
		return "prover"
	default:
		if len(s) > 80 {
			s = s[:80]
		}
		return "other:" + s
	}
}

func run(in In, n int) (out Out) {
	out.In = in
	defer func() {
		if e := recover(); e != nil {
			out.HarnessE = fmt.Sprint(e)
		}
	}()
	ctx := context.Background()
	dir := filepath.Join(workDir, fmt.Sprintf("case%d", n))
	if err := os.MkdirAll(dir, 0o755); err != nil {
		panic(err)
	}
	defer os.RemoveAll(dir)

	bs, err := bridgesync.NewVerifBridgeSync(filepath.Join(dir, "bridge.sqlite"), 1)
	if err != nil {
		panic(err)
	}
	defer bridgesync.VerifClose(bs)
	synced := uint64(0)
	lastDCUpToStart := int64(-1)
	type blockDC struct {
		num uint64
		dc  int64
	}
	var dcs []blockDC // (block, highest deposit count at or before it), ascending
	curDC := int64(-1)
	emptyLER := common.HexToHash("0x27ae5ba08d7291c96c8cbddcc148bf48a6d68c7974b94356f53754ef6171d757")
	rootUpTo := func(b uint64) common.Hash { // exit root after the last deposit of the blocks <= b
		dc := int64(-1)
		for _, x := range dcs {
			if x.num <= b {
				dc = x.dc
			}
		}
		if dc < 0 {
			return emptyLER
		}
		r, err := bs.GetExitRootByIndex(ctx, uint32(dc))
		if err != nil {
			panic(err)
		}
		return r.Hash
	}
	l2reorg := func(b uint64, agg *fakeAgg) bool {
		if b <= in.StartBlock || b == 0 {
			return false
		}
		for _, c := range agg.certs {
			if c.status == agglayertypes.InError {
				continue
			}
			m, err := aggsendertypes.NewCertificateMetadataFromHash(c.meta)
			if err != nil {
				return false
			}
			if b <= m.FromBlock+uint64(m.Offset) {
				return false
			}
		}
		// the blocks generated after the reorg are numbered from the last block that remains: that one must not be below
		// StartL2Block, or a block at or below it would gain deposits that the configured start exit root does not contain
		// (an inconsistent configuration, not a history the properties speak about)
		var lastKept uint64
		for _, x := range dcs {
			if x.num < b {
				lastKept = x.num
			}
		}
		if lastKept < in.StartBlock {
			return false
		}
		if err := bridgesync.VerifReorg(ctx, bs, b); err != nil {
			panic(err)
		}
		keep := dcs[:0:0]
		for _, x := range dcs {
			if x.num < b {
				keep = append(keep, x)
			}
		}
		dcs = keep
		synced, curDC = 0, -1
		if n := len(dcs); n > 0 {
			synced, curDC = dcs[n-1].num, dcs[n-1].dc
		}
		return true
	}
	// after an applied L2 reorg from block b the blocks below b are unchanged on the chain (those without a row were empty): the next
	// generated block must not get a number below b (it could fall into the range of a certificate that covers such empty blocks)
	minNext := uint64(0)
	processBlock := func(s *Step) string {
		if minNext > 0 && synced+s.Skip+1 < minNext {
			s.Skip = minNext - synced - 1 // written back into the case, like the deposit counts
		}
		minNext = 0
		// deposit counts continue the tree as it is NOW (after an L2 reorg the generated numbering no longer applies); the
		// effective counts are written back into the case
		for i := range s.Evs {
			if s.Evs[i].T == "b" {
				curDC++
				s.Evs[i].DC = uint32(curDC)
			}
		}
		curDC -= int64(func() int {
			n := 0
			for _, e := range s.Evs {
				if e.T == "b" {
					n++
				}
			}
			return n
		}())
		num := synced + s.Skip + 1
		blk := aggsync.Block{Num: num, Hash: common.BigToHash(new(big.Int).SetUint64(num + 1000))}
		for i, e := range s.Evs {
			blk.Events = append(blk.Events, toEvent(num, uint64(i), e))
		}
		if err := bridgesync.VerifProcessBlock(ctx, bs, blk); err != nil {
			return err.Error()
		}
		synced = num
		for _, e := range s.Evs {
			if e.T == "b" {
				curDC = int64(e.DC)
			}
		}
		dcs = append(dcs, blockDC{num, curDC})
		return ""
	}
	for _, s := range in.Pre {
		if s.K != "block" {
			panic("pre-history must consist of blocks")
		}
		if e := processBlock(&s); e != "" {
			panic("pre-history block refused: " + e)
		}
		if synced <= in.StartBlock {
			for _, e := range s.Evs {
				if e.T == "b" {
					lastDCUpToStart = int64(e.DC)
				}
			}
		}
	}
	// configuration consistency: the start LER is the exit root after the last deposit at or before StartL2Block
	startLER := common.Hash{} // zero: the rollup has no exit root yet; getStartLER() maps it to the empty-tree root
	if lastDCUpToStart >= 0 {
		r, err := bs.GetExitRootByIndex(ctx, uint32(lastDCUpToStart))
		if err != nil {
			panic(err)
		}
		startLER = r.Hash
	}

	dbPath := filepath.Join(dir, "aggsender.sqlite")
	openStorage := func() *aggsenderdb.AggSenderSQLStorage {
		st, err := aggsenderdb.NewAggSenderSQLStorage(logger, aggsenderdb.AggSenderSQLStorageConfig{DBPath: dbPath, KeepCertificatesHistory: in.Hist})
		if err != nil {
			panic(err)
		}
		return st
	}
	storage := openStorage()
	defer func() { storage.VerifCloseC13() }()
	agg := &fakeAgg{withPrev: in.AggPrev}
	out.Seeds = []RowObs{}
	for k, sd := range in.Seeds {
		prevLER, newLER := emptyLER, rootUpTo(sd.To)
		if sd.From > 0 {
			prevLER = rootUpTo(sd.From - 1)
		}
		meta := aggsendertypes.NewCertificateMetadata(sd.From, uint32(sd.To-sd.From), 1, aggsendertypes.CertificateTypePP.ToInt()).ToHash()
		agg.certs = append(agg.certs, &aggCert{height: sd.Height, status: agglayertypes.CertificateStatus(sd.Status),
			newLER: newLER, prevLER: prevLER, meta: meta})
		signed := "{}"
		p := prevLER
		if err := storage.SaveLastSentCertificate(ctx, aggsendertypes.Certificate{Header: &aggsendertypes.CertificateHeader{
			Height: sd.Height, RetryCount: sd.Retry, CertificateID: idHash(uint64(k)), NewLocalExitRoot: newLER,
			PreviousLocalExitRoot: &p, FromBlock: sd.From, ToBlock: sd.To, Status: agglayertypes.CertificateStatus(sd.Status),
			CreatedAt: 1, UpdatedAt: 1, CertType: aggsendertypes.CertificateTypePP, CertSource: aggsendertypes.CertificateSourceLocal},
			SignedCertificate: &signed}); err != nil {
			panic(err)
		}
		ps := hlib.Hex(prevLER[:])
		out.Seeds = append(out.Seeds, RowObs{Height: sd.Height, ID: int64(k), Status: sd.Status, From: sd.From, To: sd.To,
			Prev: &ps, New: hlib.Hex(newLER[:]), Retry: sd.Retry})
	}
	prover := &fakeProver{}
	newSender := func() *aggsender.VerifAggSenderC02 {
		if in.Flow == "fep" {
			return aggsender.NewVerifAggSenderFEPC02(logger, storage, agg, bs, fakeL1{}, fakeLER{startLER}, signer{}, prover, fakeGER{},
				fakeOptimistic{}, in.Retry, in.StartBlock)
		}
		return aggsender.NewVerifAggSenderC02(logger, storage, agg, bs, fakeL1{}, fakeLER{startLER}, signer{}, in.Retry, in.StartBlock)
	}
	v := newSender()
	// what Start does before the loop; it retries for ever when the local table contradicts the Agglayer
	ctxInit, cancel := context.WithTimeout(ctx, 3*time.Second)
	err = v.VerifInitialStatusC02(ctxInit)
	timedOut := ctxInit.Err() != nil
	cancel()
	if err != nil {
		panic(err)
	}
	if timedOut {
		panic("initial status check did not succeed (seeded table contradicts the Agglayer)")
	}
	if startLER == (common.Hash{}) {
		out.StartLER = "27ae5ba08d7291c96c8cbddcc148bf48a6d68c7974b94356f53754ef6171d757"
	} else {
		out.StartLER = hlib.Hex(startLER[:])
	}

	storeFault := func(on bool) {
		q := "DROP TRIGGER IF EXISTS verif_fault"
		if on {
			q = "CREATE TRIGGER verif_fault BEFORE INSERT ON certificate_info BEGIN SELECT RAISE(ABORT, 'verif fault'); END"
		}
		d, err := sql.Open("sqlite3", "file:"+dbPath+"?_journal_mode=WAL")
		if err != nil {
			panic(err)
		}
		if _, err := d.Exec(q); err != nil {
			panic(err)
		}
		d.Close()
	}
	recovering := false
	// one attempt of the start-up reconciliation on the current objects ("ok" / "refused")
	attempt := func() string {
		agg.failNext = false // the scripted failure does not outlive the old process / is not part of the recovery script
		if err := v.VerifRecoverOnceC02(ctx); err != nil {
			recovering = true
			return "refused"
		}
		recovering = false
		return "ok"
	}
	// process restart: new objects on the same (or an empty) certificate database, then the start-up reconciliation
	restart := func(lost bool) string {
		storage.VerifCloseC13()
		if lost {
			for _, sfx := range []string{"", "-wal", "-shm", "-journal"} {
				os.Remove(dbPath + sfx)
			}
		}
		storage = openStorage()
		v = newSender()
		return attempt()
	}
	tick := func(s Step, epoch bool, so *StepObs) {
		prover.rule = s.Rule
		switch {
		case recovering: // the process is still inside CheckInitialStatus
			so.Recov = attempt()
		case s.Crash:
			storeFault(true)
			v.VerifStepC02(ctx, epoch, s.Max)
			so.Err = errClass(v.VerifLastErrorC02())
			storeFault(false)
			so.Recov = restart(false)
		default:
			v.VerifStepC02(ctx, epoch, s.Max)
			so.Err = errClass(v.VerifLastErrorC02())
		}
	}
	for si := range in.Steps {
		s := in.Steps[si]
		agg.received = nil
		so := StepObs{}
		switch s.K {
		case "block":
			so.BlkErr = processBlock(&in.Steps[si])
		case "epoch":
			tick(s, true, &so)
		case "status":
			tick(s, false, &so)
		case "l2reorg":
			so.Applied = l2reorg(s.B, agg)
			if so.Applied {
				minNext = s.B
			}
		case "restart":
			so.Recov = restart(s.Lost)
		case "move":
			agg.move(s.ID, s.St)
		case "movelast": // the Agglayer moves the certificate it accepted last
			if n := len(agg.certs); n > 0 {
				agg.move(uint64(n-1), s.St)
			}
		case "fail":
			agg.failNext = true
		case "storefault_on", "storefault_off":
			// NOT part of the C02 schedule alphabet (storage faults belong to C13): used by hand-written probes only,
			// to record what the loop does when saveCertificateToStorage gives up. Never generated.
			storeFault(s.K == "storefault_on")
		default:
			panic("bad step kind " + s.K)
		}
		so.Subs = append([]SubObs{}, agg.received...)
		so.Rows = readRows(storage)
		so.Synced = synced
		out.Steps = append(out.Steps, so)
	}
	return
}

// ---------------------------------------------------------------------------------------------

func main() {
	f := hlib.ParseFlags()
	hlib.QuietLogs()
	logger = log.WithFields("module", "verif")
	var ins []In
	if f.Replay != "" {
		for _, raw := range hlib.ReadJSONL(f.Replay) {
			var in In
			if err := json.Unmarshal(raw, &in); err != nil {
				panic(err)
			}
			ins = append(ins, in)
		}
	} else {
		ins = generate(f)
	}
	var err error
	workDir, err = os.MkdirTemp("", "verif_c02_")
	if err != nil {
		panic(err)
	}
	defer os.RemoveAll(workDir)
	w := hlib.NewWriter(f.Out)
	defer w.Close()

	// db.RunMigrations never closes the handle it opens (two databases per case): large runs are split over child
	// processes, a few at a time.
	const batch = 250
	if len(ins) > batch && os.Getenv("VERIF_C02_CHILD") == "" {
		type job struct{ start, end int }
		var jobs []job
		for s := 0; s < len(ins); s += batch {
			jobs = append(jobs, job{s, min(s+batch, len(ins))})
		}
		outs := make([]string, len(jobs))
		errs := make([]error, len(jobs))
		sem := make(chan struct{}, 8)
		var wg sync.WaitGroup
		for j, jb := range jobs {
			wg.Add(1)
			go func(j int, jb job) {
				defer wg.Done()
				sem <- struct{}{}
				defer func() { <-sem }()
				inFile := filepath.Join(workDir, fmt.Sprintf("batch_%d_in.jsonl", j))
				outs[j] = filepath.Join(workDir, fmt.Sprintf("batch_%d_out.jsonl", j))
				iw := hlib.NewWriter(inFile)
				for _, in := range ins[jb.start:jb.end] {
					iw.Emit(in)
				}
				iw.Close()
				cmd := exec.Command(os.Args[0], "-replay", inFile, "-out", outs[j], "-tier", f.Tier)
				cmd.Env = append(os.Environ(), "VERIF_C02_CHILD=1")
				cmd.Stdout, cmd.Stderr = os.Stderr, os.Stderr
				errs[j] = cmd.Run()
			}(j, jb)
		}
		wg.Wait()
		for j := range jobs {
			if errs[j] != nil {
				w.Close()
				fmt.Fprintf(os.Stderr, "c02 harness: batch %d failed: %v\n", j, errs[j])
				os.RemoveAll(workDir)
				os.Exit(2)
			}
			for _, raw := range hlib.ReadJSONL(outs[j]) {
				w.Emit(raw)
			}
		}
		return
	}
	for i, in := range ins {
		w.Emit(run(in, i))
	}
}
