// Store modes of the C16 harness (`-prop c07`, `-prop c04`): the REAL lastgersync processor is driven block by block.
//
//	c07: every block is first processed with an injected storage fault (ordinary SQL trigger raising ABORT on the k-th
//	     row write of one kind: block insert, GER insert, GER row delete), possibly twice, possibly with a process restart
//	     in between, then again without fault; a TWIN run of the real code processes the same blocks once, fault-free.
//	c04: blocks and reorgs; after each reorg (and at the end) a TWIN that never saw the dropped blocks is built from
//	     scratch by the real code.
package main

import (
	"context"
	"database/sql"
	"encoding/json"
	"errors"
	"fmt"
	"os"
	"path/filepath"
	"strings"

	"github.com/agglayer/aggkit/db"
	"github.com/agglayer/aggkit/lastgersync"
	"github.com/agglayer/aggkit/sync"
	"github.com/ethereum/go-ethereum/common"

	"verifharness/hlib"
)

type SEv struct {
	Rm   bool `json:"rm"`
	G    int  `json:"g"`              // index into gers
	Info bool `json:"info,omitempty"` // insertion delivered as Event.GERInfo (FEP flavour) instead of Event.GEREvent
}

type SFault struct {
	Table   string `json:"table"` // "block_ins" | "ger_ins" | "ger_del"
	K       int    `json:"k"`     // the k-th (from 0) row write of that kind inside the call fails
	Restart bool   `json:"restart,omitempty"`
}

type SOp struct {
	K      string   `json:"k"` // "block" | "reorg"
	Num    uint64   `json:"num"`
	Events []SEv    `json:"events,omitempty"`
	Faults []SFault `json:"faults,omitempty"` // c07: faulted attempts before the fault-free one
}

type SIn struct {
	Prop    string   `json:"prop"`
	Gers    []GerDef `json:"gers"`
	Ops     []SOp    `json:"ops"`
	Queries []uint32 `json:"queries"`
}

type Snap struct {
	Last    uint64   `json:"last"`
	Blocks  []uint64 `json:"blocks"`
	Rows    []OutRow `json:"rows"`
	Answers []*Ans   `json:"answers"`
}

type Attempt struct {
	Fault *SFault `json:"fault"` // nil: fault-free
	Res   string  `json:"res"`   // ok | fault | constraint | error
	Snap  Snap    `json:"snap"`
}

type SOpOut struct {
	Attempts []Attempt `json:"attempts,omitempty"` // c07
	TwinRes  string    `json:"twin_res,omitempty"`
	Twin     *Snap     `json:"twin,omitempty"` // c07: after the block; c04: after the reorg
	Res      string    `json:"res,omitempty"`  // c04 block
	Run      *Snap     `json:"run,omitempty"`  // c04: after the reorg
}

type SOut struct {
	In        SIn      `json:"in"`
	Init      *Snap    `json:"init,omitempty"`
	Ops       []SOpOut `json:"ops"`
	FinalRun  *Snap    `json:"final_run,omitempty"`
	FinalTwin *Snap    `json:"final_twin,omitempty"`
}

var faultSQL = map[string][2]string{
	"block_ins": {"INSERT", "block"},
	"ger_ins":   {"INSERT", "imported_global_exit_root"},
	"ger_del":   {"DELETE", "imported_global_exit_root"},
}

func installFault(d *sql.DB, f *SFault) {
	spec, ok := faultSQL[f.Table]
	if !ok {
		panic("bad fault table " + f.Table)
	}
	stmts := []string{
		`DROP TRIGGER IF EXISTS verif_fault`, `DROP TABLE IF EXISTS verif_cnt`,
		`CREATE TABLE verif_cnt (n INTEGER)`, `INSERT INTO verif_cnt VALUES (0)`,
		fmt.Sprintf(`CREATE TRIGGER verif_fault BEFORE %s ON %s BEGIN
			SELECT RAISE(ABORT, 'verif fault') WHERE (SELECT n FROM verif_cnt) = %d;
			UPDATE verif_cnt SET n = n + 1; END`, spec[0], spec[1], f.K),
	}
	for _, s := range stmts {
		if _, err := d.Exec(s); err != nil {
			panic(fmt.Sprintf("installFault %q: %v", s, err))
		}
	}
}

func removeFault(d *sql.DB) {
	for _, s := range []string{`DROP TRIGGER IF EXISTS verif_fault`, `DROP TABLE IF EXISTS verif_cnt`} {
		if _, err := d.Exec(s); err != nil {
			panic(err)
		}
	}
}

func errClass(err error) string {
	switch {
	case err == nil:
		return "ok"
	case strings.Contains(err.Error(), "verif fault"):
		return "fault"
	case strings.Contains(err.Error(), "constraint failed"):
		return "constraint"
	}
	return "error"
}

type storeRun struct {
	path string
	p    *lastgersync.VerifC16Processor
	in   *SIn
}

func openStore(path string, in *SIn) *storeRun {
	r := &storeRun{path: path, in: in}
	r.open()
	return r
}

func (r *storeRun) open() {
	p, err := lastgersync.NewVerifC16Processor(r.path)
	if err != nil {
		panic(err)
	}
	r.p = p
}

func (r *storeRun) close() {
	_ = lastgersync.VerifC16Close(r.p)
}

func (r *storeRun) destroy() {
	r.close()
	for _, sfx := range []string{"", "-wal", "-shm"} {
		os.Remove(r.path + sfx)
	}
}

func (r *storeRun) block(op *SOp) sync.Block {
	b := sync.Block{Num: op.Num, Hash: common.BigToHash(common.Big1)}
	for _, e := range op.Events {
		g := r.in.Gers[e.G]
		h := common.HexToHash(g.Hash)
		switch {
		case e.Rm:
			b.Events = append(b.Events, &lastgersync.Event{GEREvent: &lastgersync.GEREvent{BlockNum: op.Num, GlobalExitRoot: h, IsRemove: true}})
		case e.Info:
			b.Events = append(b.Events, &lastgersync.Event{GERInfo: &lastgersync.GlobalExitRootInfo{GlobalExitRoot: h, L1InfoTreeIndex: g.Idx}})
		default:
			b.Events = append(b.Events, &lastgersync.Event{GEREvent: &lastgersync.GEREvent{BlockNum: op.Num, GlobalExitRoot: h, L1InfoTreeIndex: g.Idx}})
		}
	}
	return b
}

func (r *storeRun) snap() Snap {
	ctx := context.Background()
	s := Snap{Rows: []OutRow{}, Answers: []*Ans{}}
	var err error
	if s.Last, err = r.p.GetLastProcessedBlock(ctx); err != nil {
		panic(err)
	}
	if s.Blocks, err = lastgersync.VerifC16Blocks(r.p); err != nil {
		panic(err)
	}
	rows, err := lastgersync.VerifC16Rows(r.p)
	if err != nil {
		panic(err)
	}
	for _, w := range rows {
		s.Rows = append(s.Rows, OutRow{B: w.BlockNum, Ger: hlib.Hex(w.GlobalExitRoot[:]), Idx: w.L1InfoTreeIndex})
	}
	for _, x := range r.in.Queries {
		info, err := r.p.GetFirstGERAfterL1InfoTreeIndex(ctx, x)
		switch {
		case err == nil:
			s.Answers = append(s.Answers, &Ans{Idx: info.L1InfoTreeIndex, Ger: hlib.Hex(info.GlobalExitRoot[:])})
		case errors.Is(err, db.ErrNotFound):
			s.Answers = append(s.Answers, nil)
		default:
			panic(err)
		}
	}
	return s
}

var storeNo int

func newPath(tag string) string {
	storeNo++
	return filepath.Join(tmpRoot, fmt.Sprintf("store_%d_%s.sqlite", storeNo, tag))
}

func runC07(in SIn) SOut {
	ctx := context.Background()
	out := SOut{In: in, Ops: []SOpOut{}}
	run := openStore(newPath("run"), &in)
	twin := openStore(newPath("twin"), &in)
	defer run.destroy()
	defer twin.destroy()
	init := run.snap()
	out.Init = &init
	for i := range in.Ops {
		op := &in.Ops[i]
		oo := SOpOut{}
		for j := range op.Faults {
			f := op.Faults[j]
			installFault(lastgersync.VerifC16DB(run.p), &f)
			err := run.p.ProcessBlock(ctx, run.block(op))
			removeFault(lastgersync.VerifC16DB(run.p))
			if f.Restart {
				run.close()
				run.open()
			}
			oo.Attempts = append(oo.Attempts, Attempt{Fault: &f, Res: errClass(err), Snap: run.snap()})
		}
		err := run.p.ProcessBlock(ctx, run.block(op))
		oo.Attempts = append(oo.Attempts, Attempt{Res: errClass(err), Snap: run.snap()})
		err = twin.p.ProcessBlock(ctx, twin.block(op))
		ts := twin.snap()
		oo.TwinRes, oo.Twin = errClass(err), &ts
		out.Ops = append(out.Ops, oo)
	}
	return out
}

func runC04(in SIn) SOut {
	ctx := context.Background()
	out := SOut{In: in, Ops: []SOpOut{}}
	run := openStore(newPath("run"), &in)
	defer run.destroy()
	var surviving []*SOp // blocks a node that never saw the dropped ones would have processed
	twinSnap := func() Snap {
		tw := openStore(newPath("twin"), &in)
		defer tw.destroy()
		for _, op := range surviving {
			_ = tw.p.ProcessBlock(ctx, tw.block(op))
		}
		return tw.snap()
	}
	for i := range in.Ops {
		op := &in.Ops[i]
		oo := SOpOut{}
		switch op.K {
		case "block":
			err := run.p.ProcessBlock(ctx, run.block(op))
			oo.Res = errClass(err)
			surviving = append(surviving, op)
		case "reorg":
			_ = run.snap() // every query is also asked right BEFORE the reorg: an answer memoised here must not survive it
			if err := run.p.Reorg(ctx, op.Num); err != nil {
				panic(err)
			}
			var kept []*SOp
			for _, s := range surviving {
				if s.Num < op.Num {
					kept = append(kept, s)
				}
			}
			surviving = kept
			rs, ts := run.snap(), twinSnap()
			oo.Run, oo.Twin = &rs, &ts
		default:
			panic("bad op " + op.K)
		}
		out.Ops = append(out.Ops, oo)
	}
	rs, ts := run.snap(), twinSnap()
	out.FinalRun, out.FinalTwin = &rs, &ts
	return out
}

// ---------------------------------------------------------------------------------------------
// generation
// ---------------------------------------------------------------------------------------------

type simRow struct {
	b uint64
	g int
}

// genStoreBlock generates the events of one block and returns how many rows each kind of write touches.
func genStoreBlock(rng *hlib.Rng, nG int, rows *[]simRow, num uint64, allowClash bool) (evs []SEv, nIns, nDel int) {
	n := hlib.Pick(rng, 0, 1, 1, 1, 1, 2, 3)
	work := append([]simRow(nil), *rows...)
	inserted := false
	for c := 0; c < n; c++ {
		var present []int
		for _, w := range work {
			present = append(present, w.g)
		}
		r := rng.Intn(100)
		switch {
		case r < 40 && len(present) > 0: // remove a stored root (deletes every row holding it)
			g := present[rng.Intn(len(present))]
			evs = append(evs, SEv{Rm: true, G: g})
			var kept []simRow
			for _, w := range work {
				if w.g == g {
					nDel++
				} else {
					kept = append(kept, w)
				}
			}
			work = kept
		case r < 47: // remove a root that is not stored
			evs = append(evs, SEv{Rm: true, G: rng.Intn(nG)})
			g := evs[len(evs)-1].G
			var kept []simRow
			for _, w := range work {
				if w.g == g {
					nDel++
				} else {
					kept = append(kept, w)
				}
			}
			work = kept
		default:
			if inserted && !allowClash { // a second insertion in the same block violates PRIMARY KEY(block_num)
				continue
			}
			g := rng.Intn(nG)
			evs = append(evs, SEv{G: g, Info: rng.Intn(5) == 0})
			nIns++
			if !inserted {
				work = append(work, simRow{num, g})
			}
			inserted = true
		}
	}
	return evs, nIns, nDel
}

// applySim replays a block on the simulated table (nothing happens when the block clashes with the primary key).
func applySim(rows *[]simRow, num uint64, evs []SEv) {
	work := append([]simRow(nil), *rows...)
	ins := 0
	for _, e := range evs {
		if e.Rm {
			var kept []simRow
			for _, w := range work {
				if w.g != e.G {
					kept = append(kept, w)
				}
			}
			work = kept
			continue
		}
		ins++
		if ins > 1 {
			return // constraint: the whole transaction is rolled back
		}
		work = append(work, simRow{num, e.G})
	}
	*rows = work
}

func genStoreCase(rng *hlib.Rng, prop string, thorough bool) SIn {
	in := SIn{Prop: prop}
	nG := 2 + rng.Intn(4)
	in.Gers = mkGers(rng, nG)
	in.Queries = mkQueries(in.Gers)
	nOps := 3 + rng.Intn(8)
	if thorough {
		nOps = 3 + rng.Intn(20)
	}
	var rows []simRow
	var processed []SOp
	num := uint64(0)
	for i := 0; i < nOps; i++ {
		if prop == "c04" && len(processed) > 0 && rng.Intn(4) == 0 {
			// reorg somewhere at or below the last block (sometimes above: no-op)
			first := processed[rng.Intn(len(processed))].Num
			if rng.Intn(8) == 0 {
				first = num + 1
			}
			in.Ops = append(in.Ops, SOp{K: "reorg", Num: first})
			var kept []SOp
			for _, p := range processed {
				if p.Num < first {
					kept = append(kept, p)
				}
			}
			processed = kept
			// the real table after the reorg (destructive deletes are not undone): drop rows of dropped blocks
			var kr []simRow
			for _, w := range rows {
				if w.b < first {
					kr = append(kr, w)
				}
			}
			rows = kr
			if first <= num && rng.Bool() {
				num = first - 1 + uint64(rng.Intn(2)) // the new fork may reuse the dropped block numbers
			}
			continue
		}
		num += uint64(1 + rng.Intn(3))
		op := SOp{K: "block", Num: num}
		var nIns, nDel int
		op.Events, nIns, nDel = genStoreBlock(rng, nG, &rows, num, rng.Intn(12) == 0)
		if prop == "c07" && rng.Intn(3) != 0 {
			nf := 1 + rng.Intn(2)
			for j := 0; j < nf; j++ {
				var choices []SFault
				choices = append(choices, SFault{Table: "block_ins", K: 0})
				for k := 0; k < nIns; k++ {
					choices = append(choices, SFault{Table: "ger_ins", K: k})
				}
				for k := 0; k < nDel; k++ {
					choices = append(choices, SFault{Table: "ger_del", K: k})
				}
				f := choices[rng.Intn(len(choices))]
				if len(choices) > 1 && rng.Intn(4) != 0 { // prefer the statements of the events over the block row
					f = choices[1+rng.Intn(len(choices)-1)]
				}
				if rng.Intn(10) == 0 { // a fault position the block does not reach: the attempt succeeds
					f.K += 3
				}
				f.Restart = rng.Intn(4) == 0
				op.Faults = append(op.Faults, f)
			}
		}
		applySim(&rows, num, op.Events)
		in.Ops = append(in.Ops, op)
		processed = append(processed, op)
	}
	return in
}

func fixedStoreCases(prop string) []SIn {
	gs := []GerDef{{Hash: ger(1).Hash, Idx: 4}, {Hash: ger(2).Hash, Idx: 2}, {Hash: ger(3).Hash, Idx: 7}}
	q := mkQueries(gs)
	if prop == "c07" {
		return []SIn{
			// fault on the block row, on the only GER insert, on the deleted row; retry each time
			{Prop: prop, Gers: gs, Queries: q, Ops: []SOp{
				{K: "block", Num: 3, Events: []SEv{{G: 0}}, Faults: []SFault{{Table: "block_ins"}, {Table: "ger_ins"}}},
				{K: "block", Num: 5, Events: []SEv{{G: 1}}, Faults: []SFault{{Table: "ger_ins", Restart: true}}},
				{K: "block", Num: 7, Events: []SEv{{Rm: true, G: 0}}, Faults: []SFault{{Table: "ger_del"}}},
				{K: "block", Num: 8, Events: []SEv{{G: 2, Info: true}}, Faults: []SFault{{Table: "ger_ins"}}},
			}},
			// a removal followed by an insertion in the same block, fault on the insertion: the removal must not stay
			{Prop: prop, Gers: gs, Queries: q, Ops: []SOp{
				{K: "block", Num: 2, Events: []SEv{{G: 0}}},
				{K: "block", Num: 4, Events: []SEv{{Rm: true, G: 0}, {G: 1}}, Faults: []SFault{{Table: "ger_ins"}}},
			}},
			// two insertions in one block: PRIMARY KEY(block_num) clash without any injected fault, block never recorded
			{Prop: prop, Gers: gs, Queries: q, Ops: []SOp{
				{K: "block", Num: 2, Events: []SEv{{G: 0}, {G: 1}}},
				{K: "block", Num: 3, Events: []SEv{{G: 2}}},
			}},
		}
	}
	return []SIn{
		// plain reorg; reorg above everything; reorg of everything
		{Prop: prop, Gers: gs, Queries: q, Ops: []SOp{
			{K: "block", Num: 2, Events: []SEv{{G: 0}}}, {K: "block", Num: 4, Events: []SEv{{G: 1}}},
			{K: "reorg", Num: 4}, {K: "block", Num: 4, Events: []SEv{{G: 2}}}, {K: "reorg", Num: 9}, {K: "reorg", Num: 1},
			{K: "block", Num: 1, Events: []SEv{{G: 1}}},
		}},
		// the known class: root stored at 5, removed at 8, Reorg(7)
		{Prop: prop, Gers: gs, Queries: q, Ops: []SOp{
			{K: "block", Num: 5, Events: []SEv{{G: 0}}}, {K: "block", Num: 8, Events: []SEv{{Rm: true, G: 0}}}, {K: "reorg", Num: 7},
		}},
	}
}

func storeMain(f *hlib.Flags, prop string) {
	var ins []SIn
	if f.Replay != "" {
		for _, raw := range hlib.ReadJSONL(f.Replay) {
			var in SIn
			if err := json.Unmarshal(raw, &in); err != nil {
				panic(err)
			}
			in.Prop = prop
			ins = append(ins, in)
		}
	} else {
		ins = fixedStoreCases(prop)
		rng := hlib.NewRng(f.Seed*7919 + uint64(len(prop)) + uint64(prop[2]))
		for i := 0; i < f.N; i++ {
			ins = append(ins, genStoreCase(rng, prop, f.Tier == "thorough"))
		}
	}
	raws := make([]any, len(ins))
	for i := range ins {
		raws[i] = ins[i]
	}
	runBatched(f, prop, raws, func(raw json.RawMessage) any {
		var in SIn
		if err := json.Unmarshal(raw, &in); err != nil {
			panic(err)
		}
		if prop == "c07" {
			return runC07(in)
		}
		return runC04(in)
	})
}
