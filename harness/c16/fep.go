// C16, FEP mode: drives the REAL lastgersync FEP downloader (evmdownloader_fep.go), the REAL sync.EVMDriver and the REAL
// processor against a scripted L2 RPC client (HeaderByNumber polls, eth_call of globalExitRootMap at the latest block)
// and a scripted L1 info tree syncer (GetLastL1InfoTreeRoot / GetInfoByIndex), over node restarts and reorg
// notifications. Same barrier technique as in main.go.
package main

import (
	"bytes"
	"context"
	"encoding/json"
	"fmt"
	"math/big"
	"os"
	"path/filepath"
	gosync "sync"
	"time"

	"github.com/0xPolygon/cdk-contracts-tooling/contracts/pp/l2-sovereign-chain/polygonzkevmglobalexitrootv2"
	"github.com/agglayer/aggkit/db"
	"github.com/agglayer/aggkit/l1infotreesync"
	"github.com/agglayer/aggkit/lastgersync"
	"github.com/agglayer/aggkit/sync"
	treetypes "github.com/agglayer/aggkit/tree/types"
	aggkittypes "github.com/agglayer/aggkit/types"
	"github.com/ethereum/go-ethereum"
	"github.com/ethereum/go-ethereum/common"
	"github.com/ethereum/go-ethereum/core/types"

	"verifharness/hlib"
)

type FepInj struct {
	B uint64 `json:"b"` // L2 block in which globalExitRootMap[leaf G's root] became non-zero
	G int    `json:"g"` // index of the L1 info tree leaf
}
type FepPoll struct {
	T  uint64 `json:"t"`  // tip returned by HeaderByNumber(finality)
	L1 uint32 `json:"l1"` // number of leaves the L1 info tree syncer holds from this poll on
}
type FepReorg struct {
	B   uint64   `json:"b"`
	Inj []FepInj `json:"inj"` // injections of the new fork (blocks >= b)
}
type FepSeg struct {
	Reorg *FepReorg `json:"reorg"` // nil: node restart
	Polls []FepPoll `json:"polls"`
}
type FepIn struct {
	Leaves  []string `json:"leaves"` // global exit root of L1 info tree leaf i (32 bytes hex)
	Inj     []FepInj `json:"inj"`
	Segs    []FepSeg `json:"segs"`
	Queries []uint32 `json:"queries"`
}
type FepOut struct {
	In   FepIn    `json:"in"`
	Segs []SegObs `json:"segs"`
	Err  string   `json:"err,omitempty"`
}

// ---------------------------------------------------------------------------------------------
// scripted L2 client + L1 info tree syncer
// ---------------------------------------------------------------------------------------------

type fepSim struct {
	aggkittypes.BaseEthereumClienter // nil: any method not scripted below panics (= the real code called something new)

	mu        gosync.Mutex
	leaves    []common.Hash
	inj       map[common.Hash]uint64 // root -> block of injection, chain in force
	forks     [][2]uint64
	polls     []FepPoll
	pos       int
	tip       uint64
	l1        uint32
	exhausted chan struct{}
	signalled bool
	mapSel    []byte
}

func (s *fepSim) forkOf(n uint64) uint64 {
	id := uint64(0)
	for _, f := range s.forks {
		if f[0] <= n {
			id = f[1]
		}
	}
	return id
}

func (s *fepSim) header(n uint64) *types.Header {
	extra := make([]byte, 8)
	big.NewInt(0).SetUint64(s.forkOf(n)).FillBytes(extra)
	return &types.Header{Number: new(big.Int).SetUint64(n), Time: n, Extra: extra, Difficulty: big.NewInt(0)}
}

func (s *fepSim) setSchedule(polls []FepPoll) chan struct{} {
	s.mu.Lock()
	defer s.mu.Unlock()
	s.polls, s.pos, s.signalled = polls, 0, false
	s.exhausted = make(chan struct{})
	return s.exhausted
}

func (s *fepSim) setChain(inj []FepInj) {
	s.mu.Lock()
	defer s.mu.Unlock()
	s.inj = map[common.Hash]uint64{}
	for _, e := range inj {
		s.addInj(e)
	}
}

// addInj keeps the EARLIEST block per root (the contract sets the map entry once).
func (s *fepSim) addInj(e FepInj) {
	g := s.leaves[e.G]
	if b, ok := s.inj[g]; !ok || e.B < b {
		s.inj[g] = e.B
	}
}

func (s *fepSim) reorg(b uint64, id uint64, inj []FepInj) {
	s.mu.Lock()
	defer s.mu.Unlock()
	for g, n := range s.inj {
		if n >= b {
			delete(s.inj, g)
		}
	}
	for _, e := range inj {
		if e.B >= b {
			s.addInj(e)
		}
	}
	s.forks = append(s.forks, [2]uint64{b, id})
}

func (s *fepSim) ChainID(ctx context.Context) (*big.Int, error) { return big.NewInt(1337), nil }

func (s *fepSim) HeaderByNumber(ctx context.Context, number *big.Int) (*types.Header, error) {
	if err := ctx.Err(); err != nil {
		return nil, err
	}
	s.mu.Lock()
	if number == nil || number.Sign() < 0 { // finality tag: a poll of WaitForNewBlocks
		if s.pos < len(s.polls) {
			s.tip, s.l1 = s.polls[s.pos].T, s.polls[s.pos].L1
			s.pos++
			h := s.header(s.tip)
			s.mu.Unlock()
			return h, nil
		}
		if !s.signalled {
			s.signalled = true
			close(s.exhausted)
		}
		s.mu.Unlock()
		<-ctx.Done()
		return nil, ctx.Err()
	}
	defer s.mu.Unlock()
	n := number.Uint64()
	if n > s.tip {
		return nil, ethereum.NotFound
	}
	return s.header(n), nil
}

// CallContract answers globalExitRootMap(bytes32) at the latest block = the tip of the last poll.
func (s *fepSim) CallContract(ctx context.Context, msg ethereum.CallMsg, blockNumber *big.Int) ([]byte, error) {
	if err := ctx.Err(); err != nil {
		return nil, err
	}
	if msg.To == nil || *msg.To != gerAddr || len(msg.Data) != 36 || !bytes.Equal(msg.Data[:4], s.mapSel) || blockNumber != nil {
		panic(fmt.Sprintf("c16 fep harness: unexpected eth_call to=%v data=%x block=%v", msg.To, msg.Data, blockNumber))
	}
	s.mu.Lock()
	defer s.mu.Unlock()
	out := make([]byte, 32)
	if b, ok := s.inj[common.BytesToHash(msg.Data[4:])]; ok && b <= s.tip {
		new(big.Int).SetUint64(1_700_000_000 + b).FillBytes(out) // block timestamp, non-zero
	}
	return out, nil
}

func (s *fepSim) CodeAt(ctx context.Context, contract common.Address, blockNumber *big.Int) ([]byte, error) {
	return []byte{0x60}, nil
}

// the L1 info tree syncer as the FEP downloader uses it
type fepL1 struct{ s *fepSim }

func (l fepL1) GetLastL1InfoTreeRoot(ctx context.Context) (treetypes.Root, error) {
	l.s.mu.Lock()
	defer l.s.mu.Unlock()
	if l.s.l1 == 0 {
		return treetypes.Root{}, db.ErrNotFound
	}
	return treetypes.Root{Index: l.s.l1 - 1}, nil
}
func (l fepL1) GetInfoByIndex(ctx context.Context, index uint32) (*l1infotreesync.L1InfoTreeLeaf, error) {
	l.s.mu.Lock()
	defer l.s.mu.Unlock()
	if int(index) >= len(l.s.leaves) || index >= l.s.l1 {
		return nil, db.ErrNotFound
	}
	return &l1infotreesync.L1InfoTreeLeaf{L1InfoTreeIndex: index, GlobalExitRoot: l.s.leaves[index]}, nil
}
func (l fepL1) GetInfoByGlobalExitRoot(ger common.Hash) (*l1infotreesync.L1InfoTreeLeaf, error) {
	panic("c16 fep harness: GetInfoByGlobalExitRoot is not used by the FEP downloader")
}

func fepFactory(sim *fepSim) dlFactory {
	return func(p *lastgersync.VerifC16Processor, rh *sync.RetryHandler, bf *big.Int) (sync.Downloader, error) {
		return lastgersync.NewVerifC16DownloaderFEP(sim, gerAddr, fepL1{sim}, p, rh, bf, 20*time.Microsecond)
	}
}

// ---------------------------------------------------------------------------------------------
// one case
// ---------------------------------------------------------------------------------------------

func runFep(in FepIn) (out FepOut) {
	out = FepOut{In: in, Segs: []SegObs{}}
	caseNo++
	dbPath := filepath.Join(tmpRoot, fmt.Sprintf("c16fep_%d.sqlite", caseNo))
	defer func() {
		for _, sfx := range []string{"", "-wal", "-shm"} {
			os.Remove(dbPath + sfx)
		}
	}()
	abi, err := polygonzkevmglobalexitrootv2.Polygonzkevmglobalexitrootv2MetaData.GetAbi()
	if err != nil {
		panic(err)
	}
	sim := &fepSim{mapSel: abi.Methods["globalExitRootMap"].ID}
	for _, l := range in.Leaves {
		sim.leaves = append(sim.leaves, common.HexToHash(l))
	}
	sim.setChain(in.Inj)
	var n *node
	for k, seg := range in.Segs {
		var exhausted chan struct{}
		ok := true
		if seg.Reorg == nil || n == nil {
			if n != nil {
				n.stop()
			}
			if seg.Reorg != nil {
				sim.reorg(seg.Reorg.B, uint64(k+1), seg.Reorg.Inj)
			}
			exhausted = sim.setSchedule(seg.Polls)
			var err error
			n, err = startNode(dbPath, fepFactory(sim))
			if err != nil {
				out.Err = err.Error()
				return out
			}
		} else {
			sim.reorg(seg.Reorg.B, uint64(k+1), seg.Reorg.Inj)
			exhausted = sim.setSchedule(seg.Polls)
			ok = n.notifyReorg(seg.Reorg.B)
		}
		ok = ok && n.wait(exhausted)
		if ok { // barrier: every delivered block has been processed when the no-op reorg has been handled
			exhausted = sim.setSchedule(nil)
			ok = n.notifyReorg(barrierBlock) && n.wait(exhausted)
		}
		out.Segs = append(out.Segs, observe(n, in.Queries, !ok))
		if !ok {
			break
		}
	}
	if n != nil {
		n.stop()
	}
	return out
}

// ---------------------------------------------------------------------------------------------
// generation
// ---------------------------------------------------------------------------------------------

func fepLeaves(rng *hlib.Rng, k int) []string {
	out := make([]string, k)
	for i := range out {
		b := rng.Bytes(32)
		if b[0] == 0 {
			b[0] = 1
		}
		out[i] = hlib.Hex(b)
	}
	return out
}

// injections of leaves `cand` (ascending index most of the time) at non-decreasing blocks in [from, to]
func fepGenInj(rng *hlib.Rng, cand []int, from, to uint64) []FepInj {
	var out []FepInj
	if to < from {
		return out
	}
	b := from
	order := append([]int(nil), cand...)
	if rng.Intn(5) == 0 { // out of index order
		for i := len(order) - 1; i > 0; i-- {
			j := rng.Intn(i + 1)
			order[i], order[j] = order[j], order[i]
		}
	}
	for _, g := range order {
		if rng.Intn(4) == 0 {
			continue // not injected at all
		}
		b += uint64(rng.Intn(int((to-from)/uint64(len(order)+1) + 2)))
		if b > to {
			break
		}
		out = append(out, FepInj{B: b, G: g})
	}
	return out
}

// highest leaf index injected at or below tip, +1 (0 when none)
func fepNeed(inj map[int]uint64, tip uint64) uint32 {
	need := uint32(0)
	for g, b := range inj {
		if b <= tip && uint32(g)+1 > need {
			need = uint32(g) + 1
		}
	}
	return need
}

func fepGenCase(rng *hlib.Rng, thorough bool) FepIn {
	nL := 1 + rng.Intn(8)
	maxB := uint64(6 + rng.Intn(20))
	if thorough && rng.Intn(3) == 0 {
		nL, maxB = 1+rng.Intn(16), uint64(10+rng.Intn(60))
	}
	in := FepIn{Leaves: fepLeaves(rng, nL)}
	if rng.Intn(12) == 0 && nL > 1 { // two leaves with the same root (the map is keyed by root)
		in.Leaves[nL-1] = in.Leaves[rng.Intn(nL-1)]
	}
	all := make([]int, nL)
	for i := range all {
		all[i] = i
	}
	in.Inj = fepGenInj(rng, all, 1, maxB)
	cur := map[int]uint64{}
	for _, e := range in.Inj {
		if b, ok := cur[e.G]; !ok || e.B < b {
			cur[e.G] = e.B
		}
	}
	visible := rng.Intn(4) != 0 // the L1 info tree syncer always holds what is injected by the polled tip
	l1 := uint32(0)
	tip := uint64(0)
	nSeg := 1 + rng.Intn(4)
	for k := 0; k < nSeg; k++ {
		seg := FepSeg{}
		if k > 0 && rng.Intn(2) == 0 { // reorg notification
			b := uint64(1)
			if tip > 1 {
				b = 1 + uint64(rng.Intn(int(tip)))
			}
			if rng.Intn(8) == 0 {
				b = tip + 1 + uint64(rng.Intn(3)) // above everything processed
			}
			var cand []int
			for g := 0; g < nL; g++ {
				if bb, ok := cur[g]; !ok || bb >= b {
					cand = append(cand, g)
				}
			}
			for g, bb := range cur {
				if bb >= b {
					delete(cur, g)
				}
			}
			ninj := fepGenInj(rng, cand, b, maxB+uint64(rng.Intn(6)))
			for _, e := range ninj {
				if bb, ok := cur[e.G]; !ok || e.B < bb {
					cur[e.G] = e.B
				}
			}
			seg.Reorg = &FepReorg{B: b, Inj: ninj}
			if b <= tip {
				tip = b - 1
			}
		}
		nP := 1 + rng.Intn(6)
		t := tip
		for j := 0; j < nP; j++ {
			switch rng.Intn(6) {
			case 0: // stale or repeated tip
				if t > 0 && rng.Bool() {
					t--
				}
			case 1:
				t += 1
			default:
				t += uint64(rng.Intn(7))
			}
			if t == 0 {
				t = 1
			}
			need := fepNeed(cur, t)
			if visible {
				if need > l1 {
					l1 = need
				}
				if rng.Intn(3) == 0 && l1 < uint32(nL) {
					l1 += uint32(rng.Intn(int(uint32(nL)-l1) + 1))
				}
			} else if rng.Intn(2) == 0 && l1 < uint32(nL) {
				l1 += uint32(rng.Intn(int(uint32(nL)-l1) + 1))
			}
			seg.Polls = append(seg.Polls, FepPoll{T: t, L1: l1})
			if t > tip {
				tip = t
			}
		}
		in.Segs = append(in.Segs, seg)
	}
	for x := 0; x <= nL; x++ {
		in.Queries = append(in.Queries, uint32(x))
	}
	return in
}

func fepFixedCases() []FepIn {
	lv := func(k int) []string {
		out := make([]string, k)
		for i := range out {
			out[i] = fmt.Sprintf("%064x", 0xa0+i)
		}
		return out
	}
	q := func(k int) []uint32 {
		out := []uint32{}
		for i := 0; i <= k; i++ {
			out = append(out, uint32(i))
		}
		return out
	}
	return []FepIn{
		// nothing injected, L1 syncer empty
		{Leaves: lv(2), Segs: []FepSeg{{Polls: []FepPoll{{T: 3, L1: 0}, {T: 5, L1: 2}}}}, Queries: q(2)},
		// two roots injected between two polls: only the greatest is recorded
		{Leaves: lv(4), Inj: []FepInj{{B: 3, G: 1}, {B: 4, G: 2}}, Segs: []FepSeg{{Polls: []FepPoll{{T: 2, L1: 4}, {T: 6, L1: 4}, {T: 7, L1: 4}}}}, Queries: q(4)},
		// leaf 0 only, restart: the downloader starts again from index 0
		{Leaves: lv(3), Inj: []FepInj{{B: 2, G: 0}}, Segs: []FepSeg{{Polls: []FepPoll{{T: 3, L1: 3}}}, {Polls: []FepPoll{{T: 5, L1: 3}}}}, Queries: q(3)},
		// restart after index 2 was recorded: next = 3; leaf 1 injected later is below next
		{Leaves: lv(4), Inj: []FepInj{{B: 2, G: 2}, {B: 6, G: 1}, {B: 8, G: 3}}, Segs: []FepSeg{{Polls: []FepPoll{{T: 4, L1: 4}}}, {Polls: []FepPoll{{T: 7, L1: 4}, {T: 9, L1: 4}}}}, Queries: q(4)},
		// reorg that drops the block in which the greatest root was recorded, the new fork injects it later
		{Leaves: lv(3), Inj: []FepInj{{B: 2, G: 0}, {B: 5, G: 1}}, Segs: []FepSeg{{Polls: []FepPoll{{T: 3, L1: 3}, {T: 6, L1: 3}}},
			{Reorg: &FepReorg{B: 5, Inj: []FepInj{{B: 9, G: 1}}}, Polls: []FepPoll{{T: 7, L1: 3}, {T: 10, L1: 3}}}}, Queries: q(3)},
		// long runs of L1 info tree leaves that are never injected on this L2 (130, then 119), each followed by an injected one:
		// a downloader that looks at the leaves in batches has to get past a whole batch without a hit
		{Leaves: lv(260), Inj: []FepInj{{B: 3, G: 130}, {B: 6, G: 250}}, Segs: []FepSeg{{Polls: []FepPoll{{T: 4, L1: 260}, {T: 5, L1: 260}, {T: 7, L1: 260}}},
			{Polls: []FepPoll{{T: 8, L1: 260}, {T: 9, L1: 260}}}}, Queries: []uint32{0, 1, 99, 100, 101, 130, 131, 200, 250, 251, 260}},
		// lagging L1 info tree syncer: root injected at block 2 is not listed at the first poll
		{Leaves: lv(2), Inj: []FepInj{{B: 2, G: 1}}, Segs: []FepSeg{{Polls: []FepPoll{{T: 3, L1: 1}, {T: 5, L1: 2}}}}, Queries: q(2)},
	}
}

func fepMain(f *hlib.Flags) {
	var ins []FepIn
	if f.Replay != "" {
		for _, raw := range hlib.ReadJSONL(f.Replay) {
			var in FepIn
			if err := json.Unmarshal(raw, &in); err != nil {
				panic(err)
			}
			ins = append(ins, in)
		}
	} else {
		ins = fepFixedCases()
		rng := hlib.NewRng(f.Seed ^ 0xfe9)
		for i := 0; i < f.N; i++ {
			ins = append(ins, fepGenCase(rng, f.Tier == "thorough"))
		}
	}
	items := make([]any, len(ins))
	for i := range ins {
		items[i] = ins[i]
	}
	runBatched(f, "fep", items, func(raw json.RawMessage) any {
		var in FepIn
		if err := json.Unmarshal(raw, &in); err != nil {
			panic(err)
		}
		return runFep(in)
	})
}
