// C16 harness: drives the REAL lastgersync PP downloader, the REAL sync.EVMDriver and the REAL lastgersync
// processor (SQLite file) against a scripted L2 RPC client that serves a generated L2 history of GER insertions /
// removals (real ABI logs of the sovereign GER manager: all parameters indexed, so topics only), a poll schedule
// (the tip returned by each HeaderByNumber(finality) call), reorg notifications and node restarts.
//
// Determinism: the Download goroutine is the only caller of the scripted client, so the sequence of polls is
// fixed by the schedule. When the schedule of a segment is exhausted the client parks the caller. The harness then
// pushes a no-op reorg notification (first reorged block 2^62, deletes nothing) through the driver's own reorg
// channel: the driver only takes it between two blocks, and the download channel is unbuffered, so when the
// notification has been processed every delivered block has been processed too. Observations are taken at that
// point. (This barrier is the only thing the harness adds to the real flow.)
package main

import (
	"context"
	"encoding/json"
	"errors"
	"flag"
	"fmt"
	"math/big"
	"os"
	"os/exec"
	"path/filepath"
	"sort"
	gosync "sync"
	"time"

	"github.com/agglayer/aggkit/db"
	"github.com/agglayer/aggkit/l1infotreesync"
	"github.com/agglayer/aggkit/lastgersync"
	"github.com/agglayer/aggkit/log"
	"github.com/agglayer/aggkit/reorgdetector"
	"github.com/agglayer/aggkit/sync"
	treetypes "github.com/agglayer/aggkit/tree/types"
	aggkittypes "github.com/agglayer/aggkit/types"
	"github.com/ethereum/go-ethereum"
	"github.com/ethereum/go-ethereum/common"
	"github.com/ethereum/go-ethereum/core/types"
	"github.com/ethereum/go-ethereum/crypto"

	"verifharness/hlib"
)

// ---------------------------------------------------------------------------------------------
// case input / output
// ---------------------------------------------------------------------------------------------

type GerDef struct {
	Hash string `json:"hash"` // 32 bytes hex
	Idx  uint32 `json:"idx"`  // L1 info tree index the L1 info tree syncer answers for this root
	// Lag: the L1 info tree syncer is behind: the first Lag lookups of this root answer db.ErrNotFound, then the leaf is
	// there (the unchanged appender returns an error and GetEventsByBlockRange retries the log until it succeeds)
	Lag int `json:"lag,omitempty"`
}

type Ev struct {
	B  uint64 `json:"b"`  // L2 block
	Rm bool   `json:"rm"` // removal (UpdateRemovalHashChainValue) or insertion (UpdateHashChainValue)
	G  int    `json:"g"`  // index into gers
}

type Reorg struct {
	B    uint64 `json:"b"`    // first replaced block = first reorged block notified to the driver
	Hist []Ev   `json:"hist"` // events of the new fork (blocks >= b)
}

type Seg struct {
	Reorg *Reorg   `json:"reorg"` // nil: node restart (new processor, downloader, driver on the same DB file)
	Polls []uint64 `json:"polls"` // tip returned by each successive poll
}

type In struct {
	Kind    string   `json:"kind"` // "one" (at most one event per block: the property's quantifier) | "multi" (outside)
	Gers    []GerDef `json:"gers"`
	Hist    []Ev     `json:"hist"`
	Segs    []Seg    `json:"segs"`
	Queries []uint32 `json:"queries"`
	// Faults: the FIRST attempt to process every block that carries an event meets a storage fault on the statement that writes
	// the event (insert or delete of imported_global_exit_root aborts); the driver retries and the retry finds the store healthy
	Faults bool `json:"faults,omitempty"`
}

type OutEv struct {
	Rm  bool   `json:"rm"`
	Ger string `json:"ger"`
	Idx uint32 `json:"idx"`
}
type OutBlock struct {
	B   uint64  `json:"b"`
	Evs []OutEv `json:"evs"`
}
type OutRow struct {
	B   uint64 `json:"b"`
	Ger string `json:"ger"`
	Idx uint32 `json:"idx"`
}
type Ans struct {
	Idx uint32 `json:"idx"`
	Ger string `json:"ger"`
}
type SegObs struct {
	Delivered []OutBlock `json:"delivered"` // blocks handed to (and accepted by) processor.ProcessBlock, in order
	Stuck     bool       `json:"stuck"`     // a ProcessBlock kept failing until the retry handler gave up
	Last      uint64     `json:"last"`      // GetLastProcessedBlock
	Blocks    []uint64   `json:"blocks"`    // block table ORDER BY num
	Rows      []OutRow   `json:"rows"`      // imported_global_exit_root ORDER BY block_num
	Answers   []*Ans     `json:"answers"`   // GetFirstGERAfterL1InfoTreeIndex per query; null = db.ErrNotFound
}
type Out struct {
	In   In       `json:"in"`
	Segs []SegObs `json:"segs"`
	Err  string   `json:"err,omitempty"`
}

// ---------------------------------------------------------------------------------------------
// scripted L2 client
// ---------------------------------------------------------------------------------------------

var (
	gerAddr   = common.HexToAddress("0xa40d5f56745a118d0906a34e69aec8c0db1cb8fa")
	insertSig = crypto.Keccak256Hash([]byte("UpdateHashChainValue(bytes32,bytes32)"))
	removeSig = crypto.Keccak256Hash([]byte("UpdateRemovalHashChainValue(bytes32,bytes32)"))
)

type l2sim struct {
	aggkittypes.BaseEthereumClienter // nil: any method not scripted below panics (= the real code called something new)

	mu        gosync.Mutex
	gers      []GerDef
	chain     map[uint64][]Ev // block -> logs in log order
	forks     [][2]uint64     // (first block, fork id), chronological
	polls     []uint64
	pos       int
	tip       uint64
	exhausted chan struct{}
	signalled bool
}

func (s *l2sim) forkOf(n uint64) uint64 {
	id := uint64(0)
	for _, f := range s.forks {
		if f[0] <= n {
			id = f[1]
		}
	}
	return id
}

func (s *l2sim) header(n uint64) *types.Header {
	extra := make([]byte, 8)
	big.NewInt(0).SetUint64(s.forkOf(n)).FillBytes(extra)
	return &types.Header{Number: new(big.Int).SetUint64(n), Time: n, Extra: extra, Difficulty: big.NewInt(0)}
}

// setSchedule installs the poll schedule of the next segment and returns the channel closed on exhaustion.
func (s *l2sim) setSchedule(polls []uint64) chan struct{} {
	s.mu.Lock()
	defer s.mu.Unlock()
	s.polls, s.pos, s.signalled = polls, 0, false
	s.exhausted = make(chan struct{})
	return s.exhausted
}

func (s *l2sim) setChain(hist []Ev) {
	s.mu.Lock()
	defer s.mu.Unlock()
	s.chain = map[uint64][]Ev{}
	for _, e := range hist {
		s.chain[e.B] = append(s.chain[e.B], e)
	}
}

func (s *l2sim) reorg(b uint64, id uint64, hist []Ev) {
	s.mu.Lock()
	defer s.mu.Unlock()
	for n := range s.chain {
		if n >= b {
			delete(s.chain, n)
		}
	}
	for _, e := range hist {
		if e.B >= b {
			s.chain[e.B] = append(s.chain[e.B], e)
		}
	}
	s.forks = append(s.forks, [2]uint64{b, id})
}

func (s *l2sim) ChainID(ctx context.Context) (*big.Int, error) { return big.NewInt(1337), nil }

func (s *l2sim) HeaderByNumber(ctx context.Context, number *big.Int) (*types.Header, error) {
	if err := ctx.Err(); err != nil {
		return nil, err
	}
	s.mu.Lock()
	if number == nil || number.Sign() < 0 { // finality tag: a poll of WaitForNewBlocks
		if s.pos < len(s.polls) {
			s.tip = s.polls[s.pos]
			s.pos++
			h := s.header(s.tip)
			s.mu.Unlock()
			return h, nil
		}
		if !s.signalled {
			s.signalled = true
			close(s.exhausted)
		}
		s.mu.Unlock()
		<-ctx.Done() // park the downloader until the driver cancels it
		return nil, ctx.Err()
	}
	defer s.mu.Unlock()
	n := number.Uint64()
	if n > s.tip {
		return nil, ethereum.NotFound
	}
	return s.header(n), nil
}

func (s *l2sim) FilterLogs(ctx context.Context, q ethereum.FilterQuery) ([]types.Log, error) {
	if err := ctx.Err(); err != nil {
		return nil, err
	}
	s.mu.Lock()
	defer s.mu.Unlock()
	from, to := q.FromBlock.Uint64(), q.ToBlock.Uint64()
	if to > s.tip {
		to = s.tip
	}
	var blocks []uint64
	for n := range s.chain {
		if n >= from && n <= to {
			blocks = append(blocks, n)
		}
	}
	sort.Slice(blocks, func(i, j int) bool { return blocks[i] < blocks[j] })
	var logs []types.Log
	for _, n := range blocks {
		bh := s.header(n).Hash()
		for i, e := range s.chain[n] {
			sig := insertSig
			if e.Rm {
				sig = removeSig
			}
			ger := common.HexToHash(s.gers[e.G].Hash)
			logs = append(logs, types.Log{
				Address:     gerAddr,
				Topics:      []common.Hash{sig, ger, crypto.Keccak256Hash(ger[:], []byte{byte(n), byte(i)})},
				BlockNumber: n,
				BlockHash:   bh,
				TxHash:      crypto.Keccak256Hash(bh[:], []byte{byte(i)}),
				TxIndex:     uint(i),
				Index:       uint(i),
			})
		}
	}
	return logs, nil
}

// ---------------------------------------------------------------------------------------------
// fakes of the two other collaborators
// ---------------------------------------------------------------------------------------------

type l1info struct {
	mu    gosync.Mutex
	idx   map[common.Hash]uint32
	lag   map[common.Hash]int
	calls map[common.Hash]int
}

func (l *l1info) GetLastL1InfoTreeRoot(ctx context.Context) (treetypes.Root, error) {
	return treetypes.Root{}, errors.New("not scripted")
}
func (l *l1info) GetInfoByIndex(ctx context.Context, index uint32) (*l1infotreesync.L1InfoTreeLeaf, error) {
	return nil, errors.New("not scripted")
}
func (l *l1info) GetInfoByGlobalExitRoot(ger common.Hash) (*l1infotreesync.L1InfoTreeLeaf, error) {
	l.mu.Lock()
	defer l.mu.Unlock()
	i, ok := l.idx[ger]
	if !ok {
		return nil, db.ErrNotFound
	}
	if l.calls[ger] < l.lag[ger] { // the L1 info tree syncer has not stored this leaf yet
		l.calls[ger]++
		return nil, db.ErrNotFound
	}
	return &l1infotreesync.L1InfoTreeLeaf{L1InfoTreeIndex: i, GlobalExitRoot: ger}, nil
}

type fakeRD struct{ sub *reorgdetector.Subscription }

func (f *fakeRD) Subscribe(id string) (*reorgdetector.Subscription, error) { return f.sub, nil }
func (f *fakeRD) AddBlockToTrack(ctx context.Context, id string, n uint64, h common.Hash) error {
	return nil
}
func (f *fakeRD) GetFinalizedBlockType() aggkittypes.BlockNumberFinality {
	return aggkittypes.FinalizedBlock
}
func (f *fakeRD) String() string { return "scripted" }

// recProc records what the driver hands to the real processor.
type recProc struct {
	*lastgersync.VerifC16Processor
	mu        gosync.Mutex
	delivered []OutBlock
	faults    bool
	failed    map[uint64]bool // blocks whose first attempt has met the fault
}

const (
	armFaults = `CREATE TRIGGER IF NOT EXISTS verif_c16_del BEFORE DELETE ON imported_global_exit_root BEGIN SELECT RAISE(ABORT, 'verif: injected storage fault'); END;
CREATE TRIGGER IF NOT EXISTS verif_c16_ins BEFORE INSERT ON imported_global_exit_root BEGIN SELECT RAISE(ABORT, 'verif: injected storage fault'); END;`
	disarmFaults = `DROP TRIGGER IF EXISTS verif_c16_del; DROP TRIGGER IF EXISTS verif_c16_ins;`
)

func (r *recProc) ProcessBlock(ctx context.Context, b sync.Block) error {
	if r.faults && len(b.Events) > 0 && b.Num != barrierBlock && !r.failed[b.Num] {
		// first attempt at this block: the statement that writes its event aborts. A processor that reports the failure is asked
		// again by the driver (below, with the store healthy); one that returns nil has committed the block without its event
		r.failed[b.Num] = true
		d := lastgersync.VerifC16DB(r.VerifC16Processor)
		if _, err := d.Exec(armFaults); err != nil {
			panic(err)
		}
		err := r.VerifC16Processor.ProcessBlock(ctx, b)
		if _, derr := d.Exec(disarmFaults); derr != nil {
			panic(derr)
		}
		if err != nil {
			return err
		}
		return r.record(b)
	}
	err := r.VerifC16Processor.ProcessBlock(ctx, b)
	if err != nil {
		return err
	}
	return r.record(b)
}

func (r *recProc) record(b sync.Block) error {
	var err error
	if err == nil {
		ob := OutBlock{B: b.Num, Evs: []OutEv{}}
		for _, e := range b.Events {
			_, rm, ger, idx, ok := lastgersync.VerifC16EventFields(e)
			if !ok {
				ob.Evs = append(ob.Evs, OutEv{Ger: "??"})
				continue
			}
			ob.Evs = append(ob.Evs, OutEv{Rm: rm, Ger: hlib.Hex(ger[:]), Idx: idx})
		}
		r.mu.Lock()
		r.delivered = append(r.delivered, ob)
		r.mu.Unlock()
	}
	return err
}

func (r *recProc) take() []OutBlock {
	r.mu.Lock()
	defer r.mu.Unlock()
	d := r.delivered
	r.delivered = nil
	if d == nil {
		d = []OutBlock{}
	}
	return d
}

// ---------------------------------------------------------------------------------------------
// one node life (between two restarts)
// ---------------------------------------------------------------------------------------------

const barrierBlock = uint64(1) << 62

type stuckPanic struct{ msg string }

type node struct {
	proc   *recProc
	sub    *reorgdetector.Subscription
	cancel context.CancelFunc
	done   chan struct{} // driver returned
	stuck  chan string   // driver gave up (retry handler)
}

// dlFactory builds the downloader under test around the freshly opened processor.
type dlFactory func(p *lastgersync.VerifC16Processor, rh *sync.RetryHandler, bf *big.Int) (sync.Downloader, error)

func ppFactory(sim *l2sim, li *l1info) dlFactory {
	return func(p *lastgersync.VerifC16Processor, rh *sync.RetryHandler, bf *big.Int) (sync.Downloader, error) {
		return lastgersync.NewVerifC16DownloaderPP(sim, gerAddr, li, p, rh, bf, 20*time.Microsecond)
	}
}

func startNode(dbPath string, mk dlFactory) (*node, error) {
	p, err := lastgersync.NewVerifC16Processor(dbPath)
	if err != nil {
		return nil, err
	}
	rp := &recProc{VerifC16Processor: p, faults: nodeFaults, failed: map[uint64]bool{}}
	rh := &sync.RetryHandler{RetryAfterErrorPeriod: 0, MaxRetryAttemptsAfterError: 3}
	bf, err := aggkittypes.LatestBlock.ToBlockNum()
	if err != nil {
		return nil, err
	}
	dl, err := mk(p, rh, bf)
	if err != nil {
		return nil, err
	}
	sub := &reorgdetector.Subscription{ReorgedBlock: make(chan uint64), ReorgProcessed: make(chan bool)}
	drv, err := sync.NewEVMDriver(&fakeRD{sub: sub}, rp, dl, lastgersync.VerifC16ReorgDetectorID, 0, rh, true)
	if err != nil {
		return nil, err
	}
	ctx, cancel := context.WithCancel(context.Background())
	n := &node{proc: rp, sub: sub, cancel: cancel, done: make(chan struct{}), stuck: make(chan string, 1)}
	go func() {
		defer close(n.done)
		defer func() {
			if r := recover(); r != nil {
				if sp, ok := r.(stuckPanic); ok {
					n.stuck <- sp.msg
					return
				}
				panic(r)
			}
		}()
		drv.Sync(ctx)
	}()
	return n, nil
}

// wait blocks until ch is closed/readable or the driver gave up; false = stuck.
func (n *node) wait(ch <-chan struct{}) bool {
	select {
	case <-ch:
		return true
	case <-n.stuck:
		return false
	case <-time.After(20 * time.Second):
		panic("c16 harness: timeout waiting for the node (downloader or driver changed its call pattern?)")
	}
}

// notifyReorg pushes a reorg notification through the driver and waits until it has been processed.
func (n *node) notifyReorg(b uint64) bool {
	select {
	case n.sub.ReorgedBlock <- b:
	case <-n.stuck:
		return false
	case <-time.After(20 * time.Second):
		panic("c16 harness: timeout sending the reorg notification")
	}
	select {
	case <-n.sub.ReorgProcessed:
		return true
	case <-n.stuck:
		return false
	case <-time.After(20 * time.Second):
		panic("c16 harness: timeout waiting for ReorgProcessed")
	}
}

func (n *node) stop() {
	n.cancel()
	select {
	case <-n.done:
	case <-time.After(20 * time.Second):
		panic("c16 harness: driver did not stop")
	}
	_ = lastgersync.VerifC16Close(n.proc.VerifC16Processor)
}

func observe(n *node, queries []uint32, stuck bool) SegObs {
	ctx := context.Background()
	o := SegObs{Delivered: n.proc.take(), Stuck: stuck, Rows: []OutRow{}, Answers: []*Ans{}}
	last, err := n.proc.GetLastProcessedBlock(ctx)
	if err != nil {
		panic(err)
	}
	o.Last = last
	o.Blocks, err = lastgersync.VerifC16Blocks(n.proc.VerifC16Processor)
	if err != nil {
		panic(err)
	}
	rows, err := lastgersync.VerifC16Rows(n.proc.VerifC16Processor)
	if err != nil {
		panic(err)
	}
	for _, r := range rows {
		o.Rows = append(o.Rows, OutRow{B: r.BlockNum, Ger: hlib.Hex(r.GlobalExitRoot[:]), Idx: r.L1InfoTreeIndex})
	}
	for _, x := range queries {
		info, err := n.proc.GetFirstGERAfterL1InfoTreeIndex(ctx, x)
		switch {
		case err == nil:
			o.Answers = append(o.Answers, &Ans{Idx: info.L1InfoTreeIndex, Ger: hlib.Hex(info.GlobalExitRoot[:])})
		case errors.Is(err, db.ErrNotFound):
			o.Answers = append(o.Answers, nil)
		default:
			panic(err)
		}
	}
	return o
}

var tmpRoot string
var caseNo int
var nodeFaults bool // In.Faults of the case being run (read by startNode)

func run(in In) (out Out) {
	out = Out{In: in, Segs: []SegObs{}}
	caseNo++
	dbPath := filepath.Join(tmpRoot, fmt.Sprintf("c16_%d.sqlite", caseNo))
	defer func() {
		for _, sfx := range []string{"", "-wal", "-shm"} {
			os.Remove(dbPath + sfx)
		}
	}()
	nodeFaults = in.Faults
	defer func() { nodeFaults = false }()
	sim := &l2sim{gers: in.Gers}
	sim.setChain(in.Hist)
	li := &l1info{idx: map[common.Hash]uint32{}, lag: map[common.Hash]int{}, calls: map[common.Hash]int{}}
	for _, g := range in.Gers {
		li.idx[common.HexToHash(g.Hash)] = g.Idx
		li.lag[common.HexToHash(g.Hash)] = g.Lag
	}
	var n *node
	for k, seg := range in.Segs {
		var exhausted chan struct{}
		ok := true
		if seg.Reorg == nil || n == nil {
			if n != nil {
				n.stop()
			}
			if seg.Reorg != nil { // reorg before the very first start: only the chain changes
				sim.reorg(seg.Reorg.B, uint64(k+1), seg.Reorg.Hist)
			}
			exhausted = sim.setSchedule(seg.Polls)
			var err error
			n, err = startNode(dbPath, ppFactory(sim, li))
			if err != nil {
				out.Err = err.Error()
				return out
			}
		} else {
			sim.reorg(seg.Reorg.B, uint64(k+1), seg.Reorg.Hist)
			exhausted = sim.setSchedule(seg.Polls)
			ok = n.notifyReorg(seg.Reorg.B)
		}
		ok = ok && n.wait(exhausted)
		if ok { // barrier (see the file comment)
			exhausted = sim.setSchedule(nil)
			ok = n.notifyReorg(barrierBlock) && n.wait(exhausted)
		}
		out.Segs = append(out.Segs, observe(n, in.Queries, !ok))
		if !ok {
			break
		}
	}
	if n != nil {
		n.stop()
	}
	return out
}

// ---------------------------------------------------------------------------------------------
// generation
// ---------------------------------------------------------------------------------------------

func mkGers(rng *hlib.Rng, k int) []GerDef {
	gers := make([]GerDef, 0, k)
	used := map[uint32]bool{}
	for i := 0; i < k; i++ {
		var idx uint32
		for {
			switch rng.Intn(10) {
			case 0:
				idx = uint32(rng.Intn(2)) // 0 / 1
			case 1:
				idx = ^uint32(0) - uint32(rng.Intn(2)) // 2^32-1 / 2^32-2
			default:
				idx = uint32(rng.Intn(24))
			}
			if !used[idx] {
				break
			}
		}
		used[idx] = true
		h := rng.Bytes(32)
		if rng.Intn(6) == 0 { // short value: leading zero bytes in the stored hex
			for j := 0; j < 31; j++ {
				h[j] = 0
			}
			h[31] = byte(i + 1)
		}
		gers = append(gers, GerDef{Hash: hlib.Hex(h), Idx: idx})
	}
	return gers
}

// genEventsAt appends cnt events in block b given (and updating) the set of currently injected roots.
func genEventsAt(rng *hlib.Rng, nG int, injected map[int]bool, b uint64, cnt int, h []Ev) []Ev {
	for c := 0; c < cnt; c++ {
		var inj, free []int
		for g := 0; g < nG; g++ {
			if injected[g] {
				inj = append(inj, g)
			} else {
				free = append(free, g)
			}
		}
		r := rng.Intn(100)
		switch {
		case r < 30 && len(inj) > 0: // remove an injected root
			g := inj[rng.Intn(len(inj))]
			h = append(h, Ev{B: b, Rm: true, G: g})
			delete(injected, g)
		case r < 35: // remove a root that is not injected (no row to delete)
			h = append(h, Ev{B: b, Rm: true, G: rng.Intn(nG)})
		case r < 42 && len(inj) > 0: // inject an already injected root again (no UNIQUE on the root column)
			h = append(h, Ev{B: b, Rm: false, G: inj[rng.Intn(len(inj))]})
		case len(free) > 0:
			g := free[rng.Intn(len(free))]
			h = append(h, Ev{B: b, Rm: false, G: g})
			injected[g] = true
		default:
			g := inj[rng.Intn(len(inj))]
			h = append(h, Ev{B: b, Rm: true, G: g})
			delete(injected, g)
		}
	}
	return h
}

// genHist generates events for blocks from..to given the set of currently injected roots.
func genHist(rng *hlib.Rng, nG int, injected map[int]bool, from, to uint64, density int, multi bool) []Ev {
	h := []Ev{}
	for b := from; b <= to; b++ {
		if rng.Intn(100) >= density {
			continue
		}
		cnt := 1
		if multi && rng.Intn(3) == 0 {
			cnt = 2 + rng.Intn(2)
		}
		h = genEventsAt(rng, nG, injected, b, cnt, h)
	}
	return h
}

// genBigCase: the tip jumps by 1001..5000 blocks between two polls (node far behind: first start on an old chain,
// restart after a long stop, RPC outage), with events right before, at and after every multiple-of-1000 offset
// from the block the downloader resumes at, then a few ordinary polls so that later blocks get processed.
func genBigCase(rng *hlib.Rng) In {
	in := In{Kind: "one"}
	nG := 4 + rng.Intn(4)
	in.Gers = mkGers(rng, nG)
	in.Queries = mkQueries(in.Gers)
	t0 := uint64(rng.Intn(6))
	jump := uint64(1001 + rng.Intn(4000))
	if rng.Intn(4) == 0 {
		jump = uint64(hlib.Pick(rng, 1001, 1002, 1999, 2000, 2001, 3000, 4999, 5000))
	}
	tip := t0 + jump
	blocks := map[uint64]bool{}
	injected := map[int]bool{}
	// a few early events; the last one decides lastProcessed (the cursor after a restart)
	early := genHist(rng, nG, injected, 1, t0, 50, false)
	last := uint64(0)
	for _, e := range early {
		last = e.B
	}
	for _, c := range []uint64{t0 + 1, last + 1} { // cursor of the running downloader / of a restarted one
		for k := uint64(1); c+1000*k-1 <= tip+1; k++ {
			for _, d := range []uint64{0, 1, 2} {
				if b := c + 1000*k - 2 + d; b > t0 && b <= tip && rng.Intn(4) != 0 {
					blocks[b] = true
				}
			}
		}
	}
	for i := 0; i < 3; i++ {
		blocks[t0+1+uint64(rng.Intn(int(jump)))] = true
	}
	blocks[tip] = rng.Bool()
	tail := uint64(1 + rng.Intn(3))
	for b := tip + 1; b <= tip+tail; b++ {
		blocks[b] = true
	}
	var bs []uint64
	for b, on := range blocks {
		if on {
			bs = append(bs, b)
		}
	}
	sort.Slice(bs, func(i, j int) bool { return bs[i] < bs[j] })
	in.Hist = early
	for _, b := range bs {
		in.Hist = genEventsAt(rng, nG, injected, b, 1, in.Hist)
	}
	var after []uint64
	for b := tip + 1; b <= tip+tail; b++ {
		after = append(after, b)
	}
	switch rng.Intn(3) {
	case 0: // running downloader sees the jump
		in.Segs = []Seg{{Polls: append([]uint64{t0, tip}, after...)}}
	case 1: // the jump is the first thing a restarted node sees
		in.Segs = []Seg{{Polls: []uint64{t0}}, {Polls: append([]uint64{tip}, after...)}}
	default: // ... and it is restarted again afterwards
		in.Segs = []Seg{{Polls: []uint64{t0}}, {Polls: []uint64{tip}}, {Polls: after}}
	}
	return in
}

func injectedBelow(hist []Ev, b uint64) map[int]bool {
	m := map[int]bool{}
	for _, e := range hist {
		if e.B < b {
			if e.Rm {
				delete(m, e.G)
			} else {
				m[e.G] = true
			}
		}
	}
	return m
}

func genPolls(rng *hlib.Rng, start, maxTip uint64, n int, cadence int) ([]uint64, uint64) {
	var polls []uint64
	tip := start
	for i := 0; i < n; i++ {
		var step uint64
		switch cadence {
		case 0: // one block per poll (what the e2e test exercises)
			step = 1
		case 1: // polling faster than blocks are produced
			step = uint64(rng.Intn(2))
		default: // several blocks between two polls
			step = uint64(hlib.Pick(rng, 0, 1, 1, 2, 2, 3, 4, 7))
		}
		tip += step
		if tip > maxTip {
			tip = maxTip
		}
		t := tip
		if rng.Intn(25) == 0 && t > 0 { // a lagging RPC node answers with an older tip
			t -= uint64(rng.Intn(int(min(t, 3)) + 1))
		}
		polls = append(polls, t)
	}
	return polls, tip
}

func mkQueries(gers []GerDef) []uint32 {
	set := map[uint32]bool{0: true}
	for _, g := range gers {
		set[g.Idx] = true
		if g.Idx != ^uint32(0) {
			set[g.Idx+1] = true
		}
	}
	var q []uint32
	for x := range set {
		q = append(q, x)
	}
	sort.Slice(q, func(i, j int) bool { return q[i] < q[j] })
	return q
}

func genCase(rng *hlib.Rng, thorough bool) In {
	in := In{Kind: "one"}
	multi := rng.Intn(10) == 0
	if multi {
		in.Kind = "multi"
	}
	nG := 2 + rng.Intn(5)
	in.Gers = mkGers(rng, nG)
	if rng.Intn(4) == 0 { // the L1 info tree syncer lags behind for some roots
		for i := range in.Gers {
			if rng.Bool() {
				in.Gers[i].Lag = 1 + rng.Intn(3)
			}
		}
	}
	in.Queries = mkQueries(in.Gers)
	maxB := uint64(8 + rng.Intn(16))
	if thorough {
		maxB = uint64(8 + rng.Intn(40))
	}
	density := hlib.Pick(rng, 15, 30, 50, 80, 100)
	in.Hist = genHist(rng, nG, map[int]bool{}, 1, maxB, density, multi)
	cur := append([]Ev(nil), in.Hist...)
	nSegs := 1 + rng.Intn(4)
	tip := uint64(rng.Intn(3))
	for k := 0; k < nSegs; k++ {
		seg := Seg{}
		if k > 0 && rng.Intn(2) == 0 {
			b := uint64(1 + rng.Intn(int(tip)+2))
			var kept []Ev
			for _, e := range cur {
				if e.B < b {
					kept = append(kept, e)
				}
			}
			nh := genHist(rng, nG, injectedBelow(cur, b), b, maxB, density, multi)
			if nh == nil {
				nh = []Ev{}
			}
			seg.Reorg = &Reorg{B: b, Hist: nh}
			cur = append(kept, nh...)
			if rng.Intn(2) == 0 && tip >= b { // the new fork may be shorter than what had been seen
				tip = b - 1 + uint64(rng.Intn(int(tip-b+1)+1))
			}
		}
		seg.Polls, tip = genPolls(rng, tip, maxB+2, 1+rng.Intn(7), rng.Intn(4))
		in.Segs = append(in.Segs, seg)
	}
	return in
}

func ger(i int) GerDef {
	h := make([]byte, 32)
	h[0], h[31] = 0xa0, byte(i)
	return GerDef{Hash: hlib.Hex(h), Idx: 0}
}

// boundary cases, independent of the seed
func fixedCases() []In {
	g := func(idx ...uint32) []GerDef {
		var r []GerDef
		for i, x := range idx {
			d := ger(i + 1)
			d.Idx = x
			r = append(r, d)
		}
		return r
	}
	mk := func(gers []GerDef, hist []Ev, segs ...Seg) In {
		if hist == nil {
			hist = []Ev{}
		}
		return In{Kind: "one", Gers: gers, Hist: hist, Segs: segs, Queries: mkQueries(gers)}
	}
	return []In{
		// nothing ever happens
		mk(g(3), nil, Seg{Polls: []uint64{0, 0, 5}}),
		// event in the very first block the downloader is responsible for (lastProcessed+1 = 1), one block per poll
		mk(g(3), []Ev{{B: 1, G: 0}}, Seg{Polls: []uint64{1, 2, 3}}),
		// one block per poll, an event in every block
		mk(g(5, 3, 9), []Ev{{B: 2, G: 0}, {B: 3, G: 1}, {B: 4, Rm: true, G: 0}, {B: 5, G: 2}, {B: 6, G: 0}},
			Seg{Polls: []uint64{1, 2, 3, 4, 5, 6, 7}}),
		// the tip jumps over an event block (design finding F2): root at block 6, next poll sees tip 8
		mk(g(7, 2), []Ev{{B: 6, G: 0}, {B: 8, G: 1}}, Seg{Polls: []uint64{5, 8}}),
		// a skipped removal
		mk(g(1, 2), []Ev{{B: 2, G: 0}, {B: 3, Rm: true, G: 0}, {B: 5, G: 1}}, Seg{Polls: []uint64{2, 5}}),
		// restart right after an event block; the next event is in lastProcessed+1
		mk(g(4, 6), []Ev{{B: 3, G: 0}, {B: 4, G: 1}}, Seg{Polls: []uint64{2, 3}}, Seg{Polls: []uint64{4, 5}}),
		// restart while the chain is far ahead
		mk(g(4, 6, 1), []Ev{{B: 3, G: 0}, {B: 9, G: 1}, {B: 12, G: 2}}, Seg{Polls: []uint64{3}}, Seg{Polls: []uint64{14}}),
		// reorg replacing an insertion by another one
		mk(g(4, 6, 1), []Ev{{B: 3, G: 0}, {B: 5, G: 1}}, Seg{Polls: []uint64{6}},
			Seg{Reorg: &Reorg{B: 4, Hist: []Ev{{B: 4, G: 2}}}, Polls: []uint64{6}}),
		// reorg above everything processed
		mk(g(4, 6), []Ev{{B: 3, G: 0}}, Seg{Polls: []uint64{6}},
			Seg{Reorg: &Reorg{B: 5, Hist: []Ev{{B: 6, G: 1}}}, Polls: []uint64{7}}),
		// first start on an old chain: 2500 blocks at the first poll; events before / at / after offsets 1000 and 2000
		// from block 1; indexes grow with the block (except the last root) so that a lost insertion leaves no root
		// at or above its index
		mk(g(1, 2, 3, 4, 5, 6, 7, 0), []Ev{{B: 10, G: 0}, {B: 1000, G: 1}, {B: 1001, G: 2}, {B: 1002, G: 3}, {B: 2000, G: 4},
			{B: 2001, G: 5}, {B: 2500, G: 6}, {B: 2501, G: 7}}, Seg{Polls: []uint64{2500, 2501}}),
		// restart after a long stop (lastProcessed = 2): 1700 blocks at the first poll, a removal among them
		mk(g(7, 1, 9, 0), []Ev{{B: 2, G: 0}, {B: 1001, G: 1}, {B: 1002, G: 2}, {B: 1500, Rm: true, G: 0}, {B: 1701, G: 3}},
			Seg{Polls: []uint64{3}}, Seg{Polls: []uint64{1700, 1701}}),
		// running downloader (next block 5) sees the tip jump by 3000
		mk(g(2, 3, 4, 5, 6, 1), []Ev{{B: 3, G: 0}, {B: 1004, G: 1}, {B: 1005, G: 2}, {B: 2005, G: 3}, {B: 3004, G: 4}, {B: 3005, G: 5}},
			Seg{Polls: []uint64{4, 3004, 3005}}),
		// jump of exactly 1000 blocks, then 5000
		mk(g(1, 2, 3, 4, 5, 6, 7), []Ev{{B: 1001, G: 0}, {B: 2001, G: 1}, {B: 2002, G: 2}, {B: 3001, Rm: true, G: 0}, {B: 5001, G: 3},
			{B: 6001, G: 4}, {B: 6002, G: 5}}, Seg{Polls: []uint64{1, 1001, 6001, 6002}}),
		// jumps beyond 5000 blocks (a node that was down for long): 5001 for the running downloader, 7000 for a restarted one; roots and a
		// removal in every thousand of the gap, the last root of the gap carrying the largest index
		mk(g(1, 2, 3, 4, 5, 6, 7, 8), []Ev{{B: 2, G: 0}, {B: 1500, G: 1}, {B: 3500, G: 2}, {B: 5001, G: 3}, {B: 5002, Rm: true, G: 0}, {B: 5003, G: 4},
			{B: 5004, G: 5}}, Seg{Polls: []uint64{2, 5003, 5004}}),
		mk(g(1, 2, 3, 4, 5, 6, 7, 8), []Ev{{B: 2, G: 0}, {B: 100, G: 1}, {B: 4999, G: 2}, {B: 5003, G: 3}, {B: 5500, G: 4}, {B: 6500, Rm: true, G: 1},
			{B: 7001, G: 5}, {B: 7003, Rm: true, G: 0}}, Seg{Polls: []uint64{2}}, Seg{Polls: []uint64{7001, 7003}}),
		// the L1 info tree syncer is two lookups behind for the only root: the downloader must wait for it, not drop it
		mk([]GerDef{{Hash: ger(1).Hash, Idx: 4, Lag: 2}}, []Ev{{B: 2, G: 0}}, Seg{Polls: []uint64{3}}),
		// ... same while the node is restarted, and with a second root that is not lagging
		mk([]GerDef{{Hash: ger(1).Hash, Idx: 9, Lag: 3}, {Hash: ger(2).Hash, Idx: 4}}, []Ev{{B: 1, G: 1}, {B: 4, G: 0}, {B: 6, Rm: true, G: 1}},
			Seg{Polls: []uint64{2}}, Seg{Polls: []uint64{5, 7}}),
		// reinsertion after removal, largest index
		mk(g(^uint32(0), 0), []Ev{{B: 1, G: 0}, {B: 2, Rm: true, G: 0}, {B: 3, G: 0}, {B: 4, G: 1}}, Seg{Polls: []uint64{4}}),
	}
}

func gen(f *hlib.Flags) []In {
	ins := fixedCases()
	for _, c := range fixedCases() { // the fixed histories that remove a root, again under storage faults
		hasRm := false
		for _, e := range c.Hist {
			hasRm = hasRm || e.Rm
		}
		if hasRm {
			c.Faults = true
			ins = append(ins, c)
		}
	}
	rng := hlib.NewRng(f.Seed)
	for i := 0; i < f.N; i++ {
		if i%25 == 7 { // few: each costs the model a walk over thousands of blocks
			ins = append(ins, genBigCase(rng))
			continue
		}
		c := genCase(rng, f.Tier == "thorough")
		c.Faults = i%8 == 3 // no random draw: the histories are the ones of the earlier runs
		ins = append(ins, c)
	}
	return ins
}

// runBatched runs the items in this process, or, for large runs, in child processes of `batch` items each:
// db.RunMigrations (called by newProcessor) never closes the handle it opens, so every opened store leaks file
// descriptors of the SQLite file.
func runBatched(f *hlib.Flags, prop string, items []any, runOne func(json.RawMessage) any) {
	w := hlib.NewWriter(f.Out)
	defer w.Close()
	const batch = 200
	if len(items) > batch && os.Getenv("VERIF_C16_CHILD") == "" {
		for start := 0; start < len(items); start += batch {
			end := min(start+batch, len(items))
			inFile := filepath.Join(tmpRoot, fmt.Sprintf("batch_%d_in.jsonl", start))
			outFile := filepath.Join(tmpRoot, fmt.Sprintf("batch_%d_out.jsonl", start))
			iw := hlib.NewWriter(inFile)
			for _, it := range items[start:end] {
				iw.Emit(it)
			}
			iw.Close()
			cmd := exec.Command(os.Args[0], "-prop", prop, "-replay", inFile, "-out", outFile, "-tier", f.Tier)
			cmd.Env = append(os.Environ(), "VERIF_C16_CHILD=1")
			cmd.Stdout, cmd.Stderr = os.Stderr, os.Stderr
			if err := cmd.Run(); err != nil {
				w.Close()
				fmt.Fprintf(os.Stderr, "c16 harness: batch starting at case %d failed: %v\n", start, err)
				os.RemoveAll(tmpRoot)
				os.Exit(2)
			}
			for _, raw := range hlib.ReadJSONL(outFile) {
				w.Emit(raw)
			}
			os.Remove(inFile)
			os.Remove(outFile)
		}
		return
	}
	for _, it := range items {
		raw, err := json.Marshal(it)
		if err != nil {
			panic(err)
		}
		w.Emit(runOne(raw))
	}
}

func main() {
	prop := flag.String("prop", "c16", "c16 (downloader + driver + processor) | c07 (processor under storage faults) | c04 (processor under reorgs)")
	f := hlib.ParseFlags()
	log.Init(log.Config{Environment: log.EnvironmentProduction, Level: "fatal", Outputs: []string{"/dev/null"}})
	sync.LogFatalf = func(format string, args ...any) { panic(stuckPanic{msg: fmt.Sprintf(format, args...)}) }
	var err error
	base := ""
	if st, e := os.Stat("/dev/shm"); e == nil && st.IsDir() {
		base = "/dev/shm"
	}
	tmpRoot, err = os.MkdirTemp(base, "verif_c16_")
	if err != nil {
		panic(err)
	}
	defer os.RemoveAll(tmpRoot)
	if *prop == "c07" || *prop == "c04" {
		storeMain(f, *prop)
		return
	}
	if *prop == "fep" {
		fepMain(f)
		return
	}
	var ins []In
	if f.Replay != "" {
		for _, raw := range hlib.ReadJSONL(f.Replay) {
			var in In
			if err := json.Unmarshal(raw, &in); err != nil {
				panic(err)
			}
			ins = append(ins, in)
		}
	} else {
		ins = gen(f)
	}
	items := make([]any, len(ins))
	for i := range ins {
		items[i] = ins[i]
	}
	runBatched(f, "c16", items, func(raw json.RawMessage) any {
		var in In
		if err := json.Unmarshal(raw, &in); err != nil {
			panic(err)
		}
		return run(in)
	})
}
