package main

import (
	"math/big"

	"verifharness/hlib"
)

// ---------- case input ----------

type Op struct {
	// asset | erc20 | message : bridge deposits (msg.sender = the user account)
	// rollup                 : ger.updateExitRoot(Root) sent by the rollup-manager account (the user, as in newSimulatedL1)
	// updateger              : bridge.updateGlobalExitRoot()
	// time                   : empty block, Secs later (simulated.Backend.AdjustTime)
	// leaf                   : bridge.getLeafValue(LT, ONet, OAddr, DNet, DAddr, Amount, MH)   (pure)
	// l1leaf                 : ger.getLeafValue(Ger, BH, TS)                                    (pure)
	// verify                 : the bridge leaves seen so far (as the repository hashes them) are appended to a REAL aggkit
	//                          append-only tree; for versions k and indices j < k drawn from VSeed the tree's GetProof(j, root_k)
	//                          is handed to bridge.verifyMerkleProof / calculateRoot (pure), once as served and once tampered
	K         string `json:"k"`
	DNet      uint32 `json:"dnet,omitempty"`
	DAddr     string `json:"daddr,omitempty"`  // hex20
	Amount    string `json:"amount,omitempty"` // decimal
	Meta      string `json:"meta,omitempty"`   // hex
	Force     bool   `json:"force,omitempty"`  // forceUpdateGlobalExitRoot
	BadValue  bool   `json:"bad_value,omitempty"`
	SameBlock bool   `json:"same_block,omitempty"` // do not seal a block after this transaction: the next one shares it
	Root      string `json:"root,omitempty"`       // hex32
	Secs      uint64 `json:"secs,omitempty"`
	LT        uint8  `json:"lt,omitempty"`
	ONet      uint32 `json:"onet,omitempty"`
	OAddr     string `json:"oaddr,omitempty"`
	MH        string `json:"mh,omitempty"`  // hex32
	Ger       string `json:"ger,omitempty"` // hex32
	BH        string `json:"bh,omitempty"`  // hex32
	TS        uint64 `json:"ts,omitempty"`
	VSeed     uint64 `json:"vseed,omitempty"`
}

type In struct {
	KeySeed uint64 `json:"key_seed"`
	Ops     []Op   `json:"ops"`
	// GasToken: the bridge is initialised with a custom gas token (gasTokenAddress != 0): a native bridgeAsset then emits the gas
	// token's origin network / address / metadata instead of (0, 0x0, empty)
	GasToken bool `json:"gas_token,omitempty"`
}

// ---------- generators ----------

var metaLens = []int{0, 1, 31, 32, 33, 200}

const (
	zero20 = "0000000000000000000000000000000000000000"
	ff20   = "ffffffffffffffffffffffffffffffffffffffff"
	zero32 = "0000000000000000000000000000000000000000000000000000000000000000"
	ff32   = "ffffffffffffffffffffffffffffffffffffffffffffffffffffffffffffffff"
)

func maxU256() *big.Int { return new(big.Int).Sub(pow2(256), big.NewInt(1)) }

func genAddr(r *hlib.Rng) string {
	switch r.Intn(6) {
	case 0:
		return zero20
	case 1:
		return ff20
	case 2:
		return "0000000000000000000000000000000000000f00" // common.HexToAddress("f00") of bridgesync/e2e_test.go
	default:
		return hlib.Hex(r.Bytes(20))
	}
}

func genNet(r *hlib.Rng, legal bool) uint32 {
	v := hlib.Pick(r, uint32(1), uint32(2), uint32(0xffffffff), uint32(0x80000000), uint32(0x01020304), r.U32(), r.U32())
	if !legal && r.Intn(4) == 0 {
		return 0
	}
	if legal && v == networkID {
		return 1
	}
	return v
}

// deposit amounts: 0, 1, large (the user owns 2^250 wei and 2^250 tokens; a case never moves more than 2^248)
func genAmount(r *hlib.Rng) string {
	switch r.Intn(5) {
	case 0:
		return "0"
	case 1:
		return "1"
	case 2:
		return new(big.Int).Add(pow2(uint(64+r.Intn(170))), big.NewInt(int64(r.Intn(1000)))).String()
	case 3:
		return r.Big(8 * (1 + r.Intn(29))).String()
	default:
		return r.Big(64).String()
	}
}

func genDeposit(r *hlib.Rng) Op {
	op := Op{DNet: genNet(r, true), DAddr: genAddr(r), Amount: genAmount(r), Force: r.Intn(3) != 0}
	switch r.Intn(5) {
	case 0, 1:
		op.K = "asset"
	case 2:
		op.K = "erc20"
	default:
		op.K = "message"
		op.Meta = hlib.Hex(r.Bytes(hlib.Pick(r, metaLens...)))
	}
	return op
}

func genRoot(r *hlib.Rng, prev string) string {
	switch r.Intn(8) {
	case 0:
		return zero32
	case 1:
		return ff32
	case 2:
		if prev != "" {
			return prev // same rollup root again: the global exit root is already known, no new leaf
		}
	}
	return hlib.Hex(r.Bytes(32))
}

func genLeafQuery(r *hlib.Rng) Op {
	f := func() string { return hlib.Pick(r, zero20, ff20, hlib.Hex(r.Bytes(20)), hlib.Hex(r.Bytes(20))) }
	n := func() uint32 { return hlib.Pick(r, uint32(0), uint32(1), uint32(0xffffffff), r.U32(), r.U32()) }
	amt := hlib.Pick(r, "0", "1", maxU256().String(), pow2(255).String(), r.Big(256).String(), r.Big(64).String())
	return Op{K: "leaf", LT: hlib.Pick(r, uint8(0), uint8(1), uint8(255), uint8(r.U32())), ONet: n(), OAddr: f(), DNet: n(), DAddr: f(),
		Amount: amt, MH: hlib.Pick(r, zero32, ff32, hlib.Hex(r.Bytes(32)), hlib.Hex(r.Bytes(32)))}
}

func genL1LeafQuery(r *hlib.Rng) Op {
	h := func() string { return hlib.Pick(r, zero32, ff32, hlib.Hex(r.Bytes(32)), hlib.Hex(r.Bytes(32))) }
	return Op{K: "l1leaf", Ger: h(), BH: h(), TS: hlib.Pick(r, uint64(0), uint64(1), uint64(0xffffffff), uint64(0x100000000), ^uint64(0), r.U64(), uint64(r.U32()))}
}

// boundaryCase does not depend on the seed: every op kind, every metadata length, amounts 0/1/large, field extremes,
// a reverting call of each kind, two updates in one block, a repeated rollup root, a time jump across 2^32 seconds.
func boundaryCase() In {
	var ops []Op
	ops = append(ops,
		Op{K: "leaf", LT: 0, ONet: 0, OAddr: zero20, DNet: 0, DAddr: zero20, Amount: "0", MH: zero32},
		Op{K: "leaf", LT: 255, ONet: 0xffffffff, OAddr: ff20, DNet: 0xffffffff, DAddr: ff20, Amount: maxU256().String(), MH: ff32},
		Op{K: "leaf", LT: 1, ONet: 1, OAddr: "0000000000000000000000000000000000000002", DNet: 3, DAddr: "0000000000000000000000000000000000000004", Amount: "5", MH: "0000000000000000000000000000000000000000000000000000000000000006"},
		Op{K: "l1leaf", Ger: zero32, BH: zero32, TS: 0},
		Op{K: "l1leaf", Ger: ff32, BH: ff32, TS: ^uint64(0)},
		Op{K: "l1leaf", Ger: "0000000000000000000000000000000000000000000000000000000000000001", BH: "0000000000000000000000000000000000000000000000000000000000000002", TS: 3},
		Op{K: "asset", DNet: 2, DAddr: "0000000000000000000000000000000000000f00", Amount: "0", Force: true}, // bridgesync/e2e_test.go
		Op{K: "asset", DNet: 0xffffffff, DAddr: ff20, Amount: "1", Force: false},
		Op{K: "updateger"},
		Op{K: "updateger"}, // nothing new to push
		Op{K: "asset", DNet: 1, DAddr: zero20, Amount: pow2(240).String(), Force: true},
		Op{K: "asset", DNet: 0, DAddr: ff20, Amount: "7", Force: true},                            // DestinationNetworkInvalid
		Op{K: "asset", DNet: 1, DAddr: ff20, Amount: "7", Force: true, BadValue: true},            // AmountDoesNotMatchMsgValue
		Op{K: "message", DNet: 0, DAddr: ff20, Amount: "0", Force: true, Meta: "00"},              // DestinationNetworkInvalid
		Op{K: "rollup", Root: "0000000000000000000000000000000000000000000000000000000000000000"}, // rollup root 0 with a new mainnet root: known GER? (no leaf iff already in the map)
		Op{K: "rollup", Root: "0000000000000000000000000000000000000000000000000000000000000001"}, // l1infotreesync/e2e_test.go: HexToHash("1")
		Op{K: "rollup", Root: "0000000000000000000000000000000000000000000000000000000000000001"}, // repeated
		Op{K: "rollup", Root: ff32},
		Op{K: "time", Secs: 200_000_000}, // block time crosses 2^32
	)
	for i, n := range metaLens {
		meta := make([]byte, n)
		for j := range meta {
			meta[j] = byte(0xa0 + i + j)
		}
		ops = append(ops, Op{K: "message", DNet: uint32(i + 1), DAddr: []string{zero20, ff20, "00000000000000000000000000000000000000aa"}[i%3],
			Amount: []string{"0", "1", pow2(200).String()}[i%3], Force: i%2 == 0, Meta: hlib.Hex(meta)})
	}
	ops = append(ops,
		Op{K: "erc20", DNet: 5, DAddr: "00000000000000000000000000000000000000bb", Amount: "0", Force: true},
		Op{K: "erc20", DNet: 6, DAddr: zero20, Amount: pow2(230).String(), Force: false, SameBlock: true},
		Op{K: "asset", DNet: 7, DAddr: ff20, Amount: "12345678901234567890", Force: true, SameBlock: true},
		Op{K: "message", DNet: 8, DAddr: "00000000000000000000000000000000000000cc", Amount: "1", Force: true, Meta: "deadbeef"},
		Op{K: "rollup", Root: "00000000000000000000000000000000000000000000000000000000000000ff", SameBlock: true},
		Op{K: "message", DNet: 9, DAddr: zero20, Amount: "0", Force: true, Meta: ""},
		Op{K: "updateger"},
		Op{K: "verify", VSeed: 1},
	)
	return In{KeySeed: 1, Ops: ops}
}

// randomCase: nDep deposits interleaved with rollup-root updates, explicit GER pushes, time jumps, direct leaf queries and
// (1 in 12) a reverting call.
func randomCase(r *hlib.Rng, nDep int) In {
	in := In{KeySeed: r.U64()}
	prevRoot := ""
	for d := 0; d < nDep; {
		switch x := r.Intn(20); {
		case x < 10:
			op := genDeposit(r)
			op.SameBlock = r.Intn(6) == 0
			in.Ops = append(in.Ops, op)
			d++
		case x < 13:
			rt := genRoot(r, prevRoot)
			prevRoot = rt
			in.Ops = append(in.Ops, Op{K: "rollup", Root: rt, SameBlock: r.Intn(6) == 0})
		case x < 14:
			in.Ops = append(in.Ops, Op{K: "updateger"})
		case x < 15:
			in.Ops = append(in.Ops, Op{K: "time", Secs: hlib.Pick(r, uint64(1), uint64(12), uint64(3600), uint64(1+r.Intn(100_000_000)))})
		case x < 18:
			in.Ops = append(in.Ops, genLeafQuery(r))
		case x < 19:
			in.Ops = append(in.Ops, genL1LeafQuery(r))
		default:
			op := genDeposit(r)
			if r.Bool() || op.K == "message" || op.K == "erc20" {
				op.DNet = networkID
			} else {
				op.BadValue = true
			}
			in.Ops = append(in.Ops, op)
		}
		if d > 0 && r.Intn(25) == 0 {
			in.Ops = append(in.Ops, Op{K: "verify", VSeed: r.U64()})
		}
	}
	in.Ops = append(in.Ops, Op{K: "verify", VSeed: r.U64()})
	return in
}

// generate: case 0 = boundary case, case 1 = direct queries, then random cases. Quick tier: deposits per case 6..20, the first
// random case 33..40 (n = 5: about 75 deposits, 50 direct leaf queries, 60 L1 info leaves in total); thorough: up to 140 deposits per case (tree carries up to bit 7).
func generate(seed uint64, n int, tier string) []In {
	r := hlib.NewRng(seed)
	out := []In{boundaryCase()}
	// direct queries: a block of them in their own case so that the count does not depend on the op mix
	q := In{KeySeed: r.U64()}
	nq := 30
	if tier == "thorough" {
		nq = 400
	}
	for i := 0; i < nq; i++ {
		if i%4 == 3 {
			q.Ops = append(q.Ops, genL1LeafQuery(r))
		} else {
			q.Ops = append(q.Ops, genLeafQuery(r))
		}
	}
	q.Ops = append(q.Ops, Op{K: "asset", DNet: 1, DAddr: genAddr(r), Amount: "1", Force: true})
	out = append(out, q)
	for len(out) < n {
		nd := 6 + r.Intn(15)
		if len(out) == 2 {
			nd = 33 + r.Intn(8) // one longer history per run: the append crosses bit 5 of the deposit count
		}
		if tier == "thorough" {
			nd = hlib.Pick(r, 1, 2, 3, 8, 17, 33, 64, 65, 140, 5+r.Intn(60))
		}
		c := randomCase(r, nd)
		c.GasToken = len(out)%2 == 1 // every second random case runs on a chain with a custom gas token
		out = append(out, c)
	}
	return out
}
