// EVM harness: ties the hand transcription of the Solidity side (coq/theories/Model/Contracts.v) to the REAL contract
// bytecode. Deploys, in go-ethereum's simulated backend (offline), the bridge contract behind its proxy exactly as
// /repo/test/helpers.(*SimulatedBackendSetup).DeployBridge does and the L1 PolygonZkEVMGlobalExitRootV2 contract exactly as
// /repo/test/helpers.newSimulatedL1 does (rollup manager = the user account, bridge = the bridge proxy), with the
// repository's own contract bindings, then runs generated operation lists and prints, one JSON object per case, what the
// contracts answered: deposit counts, roots, emitted events as the repository's log decoding sees them, getLeafValue answers.
// Nothing here re-computes a hash: every value is read from the chain (plus bridgesync.Bridge.Hash() of the decoded event,
// recorded as a second opinion).
//
// Replay: accounts derive from the case's key seed, block times from the fixed genesis time, so a replayed input meets the same
// addresses, timestamps, deposit counts, leaves and exit roots. Block hashes differ from run to run (the simulated beacon draws
// prevRandao from crypto/rand), hence so do the L1 info leaves and roots: they are observations, compared afresh on every run.
package main

import (
	"context"
	"encoding/binary"
	"encoding/json"
	"fmt"
	"math/big"
	"os"
	"path/filepath"
	"time"

	"github.com/0xPolygon/cdk-contracts-tooling/contracts/pp/l2-sovereign-chain/erc20permitmock"
	"github.com/0xPolygon/cdk-contracts-tooling/contracts/pp/l2-sovereign-chain/polygonzkevmbridgev2"
	"github.com/0xPolygon/cdk-contracts-tooling/contracts/pp/l2-sovereign-chain/polygonzkevmglobalexitrootv2"
	"github.com/agglayer/aggkit/bridgesync"
	aggkitdb "github.com/agglayer/aggkit/db"
	aggkitlog "github.com/agglayer/aggkit/log"
	aggsync "github.com/agglayer/aggkit/sync"
	aggkittypes "github.com/agglayer/aggkit/types"
	"github.com/agglayer/aggkit/test/contracts/transparentupgradableproxy"
	"github.com/agglayer/aggkit/tree"
	treemigrations "github.com/agglayer/aggkit/tree/migrations"
	treetypes "github.com/agglayer/aggkit/tree/types"
	"github.com/ethereum/go-ethereum/accounts/abi/bind"
	"github.com/ethereum/go-ethereum/common"
	"github.com/ethereum/go-ethereum/core/types"
	"github.com/ethereum/go-ethereum/crypto"
	"github.com/ethereum/go-ethereum/eth/ethconfig"
	"github.com/ethereum/go-ethereum/ethclient/simulated"
	"github.com/ethereum/go-ethereum/node"

	"verifharness/hlib"
)

const (
	chainID              = 1337               // test/helpers/simulated.go
	defaultBlockGasLimit = 999999999999999999 // test/helpers/simulated.go
	networkID            = uint32(0)          // newSimulatedL1: DeployBridge(client, gerAddr, 0)
	// genesis time in the future of any wall clock this runs under: the simulated beacon then stamps every block
	// parent+1 (eth/catalyst/simulated_beacon.go sealBlock), so block hashes and timestamps replay exactly
	genesisTime = uint64(4_100_000_000)
	txGas       = uint64(3_000_000) // fixed gas limit: no eth_estimateGas, reverting calls are mined with status 0
)

var (
	bridgeEventSig = crypto.Keccak256Hash([]byte("BridgeEvent(uint8,uint32,address,uint32,address,uint256,bytes,uint32)")) // bridgesync/downloader.go
	updateV1Sig    = crypto.Keccak256Hash([]byte("UpdateL1InfoTree(bytes32,bytes32)"))                                     // l1infotreesync/downloader.go
	updateV2Sig    = crypto.Keccak256Hash([]byte("UpdateL1InfoTreeV2(bytes32,uint32,uint256,uint64)"))
)

// ---------- observations ----------

type BEv struct {
	LogIndex     uint   `json:"log_index"`
	LT           uint8  `json:"lt"`
	ONet         uint32 `json:"onet"`
	OAddr        string `json:"oaddr"`
	DNet         uint32 `json:"dnet"`
	DAddr        string `json:"daddr"`
	Amount       string `json:"amount"`
	Meta         string `json:"meta"`
	DC           uint32 `json:"dc"`
	LeafContract string `json:"leaf_contract"` // bridge.getLeafValue(event fields, metadataHash) where metadataHash = the EVM's keccak256 (crypto.Keccak256)
	MetaHash     string `json:"meta_hash"`     // the metadataHash argument passed
	LeafRepo     string `json:"leaf_repo"`     // bridgesync.Bridge{event fields}.Hash()
	Native       bool   `json:"native"`
	// from the REAL appender: where the event was placed and what it recorded about the call; raw log data for the Gallina decoder
	BlockNum uint64 `json:"block_num"`
	BlockPos uint64 `json:"block_pos"`
	BlockTS  uint64 `json:"block_ts"`
	From     string `json:"from"`
	Data     string `json:"data"`
}

type L1V2 struct {
	Root      string `json:"root"`
	LeafCount uint32 `json:"leaf_count"`
	Blockhash string `json:"blockhash"`
	MinTS     uint64 `json:"min_ts"`
}

type L1Ev struct {
	LogIndex     uint   `json:"log_index"`
	MER          string `json:"mer"`
	RER          string `json:"rer"`
	ParentHash   string `json:"parent_hash"`             // header.ParentHash of the log's block (sync.EVMDownloader -> EVMBlock.ParentHash)
	Timestamp    uint64 `json:"timestamp"`               // header.Time
	GERArg       string `json:"ger_arg,omitempty"`       // ger.getLastGlobalExitRoot() at that block, when it belongs to this event
	LeafContract string `json:"leaf_contract,omitempty"` // ger.getLeafValue(GERArg, parent hash, timestamp)
	V2           *L1V2  `json:"v2,omitempty"`
}

type After struct {
	BCount   string `json:"bcount"`
	BRoot    string `json:"broot"`
	BLastUpd uint32 `json:"blastupd"`
	GCount   string `json:"gcount"`
	GRoot    string `json:"groot"`
	GRootMap string `json:"grootmap"` // l1InfoRootMap(depositCount)
	MER      string `json:"mer"`
	RER      string `json:"rer"`
	GER      string `json:"ger"`
	Block    uint64 `json:"block"`
	Time     uint64 `json:"time"`
}

// one proof served by the real aggkit tree and judged by the real contract
type VObs struct {
	K        uint32   `json:"k"` // version: the tree / contract after k leaves
	J        uint32   `json:"j"` // index proved
	Leaf     string   `json:"leaf"`
	Root     string   `json:"root"`  // tree.GetRootByIndex(k-1)
	Proof    []string `json:"proof"` // tree.GetProof(j, root), 32 siblings
	OK       bool     `json:"ok"`    // bridge.verifyMerkleProof(leaf, proof, j, root)
	Calc     string   `json:"calc"`  // bridge.calculateRoot(leaf, proof, j)
	TLevel   uint32   `json:"tlevel"`
	TSibling string   `json:"tsibling"` // proof[tlevel] replaced by this value
	TOK      bool     `json:"tok"`      // bridge.verifyMerkleProof on the tampered proof
	Err      string   `json:"err,omitempty"`
}

type Step struct {
	K      string `json:"k"`
	Status int    `json:"status"` // 1 mined ok, 0 mined reverted, -1 not a transaction
	Block  uint64 `json:"block,omitempty"`
	BEvs   []BEv  `json:"bevs,omitempty"`
	L1Evs  []L1Ev `json:"l1evs,omitempty"`
	After  *After `json:"after,omitempty"` // nil when the next transaction went into the same block
	Answer string `json:"answer,omitempty"`
	Other  int    `json:"other_logs,omitempty"`
	Verifs []VObs `json:"verifs,omitempty"`
	NLeaf  int    `json:"nleaf,omitempty"` // bridge leaves appended to the aggkit tree at a verify step
}

type Env struct {
	Bridge string `json:"bridge"`
	GER    string `json:"ger"`
	User   string `json:"user"`
	Token  string `json:"token"`
	BVer   string `json:"bridge_version"`
	GVer   string `json:"ger_version,omitempty"`
}

type Out struct {
	In    In     `json:"in"`
	Env   Env    `json:"env"`
	Init  After  `json:"init"`
	Steps []Step `json:"steps"`
}

// ---------- environment ----------

type env struct {
	ctx    context.Context
	be     *simulated.Backend
	user   *bind.TransactOpts
	dep    *bind.TransactOpts
	bridge *polygonzkevmbridgev2.Polygonzkevmbridgev2
	baddr  common.Address
	ger    *polygonzkevmglobalexitrootv2.Polygonzkevmglobalexitrootv2
	gaddr  common.Address
	token  common.Address
	// the REAL log appender of the bridge syncer (bridgesync.buildAppender through the hook VerifBuildAppender)
	appender aggsync.LogAppenderMap
}

// traceRPC answers debug_traceTransaction(callTracer) for the harness's own transactions: the simulated backend has no tracer;
// every transaction the harness sends is a direct call, so its call trace is the single root frame (from, to, input).
type traceRPC struct{ e *env }

func (t traceRPC) Call(result any, method string, args ...any) error {
	if method != "debug_traceTransaction" || len(args) < 1 {
		return fmt.Errorf("evm harness: unexpected RPC %s", method)
	}
	h, ok := args[0].(common.Hash)
	if !ok {
		return fmt.Errorf("evm harness: unexpected trace argument %T", args[0])
	}
	tx, _, err := t.e.be.Client().TransactionByHash(t.e.ctx, h)
	if err != nil {
		return err
	}
	from, err := types.Sender(types.LatestSignerForChainID(big.NewInt(chainID)), tx)
	if err != nil {
		return err
	}
	to := common.Address{}
	if tx.To() != nil {
		to = *tx.To()
	}
	raw, err := json.Marshal(map[string]any{"type": "CALL", "from": from.Hex(), "to": to.Hex(), "value": "0x0", "gas": "0x1", "gasUsed": "0x1",
		"input": "0x" + hlib.Hex(tx.Data())})
	if err != nil {
		return err
	}
	return json.Unmarshal(raw, result)
}

func must(err error, what string) {
	if err != nil {
		fmt.Fprintf(os.Stderr, "evm harness: %s: %v\n", what, err)
		os.Exit(2)
	}
}

func keyFrom(seed uint64, label string) *bind.TransactOpts {
	var b [8]byte
	binary.BigEndian.PutUint64(b[:], seed)
	k, err := crypto.ToECDSA(crypto.Keccak256([]byte("verif-evm-"+label), b[:]))
	must(err, "key")
	a, err := bind.NewKeyedTransactorWithChainID(k, big.NewInt(chainID))
	must(err, "transactor")
	a.GasLimit = txGas
	return a
}

func pow2(n uint) *big.Int { return new(big.Int).Lsh(big.NewInt(1), n) }

func newEnv(keySeed uint64, gasToken bool) *env {
	e := &env{ctx: context.Background()}
	e.user = keyFrom(keySeed, "user")
	e.dep = keyFrom(keySeed, "deployer")
	e.dep.GasLimit = 0 // deployments: estimated
	alloc := map[common.Address]types.Account{
		e.user.From: {Balance: pow2(250)},
		e.dep.From:  {Balance: pow2(100)},
	}
	e.be = simulated.NewBackend(alloc, simulated.WithBlockGasLimit(defaultBlockGasLimit),
		func(_ *node.Config, c *ethconfig.Config) { c.Genesis.Timestamp = genesisTime })
	e.be.Commit() // "Mine the first block" (NewSimulatedBackend)

	// --- newSimulatedL1 ---
	nonce, err := e.be.Client().PendingNonceAt(e.ctx, e.dep.From)
	must(err, "nonce")
	calculatedGERAddr := crypto.CreateAddress(e.dep.From, nonce+2) // DeployBridge sends two transactions

	// --- DeployBridge(client, calculatedGERAddr, 0) ---
	bridgeImpl, _, _, err := polygonzkevmbridgev2.DeployPolygonzkevmbridgev2(e.dep, e.be.Client())
	must(err, "deploy bridge implementation")
	e.be.Commit()
	bridgeABI, err := polygonzkevmbridgev2.Polygonzkevmbridgev2MetaData.GetAbi()
	must(err, "bridge abi")
	gasTokenAddr, gasTokenMeta := common.Address{}, []byte{}
	if gasToken {
		// a chain whose gas token is an ERC-20 of network 0: initialize() stores the address, network and metadata and deploys WETH
		gasTokenAddr = common.HexToAddress("0x00000000000000000000000000000000c0ffee01")
		gasTokenMeta = []byte("verif custom gas token metadata (name, symbol, decimals)")
	}
	initData, err := bridgeABI.Pack("initialize",
		networkID,
		gasTokenAddr, // gasTokenAddressMainnet
		uint32(0),    // gasTokenNetworkMainnet
		calculatedGERAddr,
		common.Address{}, // rollup manager
		gasTokenMeta,     // gasTokenMetadata
	)
	must(err, "pack initialize")
	e.baddr, _, _, err = transparentupgradableproxy.DeployTransparentupgradableproxy(e.dep, e.be.Client(), bridgeImpl, e.dep.From, initData)
	must(err, "deploy bridge proxy")
	e.be.Commit()
	e.bridge, err = polygonzkevmbridgev2.NewPolygonzkevmbridgev2(e.baddr, e.be.Client())
	must(err, "bind bridge")
	e.appender, err = bridgesync.VerifBuildAppender(aggkittypes.NewDefaultEthClient(e.be.Client(), traceRPC{e}), e.baddr, false, e.bridge,
		aggkitlog.WithFields("module", "verif-evm"))
	must(err, "bridgesync appender")
	actualGER, err := e.bridge.GlobalExitRootManager(&bind.CallOpts{})
	must(err, "globalExitRootManager()")
	if actualGER != calculatedGERAddr {
		must(fmt.Errorf("bridge points to %s, expected %s", actualGER, calculatedGERAddr), "GER address")
	}
	// --- back in newSimulatedL1 ---
	e.gaddr, _, e.ger, err = polygonzkevmglobalexitrootv2.DeployPolygonzkevmglobalexitrootv2(e.dep, e.be.Client(), e.user.From, e.baddr)
	must(err, "deploy GER")
	e.be.Commit()
	if e.gaddr != calculatedGERAddr {
		must(fmt.Errorf("GER deployed at %s, expected %s", e.gaddr, calculatedGERAddr), "GER address")
	}

	// ERC20 used by the token path of bridgeAsset (binding from the same contracts module): whole supply to the user,
	// unlimited allowance for the bridge
	var tok *erc20permitmock.Erc20permitmock
	e.token, _, tok, err = erc20permitmock.DeployErc20permitmock(e.dep, e.be.Client(), "Verif Token", "VRF", e.user.From, pow2(250))
	must(err, "deploy erc20")
	e.be.Commit()
	max := new(big.Int).Sub(pow2(256), big.NewInt(1))
	tx, err := tok.Approve(e.user, e.baddr, max)
	must(err, "approve")
	e.be.Commit()
	e.requireOK(tx, "approve")
	return e
}

func (e *env) requireOK(tx *types.Transaction, what string) {
	r, err := e.be.Client().TransactionReceipt(e.ctx, tx.Hash())
	must(err, what+" receipt")
	if r.Status != types.ReceiptStatusSuccessful {
		must(fmt.Errorf("status %d", r.Status), what)
	}
}

func h32(b [32]byte) string { return hlib.Hex(b[:]) }

func (e *env) after() After {
	c := e.be.Client()
	hd, err := c.HeaderByNumber(e.ctx, nil)
	must(err, "header")
	co := &bind.CallOpts{BlockNumber: hd.Number}
	var a After
	bc, err := e.bridge.DepositCount(co)
	must(err, "bridge.depositCount")
	br, err := e.bridge.GetRoot(co)
	must(err, "bridge.getRoot")
	lu, err := e.bridge.LastUpdatedDepositCount(co)
	must(err, "bridge.lastUpdatedDepositCount")
	gc, err := e.ger.DepositCount(co)
	must(err, "ger.depositCount")
	gr, err := e.ger.GetRoot(co)
	must(err, "ger.getRoot")
	gm, err := e.ger.L1InfoRootMap(co, uint32(gc.Uint64()))
	must(err, "ger.l1InfoRootMap")
	mer, err := e.ger.LastMainnetExitRoot(co)
	must(err, "ger.lastMainnetExitRoot")
	rer, err := e.ger.LastRollupExitRoot(co)
	must(err, "ger.lastRollupExitRoot")
	g, err := e.ger.GetLastGlobalExitRoot(co)
	must(err, "ger.getLastGlobalExitRoot")
	a = After{BCount: bc.String(), BRoot: h32(br), BLastUpd: lu, GCount: gc.String(), GRoot: h32(gr), GRootMap: h32(gm),
		MER: h32(mer), RER: h32(rer), GER: h32(g), Block: hd.Number.Uint64(), Time: hd.Time}
	return a
}

// decode the logs of one receipt the way the repository's downloaders do (bridgesync/downloader.go buildBridgeEventHandler,
// l1infotreesync/downloader.go buildAppender; block fields as sync.EVMDownloader fills EVMBlock from the header)
func (e *env) decode(r *types.Receipt, st *Step) {
	c := e.be.Client()
	hd, err := c.HeaderByHash(e.ctx, r.BlockHash)
	must(err, "header by hash")
	co := &bind.CallOpts{BlockNumber: r.BlockNumber}
	gasToken, err := e.bridge.GasTokenAddress(co)
	must(err, "gasTokenAddress")
	st.Block = r.BlockNumber.Uint64()
	for _, l := range r.Logs {
		if len(l.Topics) == 0 {
			st.Other++
			continue
		}
		switch {
		case l.Address == e.baddr && l.Topics[0] == bridgeEventSig:
			// the REAL appender of the bridge syncer turns the log into a bridgesync.Bridge (block fields as sync.EVMDownloader fills them)
			blk := &aggsync.EVMBlock{EVMBlockHeader: aggsync.EVMBlockHeader{Num: hd.Number.Uint64(), Hash: hd.Hash(), ParentHash: hd.ParentHash, Timestamp: hd.Time}}
			must(e.appender[l.Topics[0]](blk, *l), "bridge log appender")
			if len(blk.Events) != 1 {
				must(fmt.Errorf("%d events for one BridgeEvent log", len(blk.Events)), "bridge log appender")
			}
			bev, ok := blk.Events[0].(bridgesync.Event)
			if !ok || bev.Bridge == nil {
				must(fmt.Errorf("appender produced %T", blk.Events[0]), "bridge log appender")
			}
			b := *bev.Bridge
			_ = gasToken
			// the contract's leaf value for this deposit: getLeafValue on the event AS EMITTED (decoded by the contract binding alone,
			// independently of the syncer's appender)
			ev, err := e.bridge.ParseBridgeEvent(*l)
			must(err, "ParseBridgeEvent")
			mh := crypto.Keccak256Hash(ev.Metadata)
			lv, err := e.bridge.GetLeafValue(co, ev.LeafType, ev.OriginNetwork, ev.OriginAddress, ev.DestinationNetwork, ev.DestinationAddress, ev.Amount, mh)
			must(err, "bridge.getLeafValue")
			rh := b.Hash()
			st.BEvs = append(st.BEvs, BEv{LogIndex: l.Index, LT: b.LeafType, ONet: b.OriginNetwork, OAddr: hlib.Hex(b.OriginAddress[:]),
				DNet: b.DestinationNetwork, DAddr: hlib.Hex(b.DestinationAddress[:]), Amount: hlib.Dec(b.Amount), Meta: hlib.Hex(b.Metadata),
				DC: b.DepositCount, LeafContract: h32(lv), MetaHash: hlib.Hex(mh[:]), LeafRepo: hlib.Hex(rh[:]), Native: b.IsNativeToken,
				BlockNum: b.BlockNum, BlockPos: b.BlockPos, BlockTS: b.BlockTimestamp, From: hlib.Hex(b.FromAddress[:]), Data: hlib.Hex(l.Data)})
		case l.Address == e.gaddr && l.Topics[0] == updateV1Sig:
			ev, err := e.ger.ParseUpdateL1InfoTree(*l)
			must(err, "ParseUpdateL1InfoTree")
			// the contract stores no per-leaf global exit root: getLastGlobalExitRoot() at the end of this block is the one of
			// this event iff the event's roots are still the contract's last roots (always, unless a later update landed in the
			// same block; then no contract-side value exists, GERArg stays empty and the direct leaf query is skipped)
			g, have := e.gerOfEvent(co, ev.MainnetExitRoot, ev.RollupExitRoot)
			o := L1Ev{LogIndex: l.Index, MER: h32(ev.MainnetExitRoot), RER: h32(ev.RollupExitRoot),
				ParentHash: hlib.Hex(hd.ParentHash[:]), Timestamp: hd.Time}
			if have {
				lv, err := e.ger.GetLeafValue(co, g, new(big.Int).SetBytes(hd.ParentHash[:]), hd.Time)
				must(err, "ger.getLeafValue")
				o.LeafContract, o.GERArg = h32(lv), h32(g)
			}
			st.L1Evs = append(st.L1Evs, o)
		case l.Address == e.gaddr && l.Topics[0] == updateV2Sig:
			ev, err := e.ger.ParseUpdateL1InfoTreeV2(*l)
			must(err, "ParseUpdateL1InfoTreeV2")
			if n := len(st.L1Evs); n > 0 && st.L1Evs[n-1].V2 == nil {
				bh := common.BytesToHash(ev.Blockhash.Bytes())
				st.L1Evs[n-1].V2 = &L1V2{Root: h32(ev.CurrentL1InfoRoot), LeafCount: ev.LeafCount, Blockhash: hlib.Hex(bh[:]), MinTS: ev.MinTimestamp}
			} else {
				st.Other++
			}
		default:
			st.Other++
		}
	}
}

func (e *env) gerOfEvent(co *bind.CallOpts, m, r [32]byte) ([32]byte, bool) {
	lm, err := e.ger.LastMainnetExitRoot(co)
	must(err, "lastMainnetExitRoot")
	lr, err := e.ger.LastRollupExitRoot(co)
	must(err, "lastRollupExitRoot")
	if lm != m || lr != r {
		return [32]byte{}, false
	}
	g, err := e.ger.GetLastGlobalExitRoot(co)
	must(err, "getLastGlobalExitRoot")
	return g, true
}

// ---------- proofs served by the aggkit tree, judged by the contract ----------

func (e *env) verify(leaves []common.Hash, vseed uint64, st *Step) {
	st.NLeaf = len(leaves)
	if len(leaves) == 0 {
		return
	}
	dir, err := os.MkdirTemp("", "verif_evm_tree_")
	must(err, "tempdir")
	defer os.RemoveAll(dir)
	dbPath := filepath.Join(dir, "tree.sqlite")
	must(treemigrations.RunMigrations(dbPath), "tree migrations")
	sdb, err := aggkitdb.NewSQLiteDB(dbPath)
	must(err, "open tree db")
	defer sdb.Close()
	t := tree.NewAppendOnlyTree(sdb, "")
	for i, l := range leaves {
		tx, err := aggkitdb.NewTx(e.ctx, sdb)
		must(err, "tx")
		must(t.AddLeaf(tx, uint64(i+1), 0, treetypes.Leaf{Index: uint32(i), Hash: l}), "AddLeaf")
		must(tx.Commit(), "commit")
	}
	r := hlib.NewRng(vseed)
	n := uint32(len(leaves))
	type kj struct{ k, j uint32 }
	picks := []kj{{n, 0}, {n, n - 1}, {n, uint32(r.Intn(int(n)))}}
	for i := 0; i < 3; i++ {
		k := 1 + uint32(r.Intn(int(n)))
		picks = append(picks, kj{k, uint32(r.Intn(int(k)))})
	}
	for _, p := range picks {
		o := VObs{K: p.k, J: p.j, Leaf: hlib.Hex(leaves[p.j][:])}
		root, err := t.GetRootByIndex(e.ctx, p.k-1)
		if err != nil {
			o.Err = "GetRootByIndex: " + err.Error()
			st.Verifs = append(st.Verifs, o)
			continue
		}
		o.Root = hlib.Hex(root.Hash[:])
		proof, err := t.GetProof(e.ctx, p.j, root.Hash)
		if err != nil {
			o.Err = "GetProof: " + err.Error()
			st.Verifs = append(st.Verifs, o)
			continue
		}
		var sp [32][32]byte
		for h := range proof {
			sp[h] = proof[h]
			o.Proof = append(o.Proof, hlib.Hex(proof[h][:]))
		}
		o.OK, err = e.bridge.VerifyMerkleProof(nil, leaves[p.j], sp, p.j, root.Hash)
		must(err, "bridge.verifyMerkleProof")
		c, err := e.bridge.CalculateRoot(nil, leaves[p.j], sp, p.j)
		must(err, "bridge.calculateRoot")
		o.Calc = h32(c)
		o.TLevel = uint32(r.Intn(32))
		tp := sp
		tp[o.TLevel][31-r.Intn(32)] ^= byte(1 << uint(r.Intn(8)))
		o.TSibling = hlib.Hex(tp[o.TLevel][:])
		o.TOK, err = e.bridge.VerifyMerkleProof(nil, leaves[p.j], tp, p.j, root.Hash)
		must(err, "bridge.verifyMerkleProof (tampered)")
		st.Verifs = append(st.Verifs, o)
	}
}

// ---------- running one case ----------

func addr(s string) common.Address { return common.BytesToAddress(hlib.UnHex(s)) }
func hash32(s string) [32]byte     { return common.BytesToHash(hlib.UnHex(s)) }

type pending struct {
	step int
	tx   *types.Transaction
}

func runCase(in In) Out {
	e := newEnv(in.KeySeed, in.GasToken)
	defer e.be.Close()
	out := Out{In: in, Env: Env{Bridge: hlib.Hex(e.baddr[:]), GER: hlib.Hex(e.gaddr[:]), User: hlib.Hex(e.user.From[:]), Token: hlib.Hex(e.token[:])}}
	if v, err := e.bridge.BRIDGEVERSION(nil); err == nil {
		out.Env.BVer = v
	}
	if v, err := e.ger.GERVERSION(nil); err == nil {
		out.Env.GVer = v
	}
	out.Init = e.after()
	out.Steps = make([]Step, len(in.Ops))
	var pend []pending
	var leaves []common.Hash // bridge leaves in deposit order, as the repository hashes the decoded events
	flush := func() {
		if len(pend) == 0 {
			return
		}
		e.be.Commit()
		for _, p := range pend {
			r, err := e.be.Client().TransactionReceipt(e.ctx, p.tx.Hash())
			must(err, fmt.Sprintf("receipt of step %d", p.step))
			st := &out.Steps[p.step]
			st.Status = int(r.Status)
			e.decode(r, st)
			for _, b := range st.BEvs {
				leaves = append(leaves, common.BytesToHash(hlib.UnHex(b.LeafRepo)))
			}
		}
		a := e.after()
		out.Steps[pend[len(pend)-1].step].After = &a
		pend = nil
	}
	for i, op := range in.Ops {
		st := &out.Steps[i]
		st.K = op.K
		st.Status = -1
		var tx *types.Transaction
		var err error
		switch op.K {
		case "asset", "erc20":
			amt := hlib.UnDec(op.Amount)
			tok := common.Address{}
			val := new(big.Int).Set(amt)
			if op.K == "erc20" {
				tok, val = e.token, big.NewInt(0)
			}
			if op.BadValue {
				val = new(big.Int).Add(val, big.NewInt(1))
			}
			e.user.Value = val
			tx, err = e.bridge.BridgeAsset(e.user, op.DNet, addr(op.DAddr), amt, tok, op.Force, nil)
		case "message":
			e.user.Value = hlib.UnDec(op.Amount)
			tx, err = e.bridge.BridgeMessage(e.user, op.DNet, addr(op.DAddr), op.Force, hlib.UnHex(op.Meta))
		case "rollup":
			e.user.Value = nil
			tx, err = e.ger.UpdateExitRoot(e.user, hash32(op.Root))
		case "updateger":
			e.user.Value = nil
			tx, err = e.bridge.UpdateGlobalExitRoot(e.user)
		case "time":
			flush()
			must(e.be.AdjustTime(time.Duration(op.Secs)*time.Second), "AdjustTime")
			a := e.after()
			st.After = &a
			continue
		case "verify":
			flush()
			e.verify(leaves, op.VSeed, st)
			continue
		case "leaf":
			flush()
			v, err := e.bridge.GetLeafValue(nil, op.LT, op.ONet, addr(op.OAddr), op.DNet, addr(op.DAddr), hlib.UnDec(op.Amount), hash32(op.MH))
			must(err, "bridge.getLeafValue (direct)")
			st.Answer = h32(v)
			continue
		case "l1leaf":
			flush()
			v, err := e.ger.GetLeafValue(nil, hash32(op.Ger), new(big.Int).SetBytes(hlib.UnHex(op.BH)), op.TS)
			must(err, "ger.getLeafValue (direct)")
			st.Answer = h32(v)
			continue
		default:
			must(fmt.Errorf("unknown op %q", op.K), "case input")
		}
		e.user.Value = nil
		must(err, fmt.Sprintf("sending step %d (%s)", i, op.K))
		pend = append(pend, pending{i, tx})
		if !op.SameBlock {
			flush()
		}
	}
	flush()
	return out
}

func main() {
	f := hlib.ParseFlags()
	hlib.QuietLogs()
	w := hlib.NewWriter(f.Out)
	defer w.Close()
	var ins []In
	if f.Replay != "" {
		for _, raw := range hlib.ReadJSONL(f.Replay) {
			var in In
			must(json.Unmarshal(raw, &in), "replay input")
			ins = append(ins, in)
		}
	} else {
		ins = generate(f.Seed, f.N, f.Tier)
	}
	for _, in := range ins {
		w.Emit(runCase(in))
	}
}
