module verifharness

go 1.24.4

require (
	buf.build/gen/go/agglayer/agglayer/grpc/go v1.5.1-20250520190516-57743a879f16.2
	buf.build/gen/go/agglayer/agglayer/protocolbuffers/go v1.36.6-20250520190516-57743a879f16.1
	buf.build/gen/go/agglayer/interop/protocolbuffers/go v1.36.6-20250519093743-85e8a3d9f59c.1
	github.com/0xPolygon/cdk-contracts-tooling v0.0.4
	github.com/agglayer/aggkit v0.0.0
	github.com/ethereum/go-ethereum v1.15.5
	github.com/mattn/go-sqlite3 v1.14.28
	google.golang.org/grpc v1.73.0
)

require (
	buf.build/gen/go/agglayer/provers/grpc/go v1.5.1-20250520163122-7efa0a2f81a8.2 // indirect
	buf.build/gen/go/agglayer/provers/protocolbuffers/go v1.36.6-20250520163122-7efa0a2f81a8.1 // indirect
	cloud.google.com/go/auth v0.13.0 // indirect
	cloud.google.com/go/auth/oauth2adapt v0.2.6 // indirect
	cloud.google.com/go/compute/metadata v0.6.0 // indirect
	cloud.google.com/go/iam v1.2.2 // indirect
	cloud.google.com/go/kms v1.20.1 // indirect
	cloud.google.com/go/longrunning v0.6.2 // indirect
	github.com/0xPolygon/cdk-rpc v0.0.0-20250213125803-179882ad6229 // indirect
	github.com/0xPolygon/zkevm-ethtx-manager v0.2.15 // indirect
	github.com/0xPolygonHermez/zkevm-synchronizer-l1 v1.0.7 // indirect
	github.com/DataDog/zstd v1.5.6 // indirect
	github.com/KyleBanks/depth v1.2.1 // indirect
	github.com/VictoriaMetrics/fastcache v1.12.2 // indirect
	github.com/agglayer/go_signer v0.0.7 // indirect
	github.com/aws/aws-sdk-go-v2 v1.32.8 // indirect
	github.com/aws/aws-sdk-go-v2/config v1.28.11 // indirect
	github.com/aws/aws-sdk-go-v2/credentials v1.17.52 // indirect
	github.com/aws/aws-sdk-go-v2/feature/ec2/imds v1.16.23 // indirect
	github.com/aws/aws-sdk-go-v2/internal/configsources v1.3.27 // indirect
	github.com/aws/aws-sdk-go-v2/internal/endpoints/v2 v2.6.27 // indirect
	github.com/aws/aws-sdk-go-v2/internal/ini v1.8.1 // indirect
	github.com/aws/aws-sdk-go-v2/service/internal/accept-encoding v1.12.1 // indirect
	github.com/aws/aws-sdk-go-v2/service/internal/presigned-url v1.12.8 // indirect
	github.com/aws/aws-sdk-go-v2/service/kms v1.37.11 // indirect
	github.com/aws/aws-sdk-go-v2/service/sso v1.24.9 // indirect
	github.com/aws/aws-sdk-go-v2/service/ssooidc v1.28.8 // indirect
	github.com/aws/aws-sdk-go-v2/service/sts v1.33.7 // indirect
	github.com/aws/smithy-go v1.22.1 // indirect
	github.com/bahlo/generic-list-go v0.2.0 // indirect
	github.com/beorn7/perks v1.0.1 // indirect
	github.com/bits-and-blooms/bitset v1.20.0 // indirect
	github.com/buger/jsonparser v1.1.1 // indirect
	github.com/cespare/xxhash/v2 v2.3.0 // indirect
	github.com/cockroachdb/errors v1.11.3 // indirect
	github.com/cockroachdb/fifo v0.0.0-20240816210425-c5d0cb0b6fc0 // indirect
	github.com/cockroachdb/logtags v0.0.0-20230118201751-21c54148d20b // indirect
	github.com/cockroachdb/pebble v1.1.4 // indirect
	github.com/cockroachdb/redact v1.1.5 // indirect
	github.com/cockroachdb/tokenbucket v0.0.0-20230807174530-cc333fc44b06 // indirect
	github.com/consensys/bavard v0.1.27 // indirect
	github.com/consensys/gnark-crypto v0.16.0 // indirect
	github.com/cpuguy83/go-md2man/v2 v2.0.7 // indirect
	github.com/crate-crypto/go-ipa v0.0.0-20240724233137-53bbb0ceb27a // indirect
	github.com/crate-crypto/go-kzg-4844 v1.1.0 // indirect
	github.com/davecgh/go-spew v1.1.2-0.20180830191138-d8f796af33cc // indirect
	github.com/deckarep/golang-set/v2 v2.6.0 // indirect
	github.com/didip/tollbooth/v6 v6.1.2 // indirect
	github.com/dustin/go-humanize v1.0.1 // indirect
	github.com/ethereum-optimism/infra/op-signer v1.4.1 // indirect
	github.com/ethereum/go-verkle v0.2.2 // indirect
	github.com/felixge/httpsnoop v1.0.4 // indirect
	github.com/fsnotify/fsnotify v1.8.0 // indirect
	github.com/gabriel-vasile/mimetype v1.4.9 // indirect
	github.com/getsentry/sentry-go v0.28.1 // indirect
	github.com/gin-contrib/sse v1.1.0 // indirect
	github.com/gin-gonic/gin v1.10.1 // indirect
	github.com/go-gorp/gorp/v3 v3.1.0 // indirect
	github.com/go-logr/logr v1.4.2 // indirect
	github.com/go-logr/stdr v1.2.2 // indirect
	github.com/go-openapi/jsonpointer v0.21.1 // indirect
	github.com/go-openapi/jsonreference v0.21.0 // indirect
	github.com/go-openapi/spec v0.21.0 // indirect
	github.com/go-openapi/swag v0.23.1 // indirect
	github.com/go-pkgz/expirable-cache v0.0.3 // indirect
	github.com/go-playground/locales v0.14.1 // indirect
	github.com/go-playground/universal-translator v0.18.1 // indirect
	github.com/go-playground/validator/v10 v10.26.0 // indirect
	github.com/gofrs/flock v0.12.1 // indirect
	github.com/gogo/protobuf v1.3.2 // indirect
	github.com/golang-collections/collections v0.0.0-20130729185459-604e922904d3 // indirect
	github.com/golang-jwt/jwt/v4 v4.5.2 // indirect
	github.com/golang/mock v1.6.0 // indirect
	github.com/golang/snappy v0.0.5-0.20220116011046-fa5810519dcb // indirect
	github.com/google/s2a-go v0.1.8 // indirect
	github.com/google/uuid v1.6.0 // indirect
	github.com/googleapis/enterprise-certificate-proxy v0.3.4 // indirect
	github.com/googleapis/gax-go v1.0.3 // indirect
	github.com/googleapis/gax-go/v2 v2.14.1 // indirect
	github.com/gorilla/websocket v1.5.3 // indirect
	github.com/hashicorp/go-bexpr v0.1.11 // indirect
	github.com/hermeznetwork/tracerr v0.3.2 // indirect
	github.com/holiman/billy v0.0.0-20240216141850-2abb0c79d3c4 // indirect
	github.com/holiman/bloomfilter/v2 v2.0.3 // indirect
	github.com/holiman/uint256 v1.3.2 // indirect
	github.com/huin/goupnp v1.3.0 // indirect
	github.com/iden3/go-iden3-crypto v0.0.17 // indirect
	github.com/invopop/jsonschema v0.13.0 // indirect
	github.com/jackpal/go-nat-pmp v1.0.2 // indirect
	github.com/jmoiron/sqlx v1.2.0 // indirect
	github.com/josharian/intern v1.0.0 // indirect
	github.com/kr/pretty v0.3.1 // indirect
	github.com/kr/text v0.2.0 // indirect
	github.com/leodido/go-urn v1.4.0 // indirect
	github.com/logrusorgru/aurora v2.0.3+incompatible // indirect
	github.com/mailru/easyjson v0.9.0 // indirect
	github.com/mattn/go-colorable v0.1.13 // indirect
	github.com/mattn/go-isatty v0.0.20 // indirect
	github.com/mattn/go-runewidth v0.0.16 // indirect
	github.com/mitchellh/mapstructure v1.5.0 // indirect
	github.com/mitchellh/pointerstructure v1.2.1 // indirect
	github.com/mmcloughlin/addchain v0.4.0 // indirect
	github.com/munnerz/goautoneg v0.0.0-20191010083416-a7dc8b61c822 // indirect
	github.com/olekukonko/tablewriter v0.0.5 // indirect
	github.com/pelletier/go-toml/v2 v2.2.4 // indirect
	github.com/pion/dtls/v2 v2.2.12 // indirect
	github.com/pion/logging v0.2.2 // indirect
	github.com/pion/stun/v2 v2.0.0 // indirect
	github.com/pion/transport/v2 v2.2.10 // indirect
	github.com/pion/transport/v3 v3.0.7 // indirect
	github.com/pkg/errors v0.9.1 // indirect
	github.com/pmezard/go-difflib v1.0.1-0.20181226105442-5d4384ee4fb2 // indirect
	github.com/prometheus/client_golang v1.22.0 // indirect
	github.com/prometheus/client_model v0.6.2 // indirect
	github.com/prometheus/common v0.62.0 // indirect
	github.com/prometheus/procfs v0.15.1 // indirect
	github.com/remyoudompheng/bigfft v0.0.0-20230129092748-24d4a6f8daec // indirect
	github.com/rivo/uniseg v0.4.7 // indirect
	github.com/rogpeppe/go-internal v1.13.1 // indirect
	github.com/rs/cors v1.11.0 // indirect
	github.com/rubenv/sql-migrate v1.8.0 // indirect
	github.com/russross/blackfriday/v2 v2.1.0 // indirect
	github.com/russross/meddler v1.0.1 // indirect
	github.com/shirou/gopsutil v3.21.11+incompatible // indirect
	github.com/stretchr/objx v0.5.2 // indirect
	github.com/stretchr/testify v1.10.0 // indirect
	github.com/swaggo/files v1.0.1 // indirect
	github.com/swaggo/gin-swagger v1.6.0 // indirect
	github.com/swaggo/swag v1.16.4 // indirect
	github.com/syndtr/goleveldb v1.0.1-0.20220614013038-64ee5596c38a // indirect
	github.com/tklauser/go-sysconf v0.3.12 // indirect
	github.com/tklauser/numcpus v0.6.1 // indirect
	github.com/ugorji/go/codec v1.2.12 // indirect
	github.com/urfave/cli/v2 v2.27.7 // indirect
	github.com/wk8/go-ordered-map/v2 v2.1.8 // indirect
	github.com/wlynxg/anet v0.0.4 // indirect
	github.com/xrash/smetrics v0.0.0-20240521201337-686a1a2994c1 // indirect
	go.opentelemetry.io/auto/sdk v1.1.0 // indirect
	go.opentelemetry.io/contrib/instrumentation/google.golang.org/grpc/otelgrpc v0.54.0 // indirect
	go.opentelemetry.io/contrib/instrumentation/net/http/otelhttp v0.54.0 // indirect
	go.opentelemetry.io/otel v1.36.0 // indirect
	go.opentelemetry.io/otel/metric v1.36.0 // indirect
	go.opentelemetry.io/otel/trace v1.36.0 // indirect
	go.uber.org/multierr v1.10.0 // indirect
	go.uber.org/zap v1.27.0 // indirect
	golang.org/x/crypto v0.39.0 // indirect
	golang.org/x/exp v0.0.0-20250408133849-7e4ce0ab07d0 // indirect
	golang.org/x/net v0.41.0 // indirect
	golang.org/x/oauth2 v0.28.0 // indirect
	golang.org/x/sync v0.15.0 // indirect
	golang.org/x/sys v0.33.0 // indirect
	golang.org/x/text v0.26.0 // indirect
	golang.org/x/time v0.10.0 // indirect
	golang.org/x/tools v0.33.0 // indirect
	google.golang.org/api v0.215.0 // indirect
	google.golang.org/genproto v0.0.0-20241118233622-e639e219e697 // indirect
	google.golang.org/genproto/googleapis/api v0.0.0-20250324211829-b45e905df463 // indirect
	google.golang.org/genproto/googleapis/rpc v0.0.0-20250324211829-b45e905df463 // indirect
	google.golang.org/protobuf v1.36.6 // indirect
	gopkg.in/natefinch/lumberjack.v2 v2.2.1 // indirect
	gopkg.in/yaml.v3 v3.0.1 // indirect
	modernc.org/libc v1.65.10 // indirect
	modernc.org/mathutil v1.7.1 // indirect
	modernc.org/memory v1.11.0 // indirect
	modernc.org/sqlite v1.38.0 // indirect
	rsc.io/tmplfunc v0.0.3 // indirect
)

replace github.com/agglayer/aggkit => /repo
