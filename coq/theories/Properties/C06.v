(* C06 — reorgs of processed blocks are detected; the node converges to the canonical chain.   PARTIAL (see below).
   Only property theorems (each closed by `exact` of a lemma proved in Proofs/ReorgDetectorProofs.v), non-vacuity
   examples and Print Assumptions.

   Model: Model/ReorgDetector.v = reorgdetector.go (AddBlockToTrack, detectReorgInTrackedList as written: ascending scan over
   the sorted snapshot, header cache for the finalized block, untrack on a match at or below the finalized block, on the
   first mismatch notify that block and delete [that block, last tracked] from DB and memory, return on any RPC error),
   reorgdetector_db.go (tracked_block has no key: a multiset of rows; loadTrackedHeaders folds it into a map), evmdriver.go
   (handleNewBlock: track unless finalized, then process; handleReorg: processor.Reorg(first), new download from
   lastProcessed+1) composed with C05's Download step function and an abstract store (list of processed blocks).

   Quantifiers of the theorems: every set of chain versions, every fork point above what the node ever called finalized,
   every fork content, every finite interleaving of {node moves, downloader polls (failing ones included), driver
   hand-overs, detector ticks (failing finalized query / failing k-th header query / blocks not found), stop+start, stop
   between AddBlockToTrack and ProcessBlock, stop while the subscriber is being notified of a reorg (mismatch found,
   processor.Reorg not yet run)}, every chunk >= 1.

   Hypotheses, all explicit in the statements:
   (W)  [ev_ok (EWorld w)]: a block the node ever reported as finalized is never replaced; finalized answer <= head <= B;
        blocks up to the head have non-zero hashes; the versions that occur are pairwise [linked] (equal non-zero hash at a
        height => equal hashes and logs at and below it: a block hash commits to its parent and its receipts).
   (H1') [ev_ok (EPoll _)]: when the head is behind the download cursor the finalized answer is below the head (C05's H1
        weakened so that forks shorter than the store are covered).
   (H2) cursor arithmetic below 2^64: B + 1 + (polls + 1) * chunk <= LIM < 2^64.

   PARTIAL — not modelled, left to the schedules the harness samples: goroutine interleaving.  One Download loop
   iteration, one handleNewBlock, one detectReorgInTrackedList (INCLUDING the ReorgedBlock/ReorgProcessed rendez-vous with
   handleReorg and the deletion of the tracked range after it) are atomic steps; RPC answers within a step come from one
   chain version.  In particular the model cannot exhibit: a tick straddling a chain switch; AddBlockToTrack (memory, then
   INSERT) racing with a tick (seen in the free-running stream: a row left in tracked_block although memory is empty);
   a restarted download tracking a block before the detector has deleted the old range (reproduced on the real code with a
   slowed-down detector: harness/c06/testdata/race_tracked_range_delete_after_restart.json — the block is processed but
   untracked and a later reorg of it is never detected); deadlock of the rendez-vous; Subscribe before Start. *)
From Coq Require Import NArith List Bool Sorted Lia.
From Verif Require Import Model.Downloader Model.ReorgDetector Proofs.DownloaderProofs Proofs.ReorgDetectorProofs.
From Coq Require String.
From Verif Require Gen.SourceFacts.
Import ListNotations.
Open Scope N_scope.

(* ---- source facts the model relies on (regenerated from /repo on every run by tools/gofacts/facts_c06.go) ---- *)
Module SrcFacts.
Import String.
(* tracked_block has neither PRIMARY KEY nor UNIQUE: [t_db] is a multiset of rows and AddBlockToTrack only ever INSERTs *)
Example src_tracked_block_is_a_multiset : SourceFacts.src_c06_tracked_block_has_key = false.
Proof. reflexivity. Qed.
(* removeTrackedBlockRange deletes [from, to] with both ends included: [remove_range] *)
Example src_remove_range_is_inclusive : SourceFacts.src_c06_sql_remove_range =
  "DELETE FROM tracked_block WHERE num >= $1 AND num <= $2 AND subscriber_id = $3;"%string.
Proof. reflexivity. Qed.
(* handleNewBlock calls AddBlockToTrack before ProcessBlock: [do_handle], [do_crash_mid] *)
Example src_track_before_process : SourceFacts.src_c06_track_before_process = true.
Proof. reflexivity. Qed.
(* in detectReorgInTrackedList the subscriber is notified before the tracked range is deleted: [do_tick] *)
Example src_notify_before_range_delete : SourceFacts.src_c06_notify_before_range_delete = true.
Proof. reflexivity. Qed.
End SrcFacts.

(* ---- the detector tick (pure function, any tracked set whose two images agree) ---- *)

(* detect_tick reports b iff b is the least tracked block whose hash differs from the chain's, when no RPC of the tick
   fails and every tracked height exists on the node *)
Theorem detect_sound_complete : forall (e : tick_env) (d : detector), det_ok d -> forall b,
  e_fin e <> None -> e_errat e = None -> (forall x, In x (t_mem d) -> look e (fst x) <> None) ->
  (snd (detect_tick e d) = TReorg b <->
   exists h, In (b, h) (t_mem d) /\ look e b <> Some h /\
             forall n h', In (n, h') (t_mem d) -> n < b -> look e n = Some h').
Proof. exact detect_sound_complete_proof. Qed.

(* soundness under ANY RPC behaviour: a reported block is tracked, its header was obtained and differs, every tracked
   block below it was obtained and matches *)
Theorem detect_sound_any_rpc : forall (e : tick_env) (d : detector), det_ok d -> forall b,
  snd (detect_tick e d) = TReorg b ->
  exists h c, In (b, h) (t_mem d) /\ look e b = Some c /\ h <> c /\
              forall n h', In (n, h') (t_mem d) -> n < b -> look e n = Some h'.
Proof. exact detect_sound. Qed.

(* no tracked header differs from the header obtained for it => the tick reports no reorg *)
Theorem no_false_rewind : forall (e : tick_env) (d : detector), det_ok d ->
  (forall x, In x (t_mem d) -> look e (fst x) = Some (snd x) \/ look e (fst x) = None) ->
  forall b, snd (detect_tick e d) <> TReorg b.
Proof. exact no_false_rewind_proof. Qed.

(* what a tick does to the tracked set: memory and DB stay in step; it only removes; a removed header either matched at
   or below the finalized block or lies at or above the reported block; after a report nothing at or above it is tracked *)
Theorem detect_tick_effect : forall (e : tick_env) (d : detector), det_ok d -> forall d' r, detect_tick e d = (d', r) ->
  det_ok d' /\
  (forall y, In y (t_mem d') -> In y (t_mem d)) /\
  (forall y, In y (t_mem d) -> ~ In y (t_mem d') ->
     (look e (fst y) = Some (snd y) /\ exists fnum fhash, e_fin e = Some (fnum, fhash) /\ fst y <= fnum) \/
     (exists b, r = TReorg b /\ b <= fst y)) /\
  (forall b, r = TReorg b -> forall y, In y (t_mem d') -> fst y < b) /\
  (r = TNone -> forall x, In x (t_mem d) -> look e (fst x) = Some (snd x)).
Proof. exact detect_effect. Qed.

(* ---- the composed system ---- *)

(* the invariant is inductive: every admissible event preserves it (a poll consumes one unit of the 2^64 budget) *)
Theorem step_preserves_Inv : forall cfg, 1 <= c_chunk cfg -> forall U : version -> Prop,
  (forall u v, U u -> U v -> linked u v) -> forall B LIM, LIM < M64 -> forall r s e,
  SInv cfg U B LIM (polls_of e + r) s -> ev_ok U B s e -> SInv cfg U B LIM r (step cfg s e).
Proof. exact step_preserves. Qed.

(* tracked_covers_processed: in every reachable state every processed block is tracked with the hash it was delivered
   with, or is at or below a block the node reported as finalized and is on the node's chain *)
Theorem tracked_covers_processed : forall cfg, 1 <= c_chunk cfg -> forall U : version -> Prop,
  (forall u v, U u -> U v -> linked u v) -> forall B LIM, LIM < M64 -> forall es r w,
  U (w_ver w) -> w_fin w <= w_head w -> w_head w <= B -> (forall n, n <= w_head w -> v_hash (w_ver w) n <> 0) ->
  B + 1 + (N.of_nat (polls es + r) + 1) * c_chunk cfg <= LIM ->
  trace_ok cfg U B (sys_init w) es ->
  SInv cfg U B LIM r (run cfg (sys_init w) es).
Proof. exact reachable_SInv. Qed.
Theorem tracked_covers_processed_unfolded : forall cfg, 1 <= c_chunk cfg -> forall (U : version -> Prop) B LIM,
  LIM < M64 -> forall r s, SInv cfg U B LIM r s -> forall p, In p (y_store s) ->
  In (p_num p, p_hash p) (t_mem (y_det s)) \/ (p_num p <= y_final s /\ canonical (y_world s) p).
Proof. exact covers_canonical. Qed.

(* rewind_at_or_before_first_replaced: whatever block a tick reports, it is at or below every processed block that is no
   longer on the node's chain (other hash, or above the head) *)
Theorem rewind_at_or_before_first_replaced : forall cfg, 1 <= c_chunk cfg -> forall (U : version -> Prop) B LIM,
  LIM < M64 -> forall r s ferr errat b, SInv cfg U B LIM r s ->
  snd (detect_tick (env_of (y_world s) ferr errat) (y_det s)) = TReorg b ->
  forall p, In p (y_store s) -> ~ canonical (y_world s) p -> b <= p_num p.
Proof. exact rewind_bound. Qed.

(* no_false_rewind, system level: if every processed block is still on the node's chain, a tick (whatever its RPCs do)
   drops nothing, calls no Reorg and leaves the download running.  [Tight] = every tracked header belongs to a processed
   block; it is preserved by every event except a stop between AddBlockToTrack and ProcessBlock (next theorem), and
   without it the statement is FALSE of the real code: see C06_false_rewind_after_stop_between_track_and_process *)
Theorem no_false_rewind_sys : forall cfg (U : version -> Prop) B LIM r s ferr errat,
  SInv cfg U B LIM r s -> Tight s -> (forall p, In p (y_store s) -> canonical (y_world s) p) ->
  y_store (do_tick s ferr errat) = y_store s /\ y_rewinds (do_tick s ferr errat) = y_rewinds s /\
  y_dl (do_tick s ferr errat) = y_dl s /\ y_chan (do_tick s ferr errat) = y_chan s.
Proof. exact no_false_rewind_sys_canonical. Qed.
Theorem tight_preserved : forall cfg, 1 <= c_chunk cfg -> forall (U : version -> Prop) B LIM, LIM < M64 -> forall r s e,
  SInv cfg U B LIM (polls_of e + r) s -> Tight s -> e <> ECrashMid -> Tight (step cfg s e).
Proof. exact tight_step. Qed.

(* restart_preserves_Inv: stop + start keeps the invariant; the tracked set loaded from the DB is the one in memory
   before the stop; the store is untouched *)
Theorem restart_preserves_Inv : forall cfg, 1 <= c_chunk cfg -> forall (U : version -> Prop) B LIM, LIM < M64 ->
  forall r s, SInv cfg U B LIM r s ->
  SInv cfg U B LIM r (do_restart s) /\ y_det (do_restart s) = y_det s /\ y_store (do_restart s) = y_store s /\
  (Tight s -> Tight (do_restart s)).
Proof. exact restart_proof. Qed.

(* stop during the reorg hand-over: the node is stopped after the tick has found the mismatch and notified the subscriber,
   before processor.Reorg has run, and is started again.  The invariant survives because the tracked range is deleted only
   AFTER ReorgProcessed (source fact src_notify_before_range_delete): the headers the notification was made from are still
   in the DB, so every replaced processed block is still tracked after the start, the next successful tick reports a block
   at or below it (rewind_at_or_before_first_replaced) and the convergence theorems below apply unchanged.
   (This event is also a case of step_preserves_Inv / tracked_covers_processed: it is a constructor of [event].) *)
Theorem crash_during_notify_preserves_Inv : forall cfg, 1 <= c_chunk cfg -> forall (U : version -> Prop) B LIM,
  LIM < M64 -> forall r s ferr errat, SInv cfg U B LIM r s -> SInv cfg U B LIM r (do_crash_notify s ferr errat).
Proof. exact step_crash_notify. Qed.

(* converge_on_quiescent_chain, safety half.  From ANY reachable state whose queued blocks carry hashes of the node's
   chain (e.g. the channel is empty, or the driver has drained it): one tick whose RPCs succeed, then ANY admissible events
   during which the node stays on that chain version (head and finality may move; polls, hand-overs, ticks with failing
   RPCs, stops and starts in any order) — at every moment afterwards the store is EXACTLY what a node that only ever saw
   this chain holds at the same last-processed block: the event blocks of 1..last-processed with this chain's hashes and
   events ([ref_store], a naive filter), in increasing order, every marker block being a block of this chain.
   (The abstract store's Reorg is a filter, i.e. "as if never seen" by construction; for the real stores that is C04.) *)
Theorem converge_on_quiescent_chain : forall cfg, 1 <= c_chunk cfg -> forall U : version -> Prop,
  (forall u v, U u -> U v -> linked u v) -> forall B LIM, LIM < M64 -> forall r s ferr errat es,
  SInv cfg U B LIM (polls es + r) s -> CanonChan s ->
  snd (detect_tick (env_of (y_world s) ferr errat) (y_det s)) <> TErr ->
  let s1 := do_tick s ferr errat in
  trace_ok cfg U B s1 es -> quiet_trace cfg s1 es ->
  let s2 := run cfg s1 es in
  filter has_events (y_store s2) = ref_store cfg (cur s2) (lp (y_store s2)) /\
  (forall p, In p (y_store s2) -> hash_canon s2 p) /\
  StronglySorted N.lt (map p_num (y_store s2)).
Proof. exact converge_proof. Qed.

(* converge_on_quiescent_chain, composition with C05.  After the last rewind (download just restarted, channel empty,
   node settled), for any admissible events without a stop during which the version stays and the head does not go back:
   no Reorg is called any more, and the real downloader state and everything it delivers are EXACTLY C05's [dl_run] on
   the final chain from lastProcessed+1 — so C05's download_invariant / marker_never_passes_unstored / download_progress
   apply verbatim to the rest of the node's life *)
Theorem converge_download_is_C05_run : forall cfg, 1 <= c_chunk cfg -> forall U : version -> Prop,
  (forall u v, U u -> U v -> linked u v) -> forall B LIM, LIM < M64 -> forall r s es,
  Settled cfg U B LIM (polls es + r) s -> Tight s ->
  y_dl s = dl_init (sync_from (lp (y_store s))) [] -> y_chan s = [] ->
  trace_ok cfg U B s es -> calm_trace cfg s es ->
  let V := cur s in
  let out := dl_run cfg (v_logs V) (dl_init (sync_from (lp (y_store s))) []) (ticks_of cfg s es) in
  y_dl (run cfg s es) = fst out /\
  all_blocks (run cfg s es) = y_store s ++ map (pbv V) (snd out) /\
  y_rewinds (run cfg s es) = y_rewinds s /\
  Settled cfg U B LIM r (run cfg s es).
Proof. exact calm_run_proof. Qed.

(* ... and with C05's progress theorem: if the polls of that phase are pre ++ post, the answers of post succeed, show a
   rising head and a finalized block >= k, and post is long enough, every block <= k has been downloaded (processed or
   queued) — with the theorem above the store then equals the reference up to >= k once the channel is drained.
   Needs C05's (H1) for this phase (head not behind lastProcessed when the download restarts): [tips_ok]. *)
Theorem converge_progress : forall cfg, 1 <= c_chunk cfg -> forall U : version -> Prop,
  (forall u v, U u -> U v -> linked u v) -> forall B LIM, LIM < M64 -> forall r s es pre post k B0,
  Settled cfg U B LIM (polls es + r) s -> Tight s ->
  y_dl s = dl_init (sync_from (lp (y_store s))) [] -> y_chan s = [] ->
  trace_ok cfg U B s es -> calm_trace cfg s es ->
  ticks_of cfg s es = pre ++ post ->
  let from0 := sync_from (lp (y_store s)) in
  let ch := v_logs (cur s) in
  B0 + 1 + (N.of_nat (length (pre ++ post)) + 1) * c_chunk cfg < M64 ->
  tips_ok B0 from0 (pre ++ post) ->
  rising k (s_last (fst (dl_run cfg ch (dl_init from0 []) pre))) post ->
  2 * (k + 1 - s_from (fst (dl_run cfg ch (dl_init from0 []) pre))) + 3 <= N.of_nat (length post) ->
  k <= lp (all_blocks (run cfg s es)) /\ y_rewinds (run cfg s es) = y_rewinds s.
Proof. exact converge_progress_proof. Qed.

(* ------------------------------------------------------------------------------------------ *)
(* non-vacuity *)

(* a tick on a concrete tracked set: block 3 matches and is final (untracked), block 5 matches above the finalized block
   (kept), block 6 differs (reported; 6..8 deleted) *)
Definition ex_det := {| t_mem := [(3, 33); (5, 55); (6, 66); (8, 88)]; t_db := [(3, 33); (5, 50); (6, 66); (5, 55); (8, 88)] |}.
Definition ex_env := {| e_fin := Some (4, 44); e_hdr := fun n => if n <=? 9 then Some (if n =? 6 then 67 else 11 * n) else None;
                        e_errat := None |}.
Example C06_tick_nonvacuous :
  det_ok ex_det /\ e_fin ex_env <> None /\ e_errat ex_env = None /\
  (forall x, In x (t_mem ex_det) -> look ex_env (fst x) <> None) /\
  detect_tick ex_env ex_det = ({| t_mem := [(5, 55)]; t_db := [(5, 50); (5, 55)] |}, TReorg 6).
Proof.
  split; [split; [repeat constructor|reflexivity]|]. split; [discriminate|]. split; [reflexivity|].
  split; [|vm_compute; reflexivity].
  intros x Hx. cbn [ex_det t_mem In] in Hx.
  repeat (destruct Hx as [<-|Hx]; [vm_compute; discriminate|]). destruct Hx.
Qed.

(* a concrete forking history that meets every hypothesis: chain A (events in blocks 1 and 3), fork B at block 2 (events
   in blocks 1, 2 and 4).  The node downloads and processes 1 (final) and 3 under A, the node switches to B, the tick
   reports 3, the store is rewound, re-downloaded under B, and ends as the reference store of B. *)
Definition exL d := {| l_addr := 1; l_topic := 7; l_removed := false; l_idx := d |}.
Definition ex_cfg := {| c_chunk := 100; c_addrs := [1]; c_topics := [7]; c_finflag := true |}.
Definition exA := version_of_list [(1, []); (2, [exL 1]); (3, []); (4, [exL 2]); (5, []); (6, [])].
Definition exB := version_of_list [(1, []); (2, [exL 1]); (13, [exL 2]); (14, []); (15, [exL 3]); (16, [])].
Definition exU (v : version) : Prop := v = exA \/ v = exB.
Definition ex_w0 := {| w_ver := exA; w_head := 4; w_fin := 1 |}.
Definition ex_w1 := {| w_ver := exB; w_head := 4; w_fin := 1 |}.
Definition ex_w2 := {| w_ver := exB; w_head := 5; w_fin := 5 |}.
Definition ex_script := [EPoll false; EPoll false; EHandleAll; EWorld ex_w1; ETick false None; EPoll false; EPoll false;
                         EHandle; ERestart; EPoll false; EPoll false; EHandleAll; EWorld ex_w2; EPoll false; EPoll false;
                         EHandleAll; ETick false None].

Lemma ex_small (P : N -> Prop) : P 0 -> P 1 -> P 2 -> P 3 -> P 4 -> P 5 -> forall n, n <= 5 -> P n.
Proof.
  intros H0 H1 H2 H3 H4 H5 n Hn.
  assert (n = 0 \/ n = 1 \/ n = 2 \/ n = 3 \/ n = 4 \/ n = 5) as [->|[->|[->|[->|[->| ->]]]]] by lia; assumption.
Qed.
Lemma ex_hash_beyond l n : N.of_nat (length l) <= n -> v_hash (version_of_list l) n = 0.
Proof. intros H. cbn [version_of_list v_hash]. rewrite nth_overflow by lia. reflexivity. Qed.

Lemma ex_linked : forall u v, exU u -> exU v -> linked u v.
Proof.
  assert (Hself : forall u, linked u u) by (intros u n _ _ m _; split; reflexivity).
  assert (HAB : linked exA exB /\ linked exB exA).
  { split; intros n Hnz Heq m Hm; (destruct (N.le_gt_cases n 5) as [Hn|Hn];
      [|exfalso; apply Hnz; apply ex_hash_beyond; cbn [length]; lia]);
      revert Hnz Heq m Hm; pattern n; apply (ex_small _) with (n := n); try exact Hn;
      intros _ Heq m Hm; try (vm_compute in Heq; discriminate);
      (assert (Hm5 : m <= 5) by lia); revert Hm; pattern m; apply (ex_small _) with (n := m); try exact Hm5;
      intros Hm; try (exfalso; lia); split; reflexivity. }
  intros u v [->| ->] [->| ->]; try apply Hself; apply HAB.
Qed.

Lemma ex_nzA : forall n, n <= 5 -> v_hash exA n <> 0.
Proof. intros n Hn. pattern n. apply (ex_small _) with (n := n); try exact Hn; vm_compute; discriminate. Qed.
Lemma ex_nzB : forall n, n <= 5 -> v_hash exB n <> 0.
Proof. intros n Hn. pattern n. apply (ex_small _) with (n := n); try exact Hn; vm_compute; discriminate. Qed.

Example C06_run_nonvacuous :
  let s := run ex_cfg (sys_init ex_w0) ex_script in
  trace_ok ex_cfg exU 10 (sys_init ex_w0) ex_script /\
  SInv ex_cfg exU 10 2000 0 s /\
  y_rewinds s = [3] /\
  y_store s = [ {| p_num := 1; p_hash := 2; p_evs := [(1, 1)] |}; {| p_num := 2; p_hash := 13; p_evs := [(2, 2)] |};
                {| p_num := 4; p_hash := 15; p_evs := [(4, 3)] |}; {| p_num := 5; p_hash := 16; p_evs := [] |} ] /\
  filter has_events (y_store s) = ref_store ex_cfg exB 5 /\
  t_mem (y_det s) = [] /\ t_db (y_det s) = [].
Proof.
  cbv zeta.
  assert (Hok : trace_ok ex_cfg exU 10 (sys_init ex_w0) ex_script).
  { unfold ex_script. cbn [trace_ok].
    repeat match goal with
           | |- _ /\ _ => split
           | |- True => exact I
           | |- ev_ok _ _ _ (EPoll _) =>
               cbn [ev_ok]; intros _ Hp Hl; vm_compute in Hl; try discriminate Hl; vm_compute in Hp; discriminate Hp
           | |- ev_ok _ _ _ (EWorld _) =>
               cbn [ev_ok]; split; [right; reflexivity|]; split; [vm_compute; reflexivity|]; split; [vm_compute; discriminate|];
               split; [vm_compute; discriminate|]; intros n Hn; apply ex_nzB; cbn [ex_w1 ex_w2 w_head] in Hn; lia
           | |- ev_ok _ _ _ _ => exact I
           end. }
  split; [exact Hok|]. split.
  - apply (reachable_SInv ex_cfg ltac:(vm_compute; discriminate) exU ex_linked 10 2000 ltac:(vm_compute; reflexivity)
             ex_script 0 ex_w0); try exact Hok.
    + left. reflexivity.
    + vm_compute. discriminate.
    + vm_compute. discriminate.
    + intros n Hn. apply ex_nzA. cbn [ex_w0 w_head] in Hn. lia.
    + vm_compute. discriminate.
  - vm_compute. repeat split; reflexivity.
Qed.

(* stop during the hand-over, concretely: A processed (1 final, 3 tracked), the node switches to B, the tick finds the
   mismatch at 3 and the node is stopped before processor.Reorg: after the start block 3 of A is still stored AND still
   tracked; the next tick rewinds to 3 and the node ends with the reference store of B *)
Definition ex_script_notify := [EPoll false; EPoll false; EHandleAll; EWorld ex_w1; ECrashNotify false None].
Definition ex_script_notify_tail := [ETick false None; EPoll false; EPoll false; EHandleAll; EWorld ex_w2; EPoll false; EPoll false;
                                     EHandleAll; ETick false None].
Example C06_crash_during_notify_nonvacuous :
  let s1 := run ex_cfg (sys_init ex_w0) ex_script_notify in
  let s2 := run ex_cfg s1 ex_script_notify_tail in
  map p_num (y_store s1) = [1; 3] /\ t_mem (y_det s1) = [(3, 4)] /\ t_db (y_det s1) = [(3, 4)] /\ y_rewinds s1 = [] /\
  y_rewinds s2 = [3] /\ filter has_events (y_store s2) = ref_store ex_cfg exB 5 /\ lp (y_store s2) = 5 /\
  t_mem (y_det s2) = [] /\ t_db (y_det s2) = [].
Proof. vm_compute. repeat split; reflexivity. Qed.

(* REFUTED without [Tight] (faithful model, replayed on the real code: harness/c06/testdata/midcrash_false_rewind.json):
   the node is stopped inside handleNewBlock after AddBlockToTrack(3, hash under A) and before ProcessBlock; it starts
   again; the node is now on fork B where block 3 has no events; block 4 of B is downloaded and processed.  Every processed
   block is on the node's chain, yet the tick reports 3 (the tracked-but-never-processed header) and processor.Reorg(3)
   drops the processed, canonical block 4. *)
Definition ex_script_mid := [EPoll false; EPoll false; EHandle; ECrashMid; EWorld ex_w1; EPoll false; EPoll false; EHandleAll].
Example C06_false_rewind_after_stop_between_track_and_process :
  let s := run ex_cfg (sys_init ex_w0) ex_script_mid in
  (forall p, In p (y_store s) -> canonical (y_world s) p) /\ ~ Tight s /\
  y_store s = [ {| p_num := 1; p_hash := 2; p_evs := [(1, 1)] |}; {| p_num := 2; p_hash := 13; p_evs := [(2, 2)] |};
                {| p_num := 4; p_hash := 15; p_evs := [(4, 3)] |} ] /\
  y_rewinds (do_tick s false None) = [3] /\
  y_store (do_tick s false None) = [ {| p_num := 1; p_hash := 2; p_evs := [(1, 1)] |}; {| p_num := 2; p_hash := 13; p_evs := [(2, 2)] |} ].
Proof.
  cbv zeta. split; [|split; [|vm_compute; repeat split; reflexivity]].
  - intros p Hp. vm_compute in Hp. repeat (destruct Hp as [<-|Hp]; [vm_compute; reflexivity|]). destruct Hp.
  - intros HT. destruct (HT (3, 4)) as (p & Hp & Hn & _); [vm_compute; auto|].
    vm_compute in Hp. cbn [fst] in Hn. repeat (destruct Hp as [<-|Hp]; [vm_compute in Hn; discriminate|]). destruct Hp.
Qed.

Print Assumptions detect_sound_complete.
Print Assumptions detect_sound_any_rpc.
Print Assumptions no_false_rewind.
Print Assumptions detect_tick_effect.
Print Assumptions step_preserves_Inv.
Print Assumptions tracked_covers_processed.
Print Assumptions tracked_covers_processed_unfolded.
Print Assumptions rewind_at_or_before_first_replaced.
Print Assumptions no_false_rewind_sys.
Print Assumptions tight_preserved.
Print Assumptions restart_preserves_Inv.
Print Assumptions crash_during_notify_preserves_Inv.
Print Assumptions converge_on_quiescent_chain.
Print Assumptions converge_download_is_C05_run.
Print Assumptions converge_progress.
