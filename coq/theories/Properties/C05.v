(* C05 — syncers deliver every watched event exactly once, in chain order.
   Only property theorems (each closed by `exact` of a lemma proved in Proofs/DownloaderProofs.v),
   non-vacuity examples and Print Assumptions.

   Model: Model/Downloader.v = sync/evmdownloader.go Download (one step per block-tag RPC query, uint64
   arithmetic explicit), GetLogs filter, log grouping of getEventsByBlockRangeWithRetry, and the driver's
   handleNewBlock bookkeeping (sync/evmdriver.go).  Quantifiers: every chain (any function from block number
   to its list of logs: any addresses, topics, Removed flags), every chunk >= 1, every finite sequence of node
   answers (tip and finalized number arbitrary and unrelated per call, failing calls included), i.e. every
   polling cadence and finality lag, every length of run.

   Hypotheses forced by the proofs, stated explicitly:
   (H1) [tips_ok B from0 ticks]: a successful tip answer is never more than one block behind the block the
        download starts from (from0 <= tip + 1).  Without it the statement is FALSE of the real code: see
        [C05_tip_behind_store_moves_cursor_backwards] below.
   (H2) B + 1 + (number of polls + 1) * chunk < 2^64: the cursor arithmetic of Download (uint64) does not wrap.
   (H3) [calls_ok calls]: no eth_getLogs / header-by-number call fails with an error wrapping context.Canceled while the
        downloader's own context is alive, and the node answers a header whose hash differs from the logs' block hash at
        most MaxRetryCountBlockHashMismatch (5) times.  Every other failure of these calls (any error, DeadlineExceeded,
        NotFound), in any number and at any place, is covered.  Without H3 the statement is FALSE of the real code:
        [C05_canceled_getlogs_loses_events], [C05_hash_mismatch_giveup_loses_events] (both replayed by the harness).
   Not modelled (partial): Fatalf/sleep timing of the RetryHandler, goroutine scheduling, channel hand-over. *)
From Coq Require Import NArith List Bool Sorted.
From Verif Require Import Model.Downloader Proofs.DownloaderProofs.
Import ListNotations.
Open Scope N_scope.

(* GetEventsByBlockRange(from, to) returns exactly the blocks of [from, to] that have watched logs, in increasing
   order, each with all of its watched logs in log order and nothing else *)
Theorem C05_events_by_block_range : forall (cfg : config) (ch : chain) (a b : N),
  get_events_by_block_range cfg ch a b =
  flat_map (fun k => match watched_events cfg ch k with [] => [] | e => [(k, e)] end) (range a b).
Proof. exact get_events_ref. Qed.

(* getEventsByBlockRangeWithRetry with its RPC calls: whatever the retried failures (any error, DeadlineExceeded, NotFound,
   in any number) and however many hash mismatches (<= the remaining retry budget), the result is the result of the pure
   function, once: a retry restarts the range from scratch, nothing collected before the mismatch is kept *)
Theorem C05_retry_restarts_from_scratch : forall (cfg : config) (ch : chain) (a b : N) (budget : nat) (c : list cres),
  ~ In RCanceled c -> (mismatches c <= budget)%nat ->
  exists c' n, events_rpc budget cfg ch a b c = (get_events_by_block_range cfg ch a b, c', n) /\
               ((forall r, In r c' -> In r c) /\ (mismatches c' <= mismatches c)%nat).
Proof. exact events_rpc_ok. Qed.

(* the loop invariant of Download, for every chunk >= 1, every sequence of node answers, every run length:
   delivered block numbers strictly increase (so nothing is delivered twice); every delivered block carries
   exactly the watched logs of its own block (an empty-block marker is only sent for a block without watched
   logs) and lies in [from0, cursor); every block of [from0, cursor) with watched logs has been delivered;
   the cursor never passes lastBlock+1 *)
Theorem download_invariant : forall (cfg : config) (ch : chain) (from0 B : N) (calls : list cres) (ticks : list tick),
  1 <= c_chunk cfg -> calls_ok calls ->
  B + 1 + (N.of_nat (length ticks) + 1) * c_chunk cfg < M64 ->
  tips_ok B from0 ticks ->
  let s := fst (dl_run cfg ch (dl_init from0 calls) ticks) in
  let out := snd (dl_run cfg ch (dl_init from0 calls) ticks) in
  StronglySorted N.lt (map b_num out) /\
  (forall b, In b out -> b_events b = watched_events cfg ch (b_num b) /\ from0 <= b_num b < s_from s) /\
  (forall k, from0 <= k < s_from s -> watched_events cfg ch k <> [] ->
             In (k, watched_events cfg ch k) (map blk out)) /\
  from0 <= s_from s /\ (s_phase s <> PInit -> s_from s <= s_last s + 1 /\ s_last s <= B).
Proof. exact download_invariant_proof. Qed.

(* with the driver: at every moment (the driver has handled any prefix of what the downloader sent), the store
   holds exactly the handled blocks, in strictly increasing order, each with exactly its own watched logs, and
   every block with watched logs at or below the last-processed marker is in the store *)
Theorem marker_never_passes_unstored :
  forall (cfg : config) (ch : chain) (lp0 B : N) (calls : list cres) (ticks : list tick),
  1 <= c_chunk cfg -> calls_ok calls ->
  B + 1 + (N.of_nat (length ticks) + 1) * c_chunk cfg < M64 ->
  tips_ok B (sync_from lp0) ticks ->
  let out := snd (dl_run cfg ch (dl_init (sync_from lp0) calls) ticks) in
  forall handled pending, out = handled ++ pending ->
  let d := drv_run (drv_init lp0) handled in
  d_stored d = map blk handled /\
  StronglySorted N.lt (map fst (d_stored d)) /\
  (forall k e, In (k, e) (d_stored d) -> e = watched_events cfg ch k /\ k <= d_last d) /\
  (forall k, lp0 < k <= d_last d -> watched_events cfg ch k <> [] ->
             In (k, watched_events cfg ch k) (d_stored d)).
Proof. exact marker_never_passes_unstored_proof. Qed.

(* progress: after any history [pre], if the node answers [post] without failures, each answer showing a higher
   tip than before and a finalized block >= k, then 2*(k+1-cursor)+3 answers suffice to move the cursor above k
   (so, with the invariant, every event block <= k has been delivered).  Without a finalized block >= cursor and
   without events the cursor legitimately stays (the range is re-queried, toBlock grows). *)
Theorem download_progress : forall (cfg : config) (ch : chain) (from0 B : N) (calls : list cres) (pre post : list tick) (k : N),
  1 <= c_chunk cfg -> calls_ok calls ->
  B + 1 + (N.of_nat (length (pre ++ post)) + 1) * c_chunk cfg < M64 ->
  tips_ok B from0 (pre ++ post) ->
  let s := fst (dl_run cfg ch (dl_init from0 calls) pre) in
  rising k (s_last s) post ->
  2 * (k + 1 - s_from s) + 3 <= N.of_nat (length post) ->
  k < s_from (fst (dl_run cfg ch (dl_init from0 calls) (pre ++ post))).
Proof. exact download_progress_proof. Qed.

(* ---- non-vacuity: a concrete run meeting the hypotheses and exercising every branch ---- *)
Definition exL a t r i := {| l_addr := a; l_topic := t; l_removed := r; l_idx := i |}.
Definition ex_cfg := {| c_chunk := 3; c_addrs := [1]; c_topics := [7]; c_finflag := true |}.
Definition ex_big := {| c_chunk := 100; c_addrs := [1]; c_topics := [7]; c_finflag := true |}.
Definition ex_chain : chain := chain_of_list
  [ []; []; [exL 1 7 false 0; exL 1 8 false 1]; []; [];
    [exL 1 7 false 0; exL 1 7 true 1; exL 1 7 false 2]; [exL 2 7 false 0]; []; [exL 1 7 false 0]; [] ].
Definition exT a b := {| t_tip := a; t_fin := b; t_err := false |}.
Definition exE := {| t_tip := 0; t_fin := 0; t_err := true |}.
Definition ex_ticks := [exE; exT 0 0; exT 4 2; exT 4 2; exT 4 2; exE; exT 6 3; exT 6 3; exT 7 3; exT 7 3;
                        exT 9 9; exT 9 9; exT 9 9].
Definition ex_calls := [RErr; ROk; RDeadline; RNotFound].   (* eth_getLogs fails once, header of block 2 fails twice *)

Lemma ex_tips_ok : tips_ok 9 1 ex_ticks.
Proof.
  intros t Ht _. unfold ex_ticks in Ht. cbn [In] in Ht.
  repeat (destruct Ht as [<-|Ht]; [cbn; split; [discriminate|intros _; discriminate]|]). destruct Ht.
Qed.
Lemma ex_calls_ok : calls_ok ex_calls.
Proof. split; [intros H; cbn in H; intuition discriminate|vm_compute; repeat constructor]. Qed.

(* failing polls, a tip of 0, unsafe zone with events (block 5 delivered unfinalized), toBlock extension,
   safe zone with marker, unwatched topic (block 2, index 1), Removed log (block 5, index 1), unwatched address
   (block 6), failing numbered calls *)
Example C05_nonvacuous :
  1 <= c_chunk ex_cfg /\ 9 + 1 + (N.of_nat (length ex_ticks) + 1) * c_chunk ex_cfg < M64 /\
  tips_ok 9 (sync_from 0) ex_ticks /\ calls_ok ex_calls /\
  sync_run ex_cfg ex_chain 0 ex_calls ex_ticks =
    (St 10 13 9 true PWait [],
     [ {| b_num := 2; b_events := [(2, 0)]; b_fin := true |};
       {| b_num := 5; b_events := [(5, 0); (5, 2)]; b_fin := false |};
       {| b_num := 8; b_events := [(8, 0)]; b_fin := true |};
       {| b_num := 9; b_events := []; b_fin := true |} ],
     {| d_last := 9; d_stored := [(2, [(2, 0)]); (5, [(5, 0); (5, 2)]); (8, [(8, 0)]); (9, [])]; d_tracked := [5] |}) /\
  dl_queries ex_cfg ex_chain (dl_init 1 ex_calls) ex_ticks = [(1, 4); (3, 6); (6, 7); (6, 9)].
Proof.
  split; [vm_compute; discriminate|]. split; [vm_compute; reflexivity|].
  split; [exact ex_tips_ok|]. split; [exact ex_calls_ok|]. split; vm_compute; reflexivity.
Qed.

(* hash mismatch on the SECOND event block of the range (block 5, after block 2 was collected), with retried failures
   around it: the range is asked twice and every block is delivered once *)
Example C05_retry_nonvacuous :
  let calls := [RDeadline; ROk; RErr; ROk; RNotFound; RMismatch] in
  calls_ok calls /\
  map blk (snd (fst (sync_run ex_big ex_chain 0 calls [exT 9 9; exT 9 9]))) =
    [(2, [(2, 0)]); (5, [(5, 0); (5, 2)]); (8, [(8, 0)]); (9, [])] /\
  dl_queries ex_big ex_chain (dl_init 1 calls) [exT 9 9; exT 9 9] = [(1, 9); (1, 9)].
Proof.
  split; [split; [intros H; cbn in H; intuition discriminate|vm_compute; repeat constructor]|].
  split; vm_compute; reflexivity.
Qed.

Example C05_progress_nonvacuous :
  let pre := [exE; exT 0 0; exT 4 2] in
  let post := map (fun i => exT (5 + i) 9) (nrange 0 21) in      (* tips 5, 6, ..., 25; finalized 9 *)
  let s := fst (dl_run ex_cfg ex_chain (dl_init 1 ex_calls) pre) in
  tips_ok 25 1 (pre ++ post) /\
  rising 9 (s_last s) post /\ 2 * (9 + 1 - s_from s) + 3 <= N.of_nat (length post) /\
  s_from (fst (dl_run ex_cfg ex_chain (dl_init 1 ex_calls) (pre ++ post))) = 10.
Proof.
  split.
  - intros t Ht _. vm_compute in Ht.
    repeat (destruct Ht as [<-|Ht]; [cbn; split; [discriminate|intros _; discriminate]|]). destruct Ht.
  - vm_compute. repeat split; try discriminate; reflexivity.
Qed.

(* (H1) is necessary, and the real code behaves like this (replayed by the harness, stream "regress"):
   store at block 9 (download from 10), node tip at 5 then 6: Download asks eth_getLogs for [10, 6], sends the
   empty block 6 and moves its cursor BACK to 7; the driver's last-processed marker drops from 9 to 6 *)
Example C05_tip_behind_store_moves_cursor_backwards :
  sync_run ex_cfg ex_chain 9 [] [exT 5 5; exT 5 5; exT 6 6; exT 6 6] =
    (St 7 10 6 true PWait [], [ {| b_num := 6; b_events := []; b_fin := true |} ],
     {| d_last := 6; d_stored := [(6, [])]; d_tracked := [] |}) /\
  ~ tips_ok 9 (sync_from 9) [exT 5 5; exT 5 5; exT 6 6; exT 6 6].
Proof.
  split; [vm_compute; reflexivity|]. intros H.
  destruct (H (exT 5 5) (or_introl eq_refl) eq_refl) as [_ H2]. specialize (H2 eq_refl).
  vm_compute in H2. apply H2. reflexivity.
Qed.

(* (H3) is necessary, and the real code behaves like this (replayed by the harness, streams "cancel" and "giveup"):
   GetLogs returns nil when FilterLogs fails with context.Canceled, and getEventsByBlockRangeWithRetry returns nil when
   GetBlockHeader reports "canceled" or after the 6th hash mismatch; Download cannot tell nil from "no logs": with the
   downloader's context alive it hands over the empty block 9 and the marker passes the event blocks 2, 5, 8 *)
Example C05_canceled_getlogs_loses_events :
  map blk (snd (fst (sync_run ex_big ex_chain 0 [RCanceled] [exT 9 9; exT 9 9]))) = [(9, [])] /\
  map blk (snd (fst (sync_run ex_big ex_chain 0 [ROk; ROk; RCanceled] [exT 9 9; exT 9 9]))) = [(9, [])] /\
  watched_events ex_big ex_chain 5 = [(5, 0); (5, 2)].
Proof. repeat split; vm_compute; reflexivity. Qed.
Example C05_hash_mismatch_giveup_loses_events :
  let calls := [ROk; RMismatch; ROk; RMismatch; ROk; RMismatch; ROk; RMismatch; ROk; RMismatch; ROk; RMismatch] in
  map blk (snd (fst (sync_run ex_big ex_chain 0 calls [exT 9 9; exT 9 9]))) = [(9, [])] /\
  dl_queries ex_big ex_chain (dl_init 1 calls) [exT 9 9; exT 9 9] = [(1, 9); (1, 9); (1, 9); (1, 9); (1, 9); (1, 9)] /\
  mismatches calls = 6%nat.
Proof. repeat split; vm_compute; reflexivity. Qed.

Print Assumptions C05_events_by_block_range.
Print Assumptions C05_retry_restarts_from_scratch.
Print Assumptions download_invariant.
Print Assumptions marker_never_passes_unstored.
Print Assumptions download_progress.
