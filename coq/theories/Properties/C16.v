(* C16 — the injected-GER index reflects what was really injected on L2.
   Only property theorems (closed by `exact` of a lemma of Proofs/GerIndexProofs.v), non-vacuity examples,
   source-fact obligations and Print Assumptions.

   Vocabulary (Model/GerIndex.v): a chain gives the GER-manager logs of every L2 block; a node run is a list of
   segments, each starting a fresh downloader at lastProcessed+1 on the existing store, after a restart or after a
   reorg notification (b, new fork), and feeding it an arbitrary poll schedule (the tip seen at each poll).
   `live ch L g i`: root g with index i was injected in a block 1..L of ch and no later block <= L removes it.
   Theorems about `dl_fixed` concern the REPAIRED Download loop (fetch [fromBlock, tip], fromBlock = tip+1);
   the `_refuted_current` theorems concern `dl_current`, the loop as it is written today.
   Every theorem is universally quantified over the run, hence (runs being prefix-closed: cut the last poll
   schedule anywhere) it holds after every poll, not only at the end. *)
From Coq Require Import NArith List Bool String Lia.
From Verif Require Import Model.GerIndex Proofs.GerIndexProofs Gen.SourceFacts.
Import ListNotations.
Open Scope N_scope.

(* ---- source-fact obligations: the DDL / SQL the model transcribes is what the Go source contains ---- *)
Example src_block_pk : src_c16_block_pk = "num"%string. Proof. reflexivity. Qed.
Example src_ger_pk_is_block_num : src_c16_imported_ger_pk = "block_num"%string. Proof. reflexivity. Qed.
Example src_ger_rows_cascade : src_c16_imported_ger_cascade = true. Proof. reflexivity. Qed.
Example src_ger_not_unique : src_c16_imported_ger_unique_ger = false. Proof. reflexivity. Qed.
Example src_foreign_keys_on : src_c16_dsn_foreign_keys_on = true. Proof. reflexivity. Qed.
Example src_sql_first_ger : src_c16_sql_first_ger =
  "SELECT l1_info_tree_index, global_exit_root FROM imported_global_exit_root WHERE l1_info_tree_index >= $1 ORDER BY l1_info_tree_index ASC LIMIT 1;"%string.
Proof. reflexivity. Qed.
Example src_sql_delete_ger : src_c16_sql_delete_ger =
  "DELETE FROM imported_global_exit_root WHERE global_exit_root = $1;"%string.
Proof. reflexivity. Qed.
Example src_sql_reorg : src_c16_sql_reorg = "DELETE FROM block WHERE num >= $1;"%string. Proof. reflexivity. Qed.
Example src_sql_last_block : src_c16_sql_last_block = "SELECT num FROM block ORDER BY num DESC LIMIT 1;"%string.
Proof. reflexivity. Qed.
Example src_sql_insert_block : src_c16_sql_insert_block = "INSERT INTO block (num, hash) VALUES ($1, $2)"%string.
Proof. reflexivity. Qed.

(* ---- the index ---- *)

(* Soundness, for ALL runs (any chain, any poll cadence, any restarts, any reorgs — benign or not): whatever the
   query returns was injected in a processed block, has not been removed since, and has index >= x. *)
Theorem C16_ger_index_sound : forall segs ch0 ch st bs x i g,
  run_node dl_fixed ch0 empty_store segs = (ch, Some st, bs) -> one_per_block ch ->
  first_ger_after st x = Some (i, g) ->
  live ch (last_processed st) g i /\ x <= i.
Proof. exact ger_index_sound. Qed.

(* Completeness, for all runs whose reorgs do not undo an already processed removal (`benign`): the query
   returns a root whenever a live one with index >= x exists ... *)
Theorem C16_ger_index_complete : forall segs ch0 ch st bs x g i,
  run_node dl_fixed ch0 empty_store segs = (ch, Some st, bs) -> one_per_block ch ->
  benign dl_fixed ch0 empty_store segs ->
  live ch (last_processed st) g i -> x <= i ->
  first_ger_after st x <> None.
Proof. exact ger_index_complete. Qed.

(* ... and the one it returns has the least such index ("first"). *)
Theorem C16_ger_index_first : forall segs ch0 ch st bs x i g g' i',
  run_node dl_fixed ch0 empty_store segs = (ch, Some st, bs) -> one_per_block ch ->
  benign dl_fixed ch0 empty_store segs ->
  first_ger_after st x = Some (i, g) ->
  live ch (last_processed st) g' i' -> x <= i' -> i <= i'.
Proof. exact ger_index_minimal. Qed.

(* FULL STATEMENT of completeness (no `benign` hypothesis) is FALSE of the faithful model and of the real code:
   a reorg that undoes a processed removal does not restore the deleted row (finding F5 of property C04). *)
Theorem C16_ger_index_complete_refuted_destructive : exists segs ch0 ch st bs x g i,
  run_node dl_fixed ch0 empty_store segs = (ch, Some st, bs) /\ one_per_block ch /\
  live ch (last_processed st) g i /\ x <= i /\ first_ger_after st x = None /\
  ~ benign dl_fixed ch0 empty_store segs.
Proof. exact ger_index_complete_refuted_destructive. Qed.

(* With benign reorgs the store IS the store of a node that processed every event block up to lastProcessed of the
   chain now in force, in order, from an empty database ... *)
Theorem C16_node_as_if : forall segs ch0 ch st bs,
  run_node dl_fixed ch0 empty_store segs = (ch, Some st, bs) ->
  benign dl_fixed ch0 empty_store segs ->
  st = asif_store ch (last_processed st).
Proof. exact node_asif. Qed.

(* ... every event block up to any tip the current downloader has seen is processed (however many blocks the tip
   advanced between two polls) ... *)
Theorem C16_node_progress : forall segs ch0 ch st bs t n,
  run_node dl_fixed ch0 empty_store segs = (ch, Some st, bs) ->
  In t (last_polls segs) -> 1 <= n -> n <= t -> ch n <> [] ->
  In n (s_blocks st) /\ n <= last_processed st.
Proof. exact node_progress. Qed.

(* ... and no ProcessBlock ever fails (no block is delivered twice). *)
Theorem C16_node_never_stuck : forall segs ch0,
  exists ch st bs, run_node dl_fixed ch0 empty_store segs = (ch, Some st, bs).
Proof. exact node_never_stuck. Qed.

(* ---- the downloader ---- *)

(* One downloader started at from0 = x+1 >= 1, any poll schedule: it delivers exactly the event blocks of
   [from0, highest tip seen], and next time starts right after that tip. *)
Theorem C16_pp_download_complete : forall ch polls x,
  download dl_fixed ch (x + 1) polls =
  (get_events_by_block_range ch (x + 1) (fold_left N.max polls x), fold_left N.max polls x + 1).
Proof. exact download_fixed_spec. Qed.

(* what "exactly the event blocks of a range" means: each block with a log, once, in increasing order *)
Theorem C16_range_blocks : forall ch a b blk, In blk (get_events_by_block_range ch a b) <->
  a <= fst blk /\ fst blk <= b /\ ch (fst blk) <> [] /\ snd blk = appender (ch (fst blk)).
Proof. exact In_gebr. Qed.
Theorem C16_range_once_in_order : forall ch a b,
  Sorted.StronglySorted N.lt (map fst (get_events_by_block_range ch a b)) /\
  NoDup (map fst (get_events_by_block_range ch a b)).
Proof. exact gebr_once_in_order. Qed.

(* Across any number of restarts at any point (no reorg): the blocks delivered to the processor, over the whole
   life of the node, are exactly the event blocks of [1, highest tip ever seen], each once, in order. *)
Theorem C16_pp_download_complete_restarts : forall segs ch h, (forall s, In s segs -> fst s = None) ->
  let H := fold_left N.max (List.concat (map snd segs)) h in
  run_node dl_fixed ch (asif_store ch h) segs = (ch, Some (asif_store ch H), get_events_by_block_range ch (h + 1) H).
Proof. exact node_restarts_deliver. Qed.

(* The loop AS WRITTEN TODAY does not have this property: root injected at L2 block 6, the next poll sees tip 8,
   block 6 is never delivered (design finding F2) ... *)
Theorem C16_pp_download_refuted_current : exists ch x polls n,
  one_per_block ch /\ x + 1 <= n /\ n <= fold_left N.max polls x /\ ch n <> [] /\
  ~ In n (map fst (fst (download dl_current ch (x + 1) polls))).
Proof. exact pp_download_refuted_current. Qed.

(* ... so the index misses a live root (no reorg, no restart involved) ... *)
Theorem C16_ger_index_complete_refuted_current : exists segs ch0 ch st bs x g i,
  run_node dl_current ch0 empty_store segs = (ch, Some st, bs) /\ one_per_block ch /\
  benign dl_current ch0 empty_store segs /\
  live ch (last_processed st) g i /\ x <= i /\ first_ger_after st x = None.
Proof. exact ger_index_complete_refuted_current. Qed.

(* ... and returns a root whose removal was skipped. *)
Theorem C16_ger_index_sound_refuted_current : exists segs ch0 ch st bs x g i,
  run_node dl_current ch0 empty_store segs = (ch, Some st, bs) /\ one_per_block ch /\
  first_ger_after st x = Some (i, g) /\ ~ live ch (last_processed st) g i.
Proof. exact ger_index_sound_refuted_current. Qed.

(* Outside the property's quantifier, recorded only: both appender callbacks REPLACE b.Events, so when a block
   carries several GER-manager logs only the last one reaches the processor (the e2e test removes several roots in
   one transaction). The correspondence harness confirms this behaviour on its "multi" cases. *)
Example C16_appender_keeps_last_only :
  appender [ins 1 1; rmv 2; ins 3 3] = [ins 3 3] /\ appender [ins 1 1; rmv 2] = [rmv 2].
Proof. split; reflexivity. Qed.

(* ---- non-vacuity ---- *)

Definition ex_chain : chain :=
  chain_of [(2, ins 10 5); (3, ins 11 3); (6, rmv 11); (7, ins 12 9); (9, ins 11 3)].
(* polls jump over event blocks, a restart in the middle, then a benign reorg from block 8 *)
Definition ex_fork : chain := chain_of [(8, ins 13 1)].
Definition ex_segs : list segment :=
  [(None, [1; 4]); (None, [4; 9]); (Some (8, ex_fork), [7; 12])].

(* the hypotheses of the theorems are met by a run that delivers, restarts, reorgs (undoing the processed
   insertion of block 9, which is benign), and answers *)
Example C16_nonvacuous :
  one_per_block ex_chain /\
  benign dl_fixed ex_chain empty_store ex_segs /\
  (exists st, run_node dl_fixed ex_chain empty_store ex_segs =
                (splice ex_chain 8 ex_fork, Some st,
                 [(2, [ins 10 5]); (3, [ins 11 3]); (6, [rmv 11]); (7, [ins 12 9]); (9, [ins 11 3]); (8, [ins 13 1])]) /\
              last_processed st = 8 /\
              first_ger_after st 0 = Some (1, 13) /\ first_ger_after st 2 = Some (5, 10) /\
              first_ger_after st 6 = Some (9, 12) /\ first_ger_after st 10 = None) /\
  live (splice ex_chain 8 ex_fork) 8 10 5.
Proof.
  split; [apply one_per_block_chain_of; nodup_tac|]. split; [|split].
  - unfold ex_segs.
    apply benign_cons; [exact I|]. intros ch1 st1 bs1 E. unfold run_seg in E. cbn [seg_begin fst snd] in E.
    injection E as <- E _. subst st1. clear bs1.
    apply benign_cons; [exact I|]. intros ch1 st1 bs1 E. unfold run_seg in E. cbn [seg_begin fst snd] in E.
    injection E as <- E _. subst st1. clear bs1.
    apply benign_cons; [|intros; exact I].
    cbn [seg_ok fst]. intros m l H1 H2 Hl. unfold last_processed in H2. cbn [s_blocks fold_left] in H2.
    assert (Hm : m = 8 \/ m = 9) by lia. destruct Hm as [-> | ->]; vm_compute in Hl.
    + destruct Hl.
    + destruct Hl as [<-|[]]. reflexivity.
  - eexists. split; [reflexivity|]. repeat split.
  - exists 2. repeat split; try (vm_compute; discriminate).
    intros m H1 H2 (l & Hl & Hrm & Hg). unfold splice, ex_chain, ex_fork, chain_of in Hl. cbn [map filter fst snd] in Hl.
    destruct (m <? 8); cbn [map filter fst snd] in Hl.
    + destruct (2 =? m), (3 =? m), (6 =? m), (7 =? m), (9 =? m); cbn [map filter fst snd app] in Hl;
        repeat (destruct Hl as [<-|Hl]; try discriminate); contradiction.
    + destruct (8 =? m); cbn [map filter fst snd] in Hl; repeat (destruct Hl as [<-|Hl]; try discriminate); contradiction.
Qed.

(* the same chain under the loop as written today: blocks 2, 3, 6, 7 are never delivered *)
Example C16_current_loses_blocks :
  snd (run_node dl_current ex_chain empty_store [(None, [1; 4]); (None, [4; 8])]) = [] /\
  snd (run_node dl_fixed ex_chain empty_store [(None, [1; 4]); (None, [4; 8])]) =
    [(2, [ins 10 5]); (3, [ins 11 3]); (6, [rmv 11]); (7, [ins 12 9])].
Proof. split; reflexivity. Qed.

Print Assumptions C16_ger_index_sound.
Print Assumptions C16_ger_index_complete.
Print Assumptions C16_ger_index_first.
Print Assumptions C16_ger_index_complete_refuted_destructive.
Print Assumptions C16_node_as_if.
Print Assumptions C16_node_progress.
Print Assumptions C16_node_never_stuck.
Print Assumptions C16_pp_download_complete.
Print Assumptions C16_range_blocks.
Print Assumptions C16_range_once_in_order.
Print Assumptions C16_pp_download_complete_restarts.
Print Assumptions C16_pp_download_refuted_current.
Print Assumptions C16_ger_index_complete_refuted_current.
Print Assumptions C16_ger_index_sound_refuted_current.
