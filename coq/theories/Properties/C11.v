(* C11 — the L1 info tree and the rollup exit tree mirror the L1 contracts.
   Property theorems only (closed by `exact`), source-fact obligations, non-vacuity Examples, Print Assumptions.
   The theorems speak about the executable model Model/L1InfoStore.v (compared with the real l1infotreesync processor on every
   run) for ALL histories of blocks (with any storage fault), reorgs and restarts that satisfy the driver's ordering guarantee
   `hist_ordered` (increasing block numbers, increasing log positions inside a block, uint32 rollup ids, < 2^32 leaves).
   Keccak enters only as `nodeN` (node hash) and `leaf_hash`; the theorems that read stored tree nodes take its injectivity
   (and "a leaf hash is not the zero hash") as explicit Section hypotheses, exactly like the generic tree-store theorems. *)
From Coq Require Import Arith NArith ZArith List Bool Sorted.
From Coq Require Import String.
From Verif Require Import Base.Bytes Base.Hash Model.Merkle Model.MerkleSpec Model.Contracts Model.TreeStore Model.L1InfoStore
  Model.L1InfoCases Proofs.Frontier Proofs.Rht Proofs.ContractProofs Proofs.SparseUpsert Proofs.TreeStoreProofs
  Proofs.L1InfoProofs Gen.SourceFacts.
From Verif Require Gen.GenUpdatableTree Proofs.GenAgreeUpdatable.
Import ListNotations.
Open Scope N_scope.

(* ---------- the model transcribes what the source says (regenerated from /repo on every run) ---------- *)
Example src_ger_unique : src_c11_leaf_ger_unique = true. Proof. reflexivity. Qed.
Example src_leaf_pk : src_c11_leaf_pk_block_pos = true. Proof. reflexivity. Qed.
Example src_vb_pk : src_c11_vb_pk_block_pos = true. Proof. reflexivity. Qed.
Example src_cascade : src_c11_cascade_leaf_vb_init = true. Proof. reflexivity. Qed.
Example src_init_single_row : src_c11_init_single_row = true. Proof. reflexivity. Qed.
Example src_root_pk_is_hash : src_c11_tree_root_pk_hash = true. Proof. reflexivity. Qed.
Example src_upsert_index : src_c11_upsert_index = ["event.RollupID - 1"%string]. Proof. reflexivity. Qed.
Example src_leaf_index : src_c11_leaf_index = ["initialL1InfoIndex + l1InfoLeavesAdded"%string]. Proof. reflexivity. Qed.
Example src_parent_hash : src_c11_parent_hash_rhs = ["b.ParentHash"%string]. Proof. reflexivity. Qed.
Example src_timestamp : src_c11_timestamp_rhs = ["b.Timestamp"%string]. Proof. reflexivity. Qed.
Example src_leaf_hash_preimage :
  src_c11_leaf_hash_call = ["keccak256.Hash(l.GetGlobalExitRoot().Bytes(), l.PreviousBlockHash.Bytes(), t)"%string].
Proof. reflexivity. Qed.
Example src_v2_check_both_fields : src_c11_v2_check =
  ["root.Hash != event.UpdateL1InfoTreeV2.CurrentL1InfoRoot || root.Index+1 != event.UpdateL1InfoTreeV2.LeafCount"%string].
Proof. reflexivity. Qed.
Example src_zero_exit_root_skipped : src_c11_zero_exit_root_skipped = ["event.ExitRoot == (common.Hash{})"%string]. Proof. reflexivity. Qed.
Example src_height_is_model : src_default_height = Some 32. Proof. reflexivity. Qed.

(* ---------- L1 info tree ---------- *)
(* one leaf per info update, in chain order, consecutive indices: for ALL histories *)
Theorem C11_l1info_indices_consecutive : forall ops, hist_ordered ops lstate_new ->
  let leaves := d_leaves (st_db (run_hist ops lstate_new)) in
  StronglySorted (fun a b => klt (leaf_key a) (leaf_key b)) leaves /\
  forall k l, nth_error leaves k = Some l -> l_idx l = N.of_nat k.
Proof. exact l1info_indices_consecutive. Qed.

(* each leaf = what the GlobalExitRoot contract computes: ger = keccak(mainnet, rollup), leaf = getLeafValue(ger, blockhash(n-1), timestamp);
   parent hash and timestamp are those of the block header the log came in *)
Theorem C11_l1info_leaf_matches_contract : forall ops, hist_ordered ops lstate_new ->
  forall l, In l (d_leaves (st_db (run_hist ops lstate_new))) ->
  l_ger l = ger_of (l_mer l) (l_rer l) /\ l_hash l = l1info_leaf_value (ger_of (l_mer l) (l_rer l)) (l_parent l) (l_ts l).
Proof. exact l1info_leaf_matches_contract. Qed.
Theorem C11_downloader_conversion : forall h idx mer rer,
  convert h (LUpdate idx mer rer) = EUpdate (mkU idx mer rer (h_parent h) (h_ts h)).
Proof. exact downloader_conversion_update. Qed.

(* every leaf can be looked up by index and by global exit root (the UNIQUE constraint keeps GERs distinct) *)
Theorem C11_l1info_lookup_total : forall ops, hist_ordered ops lstate_new ->
  let d := st_db (run_hist ops lstate_new) in
  forall k l, nth_error (d_leaves d) k = Some l ->
    info_by_index d (N.of_nat k) = Some l /\ info_by_ger d (l_ger l) = Some l.
Proof. exact l1info_lookup_total. Qed.

Section Keccak.
Hypothesis nodeN_inj : forall a b c d, nodeN a b = nodeN c d -> a = c /\ b = d.
Hypothesis leaf_nonzero : forall ger parent ts, leaf_hash ger parent ts <> 0.

(* each recorded root i = Merkle root of the first i+1 leaf hashes = DepositContract.getRoot() after the (i+1)-th leaf *)
Theorem C11_l1info_root_matches_contract : forall ops, hist_ordered ops lstate_new ->
  let d := st_db (run_hist ops lstate_new) in
  forall i, (i < List.length (d_leaves d))%nat ->
  exists r, l1_root_by_index d (N.of_nat i) = Some r /\
            r_hash r = mroot nodeN 0 (leaf_fun d) HEIGHT (S i) /\
            ((S i < 2 ^ HEIGHT)%nat -> forall b0,
               r_hash r = dc_root nodeN 0 HEIGHT (Nat.testbit (S i)) (dc_after nodeN (leaf_fun d) HEIGHT (S i) b0)) /\
            r_pos r = N.of_nat i /\
            (r_block r, r_bpos r) = leaf_key (nth i (d_leaves d) leaf0).
Proof. exact (l1info_root_matches_contract nodeN_inj leaf_nonzero). Qed.

(* every proof served for a recorded version and a covered index verifies with that leaf (GetL1InfoTreeMerkleProof and ...FromIndexToRoot) *)
Theorem C11_l1info_proof_verifies : forall ops, hist_ordered ops lstate_new ->
  let d := st_db (run_hist ops lstate_new) in
  forall j k, (j < k)%nat -> (k <= List.length (d_leaves d))%nat ->
  let root := mroot nodeN 0 (leaf_fun d) HEIGHT k in
  let s := l1_merkle_proof_to_root d (N.of_nat j) root in
  List.length s = HEIGHT /\ calculate_root (leaf_fun d j) s (N.of_nat j) = root.
Proof. exact (l1info_proof_verifies nodeN_inj leaf_nonzero). Qed.

(* the in-memory frontier and the stored tree stay a reachable state of the generic tree store through faults, rollbacks,
   reorgs and restarts (so everything Proofs/TreeStoreCorollaries.v proves holds: as-if after reorg, clean retry, restart) *)
Theorem C11_l1info_tree_reachable : forall ops, hist_ordered ops lstate_new ->
  TreeReach (st_db (run_hist ops lstate_new)) (st_mem (run_hist ops lstate_new)).
Proof. exact (fun ops H => Reach_run nodeN_inj leaf_nonzero ops lstate_new LInv_empty TreeReach_new H). Qed.

(* the announcement check: a consistent L1 (root and count of the contract) never halts the node ... *)
Theorem C11_v2_consistent_never_halts : forall f blk init x v, TreeReach (x_db x) (x_mem x) ->
  let n := List.length (d_leaves (x_db x)) in
  (0 < n)%nat -> (n < 2 ^ HEIGHT)%nat ->
  (forall b0, v_root v = dc_root nodeN 0 HEIGHT (Nat.testbit n) (dc_after nodeN (leaf_fun (x_db x)) HEIGHT n b0)) ->
  v_count v = N.of_nat n ->
  process_event f blk init x (EV2 v) = EvOk x.
Proof. exact (v2_consistent_never_halts nodeN_inj leaf_nonzero). Qed.
(* ... any other announcement (root OR count differing) halts it, the transaction is rolled back and every later block refused *)
Theorem C11_v2_mismatch_halts : forall f blk init x v, TreeReach (x_db x) (x_mem x) -> d_leaves (x_db x) <> [] ->
  (v_root v <> mroot nodeN 0 (leaf_fun (x_db x)) HEIGHT (List.length (d_leaves (x_db x))) \/
   v_count v <> u32 (N.of_nat (List.length (d_leaves (x_db x))))) ->
  process_event f blk init x (EV2 v) = EvFail PInconsistent (x_mem x) (x_added x) true.
Proof. exact (v2_mismatch_halts nodeN_inj leaf_nonzero). Qed.

(* ---------- rollup exit tree ---------- *)
(* for ALL histories: the node store is closed for every recorded version, the root rows are the recorded roots ... *)
Theorem C11_rollup_tree_invariant : forall ops, hist_ordered ops lstate_new -> RInv (st_db (run_hist ops lstate_new)).
Proof. exact (rollup_tree_invariant nodeN_inj). Qed.
(* ... the root recorded with each accepted update is the reference sparse Merkle root of the leaf map after it ... *)
Theorem C11_rollup_root_is_sparse_root : forall ops, hist_ordered ops lstate_new ->
  let d := st_db (run_hist ops lstate_new) in
  forall n r, nth_error (d_vb d) n = Some r ->
    vr_rer r = sroot nodeN (gmap (firstn (S n) (d_vb d))) HEIGHT /\
    nth_error (t_roots (d_rollup d)) n = Some (mkRoot (vr_rer r) (u32_pred (vr_rid r)) (vr_block r) (vr_pos r)).
Proof. exact (rollup_root_is_sparse_root nodeN_inj). Qed.
(* ... and a processed block moves the leaf map by "last NON-ZERO exit root verified per rollup" (zero ignored, unchanged = no-op,
   rollup id 0 -> position 2^32-1): this is what the tree HOLDS. *)
Theorem C11_rollup_tree_is_last_nonzero : forall f st k st', RInv (st_db st) -> block_ordered st k ->
  process_block f st k = (None, st') ->
  forall i, gmap (d_vb (st_db st')) i = fold_left apply_verify (k_events k) (gmap (d_vb (st_db st))) i.
Proof. exact (rollup_tree_is_last_nonzero nodeN_inj). Qed.
Theorem C11_rollup_leaf_lookup : forall d id, RInv d -> 1 <= id -> id - 1 <= mask32 -> d_vb d <> [] ->
  match local_exit_root d id (ssub nodeN (gmap (d_vb d)) HEIGHT 0) with
  | inr v => v = gmap (d_vb d) (N.to_nat (id - 1))
  | inl QNotFound => gmap (d_vb d) (N.to_nat (id - 1)) = 0
  | inl _ => False
  end.
Proof. exact (rollup_leaf_lookup nodeN_inj). Qed.
Theorem C11_rollup_proof_verifies : forall d id n, RInv d -> 1 <= id -> id - 1 <= mask32 -> (n <= List.length (d_vb d))%nat ->
  let g := gmap (firstn n (d_vb d)) in
  calculate_root (g (N.to_nat (id - 1))) (rollup_merkle_proof d id (ssub nodeN g HEIGHT 0)) (id - 1) = ssub nodeN g HEIGHT 0.
Proof. exact (rollup_proof_verifies nodeN_inj). Qed.
End Keccak.

(* the generic statement behind the rollup tree (abstract hash; also used by C08 / C12): UpsertLeaf = getSiblings + climb computes the
   root of the updated leaf function and keeps the node store closed for the new and all older versions *)
Theorem C11_upsert_correct : forall (hash : Type) (node : hash -> hash -> hash) (z0 : hash),
  (forall a b c d, node a b = node c d -> a = c /\ b = d) ->
  forall (heq_dec : forall a b : hash, {a = b} + {a <> b}) (m : @rht hash) g h k bit v,
  WF node m -> CL node z0 m g h k ->
  let g' := supd g (path_index h k bit) v in
  let res := upsert_climb node 0 (swalk (zero node z0) m h (ssub node g h k) bit) v bit in
  fst res = ssub node g' h k /\ WF node (ins_all heq_dec m (snd res)) /\ CL node z0 (ins_all heq_dec m (snd res)) g' h k /\
  (forall g0 h0 k0, CL node z0 m g0 h0 k0 -> CL node z0 (ins_all heq_dec m (snd res)) g0 h0 k0).
Proof. intros hash node z0 inj heq_dec. exact (upsert_correct node z0 inj heq_dec). Qed.

(* the translated Go code: Gen/GenUpdatableTree.v is GENERATED from tree/updatabletree.go by tools/go2coq on every run; the hashing
   loop of UpsertLeaf (bit test, sibling on the left / right, node list) computes exactly `upsert_climb`, the function the theorem
   above is about, for every hash function, index, leaf and 32 siblings *)
Theorem C11_generated_UpsertLeaf_loop_is_model : forall (hash : Type) (hash2 : hash -> hash -> hash) (hash0 : hash) idx leaf sibs,
  List.length sibs = 32%nat ->
  let '(r, ns) := upsert_climb hash2 0 sibs leaf (fun j => N.testbit idx (N.of_nat j)) in
  GenUpdatableTree.UpsertLeaf_loop hash hash2 hash0 idx leaf sibs [] = (r, map (GenAgreeUpdatable.to_unode hash) ns).
Proof. exact GenAgreeUpdatable.UpsertLeaf_loop_agree. Qed.

(* the executable sparse evaluator used by the run-time predicate spec_c11 (short-circuiting all-zero subtrees) IS the reference
   sparse root MerkleSpec.sroot of the same map: the roots the predicate compares with are the roots these theorems speak about *)
Theorem C11_sroot_ref_is_sroot : forall m, (forall e, In e m -> fst e <= mask32) ->
  sroot_ref HEIGHT m = sroot nodeN (lfm m) HEIGHT.
Proof. exact sroot_ref_is_sroot. Qed.

(* NOT PROVED (kept as a statement; checked on every run instead):
   rollup_root_matches_manager: no rollup returns to a zero exit root -> sroot nodeN m 32 = RollupManager.getRollupExitRoot().
   The manager's Solidity loop is not transcribed in Model/Contracts.v; the equality is checked per run against the bytecode of the
   repository's mock of that function in the simulated EVM (L1InfoCases.contract_ok). *)

(* ---------- transactions ---------- *)
Theorem C11_fault_atomic : forall f st k e st', process_block f st k = (Some e, st') -> st_db st' = st_db st.
Proof. exact process_block_error_keeps_db. Qed.
Theorem C11_halted_is_sticky : forall f st k, st_halted st = true -> process_block f st k = (Some PInconsistent, st).
Proof. exact halted_is_sticky. Qed.
Theorem C11_reorg_nested : forall st b b', db_eq (st_db (reorg (reorg st b') b)) (st_db (reorg st (N.min b b'))).
Proof. exact reorg_reorg_db. Qed.

(* ---------- REFUTED: "every block of a well-formed L1 history is accepted" (finding F4) ----------
   Full-strength statement that is FALSE of the faithful model:
     forall ops k, hist_ordered (ops ++ [HBlock k None]) lstate_new -> (no duplicate GER, consistent announcements) ->
       fst (process_block None (run_hist ops lstate_new) k) = None.
   Witness: one rollup, exit roots A, B, A: the third update brings the rollup exit tree back to its first root, whose hash is the
   PRIMARY KEY of the root table: UNIQUE violation, the block can never be processed. Replayed on the real processor on every run
   (corpus/C11/f4_rollup_root_recurrence.jsonl). *)
Definition f4_block (num exit : N) : block := mkBlock num (1000 + num) [EVerify (mkVB 0 1 num 17 exit 34)].
Definition f4_ops : list hop := [HBlock (f4_block 1 0xaa) None; HBlock (f4_block 2 0xbb) None].
Theorem C11_rollup_recurrence_refuted :
  hist_ordered (f4_ops ++ [HBlock (f4_block 3 0xaa) None]) lstate_new /\
  fst (process_block None (run_hist f4_ops lstate_new) (f4_block 3 0xaa)) = Some PConstraint /\
  (* the very same block is accepted when the exit root does not recur *)
  fst (process_block None (run_hist f4_ops lstate_new) (f4_block 3 0xcc)) = None.
Proof.
  split; [apply hist_ordered_b_sound; vm_compute; reflexivity|split; vm_compute; reflexivity].
Qed.

(* ---------- non-vacuity ---------- *)
(* a concrete ordered history over real Keccak: two blocks with three info updates, an announcement that matches, batch
   verifications for rollup ids 1, 0 (-> position 2^32-1) and 2^32-1 with a zero and an unchanged exit root, a faulted attempt,
   a restart and a reorg of the second block: the hypotheses of the theorems above are met and the conclusions are not trivial *)
Definition nv_block1 : block := mkBlock 5 55 [EUpdate (mkU 0 11 12 13 14); EVerify (mkVB 1 1 1 9 0xa1 7); EUpdate (mkU 3 21 22 13 14);
                                           EVerify (mkVB 4 0 1 9 0xa2 7); EVerify (mkVB 5 1 2 9 0xa1 7); EVerify (mkVB 6 2 2 9 0 7)].
Definition nv_block2 : block := mkBlock 8 88 [EVerify (mkVB 0 4294967295 3 9 0xa3 7); EUpdate (mkU 2 31 32 33 34)].
Definition nv_ops : list hop := [HBlock nv_block1 (Some (TL1Rht, 40%nat)); HBlock nv_block1 None; HRestart; HBlock nv_block2 None; HReorg 8; HBlock nv_block2 None].
Example C11_nonvacuous_history : hist_ordered nv_ops lstate_new.
Proof. apply hist_ordered_b_sound. vm_compute. reflexivity. Qed.
(* the sparse reference evaluator used by the run-time property predicate agrees with the stored root on this history *)
Example C11_nonvacuous_state :
  let d := st_db (run_hist nv_ops lstate_new) in
  map l_idx (d_leaves d) = [0; 1; 2] /\ map vr_rid (d_vb d) = [1; 0; 4294967295] /\ last_processed d = 8 /\
  option_map vr_rer (nth_error (d_vb d) 2) = Some (sroot_ref 32 [(0, 0xa1); (4294967295, 0xa2); (4294967294, 0xa3)]) /\
  map (fun l => N.eqb (l_hash l) (l1info_leaf_value (ger_of (l_mer l) (l_rer l)) (l_parent l) (l_ts l))) (d_leaves d) = [true; true; true].
Proof. vm_compute. repeat split; reflexivity. Qed.

Print Assumptions C11_l1info_indices_consecutive.
Print Assumptions C11_l1info_leaf_matches_contract.
Print Assumptions C11_downloader_conversion.
Print Assumptions C11_l1info_lookup_total.
Print Assumptions C11_l1info_root_matches_contract.
Print Assumptions C11_l1info_proof_verifies.
Print Assumptions C11_l1info_tree_reachable.
Print Assumptions C11_v2_consistent_never_halts.
Print Assumptions C11_v2_mismatch_halts.
Print Assumptions C11_rollup_tree_invariant.
Print Assumptions C11_rollup_root_is_sparse_root.
Print Assumptions C11_rollup_tree_is_last_nonzero.
Print Assumptions C11_rollup_leaf_lookup.
Print Assumptions C11_rollup_proof_verifies.
Print Assumptions C11_upsert_correct.
Print Assumptions C11_sroot_ref_is_sroot.
Print Assumptions C11_fault_atomic.
Print Assumptions C11_halted_is_sticky.
Print Assumptions C11_reorg_nested.
Print Assumptions C11_rollup_recurrence_refuted.
Print Assumptions C11_generated_UpsertLeaf_loop_is_model.
