(* C11 - placeholder while the proofs are being written *)
From Coq Require Import NArith List.
From Verif Require Import Model.L1InfoStore Model.L1InfoCases.
Example C11_placeholder : wf_hist [] = true.
Proof. reflexivity. Qed.
